//! Generator profiles: which operations, value regimes and special scenarios a run uses.
use crate::engine::*;
use crate::uset::*;

pub fn audit<S: USet>(e: &mut Eng<S>, i: usize, deep: bool) {
    if e.slots[i].is_none() {
        return;
    }
    e.op_obs(i);
    e.op_iter(i);
    let n = e.slots[i].as_ref().unwrap().len();
    let kinds = ["min", "max", "last", "count", "hint", "nth", "fold", "skip", "step", "find", "byref"];
    let positions: Vec<usize> = if n <= 12 && deep {
        (0..=n).collect()
    } else {
        let mut p = vec![0, n];
        for _ in 0..3 {
            p.push(e.rng.below(n as u64 + 1) as usize);
        }
        if n > 0 {
            p.push(1);
            p.push(n - 1);
        }
        p
    };
    for &pos in &positions {
        let which = [It::Iter, It::Into, It::IntoClone][e.rng.below(3) as usize];
        if deep || e.rng.chance(1, 2) {
            e.op_nexts(i, which, pos);
        }
        for k in kinds.iter() {
            if deep || e.rng.chance(1, 2) {
                let which = [It::Iter, It::Into, It::IntoClone][e.rng.below(3) as usize];
                e.op_shortcut(i, which, pos, k);
            }
        }
    }
    e.op_debug(i);
}

/// one random history on slot 0 (plus helpers in other slots)
pub fn history<S: USet>(e: &mut Eng<S>, name: &str, steps: usize, regime: u64, w: &Weights) {
    e.begin(name);
    start_set(e, 0, regime, w);
    for _ in 0..steps {
        e.step += 1;
        let i = if w.multi > 0 && e.rng.chance(w.multi, 100) { e.rng.below(4) as usize } else { 0 };
        if e.slots[i].is_none() {
            start_set(e, i, regime, w);
            continue;
        }
        let mut v = e.gen_value(i, regime);
        if profile_is_term(w) && e.rng.chance(1, 3) {
            v = e.gen_placeholder_value(i, regime);
        }
        let r = e.rng.below(w.total());
        let mut acc = 0;
        macro_rules! pick {
            ($wt:expr) => {{
                acc += $wt;
                r < acc
            }};
        }
        if pick!(w.ins) {
            e.op_ins(i, v);
        } else if pick!(w.rem) {
            e.op_rem(i, v);
        } else if pick!(w.con) {
            e.op_con(i, v);
        } else if pick!(w.obs) {
            e.op_obs(i);
        } else if pick!(w.audit) {
            audit(e, i, false);
        } else if pick!(w.clone) {
            let j = e.rng.below(4) as usize;
            e.op_clone(j, i);
        } else if pick!(w.drop) {
            if i != 0 {
                e.op_drop(i);
            }
        } else if pick!(w.drain) {
            let n = e.slots[i].as_ref().unwrap().len();
            let partial = if e.rng.chance(1, 2) { None } else { Some(e.rng.below(n as u64 + 1) as usize) };
            e.op_drain(i, partial);
        } else if pick!(w.collect) {
            let v = gen_seq(e, i, regime);
            let j = e.rng.below(4) as usize;
            e.op_collect(j, &v);
        } else if pick!(w.extend) {
            let v = gen_seq(e, i, regime);
            e.op_extend(i, &v);
        } else if pick!(w.eq) {
            let j = e.rng.below(4) as usize;
            if e.slots[j].is_some() {
                e.op_eq(i, j);
            }
        } else if pick!(w.binop) {
            let j = e.rng.below(4) as usize;
            let k = 4 + e.rng.below(3) as usize;
            let (u, o) = (e.rng.chance(1, 2), e.rng.chance(1, 2));
            e.op_binop(k, i, j, u, o);
            if e.slots[k].is_some() && e.rng.chance(1, 2) {
                // keep working with the result
                let t = e.rng.below(4) as usize;
                if t != 0 {
                    e.op_clone(t, k);
                }
            }
        } else if pick!(w.readers) {
            crate::scenarios::readers(e, i);
        } else if pick!(w.serde) {
            #[cfg(any(feature = "serde", feature = "compactserde"))]
            {
                let k = 4 + e.rng.below(3) as usize;
                crate::scenarios::serde_roundtrip(e, i, k);
                #[cfg(all(feature = "serde", not(feature = "compactserde")))]
                if e.rng.chance(1, 2) {
                    let mut v = gen_seq(e, i, regime);
                    // also sequences a deserialiser might special-case: already sorted (duplicates kept), and
                    // dense non-decreasing runs with repeats (several lengths around the inline / dense limits)
                    match e.rng.below(4) {
                        0 => v.sort(),
                        1 => {
                            let n = [3u64, 7, 8, 9, 20, 70, 300][e.rng.below(7) as usize];
                            let base = S::norm([0u64, 0, 5, 1000][e.rng.below(4) as usize]);
                            v = (0..n).flat_map(|k| std::iter::repeat(S::norm(base + k)).take(1 + (k % 3 == 2) as usize)).collect();
                        }
                        _ => {}
                    }
                    let k2 = 4 + e.rng.below(3) as usize;
                    crate::scenarios::serde_sequence(e, k2, &v);
                }
            }
        } else if pick!(w.wco) {
            let j = 1 + e.rng.below(3) as usize;
            e.op_wco(j, i);
        } else {
            e.op_con(i, v);
        }
        if let Some(s) = &e.slots[i] {
            if s.capacity() > w.maxcap {
                break;
            }
        }
    }
    for i in 0..NSLOTS {
        if e.slots[i].is_some() {
            if i == 0 || e.rng.chance(1, 2) {
                audit(e, i, w.deep_audit);
            }
        }
    }
    // drop in random order
    for _ in 0..NSLOTS {
        let i = e.rng.below(NSLOTS as u64) as usize;
        e.op_drop(i);
    }
}

fn gen_seq<S: USet>(e: &mut Eng<S>, i: usize, regime: u64) -> Vec<u64> {
    let n = match e.rng.below(6) {
        0 => e.rng.below(3),
        1 | 2 => 1 + e.rng.below(9),
        3 => e.rng.below(40),
        _ => e.rng.below(300),
    } as usize;
    let mut v: Vec<u64> = (0..n).map(|_| e.gen_value(i, regime)).collect();
    match e.rng.below(5) {
        0 => v.sort(),
        1 => {
            v.sort();
            v.reverse()
        }
        2 => {
            // duplicates: adjacent and far
            let m = v.len();
            if m > 0 {
                for k in 0..m {
                    if e.rng.chance(1, 3) {
                        let x = v[e.rng.below(m as u64) as usize];
                        v[k] = x;
                    }
                }
            }
        }
        3 => {
            if let Some(&x) = v.first() {
                for y in v.iter_mut() {
                    if e.rng.chance(1, 2) {
                        *y = x;
                    }
                }
            }
        }
        _ => {}
    }
    v
}

fn start_set<S: USet>(e: &mut Eng<S>, i: usize, regime: u64, w: &Weights) {
    let r = e.rng.below(100);
    if r < w.start_hint {
        let cap = match e.rng.below(4) {
            0 => e.rng.below(4),
            1 => e.rng.below(40),
            _ => e.rng.below(w.maxcap.min(4096) as u64),
        } as usize;
        if e.rng.chance(1, 2) {
            let bits = match e.rng.below(5) {
                0 => 0,
                1 => e.rng.below(71),
                2 => S::W as u64 - e.rng.below(3),
                3 => e.rng.next() & S::max_elem(),
                _ => e.gen_value(i, regime),
            };
            e.op_wcb(i, cap, bits);
        } else {
            let k = e.rng.below(S::W as u64 + 1);
            let mx = if k == 0 { 0 } else { ((1u128 << k) - 1) as u64 - e.rng.below(2) };
            e.op_wcm(i, cap, mx & S::max_elem());
        }
        if e.slots[i].is_none() {
            e.op_new(i);
        }
    } else if r < w.start_hint + w.start_collect {
        let v = gen_seq(e, i, regime);
        e.op_collect(i, &v);
        if e.slots[i].is_none() {
            e.op_new(i);
        }
    } else {
        e.op_new(i);
    }
}

fn profile_is_term(w: &Weights) -> bool {
    w.ins == 700 && w.rem == 150
}

#[derive(Clone)]
pub struct Weights {
    pub ins: u64,
    pub rem: u64,
    pub con: u64,
    pub obs: u64,
    pub audit: u64,
    pub clone: u64,
    pub drop: u64,
    pub drain: u64,
    pub collect: u64,
    pub extend: u64,
    pub eq: u64,
    pub binop: u64,
    pub wco: u64,
    pub readers: u64,
    pub serde: u64,
    pub multi: u64,
    pub start_hint: u64,
    pub start_collect: u64,
    pub maxcap: usize,
    pub deep_audit: bool,
}
impl Weights {
    pub fn total(&self) -> u64 {
        self.ins + self.rem + self.con + self.obs + self.audit + self.clone + self.drop + self.drain + self.collect + self.extend + self.eq + self.binop + self.wco + self.readers + self.serde
    }
    pub fn core() -> Self {
        Weights { ins: 560, rem: 250, con: 150, obs: 20, audit: 5, clone: 0, drop: 0, drain: 3, collect: 0, extend: 5, eq: 0, binop: 0, wco: 0, readers: 0, serde: 0, multi: 0, start_hint: 0, start_collect: 10, maxcap: 600, deep_audit: false }
    }
}

pub fn weights_for(profile: &str) -> Weights {
    let mut w = Weights::core();
    match profile {
        "core" => {}
        "iter" => {
            w.audit = 60;
            w.drain = 20;
            w.deep_audit = true;
            w.start_collect = 30;
            w.start_hint = 20;
            w.maxcap = 200;
        }
        "collect" => {
            w.collect = 150;
            w.extend = 100;
            w.ins = 300;
            w.rem = 150;
            w.multi = 30;
            w.eq = 40;
            w.start_collect = 60;
        }
        "alloc" => {
            w.clone = 80;
            w.drop = 60;
            w.drain = 30;
            w.collect = 30;
            w.binop = 40;
            w.wco = 30;
            w.audit = 20;
            w.multi = 60;
            w.start_collect = 20;
            w.start_hint = 15;
        }
        "eqops" => {
            w.eq = 120;
            w.binop = 120;
            w.clone = 40;
            w.collect = 60;
            w.wco = 20;
            w.multi = 60;
            w.start_collect = 40;
            w.start_hint = 10;
            w.maxcap = 300;
        }
        "hints" => {
            w.start_hint = 100;
            w.start_collect = 0;
            w.multi = 20;
            w.wco = 20;
            w.audit = 15;
            w.maxcap = 5000;
        }
        "readers" => {
            w.readers = 40;
            w.clone = 30;
            w.eq = 30;
            w.binop = 30;
            w.wco = 20;
            w.audit = 30;
            w.multi = 30;
            w.start_collect = 30;
            w.start_hint = 10;
            w.maxcap = 300;
        }
        "serde" | "compact" => {
            w.serde = 120;
            w.multi = 40;
            w.start_collect = 40;
            w.start_hint = 15;
            w.clone = 20;
            w.maxcap = 300;
        }
        "det" => {
            w.collect = 20;
            w.extend = 20;
            w.clone = 20;
            w.multi = 30;
            w.audit = 20;
            w.start_collect = 20;
            w.start_hint = 10;
        }
        "term" => {
            w.ins = 700;
            w.rem = 150;
            w.con = 50;
            w.start_hint = 25;
        }
        "mem" => {
            w.ins = 700;
            w.rem = 120;
            w.extend = 20;
            w.clone = 10;
            w.binop = 10;
            w.multi = 10;
            w.maxcap = 4000;
        }
        _ => {}
    }
    w
}

pub fn run_profile<S: USet>(e: &mut Eng<S>, profile: &str, hists: usize, steps: usize) {
    let w = weights_for(profile);
    match profile {
        "inline" | "typedinline" => {
            crate::scenarios::inline_lattice(e);
            return;
        }
        "dense" | "typeddense" => {
            crate::scenarios::dense_footprints(e, hists);
            return;
        }
        "fail" => {
            crate::scenarios::fail_injection(e, hists, steps);
            return;
        }
        "prims" => {
            crate::scenarios::prims(e, hists > 1);
            return;
        }
        _ => {}
    }
    crate::scenarios::fixed(e, profile);
    for h in 0..hists {
        let regime = match profile {
            "mem" => [1, 2, 3, 5, 6, 6, 9, 10][h % 8],
            "term" => [4, 3, 4, 6, 12, 4, 5, 11][h % 8],
            // small-value regimes (which reach the dense layout and the table -> dense conversion) get
            // more weight than the huge-value ones (which all end in the plain table)
            _ => [0u64, 1, 13, 2, 14, 3, 13, 5, 7, 14, 8, 9, 10, 13, 4, 6, 11, 12, 1, 14][h % 20],
        };
        let name = format!("{}-{}-r{}", profile, h, regime);
        let st = if h % 7 == 6 { steps * 4 } else if h % 3 == 2 { steps * 2 } else { steps };
        history(e, &name, st, regime, &w);
    }
}
