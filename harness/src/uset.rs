//! One interface over `SetU64` and `SetU32` (elements widened to u64).
use tinyset::{SetU32, SetU64};

pub type Heap = Option<(usize, usize, u64, Vec<u64>)>;

#[derive(Clone, Copy, PartialEq, Eq, Debug)]
pub enum It {
    Iter,
    Into,
    IntoClone,
}

pub trait USet: Sized + Clone + PartialEq + std::fmt::Debug + Send + Sync + 'static {
    const W: u32;
    const NAME: &'static str;
    const HEADER: usize;
    const ELEM: usize;
    const ALIGN: usize;
    /// typed wrapper (`Set64<T>`, `SetUsize`): values are raw bit patterns of `T`, `enc` is `to_u64`
    const TYPED: bool = false;
    const HAS_OWN_OPS: bool = true;
    fn enc(v: u64) -> u64 {
        v
    }
    fn norm(v: u64) -> u64 {
        v & Self::max_elem()
    }
    /// minimum / maximum in the element type's own order
    fn pick(v: &[u64], max: bool) -> Option<u64> {
        if max {
            v.iter().cloned().max()
        } else {
            v.iter().cloned().min()
        }
    }
    fn hash_words(&self) -> Option<Vec<u64>> {
        None
    }
    // the private primitives, through the verification hooks (untyped sets only)
    fn prim_lookfor(_k: u64, _a: &[u64], _off: u64) -> (u8, usize) {
        unimplemented!()
    }
    fn prim_insert(_k: u64, _a: &mut Vec<u64>, _off: u64) -> usize {
        unimplemented!()
    }
    fn prim_remove(_k: u64, _a: &mut Vec<u64>, _off: u64) -> bool {
        unimplemented!()
    }
    fn prim_cab(_mx: u64) -> u64 {
        unimplemented!()
    }
    fn prim_tiny_new(_v: &[u64]) -> Option<usize> {
        unimplemented!()
    }
    fn prim_tiny_insert(_w: usize, _e: u64) -> Option<usize> {
        unimplemented!()
    }
    fn prim_tiny_contains(_w: usize, _e: u64) -> bool {
        unimplemented!()
    }
    fn prim_tiny_items(_w: usize) -> Vec<u64> {
        unimplemented!()
    }
    fn max_elem() -> u64;
    fn new() -> Self;
    /// `Default::default()`
    fn dflt() -> Self;
    fn wcb(cap: usize, bits: u64) -> Self;
    fn wcm(cap: usize, mx: u64) -> Self;
    fn wco(o: &Self) -> Self;
    fn ins(&mut self, v: u64) -> bool;
    fn rem(&mut self, v: u64) -> bool;
    fn con(&self, v: u64) -> bool;
    fn len(&self) -> usize;
    fn is_empty(&self) -> bool;
    fn capacity(&self) -> usize;
    fn mem_used(&self) -> usize;
    fn collect(v: &[u64]) -> Self;
    fn extend(&mut self, v: &[u64]);
    fn items(&self) -> Vec<u64>;
    fn into_items(self) -> Vec<u64>;
    fn drain_items(&mut self) -> Vec<u64>;
    fn drain_drop(&mut self, take: usize) -> Vec<u64>;
    fn repr(&self) -> (usize, Heap);
    /// (word, Some((sz, cap, bits))) without copying the array
    fn header(&self) -> (usize, Option<(usize, usize, u64)>);
    /// after `pos` calls of next(): everything next() still yields, plus two extra calls that must be None
    /// (what next() yields after `pos` calls, exhausted-stays-exhausted and clone-agrees flag, what the first `pos` calls yielded)
    fn nexts(&self, which: It, pos: usize) -> (Vec<u64>, bool, Vec<u64>);
    /// after `pos` calls of next(): the shortcut `kind`
    /// the shortcut's answer, and (consuming iterators, which work on a clone whose order the properties do not fix)
    /// what a clone of the same positioned iterator yields by plain `next()`
    fn shortcut(&self, which: It, pos: usize, kind: &str) -> (Option<u64>, Option<Vec<u64>>);
    fn union_ref(a: &Self, b: &Self) -> Self;
    fn union_own(a: Self, b: &Self) -> Self;
    fn diff_ref(a: &Self, b: &Self) -> Self;
    fn diff_own(a: Self, b: &Self) -> Self;
    fn debug_string(&self) -> String;
    /// JSON of a member sequence in the element type's own notation (typed wrappers)
    #[cfg(any(feature = "serde", feature = "compactserde"))]
    fn json_of_items(_items: &[u64]) -> Option<String> {
        None
    }
    #[cfg(any(feature = "serde", feature = "compactserde"))]
    fn to_json(&self) -> String;
    #[cfg(any(feature = "serde", feature = "compactserde"))]
    fn from_json(s: &str) -> Result<Self, String>;
}

macro_rules! sc_body {
    ($it:expr, $pos:expr, $kind:expr, $ty:ty) => {{
        let mut it = $it;
        for _ in 0..$pos {
            it.next();
        }
        match $kind {
            "min" => it.min().map(|x| x as u64),
            "max" => it.max().map(|x| x as u64),
            "last" => it.last().map(|x| x as u64),
            "count" => Some(it.count() as u64),
            "hint" => {
                let (lo, hi) = it.size_hint();
                if hi == Some(lo) {
                    Some(lo as u64)
                } else {
                    Some(u64::MAX)
                }
            }
            // adaptors the crate does not override today: they must keep agreeing with plain iteration
            "nth" => it.nth(2).map(|x| x as u64),
            "fold" => Some(it.fold(0u64, |a, x| a.wrapping_mul(31).wrapping_add(x as u64))),
            "skip" => it.skip(1).last().map(|x| x as u64),
            "step" => Some(it.step_by(2).count() as u64),
            "find" => it.find(|x| (*x as u64) & 1 == 1).map(|x| x as u64),
            "byref" => {
                let a = it.by_ref().take(2).count() as u64;
                Some(a * 1_000_000 + it.count() as u64)
            }
            _ => panic!("kind"),
        }
    }};
}
macro_rules! nexts_body {
    ($it:expr, $pos:expr) => {{
        let mut it = $it;
        let mut p = vec![];
        for _ in 0..$pos {
            if let Some(x) = it.next() {
                p.push(x as u64);
            }
        }
        let mut v = vec![];
        while let Some(x) = it.next() {
            v.push(x as u64);
        }
        let fused = it.next().is_none() && it.next().is_none();
        (v, fused, p)
    }};
}

macro_rules! impl_uset {
    ($S:ty, $T:ty, $W:expr, $name:expr, $hdr:expr, $elem:expr, $align:expr, $m:ident) => {
        impl USet for $S {
            fn prim_lookfor(k: u64, a: &[u64], off: u64) -> (u8, usize) {
                let v: Vec<$T> = a.iter().map(|&x| x as $T).collect();
                tinyset::$m::verif::p_lookfor(k as $T, &v, off as $T)
            }
            fn prim_insert(k: u64, a: &mut Vec<u64>, off: u64) -> usize {
                let mut v: Vec<$T> = a.iter().map(|&x| x as $T).collect();
                let r = tinyset::$m::verif::p_insert(k as $T, &mut v, off as $T);
                *a = v.into_iter().map(|x| x as u64).collect();
                r
            }
            fn prim_remove(k: u64, a: &mut Vec<u64>, off: u64) -> bool {
                let mut v: Vec<$T> = a.iter().map(|&x| x as $T).collect();
                let r = tinyset::$m::verif::p_remove(k as $T, &mut v, off as $T);
                *a = v.into_iter().map(|x| x as u64).collect();
                r
            }
            fn prim_cab(mx: u64) -> u64 {
                tinyset::$m::verif::compute_array_bits(mx as $T) as u64
            }
            fn prim_tiny_new(v: &[u64]) -> Option<usize> {
                let w: Vec<$T> = v.iter().map(|&x| x as $T).collect();
                tinyset::$m::verif::tiny_new(&w)
            }
            fn prim_tiny_insert(w: usize, e: u64) -> Option<usize> {
                tinyset::$m::verif::tiny_insert(w, e as $T)
            }
            fn prim_tiny_contains(w: usize, e: u64) -> bool {
                tinyset::$m::verif::tiny_contains(w, e as $T)
            }
            fn prim_tiny_items(w: usize) -> Vec<u64> {
                tinyset::$m::verif::tiny_items(w).into_iter().map(|x| x as u64).collect()
            }
            const W: u32 = $W;
            const NAME: &'static str = $name;
            const HEADER: usize = $hdr;
            const ELEM: usize = $elem;
            const ALIGN: usize = $align;
            fn max_elem() -> u64 {
                <$T>::MAX as u64
            }
            fn new() -> Self {
                <$S>::new()
            }
            fn dflt() -> Self {
                <$S as Default>::default()
            }
            fn wcb(cap: usize, bits: u64) -> Self {
                <$S>::with_capacity_and_bits(cap, bits as $T)
            }
            fn wcm(cap: usize, mx: u64) -> Self {
                <$S>::with_capacity_and_max(cap, mx as $T)
            }
            fn wco(o: &Self) -> Self {
                <$S>::with_capacity_of(o)
            }
            fn ins(&mut self, v: u64) -> bool {
                self.insert(v as $T)
            }
            fn rem(&mut self, v: u64) -> bool {
                self.remove(v as $T)
            }
            fn con(&self, v: u64) -> bool {
                self.contains(v as $T)
            }
            fn len(&self) -> usize {
                <$S>::len(self)
            }
            fn is_empty(&self) -> bool {
                <$S>::is_empty(self)
            }
            fn capacity(&self) -> usize {
                <$S>::capacity(self)
            }
            fn mem_used(&self) -> usize {
                <$S>::mem_used(self)
            }
            fn collect(v: &[u64]) -> Self {
                v.iter().map(|&x| x as $T).collect()
            }
            fn extend(&mut self, v: &[u64]) {
                std::iter::Extend::extend(self, v.iter().map(|&x| x as $T))
            }
            fn items(&self) -> Vec<u64> {
                self.iter().map(|x| x as u64).collect()
            }
            fn into_items(self) -> Vec<u64> {
                self.into_iter().map(|x| x as u64).collect()
            }
            fn drain_items(&mut self) -> Vec<u64> {
                self.drain().map(|x| x as u64).collect()
            }
            fn drain_drop(&mut self, take: usize) -> Vec<u64> {
                let mut d = self.drain();
                let mut v = vec![];
                for _ in 0..take {
                    if let Some(x) = d.next() {
                        v.push(x as u64);
                    }
                }
                v
            }
            fn repr(&self) -> (usize, Heap) {
                let r = self.verif_repr();
                (r.word, r.heap.map(|(a, b, c, d)| (a, b, c as u64, d.into_iter().map(|x| x as u64).collect())))
            }
            fn header(&self) -> (usize, Option<(usize, usize, u64)>) {
                let (w, h) = self.verif_header();
                (w, h.map(|(a, b, c)| (a, b, c as u64)))
            }
            fn nexts(&self, which: It, pos: usize) -> (Vec<u64>, bool, Vec<u64>) {
                match which {
                    It::Iter => nexts_body!(self.iter(), pos),
                    It::Into => nexts_body!(self.clone().into_iter(), pos),
                    It::IntoClone => {
                        let mut it = self.clone().into_iter();
                        let mut p = vec![];
                        for _ in 0..pos {
                            if let Some(x) = it.next() {
                                p.push(x as u64);
                            }
                        }
                        let c = it.clone();
                        let a = nexts_body!(it, 0);
                        let b = nexts_body!(c, 0);
                        // "yields the same remaining items": compared as sets, the order is not part of the property
                        let (mut sa, mut sb) = (a.0.clone(), b.0.clone());
                        sa.sort();
                        sb.sort();
                        (b.0, a.1 && b.1 && sa == sb, p)
                    }
                }
            }
            fn shortcut(&self, which: It, pos: usize, kind: &str) -> (Option<u64>, Option<Vec<u64>>) {
                match which {
                    It::Iter => (sc_body!(self.iter(), pos, kind, $T), None),
                    It::Into => {
                        let mut it = self.clone().into_iter();
                        for _ in 0..pos {
                            it.next();
                        }
                        let plain: Vec<u64> = it.clone().map(|x| x as u64).collect();
                        (sc_body!(it, 0, kind, $T), Some(plain))
                    }
                    It::IntoClone => {
                        let mut it = self.clone().into_iter();
                        for _ in 0..pos {
                            it.next();
                        }
                        let c = it.clone();
                        let plain: Vec<u64> = it.map(|x| x as u64).collect();
                        (sc_body!(c, 0, kind, $T), Some(plain))
                    }
                }
            }
            fn union_ref(a: &Self, b: &Self) -> Self {
                a | b
            }
            fn union_own(a: Self, b: &Self) -> Self {
                a | b
            }
            fn diff_ref(a: &Self, b: &Self) -> Self {
                a - b
            }
            fn diff_own(a: Self, b: &Self) -> Self {
                a - b
            }
            fn debug_string(&self) -> String {
                format!("{:?}", self)
            }
            #[cfg(any(feature = "serde", feature = "compactserde"))]
            fn to_json(&self) -> String {
                serde_json::to_string(self).unwrap()
            }
            #[cfg(any(feature = "serde", feature = "compactserde"))]
            fn from_json(s: &str) -> Result<Self, String> {
                serde_json::from_str(s).map_err(|e| e.to_string())
            }
        }
    };
}
impl_uset!(SetU64, u64, 64, "SetU64", 24, 8, 8, setu64);
impl_uset!(SetU32, u32, 32, "SetU32", 12, 4, 4, setu32);
