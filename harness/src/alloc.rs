//! Global allocator of the harness: a ledger of every live block (address, size,
//! alignment), guard bytes behind every block, an optional "minimal alignment" mode
//! (blocks requested with alignment 4 are placed at addresses that are 4 modulo 8),
//! a 0xA5 fill of fresh non-zeroed memory, and failure injection for the k-th request
//! made while the code under test runs.
use std::alloc::{GlobalAlloc, Layout, System};
use std::cell::Cell;
use std::sync::atomic::{AtomicBool, AtomicI64, AtomicU64, AtomicUsize, Ordering::SeqCst};

const TSIZE: usize = 1 << 20;
const GUARD: usize = 16;
#[derive(Clone, Copy)]
struct Entry {
    addr: usize,
    size: usize,
    align: usize,
    in_op: bool,
    /// obtained by the code under test through `alloc_zeroed` (or resized from such a block): one of the
    /// crate's own blocks, whose allocator calls are compared with the model's event reading
    tracked: bool,
}
static mut TABLE: [Entry; TSIZE] = [Entry { addr: 0, size: 0, align: 0, in_op: false, tracked: false }; TSIZE];
const EVMAX: usize = 1 << 16;
/// (kind, size, new size, alignment) of the allocator calls on the crate's own blocks while capture is on
static mut EVLOG: [(u8, usize, usize, usize); EVMAX] = [(0, 0, 0, 0); EVMAX];
static EV_N: AtomicUsize = AtomicUsize::new(0);
thread_local! { static EV_CAPTURE: Cell<bool> = Cell::new(false); static EV_QUIET: Cell<bool> = Cell::new(false); }
fn ev_push(kind: u8, a: usize, b: usize, align: usize) {
    if EV_CAPTURE.try_with(|c| c.get()).unwrap_or(false) && !EV_QUIET.try_with(|c| c.get()).unwrap_or(false) {
        let n = EV_N.fetch_add(1, SeqCst);
        if n < EVMAX {
            unsafe { EVLOG[n] = (kind, a, b, align) };
        }
    }
}
/// start capturing the allocator calls made on the crate's own blocks by this thread
pub fn ev_begin() {
    EV_N.store(0, SeqCst);
    EV_CAPTURE.with(|c| c.set(true));
}
/// stop capturing; the calls in order: `a<size>.<align>` alloc_zeroed, `f<size>.<align>` dealloc,
/// `r<old>:<new>.<align>` realloc; `None` if there were too many to record
pub fn ev_take() -> Option<String> {
    EV_CAPTURE.with(|c| c.set(false));
    let n = EV_N.load(SeqCst);
    if n > EVMAX {
        return None;
    }
    let mut s = String::from(" A");
    for k in 0..n {
        let (kind, a, b, al) = unsafe { EVLOG[k] };
        match kind {
            b'a' => s.push_str(&format!(" a{}.{}", a, al)),
            b'f' => s.push_str(&format!(" f{}.{}", a, al)),
            _ => s.push_str(&format!(" r{}:{}.{}", a, b, al)),
        }
    }
    Some(s)
}
static LOCK: AtomicBool = AtomicBool::new(false);
pub static MIN_ALIGN: AtomicBool = AtomicBool::new(false);
pub static FAIL_AT: AtomicI64 = AtomicI64::new(-1);
pub static OP_ALLOCS: AtomicU64 = AtomicU64::new(0);
pub static ZEROED_ALLOCS: AtomicU64 = AtomicU64::new(0);
pub static FAIL_ZEROED_AT: AtomicI64 = AtomicI64::new(-1);
pub static OP_LIVE_BLOCKS: AtomicI64 = AtomicI64::new(0);
pub static OP_LIVE_BYTES: AtomicI64 = AtomicI64::new(0);
pub static VIOLATIONS: AtomicUsize = AtomicUsize::new(0);
pub static LAST_VIOLATION: AtomicUsize = AtomicUsize::new(0);
pub static LAST_V_A: AtomicUsize = AtomicUsize::new(0);
pub static LAST_V_B: AtomicUsize = AtomicUsize::new(0);
thread_local! { pub static IN_OP: Cell<bool> = Cell::new(false); }

fn lock() {
    while LOCK.compare_exchange(false, true, SeqCst, SeqCst).is_err() {
        std::hint::spin_loop();
    }
}
fn unlock() {
    LOCK.store(false, SeqCst);
}
fn slot(addr: usize) -> usize {
    (addr >> 2).wrapping_mul(0x9E3779B97F4A7C15) >> 44 & (TSIZE - 1)
}
unsafe fn t_insert(e: Entry) {
    let mut i = slot(e.addr);
    loop {
        if TABLE[i].addr == 0 {
            TABLE[i] = e;
            return;
        }
        i = (i + 1) & (TSIZE - 1);
    }
}
/// linear probing with backward-shift deletion (no tombstones: millions of short-lived blocks pass through)
unsafe fn t_remove(addr: usize) -> Option<Entry> {
    let mut i = slot(addr);
    loop {
        if TABLE[i].addr == 0 {
            return None;
        }
        if TABLE[i].addr == addr {
            break;
        }
        i = (i + 1) & (TSIZE - 1);
    }
    let found = TABLE[i];
    let mut hole = i;
    let mut j = (i + 1) & (TSIZE - 1);
    loop {
        if TABLE[j].addr == 0 {
            break;
        }
        let home = slot(TABLE[j].addr);
        // can the entry at j move into the hole? yes iff its home is not in the cyclic range (hole, j]
        let in_range = if hole <= j { home > hole && home <= j } else { home > hole || home <= j };
        if !in_range {
            TABLE[hole] = TABLE[j];
            hole = j;
        }
        j = (j + 1) & (TSIZE - 1);
    }
    TABLE[hole].addr = 0;
    Some(found)
}
unsafe fn t_peek(addr: usize) -> Option<Entry> {
    let mut i = slot(addr);
    loop {
        if TABLE[i].addr == 0 {
            return None;
        }
        if TABLE[i].addr == addr {
            return Some(TABLE[i]);
        }
        i = (i + 1) & (TSIZE - 1);
    }
}
fn violation(kind: usize, a: usize, b: usize) {
    VIOLATIONS.fetch_add(1, SeqCst);
    LAST_VIOLATION.store(kind, SeqCst);
    LAST_V_A.store(a, SeqCst);
    LAST_V_B.store(b, SeqCst);
}
/// 1 free of a block that is not live, 2 size mismatch, 3 align mismatch, 4 guard bytes overwritten
pub fn violation_text() -> String {
    let k = LAST_VIOLATION.load(SeqCst);
    let (a, b) = (LAST_V_A.load(SeqCst), LAST_V_B.load(SeqCst));
    match k {
        1 => format!("release of a block that is not live (size {} align {})", a, b),
        2 => format!("block released with size {} but requested with size {}", a, b),
        3 => format!("block released with alignment {} but requested with {}", a, b),
        4 => format!("bytes behind a block of size {} were overwritten (offset {})", a, b),
        _ => "none".into(),
    }
}
fn in_op() -> bool {
    IN_OP.try_with(|c| c.get()).unwrap_or(false)
}
pub struct Tracker;
impl Tracker {
    unsafe fn raw_alloc(&self, layout: Layout, zeroed: bool) -> *mut u8 {
        let op = in_op();
        if op {
            OP_ALLOCS.fetch_add(1, SeqCst);
            if FAIL_AT.load(SeqCst) >= 0 && FAIL_AT.fetch_sub(1, SeqCst) == 0 {
                return std::ptr::null_mut();
            }
            if zeroed {
                // the crate's own blocks are the only zeroed requests made under test
                ZEROED_ALLOCS.fetch_add(1, SeqCst);
                if FAIL_ZEROED_AT.load(SeqCst) >= 0 && FAIL_ZEROED_AT.fetch_sub(1, SeqCst) == 0 {
                    return std::ptr::null_mut();
                }
            }
        }
        let shift = if MIN_ALIGN.load(SeqCst) && layout.align() == 4 { 4 } else { 0 };
        let big = Layout::from_size_align_unchecked(layout.size() + GUARD + 8, layout.align().max(8));
        let base = System.alloc(big);
        if base.is_null() {
            return base;
        }
        let p = base.add(shift);
        if zeroed {
            std::ptr::write_bytes(p, 0, layout.size());
        } else {
            std::ptr::write_bytes(p, 0xA5, layout.size());
        }
        std::ptr::write_bytes(p.add(layout.size()), 0x5A, GUARD);
        let tracked = op && zeroed;
        if tracked {
            ev_push(b'a', layout.size(), 0, layout.align());
        }
        lock();
        t_insert(Entry { addr: p as usize, size: layout.size(), align: layout.align(), in_op: op, tracked });
        unlock();
        if op {
            OP_LIVE_BLOCKS.fetch_add(1, SeqCst);
            OP_LIVE_BYTES.fetch_add(layout.size() as i64, SeqCst);
        }
        p
    }
}
unsafe impl GlobalAlloc for Tracker {
    unsafe fn alloc(&self, layout: Layout) -> *mut u8 {
        self.raw_alloc(layout, false)
    }
    unsafe fn alloc_zeroed(&self, layout: Layout) -> *mut u8 {
        self.raw_alloc(layout, true)
    }
    unsafe fn dealloc(&self, ptr: *mut u8, layout: Layout) {
        lock();
        let e = t_remove(ptr as usize);
        unlock();
        match e {
            None => violation(1, layout.size(), layout.align()),
            Some(e) => {
                if e.tracked {
                    ev_push(b'f', layout.size(), 0, layout.align());
                }
                if e.size != layout.size() {
                    violation(2, layout.size(), e.size);
                } else if e.align != layout.align() {
                    violation(3, layout.align(), e.align);
                }
                for i in 0..GUARD {
                    if *ptr.add(e.size + i) != 0x5A {
                        violation(4, e.size, i);
                        break;
                    }
                }
                if e.in_op {
                    OP_LIVE_BLOCKS.fetch_sub(1, SeqCst);
                    OP_LIVE_BYTES.fetch_sub(e.size as i64, SeqCst);
                }
                let shift = if e.align == 4 && (ptr as usize) % 8 == 4 { 4 } else { 0 };
                std::ptr::write_bytes(ptr, 0xDD, e.size);
                let big = Layout::from_size_align_unchecked(e.size + GUARD + 8, e.align.max(8));
                System.dealloc(ptr.sub(shift), big);
            }
        }
    }
    unsafe fn realloc(&self, ptr: *mut u8, layout: Layout, new_size: usize) -> *mut u8 {
        // copy what the block really holds (the ledger knows), whatever size the caller claims;
        // a wrong claim is recorded by `dealloc` below as a contract violation
        lock();
        let real = t_peek(ptr as usize);
        unlock();
        let have = real.map(|e| e.size).unwrap_or(layout.size());
        let tracked = real.map(|e| e.tracked).unwrap_or(false);
        let nl = Layout::from_size_align_unchecked(new_size, layout.align());
        if tracked {
            ev_push(b'r', layout.size(), new_size, layout.align());
        }
        let p = self.raw_alloc(nl, false);
        if !p.is_null() {
            std::ptr::copy_nonoverlapping(ptr, p, have.min(layout.size()).min(new_size));
            if tracked {
                // the resized block stays one of the crate's own; its release below is part of the resize
                lock();
                if let Some(mut e) = t_remove(p as usize) {
                    e.tracked = true;
                    t_insert(e);
                }
                unlock();
            }
            let q = EV_QUIET.try_with(|c| c.replace(true)).unwrap_or(false);
            self.dealloc(ptr, layout);
            let _ = EV_QUIET.try_with(|c| c.set(q));
        }
        p
    }
}
pub fn live() -> (i64, i64) {
    (OP_LIVE_BLOCKS.load(SeqCst), OP_LIVE_BYTES.load(SeqCst))
}
/// run `f` as "code under test": its allocations are attributed and may be failed
pub fn under_test<R>(f: impl FnOnce() -> R) -> R {
    let old = IN_OP.with(|c| c.replace(true));
    struct Reset(bool);
    impl Drop for Reset {
        fn drop(&mut self) {
            IN_OP.with(|c| c.set(self.0));
        }
    }
    let _r = Reset(old);
    f()
}
