//! Correspondence / oracle harness for droundy/tinyset.  See /verif/DESIGN.md section 4.2.
//! usage: tsharness <64|32> <profile> <seed> <histories> <steps> <trace-file|-> [mode]
mod alloc;
mod engine;
mod profiles;
mod scenarios;
mod typed;
mod uset;

#[global_allocator]
static GLOBAL: alloc::Tracker = alloc::Tracker;

use engine::*;
use uset::USet;

fn build_mode() -> Mode {
    if cfg!(feature = "det") {
        Mode::Det
    } else if cfg!(feature = "rand") {
        Mode::Script
    } else {
        Mode::Splitmix
    }
}

fn run<S: USet>(args: &[String]) -> i32 {
    let profile = args[2].as_str();
    let seed: u64 = args[3].parse().unwrap();
    let hists: usize = args[4].parse().unwrap();
    let steps: usize = args[5].parse().unwrap();
    let out: Box<dyn std::io::Write> = if args[6] == "-" {
        Box::new(std::io::BufWriter::new(std::io::stdout()))
    } else {
        Box::new(std::io::BufWriter::new(std::fs::File::create(&args[6]).unwrap()))
    };
    let mode = match args.get(7).map(|s| s.as_str()) {
        Some("script") => Mode::Script,
        Some("unscripted") => Mode::Unscripted,
        Some("native") | None => build_mode(),
        Some(m) => panic!("mode {}", m),
    };
    if args.get(8).map(|s| s.as_str()) == Some("minalign") {
        alloc::MIN_ALIGN.store(true, std::sync::atomic::Ordering::SeqCst);
    }
    // the `rand` crate's thread-local generator allocates on first use: do that outside the ledger
    {
        let mut warm = S::wcb(3, 0);
        warm.ins(1);
    }
    let mut e: Eng<S> = Eng::new(seed, mode, out);
    let t0 = std::time::Instant::now();
    profiles::run_profile(&mut e, profile, hists, steps);
    e.finish();
    drop(std::mem::replace(&mut e.out, Box::new(std::io::sink())));
    for (k, v) in &e.stats {
        eprintln!("HSTAT {} {}", k, v);
    }
    for s in &e.samples {
        eprintln!("HSAMPLE {}", s);
    }
    eprintln!("HSUMMARY type={} profile={} seed={} histories={} distinct_signatures={} oracle_failures={} wall_ms={}", S::NAME, profile, seed, hists, e.sig.len(), e.fails.len(), t0.elapsed().as_millis());
    if e.fails.is_empty() {
        0
    } else {
        1
    }
}

fn main() {
    std::panic::set_hook(Box::new(|_| {}));
    let args: Vec<String> = std::env::args().collect();
    if args.len() < 7 {
        eprintln!("usage: tsharness <64|32|typed> <profile> <seed> <histories> <steps> <trace-file|-> [mode] [minalign]");
        std::process::exit(2);
    }
    let rc = match args[1].as_str() {
        "64" => run::<tinyset::SetU64>(&args),
        "32" => run::<tinyset::SetU32>(&args),
        "typed" => typed::run(&args),
        _ => 2,
    };
    std::process::exit(rc);
}
