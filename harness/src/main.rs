//! Correspondence / oracle harness for droundy/tinyset.  See /verif/DESIGN.md section 4.2.
//! usage: tsharness <64|32> <profile> <seed> <histories> <steps> <trace-file|-> [mode]
mod alloc;
mod engine;
mod profiles;
mod scenarios;
mod typed;
mod uset;

#[global_allocator]
static GLOBAL: alloc::Tracker = alloc::Tracker;

use engine::*;
use uset::USet;

fn build_mode() -> Mode {
    if cfg!(feature = "det") {
        Mode::Det
    } else if cfg!(feature = "rand") {
        Mode::Script
    } else {
        Mode::Splitmix
    }
}

fn run<S: USet>(args: &[String]) -> i32 {
    let profile = args[2].as_str();
    let seed: u64 = args[3].parse().unwrap();
    let hists: usize = args[4].parse().unwrap();
    let steps: usize = args[5].parse().unwrap();
    let out: Box<dyn std::io::Write> = if args[6] == "-" {
        Box::new(std::io::BufWriter::new(std::io::stdout()))
    } else {
        Box::new(std::io::BufWriter::new(std::fs::File::create(&args[6]).unwrap()))
    };
    let mode = match args.get(7).map(|s| s.as_str()) {
        Some("script") => Mode::Script,
        Some("unscripted") => Mode::Unscripted,
        Some("native") | None => build_mode(),
        Some(m) => panic!("mode {}", m),
    };
    if args.get(8).map(|s| s.as_str()) == Some("minalign") {
        alloc::MIN_ALIGN.store(true, std::sync::atomic::Ordering::SeqCst);
    }
    // the `rand` crate's thread-local generator allocates on first use: do that outside the ledger
    {
        let mut warm = S::wcb(3, 0);
        warm.ins(1);
    }
    let mut e: Eng<S> = Eng::new(seed, mode, out);
    let t0 = std::time::Instant::now();
    profiles::run_profile(&mut e, profile, hists, steps);
    e.finish();
    drop(std::mem::replace(&mut e.out, Box::new(std::io::sink())));
    if profile == "det" && args[6] != "-" {
        // C17: the same histories replayed on another thread, after unrelated set activity there and here
        let path2 = format!("{}.thread", args[6]);
        let p2 = path2.clone();
        let mut noise = S::new();
        for k in 0..5000u64 {
            noise.ins(k.wrapping_mul(0x9E3779B97F4A7C15) & S::max_elem());
        }
        let h = std::thread::spawn(move || {
            let mut other = S::new();
            for k in 0..3000u64 {
                other.ins((k * 7919) & S::max_elem());
                if k % 3 == 0 {
                    other.rem((k * 31) & S::max_elem());
                }
            }
            let out2: Box<dyn std::io::Write> = Box::new(std::io::BufWriter::new(std::fs::File::create(&p2).unwrap()));
            let mut e2: Eng<S> = Eng::new(seed, mode, out2);
            profiles::run_profile(&mut e2, "det", hists, steps);
            e2.finish();
            drop(std::mem::replace(&mut e2.out, Box::new(std::io::sink())));
            e2.fails.len()
        });
        let f2 = h.join().unwrap();
        drop(noise);
        let a = std::fs::read(&args[6]).unwrap();
        let b = std::fs::read(&path2).unwrap();
        if a != b || f2 != e.fails.len() {
            let at = a.iter().zip(b.iter()).position(|(x, y)| x != y).unwrap_or(a.len().min(b.len()));
            let line = a[..at].iter().filter(|&&c| c == b'\n').count() + 1;
            e.fail("C17", format!("the same history replayed on another thread after unrelated set activity differs from the first run at trace line {}", line));
        }
        e.bump("det:thread-replays");
        let _ = std::fs::remove_file(&path2);
    }
    for (k, v) in &e.stats {
        eprintln!("HSTAT {} {}", k, v);
    }
    for s in &e.samples {
        eprintln!("HSAMPLE {}", s);
    }
    eprintln!("HSUMMARY type={} profile={} seed={} histories={} distinct_signatures={} oracle_failures={} wall_ms={}", S::NAME, profile, seed, hists, e.sig.len(), e.fails.len(), t0.elapsed().as_millis());
    if e.fails.is_empty() {
        0
    } else {
        1
    }
}

fn main() {
    std::panic::set_hook(Box::new(|_| {}));
    let args: Vec<String> = std::env::args().collect();
    if args.len() < 7 {
        eprintln!("usage: tsharness <64|32|typed> <profile> <seed> <histories> <steps> <trace-file|-> [mode] [minalign]");
        std::process::exit(2);
    }
    if args[2] == "deep" {
        // tsharness <64|32> deep <c> <stack_kb> - - -
        let c: usize = args[3].parse().unwrap();
        let kb: usize = args[4].parse().unwrap();
        let ok = match args[1].as_str() {
            "64" => scenarios::deep_regrow::<tinyset::SetU64>(c, kb),
            _ => scenarios::deep_regrow::<tinyset::SetU32>(c, kb),
        };
        std::process::exit(if ok { 0 } else { 1 });
    }
    if args[2] == "vecfail" {
        // tsharness <64|32> vecfail <collect|remove> - - - : the first allocation the operation makes (a `Vec`
        // temporary of std) fails.  If the process survives, the failure was contained; the open finding D11 is
        // that it is not: `Vec` goes through `handle_alloc_error`, which aborts.
        let out = match args[1].as_str() {
            "64" => scenarios::vecfail::<tinyset::SetU64>(&args[3]),
            _ => scenarios::vecfail::<tinyset::SetU32>(&args[3]),
        };
        println!("{}", out);
        std::process::exit(0);
    }
    let rc = match args[1].as_str() {
        "64" => run::<tinyset::SetU64>(&args),
        "32" => run::<tinyset::SetU32>(&args),
        "typed" => typed::run(&args),
        _ => 2,
    };
    std::process::exit(rc);
}
