//! History engine: executes operations on real sets, writes the trace for the Lean
//! driver, and checks every answer against ideal sets and the allocator ledger.
use crate::alloc;
use crate::uset::*;
use std::collections::{BTreeMap, BTreeSet};
use std::fmt::Write as _;
use std::io::Write as _;
use std::panic::{catch_unwind, AssertUnwindSafe};
use std::sync::atomic::Ordering::SeqCst;

#[derive(Clone)]
pub struct Xs(pub u64);
impl Xs {
    pub fn new(seed: u64) -> Self {
        let mut x = Xs(seed.wrapping_mul(0x9E3779B97F4A7C15) ^ 0xD1B54A32D192ED03);
        if x.0 == 0 {
            x.0 = 1;
        }
        for _ in 0..4 {
            x.next();
        }
        x
    }
    pub fn next(&mut self) -> u64 {
        self.0 ^= self.0 << 13;
        self.0 ^= self.0 >> 7;
        self.0 ^= self.0 << 17;
        self.0
    }
    pub fn below(&mut self, n: u64) -> u64 {
        if n == 0 {
            0
        } else {
            self.next() % n
        }
    }
    pub fn chance(&mut self, num: u64, den: u64) -> bool {
        self.below(den) < num
    }
}

#[derive(Clone, Copy, PartialEq, Eq, Debug)]
pub enum Mode {
    Script,
    Det,
    Splitmix,
    Unscripted,
}

/// move a result out of the ledger's "allocated by the code under test" accounting
pub fn detach<T: Clone>(t: T) -> T {
    let c = t.clone();
    drop(t);
    c
}

pub fn det_rand64(cap: usize, bits: u64) -> u64 {
    (cap as u64).wrapping_mul(9838956529666160483) ^ bits.wrapping_mul(17253312864001072049)
}

pub struct Eng<S: USet> {
    pub slots: Vec<Option<S>>,
    pub oracle: Vec<BTreeSet<u64>>,
    pub hw: Vec<usize>,
    pub hinted: Vec<bool>,
    pub rng: Xs,
    pub mode: Mode,
    pub out: Box<dyn std::io::Write>,
    pub fails: Vec<String>,
    pub stats: BTreeMap<String, u64>,
    pub hist: String,
    pub step: usize,
    pub draw_style: u64,
    pub extra_live_blocks: i64,
    pub extra_live_bytes: i64,
    pub check_c11: bool,
    pub samples: Vec<String>,
    pub cur_hist_lines: usize,
    pub sig: BTreeSet<String>,
    pub cur_sig: String,
    pub quiet: bool,
    /// some operation of the current history was not written to the trace (quiet mode): the model's picture
    /// of the slots is stale until the next history, so `drop` lines carry no allocator calls to compare
    pub untraced: bool,
    pub force_style: Option<u64>,
    pub script_len: usize,
}

pub const NSLOTS: usize = 8;

fn fnv(ws: &[u64]) -> u64 {
    let mut h: u64 = 14695981039346656037;
    for &w in ws {
        h = (h ^ w).wrapping_mul(1099511628211);
    }
    h
}

pub fn repr_string<S: USet>(s: &S) -> String {
    let (word, heap) = s.repr();
    match heap {
        None => {
            if word == 0 {
                "E".into()
            } else {
                format!("S {}", word)
            }
        }
        Some((sz, cap, bits, a)) => {
            if cap <= 48 {
                let mut o = format!("H {} {} {}", sz, cap, bits);
                for x in a {
                    write!(o, " {}", x).unwrap();
                }
                o
            } else {
                format!("X {} {} {} {}", sz, cap, bits, fnv(&a))
            }
        }
    }
}
pub fn layout_tag<S: USet>(s: &S) -> char {
    let (word, heap) = s.header();
    match heap {
        None => {
            if word == 0 {
                'E'
            } else {
                'S'
            }
        }
        Some((_, _, bits)) => {
            if bits == S::W as u64 {
                'D'
            } else if bits == 0 || bits > S::W as u64 {
                'P'
            } else {
                'B'
            }
        }
    }
}

impl<S: USet> Eng<S> {
    pub fn new(seed: u64, mode: Mode, out: Box<dyn std::io::Write>) -> Self {
        let mut e = Eng {
            slots: (0..NSLOTS).map(|_| None).collect(),
            oracle: (0..NSLOTS).map(|_| BTreeSet::new()).collect(),
            hw: vec![0; NSLOTS],
            hinted: vec![false; NSLOTS],
            rng: Xs::new(seed),
            mode,
            out,
            fails: vec![],
            stats: BTreeMap::new(),
            hist: String::new(),
            step: 0,
            draw_style: 4,
            extra_live_blocks: 0,
            extra_live_bytes: 0,
            check_c11: true,
            samples: vec![],
            cur_hist_lines: 0,
            sig: BTreeSet::new(),
            cur_sig: String::new(),
            quiet: false,
            untraced: false,
            force_style: None,
            script_len: 600,
        };
        let m = match mode {
            Mode::Script => "script",
            Mode::Det => "det",
            Mode::Splitmix => "splitmix",
            Mode::Unscripted => "unscripted",
        };
        e.emit(&format!("cfg {} {}", S::W, m));
        e
    }
    pub fn emit(&mut self, line: &str) {
        if self.mode != Mode::Unscripted && !self.quiet {
            writeln!(self.out, "{}", line).unwrap();
        }
        if self.quiet {
            self.untraced = true;
        }
        if line.starts_with("hist ") {
            self.untraced = false;
        }
        if self.samples.len() < 12 && self.cur_hist_lines < 6 && !line.starts_with("cfg") {
            let mut l = line.to_string();
            l.truncate(160);
            self.samples.push(l);
        }
        self.cur_hist_lines += 1;
    }
    pub fn bump(&mut self, k: &str) {
        *self.stats.entry(k.to_string()).or_insert(0) += 1;
    }
    pub fn fail(&mut self, tags: &str, what: String) {
        // a typed wrapper that answers differently from the ideal set of T also fails C03 ("behave as an ideal set of T")
        let functional = ["C04", "C05", "C08", "C09", "C13"].iter().any(|t| tags.contains(t));
        let tags = if S::TYPED && functional && !tags.contains("C03") { format!("{},C03", tags) } else { tags.to_string() };
        let msg = format!("ORACLE-FAIL props={} type={} hist={} step={} {}", tags, S::NAME, self.hist, self.step, what);
        eprintln!("{}", msg);
        self.fails.push(msg);
    }
    pub fn begin(&mut self, name: &str) {
        // drop everything from the previous history, then the ledger must be empty
        for i in 0..NSLOTS {
            self.slots[i] = None;
            self.oracle[i].clear();
            self.hw[i] = 0;
            self.hinted[i] = false;
        }
        self.extra_live_blocks = 0;
        self.extra_live_bytes = 0;
        let (b, by) = alloc::live();
        if b != 0 || by != 0 {
            self.fail("C06", format!("after dropping every set and iterator {} blocks ({} bytes) remain allocated", b, by));
            alloc::OP_LIVE_BLOCKS.store(0, SeqCst);
            alloc::OP_LIVE_BYTES.store(0, SeqCst);
        }
        if !self.cur_sig.is_empty() {
            let s = std::mem::take(&mut self.cur_sig);
            self.sig.insert(s);
        }
        self.hist = name.to_string();
        self.step = 0;
        self.cur_hist_lines = 0;
        self.emit(&format!("hist {}", name));
        #[cfg(not(feature = "rand"))]
        if self.mode == Mode::Splitmix {
            let seed = self.rng.next() | 1;
            tinyset::verif_rand::set_seed(seed);
            self.emit(&format!("seed {}", seed));
        }
        self.draw_style = self.rng.below(6);
        self.force_style = None;
        self.script_len = 600;
    }
    pub fn finish(&mut self) {
        self.begin("end");
    }
    fn sigpush(&mut self, s: &str) {
        if self.cur_sig.len() < 400 && !self.cur_sig.ends_with(s) {
            self.cur_sig.push_str(s);
        }
    }
    /// push scripted draws for the next operation on `slot`
    fn script(&mut self, slot: usize) -> Vec<u64> {
        self.script_n(slot, self.script_len)
    }
    pub fn script_n(&mut self, slot: usize, n: usize) -> Vec<u64> {
        if self.mode != Mode::Script {
            return vec![];
        }
        let mut present: Vec<u64> = vec![];
        let mut ph = 0;
        let style = match self.force_style {
            Some(st) => st,
            None => {
                if self.rng.chance(1, 5) {
                    self.rng.below(6)
                } else {
                    self.draw_style
                }
            }
        };
        if style == 3 {
            // draws equal to a word already in the table / to the placeholder (needs a copy of the table)
            if let Some(s) = &self.slots[slot] {
                if let (_, Some((_, _, bits, a))) = s.repr() {
                    ph = bits;
                    present = a.into_iter().filter(|&x| x != 0).take(32).collect();
                }
            }
        }
        let mut v = vec![];
        for k in 0..n {
            let d = match style {
                0 => 0,
                1 => u64::MAX,
                2 => self.rng.below(S::W as u64 + 2),
                3 => {
                    if k == 0 && !present.is_empty() {
                        // a draw equal to a word already in the table, or just below one
                        let w = present[self.rng.below(present.len() as u64) as usize];
                        if self.rng.chance(1, 2) {
                            w
                        } else {
                            w.wrapping_sub(1)
                        }
                    } else if k == 0 {
                        ph
                    } else {
                        self.rng.next()
                    }
                }
                4 => self.rng.next(),
                _ => self.rng.next() >> self.rng.below(64),
            };
            v.push(d);
        }
        tinyset::verif_rand::clear();
        for &d in &v {
            tinyset::verif_rand::push(d);
        }
        v
    }
    pub fn script_done(&mut self, pushed: Vec<u64>) -> String {
        if self.mode != Mode::Script {
            return String::new();
        }
        let left = tinyset::verif_rand::clear();
        let used = pushed.len() - left;
        if left == 0 {
            self.fail("HARNESS", "scripted draws exhausted".into());
        }
        if used > 0 {
            self.bump(&format!("draws:{}", used.min(9)));
        }
        let mut o = String::from(" D");
        for d in &pushed[..used] {
            write!(o, " {}", d).unwrap();
        }
        o
    }
    pub fn post_check(&mut self) {
        // allocator ledger against what the live sets own
        let mut blocks = self.extra_live_blocks;
        let mut bytes = self.extra_live_bytes;
        for s in self.slots.iter().flatten() {
            let cap = s.capacity();
            if let (_, Some(_)) = s.header() {
                blocks += 1;
                bytes += (S::HEADER + S::ELEM * cap) as i64;
            }
        }
        let (lb, lby) = alloc::live();
        if lb != blocks || lby != bytes {
            self.fail("C06,C11", format!("allocator ledger: {} blocks / {} bytes live, the live sets account for {} blocks / {} bytes", lb, lby, blocks, bytes));
            alloc::OP_LIVE_BLOCKS.store(blocks, SeqCst);
            alloc::OP_LIVE_BYTES.store(bytes, SeqCst);
        }
        if alloc::VIOLATIONS.swap(0, SeqCst) > 0 {
            self.fail("C06", format!("allocator contract: {}", alloc::violation_text()));
        }
    }
    fn check_set(&mut self, i: usize, what: &str) {
        // len / is_empty / mem_used / C11 bound, cheap enough for every step
        let (len, emp, mem, cap, heap) = {
            let s = self.slots[i].as_ref().unwrap();
            (s.len(), s.is_empty(), s.mem_used(), s.capacity(), s.header().1.is_some())
        };
        let olen = self.oracle[i].len();
        if len != olen {
            self.fail("C01,C02", format!("{}: len() = {} but the ideal set has {} members", what, len, olen));
        }
        if emp != (olen == 0) {
            self.fail("C01,C02", format!("{}: is_empty() = {} with {} members", what, emp, olen));
        }
        let block = if heap { S::HEADER + S::ELEM * cap } else { 0 };
        if !S::TYPED && mem != 8 + block {
            self.fail("C11", format!("{}: mem_used() = {} but the set owns {} heap bytes + 8", what, mem, block));
        }
        if olen > self.hw[i] {
            self.hw[i] = olen;
        }
        if self.check_c11 && !self.hinted[i] && heap {
            let words = (block + S::ELEM - 1) / S::ELEM;
            if words > 8 * self.hw[i] + 8 {
                self.fail("C11", format!("{}: heap block of {} element words with at most {} members ever (bound 8*M+8 = {})", what, words, self.hw[i], 8 * self.hw[i] + 8));
            }
        }
    }
    pub fn tag(&self, i: usize) -> char {
        match &self.slots[i] {
            None => '-',
            Some(s) => layout_tag(s),
        }
    }
    pub fn repr_full(&self, i: usize) -> String {
        repr_string(self.slots[i].as_ref().unwrap())
    }
    pub fn repr(&self, i: usize) -> String {
        if self.quiet || self.mode == Mode::Unscripted {
            // nothing is written to the trace: do not copy and hash large tables
            return String::new();
        }
        repr_string(self.slots[i].as_ref().unwrap())
    }

    // ---------------------------------------------------------------- constructors
    pub fn op_new(&mut self, i: usize) {
        // `new()` and `Default::default()` are the same empty word
        let s = if self.rng.chance(1, 3) { S::dflt() } else { S::new() };
        if repr_string(&s) != "E" || s.len() != 0 {
            self.fail("C01,C02,C15", format!("a new set is not the empty word: {}", repr_string(&s)));
        }
        self.slots[i] = Some(s);
        self.oracle[i].clear();
        self.hw[i] = 0;
        self.hinted[i] = false;
        self.emit(&format!("new {}", i));
    }
    pub fn op_drop(&mut self, i: usize) {
        if self.slots[i].is_some() {
            alloc::ev_begin();
            self.slots[i] = None;
            let a = alloc::ev_take().unwrap_or_default();
            self.oracle[i].clear();
            let a = if self.untraced { String::new() } else { a };
            self.emit(&format!("drop {}{}", i, a));
            self.post_check();
        }
    }
    pub fn op_wcb(&mut self, i: usize, cap: usize, bits: u64) {
        self.slots[i] = None;
        let pushed = self.script(i);
        alloc::ev_begin();
        let r = catch_unwind(AssertUnwindSafe(|| alloc::under_test(|| S::wcb(cap, bits))));
        let ev = alloc::ev_take().unwrap_or_default();
        let d = self.script_done(pushed);
        match r {
            Ok(s) => {
                self.slots[i] = Some(s);
                self.oracle[i].clear();
                self.hw[i] = 0;
                self.hinted[i] = true;
                let rp = self.repr(i);
                if S::TYPED {
                    self.emit(&format!("new {}", i));
                    self.hinted[i] = false;
                } else {
                    self.emit(&format!("wcb {} {} {}{}{} R {}", i, cap, bits, ev, d, rp));
                }
                self.bump("op:wcb");
                self.check_set(i, "with_capacity_and_bits");
            }
            Err(_) => self.fail("C15", format!("with_capacity_and_bits({}, {}) panicked", cap, bits)),
        }
        self.post_check();
    }
    pub fn op_wcm(&mut self, i: usize, cap: usize, mx: u64) {
        self.slots[i] = None;
        let pushed = self.script(i);
        alloc::ev_begin();
        let r = catch_unwind(AssertUnwindSafe(|| alloc::under_test(|| S::wcm(cap, mx))));
        let ev = alloc::ev_take().unwrap_or_default();
        let d = self.script_done(pushed);
        match r {
            Ok(s) => {
                self.slots[i] = Some(s);
                self.oracle[i].clear();
                self.hw[i] = 0;
                self.hinted[i] = true;
                let rp = self.repr(i);
                if S::TYPED {
                    self.emit(&format!("new {}", i));
                    self.hinted[i] = false;
                } else {
                    self.emit(&format!("wcm {} {} {}{}{} R {}", i, cap, mx, ev, d, rp));
                }
                self.bump("op:wcm");
                self.check_set(i, "with_capacity_and_max");
            }
            Err(_) => self.fail("C15", format!("with_capacity_and_max({}, {}) panicked", cap, mx)),
        }
        self.post_check();
    }
    pub fn op_wco(&mut self, i: usize, j: usize) {
        if i == j || self.slots[j].is_none() || !S::HAS_OWN_OPS {
            return;
        }
        self.slots[i] = None;
        let before = self.repr_full(j);
        alloc::ev_begin();
        let s = alloc::under_test(|| S::wco(self.slots[j].as_ref().unwrap()));
        let ev = alloc::ev_take().unwrap_or_default();
        if self.repr_full(j) != before {
            self.fail("C07,C18", "with_capacity_of changed its argument".into());
        }
        if s.capacity() != self.slots[j].as_ref().unwrap().capacity() || s.len() != 0 {
            self.fail("C07", format!("with_capacity_of: capacity {} len {} from a set of capacity {}", s.capacity(), s.len(), self.slots[j].as_ref().unwrap().capacity()));
        }
        self.slots[i] = Some(s);
        self.oracle[i].clear();
        self.hw[i] = self.hw[j];
        self.hinted[i] = self.hinted[j];
        let rp = self.repr(i);
        self.emit(&format!("wco {} {}{} R {}", i, j, ev, rp));
        self.bump("op:wco");
        self.post_check();
    }
    pub fn op_clone(&mut self, i: usize, j: usize) {
        if i == j || self.slots[j].is_none() {
            return;
        }
        // half of the time into an existing set through `Clone::clone_from` (which a type may override)
        let dst = if self.rng.chance(1, 2) { self.slots[i].take() } else { None };
        self.slots[i] = None;
        let before = self.repr_full(j);
        let mut ev = String::new();
        let mut from = false;
        let s = match dst {
            Some(mut d) => {
                self.bump("op:clone_from");
                alloc::ev_begin();
                alloc::under_test(|| d.clone_from(self.slots[j].as_ref().unwrap()));
                ev = alloc::ev_take().unwrap_or_default();
                from = true;
                d
            }
            None => {
                alloc::ev_begin();
                let c = alloc::under_test(|| self.slots[j].as_ref().unwrap().clone());
                ev = alloc::ev_take().unwrap_or_default();
                c
            }
        };
        if self.repr_full(j) != before {
            self.fail("C07,C18", "clone changed the original".into());
        }
        if &s != self.slots[j].as_ref().unwrap() {
            self.fail("C07", "clone() != original".into());
        }
        if let ((w1, Some(_)), (w2, Some(_))) = (s.repr(), self.slots[j].as_ref().unwrap().repr()) {
            if w1 == w2 {
                self.fail("C06,C07", "clone shares the original's heap block".into());
            }
        }
        self.slots[i] = Some(s);
        self.oracle[i] = self.oracle[j].clone();
        self.hw[i] = self.hw[j];
        self.hinted[i] = self.hinted[j];
        let rp = self.repr(i);
        // `clone_from` into the set slot i held: the clone's request, then the release of what was there
        self.emit(&format!("{} {} {}{} R {}", if from && !self.untraced { "clonefrom" } else { "clone" }, i, j, if from && self.untraced { "" } else { &ev }, rp));
        self.bump(&format!("op:clone:{}", self.tag(j)));
        self.post_check();
    }
    pub fn op_collect(&mut self, i: usize, v: &[u64]) {
        let v: Vec<u64> = v.iter().map(|&x| S::norm(x)).collect();
        let v = &v[..];
        self.slots[i] = None;
        let pushed = self.script_n(i, 6000);
        alloc::ev_begin();
        let r = catch_unwind(AssertUnwindSafe(|| alloc::under_test(|| S::collect(v))));
        let ev = alloc::ev_take().unwrap_or_default();
        let d = self.script_done(pushed);
        match r {
            Ok(s) => {
                self.slots[i] = Some(s);
                self.oracle[i] = v.iter().cloned().collect();
                self.hw[i] = self.oracle[i].len();
                self.hinted[i] = false;
                let rp = self.repr(i);
                let mut l = format!("col {} {}", i, v.len());
                for x in v {
                    write!(l, " {}", S::enc(*x)).unwrap();
                }
                self.emit(&format!("{}{}{} R {}", l, ev, d, rp));
                self.bump(&format!("op:col>{}", self.tag(i)));
                let t = self.tag(i);
                self.sigpush(&format!("c{}", t));
                self.check_set(i, "collect");
                self.check_members(i, "C05", "collect");
            }
            Err(_) => self.fail("C05", format!("collect of {} items panicked", v.len())),
        }
        self.post_check();
    }
    pub fn op_extend(&mut self, i: usize, v: &[u64]) {
        if self.slots[i].is_none() {
            return;
        }
        let v: Vec<u64> = v.iter().map(|&x| S::norm(x)).collect();
        let v = &v[..];
        let pushed = self.script_n(i, 6000);
        alloc::ev_begin();
        let r = catch_unwind(AssertUnwindSafe(|| alloc::under_test(|| self.slots[i].as_mut().unwrap().extend(v))));
        let ev = alloc::ev_take().unwrap_or_default();
        let d = self.script_done(pushed);
        match r {
            Ok(()) => {
                for x in v {
                    self.oracle[i].insert(*x);
                }
                let rp = self.repr(i);
                let mut l = format!("ext {} {}", i, v.len());
                for x in v {
                    write!(l, " {}", S::enc(*x)).unwrap();
                }
                self.emit(&format!("{}{}{} R {}", l, ev, d, rp));
                self.bump("op:ext");
                self.check_set(i, "extend");
                self.check_members(i, "C05", "extend");
            }
            Err(_) => self.fail("C05", format!("extend with {} items panicked", v.len())),
        }
        self.post_check();
    }
    /// full comparison of the set's iterated contents with the ideal set
    pub fn check_members(&mut self, i: usize, tags: &str, what: &str) {
        let items = self.slots[i].as_ref().unwrap().items();
        let as_set: BTreeSet<u64> = items.iter().cloned().collect();
        if as_set.len() != items.len() {
            self.fail(&format!("{},C04", tags), format!("{}: iteration yields a member twice ({} items, {} distinct)", what, items.len(), as_set.len()));
        }
        if as_set != self.oracle[i] {
            let extra: Vec<_> = as_set.difference(&self.oracle[i]).take(4).collect();
            let missing: Vec<_> = self.oracle[i].difference(&as_set).take(4).collect();
            self.fail(tags, format!("{}: members differ from the ideal set: extra {:?} missing {:?}", what, extra, missing));
        }
    }

    // ---------------------------------------------------------------- core ops
    pub fn op_ins(&mut self, i: usize, v: u64) {
        let v = S::norm(v);
        let before = self.tag(i);
        let pushed = self.script(i);
        alloc::ev_begin();
        let r = catch_unwind(AssertUnwindSafe(|| alloc::under_test(|| self.slots[i].as_mut().unwrap().ins(v))));
        let ev = alloc::ev_take().unwrap_or_default();
        let d = self.script_done(pushed);
        let want = self.oracle[i].insert(v);
        let rp = self.repr(i);
        match r {
            Ok(b) => {
                self.emit(&format!("ins {} {} {}{}{} R {}", i, S::enc(v), b as u8, ev, d, rp));
                if b != want {
                    self.fail("C01,C02", format!("insert({}) returned {} but the value was {}", v, b, if want { "absent" } else { "present" }));
                }
            }
            Err(_) => {
                self.emit(&format!("ins {} {} P{} R {}", i, S::enc(v), d, rp));
                self.fail("C01,C02,C20", format!("insert({}) panicked", v));
            }
        }
        let after = self.tag(i);
        self.bump(&format!("ins:{}>{}", before, after));
        if before != after {
            self.sigpush(&format!("{}{}", before, after));
        }
        self.check_set(i, "insert");
        self.post_check();
    }
    pub fn op_rem(&mut self, i: usize, v: u64) {
        let v = S::norm(v);
        let before = self.tag(i);
        let pushed = self.script(i);
        alloc::ev_begin();
        let r = catch_unwind(AssertUnwindSafe(|| alloc::under_test(|| self.slots[i].as_mut().unwrap().rem(v))));
        let ev = alloc::ev_take().unwrap_or_default();
        let d = self.script_done(pushed);
        let want = self.oracle[i].remove(&v);
        let rp = self.repr(i);
        match r {
            Ok(b) => {
                self.emit(&format!("rem {} {} {}{}{} R {}", i, S::enc(v), b as u8, ev, d, rp));
                if b != want {
                    self.fail("C01,C02", format!("remove({}) returned {} but the value was {}", v, b, if want { "present" } else { "absent" }));
                }
            }
            Err(_) => {
                self.emit(&format!("rem {} {} P{} R {}", i, S::enc(v), d, rp));
                self.fail("C01,C02", format!("remove({}) panicked", v));
            }
        }
        let after = self.tag(i);
        self.bump(&format!("rem:{}>{}", before, after));
        if before != after {
            self.sigpush(&format!("r{}{}", before, after));
        }
        self.check_set(i, "remove");
        self.post_check();
    }
    pub fn op_con(&mut self, i: usize, v: u64) {
        let v = S::norm(v);
        let before = self.repr_full(i);
        let b = alloc::under_test(|| self.slots[i].as_ref().unwrap().con(v));
        let want = self.oracle[i].contains(&v);
        self.emit(&format!("con {} {} {}", i, S::enc(v), b as u8));
        if b != want {
            self.fail("C01,C02", format!("contains({}) = {} but the value is {}", v, b, if want { "present" } else { "absent" }));
        }
        if self.repr_full(i) != before {
            self.fail("C18", "contains() changed the representation".into());
        }
        self.bump(&format!("con:{}", self.tag(i)));
    }
    pub fn op_obs(&mut self, i: usize) {
        let before = self.repr_full(i);
        let (l, c, m) = {
            let s = self.slots[i].as_ref().unwrap();
            (s.len(), s.capacity(), s.mem_used())
        };
        self.emit(&format!("len {} {}", i, l));
        if !S::TYPED {
            self.emit(&format!("cap {} {}", i, c));
            self.emit(&format!("mem {} {}", i, m));
        }
        if self.repr_full(i) != before {
            self.fail("C18", "len/capacity/mem_used changed the representation".into());
        }
        self.check_set(i, "observe");
    }

    // ---------------------------------------------------------------- iteration
    pub fn op_iter(&mut self, i: usize) {
        let before = self.repr_full(i);
        let items = detach(alloc::under_test(|| self.slots[i].as_ref().unwrap().items()));
        let mut l = format!("iter {} {}", i, items.len());
        for x in &items {
            write!(l, " {}", S::enc(*x)).unwrap();
        }
        self.emit(&l);
        if self.repr_full(i) != before {
            self.fail("C18", "iter() changed the representation".into());
        }
        let olen = self.oracle[i].len();
        if items.len() != olen {
            self.fail("C04", format!("iter() yields {} items, the set has {} members", items.len(), olen));
        }
        self.check_members(i, "C04", "iter()");
        self.bump(&format!("iter:{}", self.tag(i)));
        self.post_check();
    }
    pub fn op_nexts(&mut self, i: usize, which: It, pos: usize) {
        let (v, fused, prefix) = detach(alloc::under_test(|| self.slots[i].as_ref().unwrap().nexts(which, pos)));
        let mut l = format!("nexts {} {} {}", i, pos, v.len());
        for x in &v {
            write!(l, " {}", S::enc(*x)).unwrap();
        }
        self.emit(&l);
        if !fused {
            self.fail("C04,C07", format!("{:?} iterator: exhausted iterator returned Some, or a cloned iterator does not yield the same remaining items", which));
        }
        let all = self.slots[i].as_ref().unwrap().items();
        // every member exactly once over the whole run of this iterator (C04); a consuming iterator works on a
        // clone, whose order the property does not fix: compared as multisets.  Only the borrowed iterator over
        // the unchanged set itself must repeat the order of a second `iter()`.
        let mut seen: Vec<u64> = prefix.iter().chain(v.iter()).cloned().collect();
        let mut want: Vec<u64> = all.clone();
        seen.sort();
        want.sort();
        if seen != want {
            self.fail("C04,C07", format!("{:?} iterator advanced {} times and then drained yields {} items {:?}.., the set has {} members {:?}..", which, pos, seen.len(), &seen[..seen.len().min(4)], want.len(), &want[..want.len().min(4)]));
        } else if which == It::Iter {
            let rest: Vec<u64> = all.iter().skip(pos).cloned().collect();
            if v != rest {
                self.fail("C04", format!("iter() at position {} yields {:?}.., a second iter() of the unchanged set continues {:?}..", pos, &v[..v.len().min(4)], &rest[..rest.len().min(4)]));
            }
        }
        self.bump(&format!("nexts:{:?}:{}", which, self.tag(i)));
        self.post_check();
    }
    pub fn op_shortcut(&mut self, i: usize, which: It, pos: usize, kind: &str) {
        let before = self.repr_full(i);
        let r = catch_unwind(AssertUnwindSafe(|| alloc::under_test(|| self.slots[i].as_ref().unwrap().shortcut(which, pos, kind))));
        let all = self.slots[i].as_ref().unwrap().items();
        // a consuming iterator is compared with plain iteration of (a clone of) the same iterator
        let (r, plain) = match r.map(detach) {
            Ok((g, p)) => (Ok(g), p),
            Err(x) => (Err(x), None),
        };
        let rest: Vec<u64> = plain.unwrap_or_else(|| all.iter().skip(pos).cloned().collect());
        let want = match kind {
            "min" => S::pick(&rest, false),
            "max" => S::pick(&rest, true),
            "last" => rest.last().cloned(),
            "nth" => rest.get(2).cloned(),
            "fold" => Some(rest.iter().fold(0u64, |a, &x| a.wrapping_mul(31).wrapping_add(x))),
            "skip" => if rest.len() > 1 { rest.last().cloned() } else { None },
            "step" => Some(((rest.len() + 1) / 2) as u64),
            "find" => rest.iter().cloned().find(|x| x & 1 == 1),
            "byref" => Some(rest.len().min(2) as u64 * 1_000_000 + rest.len().saturating_sub(2) as u64),
            _ => Some(rest.len() as u64),
        };
        let modelled = matches!(kind, "min" | "max" | "last" | "count" | "hint");
        match r {
            Ok(got) => {
                let shown = got.map(|x| if kind == "last" || kind == "min" || kind == "max" { S::enc(x) } else { x });
                if modelled && !(S::TYPED && (kind == "min" || kind == "max")) {
                    self.emit(&format!("sc {} {} {} {}", i, pos, kind, shown.map(|x| x.to_string()).unwrap_or("none".into())));
                }
                if got != want {
                    self.fail("C13", format!("{:?} iterator after {} next(): {}() = {:?}, by plain iteration {:?}", which, pos, kind, got, want));
                }
            }
            Err(_) => {
                if modelled {
                    self.emit(&format!("sc {} {} {} P", i, pos, kind));
                }
                self.fail("C13", format!("{:?} iterator after {} next(): {}() panicked", which, pos, kind));
            }
        }
        if self.repr_full(i) != before {
            self.fail("C18", "an iterator method changed the representation".into());
        }
        self.bump(&format!("sc:{}:{:?}:{}", kind, which, self.tag(i)));
        self.post_check();
    }
    pub fn op_drain(&mut self, i: usize, partial: Option<usize>) {
        let dev;
        let r = {
            let s = self.slots[i].as_mut().unwrap();
            alloc::ev_begin();
            let r = match partial {
                None => detach(alloc::under_test(|| s.drain_items())),
                Some(k) => detach(alloc::under_test(|| s.drain_drop(k))),
            };
            dev = alloc::ev_take().unwrap_or_default();
            r
        };
        let s = self.slots[i].as_ref().unwrap();
        if s.len() != 0 || !s.items().is_empty() {
            self.fail("C04", "the set is not empty after drain()".into());
        }
        if partial.is_none() {
            let mut l = format!("drain {} {}", i, r.len());
            for x in &r {
                write!(l, " {}", S::enc(*x)).unwrap();
            }
            let rp = self.repr(i);
            let dev = if self.untraced { String::new() } else { dev };
            self.emit(&format!("{}{} R {}", l, dev, rp));
            let as_set: BTreeSet<u64> = r.iter().cloned().collect();
            if as_set != self.oracle[i] || as_set.len() != r.len() {
                self.fail("C04", format!("drain() yielded {} items ({} distinct), the set had {} members", r.len(), as_set.len(), self.oracle[i].len()));
            }
        } else {
            // a partially consumed drain iterator dropped: the set's block goes with it
            let dev = if self.untraced { String::new() } else { dev };
            self.emit(&format!("drop {}{}", i, dev));
            self.emit(&format!("new {}", i));
        }
        self.oracle[i].clear();
        self.bump("op:drain");
        self.post_check();
    }

    // ---------------------------------------------------------------- == | -
    pub fn op_eq(&mut self, i: usize, j: usize) {
        let (b1, b2, n1) = {
            let (a, b) = (self.slots[i].as_ref().unwrap(), self.slots[j].as_ref().unwrap());
            (a == b, b == a, a != b)
        };
        if n1 == b1 {
            self.fail("C08", format!("`!=` gives {} where `==` gives {}", n1, b1));
        }
        let want = self.oracle[i] == self.oracle[j];
        self.emit(&format!("{} {} {} {}", if S::HAS_OWN_OPS { "eq" } else { "eq64" }, i, j, b1 as u8));
        if let (Some(h1), Some(h2)) = (self.slots[i].as_ref().unwrap().hash_words(), self.slots[j].as_ref().unwrap().hash_words()) {
            let mut l = format!("hash {} {}", i, h1.len());
            for x in &h1 {
                write!(l, " {}", x).unwrap();
            }
            self.emit(&l);
            if want && h1 != h2 {
                self.fail("C08", "equal sets feed different input to a Hasher".into());
            }
            self.bump("op:hash");
        }
        if b1 != want || b2 != want {
            self.fail("C08", format!("== gives {} / {} (swapped) for sets whose members are {}", b1, b2, if want { "the same" } else { "different" }));
        }
        self.bump(&format!("eq:{}{}:{}", self.tag(i), self.tag(j), want as u8));
    }
    pub fn op_debug(&mut self, i: usize) {
        let s = self.slots[i].as_ref().unwrap();
        let d = s.debug_string();
        let want = format!("{} {:?}", S::NAME, s.items());
        if !S::TYPED && d != want {
            self.fail("C08", format!("Debug output {:?} differs from the member list {:?}", d, want));
        }
        if !S::TYPED && d.len() < 4000 && !d.contains('\n') {
            // the text itself goes to the model (`debugStr`): type name, then the list in iteration order
            self.emit(&format!("dbg {} {}", i, d));
        }
        self.bump("op:debug");
    }
    pub fn op_binop(&mut self, k: usize, i: usize, j: usize, union: bool, own: bool) {
        if k == i || k == j || self.slots[i].is_none() || self.slots[j].is_none() {
            return;
        }
        self.slots[k] = None;
        let own = own && S::HAS_OWN_OPS;
        let (bi, bj) = (self.repr_full(i), self.repr_full(j));
        let pushed = self.script_n(i, 6000);
        alloc::ev_begin();
        let r = catch_unwind(AssertUnwindSafe(|| {
            alloc::under_test(|| {
                let (a, b) = (self.slots[i].as_ref().unwrap(), self.slots[j].as_ref().unwrap());
                match (union, own) {
                    (true, false) => S::union_ref(a, b),
                    (true, true) => S::union_own(a.clone(), b),
                    (false, false) => S::diff_ref(a, b),
                    (false, true) => S::diff_own(a.clone(), b),
                }
            })
        }));
        let ev = alloc::ev_take().unwrap_or_default();
        let d = self.script_done(pushed);
        let name = if union { "uni" } else { "dif" };
        match r {
            Ok(s) => {
                let want: BTreeSet<u64> = if union { self.oracle[i].union(&self.oracle[j]).cloned().collect() } else { self.oracle[i].difference(&self.oracle[j]).cloned().collect() };
                self.slots[k] = Some(s);
                self.oracle[k] = want;
                self.hw[k] = self.hw[i].max(self.hw[j]).max(self.oracle[k].len());
                self.hinted[k] = self.hinted[i] || self.hinted[j];
                let rp = self.repr(k);
                self.emit(&format!("{} {} {} {} {}{}{} R {}", name, k, i, j, if own { "own" } else if !S::HAS_OWN_OPS && !union { "ref64" } else if !S::HAS_OWN_OPS { "ref64u" } else { "ref" }, if S::TYPED { "" } else { &ev }, d, rp));
                self.check_set(k, name);
                self.check_members(k, "C09", if union { "union" } else { "difference" });
                if self.repr_full(i) != bi || self.repr_full(j) != bj {
                    self.fail("C09,C18", "a borrowed operand of | or - changed".into());
                }
                self.bump(&format!("op:{}:{}:{}{}", name, if own { "own" } else { "ref" }, self.tag(i), self.tag(j)));
            }
            Err(_) => self.fail("C09", format!("operator {} panicked", name)),
        }
        self.post_check();
    }

    /// the current placeholder, the next candidate for it, or their neighbours (C20)
    pub fn gen_placeholder_value(&mut self, i: usize, regime: u64) -> u64 {
        let w = S::W as u64;
        let heap = self.slots[i].as_ref().and_then(|s| s.repr().1);
        match heap {
            Some((_, cap, bits, a)) if bits == 0 || bits > w => match self.rng.below(5) {
                0 | 1 => S::norm(bits),
                2 => S::norm(det_rand64(cap, bits)),
                3 => {
                    // what the scan would skip to
                    let mut c = det_rand64(cap, bits) & S::max_elem();
                    while c <= w || a.contains(&c) {
                        c = c.wrapping_add(1) & S::max_elem();
                    }
                    c
                }
                _ => S::norm(bits.wrapping_add(1)),
            },
            _ => self.gen_value(i, regime),
        }
    }

    // ---------------------------------------------------------------- value generation
    pub fn gen_value(&mut self, i: usize, regime: u64) -> u64 {
        let w = S::W as u64;
        let mx = S::max_elem();
        let heap = self.slots[i].as_ref().and_then(|s| s.repr().1);
        let mut pick = self.rng.below(16);
        // regimes of small values stay pure most of the time, otherwise every history ends in the plain table
        let small = matches!(regime, 0 | 1 | 2 | 7 | 8 | 9 | 10 | 13 | 14);
        if small && matches!(pick, 1 | 5 | 6) && !self.rng.chance(1, 12) {
            pick = 10;
        }
        let v = match pick {
            0 => self.rng.below(8),
            1 => {
                let k = self.rng.below(w);
                let b = 1u64 << k;
                match self.rng.below(3) {
                    0 => b.wrapping_sub(1),
                    1 => b,
                    _ => b.wrapping_add(1),
                }
            }
            2 | 3 | 4 => {
                // a present value
                let n = self.oracle[i].len() as u64;
                if n == 0 {
                    0
                } else {
                    let k = self.rng.below(n.min(64)) as usize;
                    if self.rng.chance(1, 2) {
                        *self.oracle[i].iter().nth(k).unwrap()
                    } else {
                        *self.oracle[i].iter().rev().nth(k).unwrap()
                    }
                }
            }
            5 => match &heap {
                Some((_, _, bits, _)) if *bits == 0 || *bits > w => *bits, // the placeholder itself
                _ => 0,
            },
            6 => match &heap {
                // the value the next placeholder draw will be (deterministic build), or near the placeholder
                Some((_, cap, bits, _)) if *bits == 0 || *bits > w => {
                    if self.mode == Mode::Det {
                        det_rand64(*cap, *bits)
                    } else {
                        bits.wrapping_add(1)
                    }
                }
                _ => mx,
            },
            7 => match &heap {
                // collides with a present word's slot
                Some((_, cap, bits, a)) if *cap > 0 => {
                    let x = a[self.rng.below(*cap as u64) as usize];
                    if *bits > 0 && *bits < w {
                        match self.rng.below(4) {
                            // the bucket key equal to the capacity: its home slot wraps to 0 although it is the largest key
                            0 => (*cap as u64).wrapping_mul(*bits),
                            1 => (*cap as u64).wrapping_mul(*bits).wrapping_sub(1),
                            _ => ((x >> bits).wrapping_add(*cap as u64)).wrapping_mul(*bits).wrapping_add(self.rng.below(*bits)),
                        }
                    } else {
                        x.wrapping_add(*cap as u64)
                    }
                }
                _ => 7,
            },
            8 => 0,
            9 if regime >= 3 && regime != 9 => mx - self.rng.below(3),
            _ => match regime {
                0 => self.rng.below(64),
                1 => self.rng.below(4000),
                2 => self.rng.below(60) * 1000,
                3 => self.rng.next() >> self.rng.below(64),
                4 => (1u64 << (w - 2)) + self.rng.below(50),
                5 => self.rng.below(300) + self.rng.below(3) * (1 << 20),
                6 => 1u64 << self.rng.below(w),
                7 => self.rng.below(2000),
                8 => self.rng.below(200),
                9 => self.rng.below(500) * 3 + if self.rng.chance(1, 50) { 1 << 16 } else { 0 },
                10 => self.rng.below(20000),
                13 => self.rng.below(1500),
                14 => self.rng.below(700) * 2,
                11 => {
                    // inline field boundaries
                    let f = [7u64, 8, 10, 12, 15, 19, 21, 25, 30, 31, 40, 61][self.rng.below(12) as usize];
                    let b = 1u64 << f.min(w - 1);
                    b.wrapping_add(self.rng.below(3)).wrapping_sub(1)
                }
                _ => self.rng.next(),
            },
        };
        S::norm(v & mx)
    }
}
