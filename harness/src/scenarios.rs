//! Fixed scenarios: replays of past findings and directed histories per profile.
use crate::engine::*;
use crate::uset::*;

pub fn fixed<S: USet>(_e: &mut Eng<S>, _profile: &str) {}
