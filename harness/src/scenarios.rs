//! Directed profiles: inline budget lattice (C10), dense footprints (C12), allocation failure
//! injection (C14), serde / compactserde (C16, C19), determinism (C17), concurrent readers (C18),
//! and the replay corpus of past findings.
use crate::alloc;
use crate::engine::*;
use crate::uset::*;
use std::collections::BTreeSet;
use std::panic::{catch_unwind, AssertUnwindSafe};
use std::sync::atomic::Ordering::SeqCst;

fn splits<S: USet>() -> Vec<Vec<u32>> {
    if S::W == 64 {
        vec![vec![], vec![61], vec![40, 21], vec![31, 15, 15], vec![25, 12, 12, 12], vec![21, 10, 10, 10, 10], vec![21, 8, 8, 8, 8, 8], vec![19, 7, 7, 7, 7, 7, 7]]
    } else {
        vec![vec![], vec![31], vec![31, 30], vec![31, 15, 15], vec![25, 12, 12, 12], vec![21, 10, 10, 10, 10], vec![21, 8, 8, 8, 8, 8]]
    }
}

/// the members for a choice of field values: first field = smallest member, later fields = gap - 1
fn from_fields(f: &[u64]) -> Option<Vec<u64>> {
    let mut v = vec![f[0]];
    for g in &f[1..] {
        let last = *v.last().unwrap();
        v.push(last.checked_add(1)?.checked_add(*g)?);
    }
    Some(v)
}

fn expect_inline<S: USet>(e: &mut Eng<S>, i: usize, what: &str, members: &[u64]) {
    let (heap, cap, mem) = {
        let s = e.slots[i].as_ref().unwrap();
        (s.header().1.is_some(), s.capacity(), s.mem_used())
    };
    let (blocks, _) = alloc::live();
    if heap || cap != 0 || mem != 8 || blocks != 0 {
        e.fail("C10", format!("{}: {:?} is within the inline budget but the set owns heap memory (capacity {}, mem_used {}, {} live blocks)", what, members, cap, mem, blocks));
    }
    e.bump("inline:checked");
}

/// C10: every combination of field-boundary values {0, 1, 2^w - 1} (and, as negative controls, 2^w)
pub fn inline_lattice<S: USet>(e: &mut Eng<S>) {
    let table = splits::<S>();
    for n in 1..table.len() {
        let ws = &table[n];
        let choices = 3usize.pow(n as u32);
        e.begin(&format!("inline-n{}", n));
        for code in 0..choices {
            let mut f = vec![];
            let mut c = code;
            for w in ws {
                let top = (1u64 << w) - 1;
                f.push([0, 1, top][c % 3]);
                c /= 3;
            }
            let members = match from_fields(&f) {
                Some(m) if m.iter().all(|&x| x <= S::max_elem()) => m,
                _ => continue,
            };
            e.step += 1;
            // collect, in a scrambled order with a duplicate
            let mut scr = members.clone();
            scr.reverse();
            scr.push(members[0]);
            e.op_collect(0, &scr);
            if e.slots[0].is_some() {
                expect_inline(e, 0, "collect()", &members);
            }
            // ascending insertion: inline after every step
            e.op_new(1);
            for (k, &x) in members.iter().enumerate() {
                e.op_ins(1, x);
                expect_inline(e, 1, "ascending insertion", &members[..=k]);
            }
            // removals whose result stays within budget: remove the largest (prefix: in budget by
            // width monotonicity), then check the documented condition for the others
            // (every set of up to three members, every set whose first field is at its top — removing its
            // minimum can push the rest OUT of the budget, the one case in which `remove` builds a heap set —,
            // and a seventh of the others)
            if n > 1 && (n <= 3 || f[0] > 1 || code % 7 == 0) {
                for k in 0..n {
                    let rest: Vec<u64> = members.iter().cloned().filter(|&x| x != members[k]).collect();
                    let m = rest.len();
                    let wsm = &table[m];
                    let mut ok = rest[0] < (1u64 << wsm[0]);
                    for j in 1..m {
                        ok &= rest[j] - rest[j - 1] - 1 < (1u64 << wsm[j]);
                    }
                    e.op_clone(2, 0);
                    e.op_rem(2, members[k]);
                    if ok {
                        expect_inline(e, 2, "removal", &rest);
                    }
                    e.op_drop(2);
                    // the same removal through the difference operators (the by-value form is a remove loop)
                    if k == 0 || code % 5 == 0 {
                        e.op_collect(3, &[members[k]]);
                        e.op_binop(4, 0, 3, false, true);
                        e.op_binop(5, 0, 3, false, false);
                        e.op_drop(3);
                        e.op_drop(4);
                        e.op_drop(5);
                    }
                }
            }
            // the lattice set as the RIGHT operand of the difference operators (membership tests against an
            // inline set whose later members exceed the first field's width), and as both operands of a union
            if code % 3 == 2 || n <= 2 {
                let mut sup = members.clone();
                sup.push(S::norm(members[members.len() - 1].wrapping_add(5)));
                sup.push(S::norm(3));
                e.op_collect(3, &sup);
                e.op_binop(4, 3, 0, false, false);
                e.op_binop(5, 3, 0, false, true);
                e.op_binop(6, 0, 1, true, false);
                e.op_drop(3);
                e.op_drop(4);
                e.op_drop(5);
                e.op_drop(6);
            }
            e.op_drop(0);
            e.op_drop(1);
        }
        // negative controls: one field one past its width must NOT corrupt anything (it goes to the heap)
        for j in 0..n {
            let mut f: Vec<u64> = ws.iter().map(|_| 1).collect();
            f[j] = 1u64 << ws[j];
            if let Some(m) = from_fields(&f) {
                if m.iter().all(|&x| x <= S::max_elem()) {
                    e.op_collect(0, &m);
                    e.op_new(1);
                    for &x in &m {
                        e.op_ins(1, x);
                    }
                    e.check_members(1, "C10,C01,C02", "just outside the inline budget");
                    e.op_drop(0);
                    e.op_drop(1);
                }
            }
        }
    }
}

/// C12: the set 0..n built by collect / ascending / other orders; allocator-observed bytes
pub fn dense_footprints<S: USet>(e: &mut Eng<S>, hists: usize) {
    let mut ns: Vec<u64> = vec![64, 65, 127, 128, 129, 191, 192, 193, 255, 256, 257, 1000, 1023, 1024, 1025, 4095, 4096, 4097];
    if hists > 20 {
        ns.extend_from_slice(&[65535, 65536, 65537, 100000]);
    }
    if hists > 200 {
        ns.extend_from_slice(&[1 << 18, (1 << 20) - 1, (1 << 20) + 1, 3 << 20, 1 << 22]);
    }
    for _ in 0..(hists / 4).min(24) {
        let n = 64 + e.rng.below(if hists > 200 { 1 << 18 } else { 20000 });
        ns.push(n);
    }
    for (hn, &n) in ns.iter().enumerate() {
        let quiet = n > 1500;
        for order in 0..8 {
            if n > (1 << 18) && !matches!(order, 0 | 1 | 3 | 6) {
                continue;
            }
            e.begin(&format!("dense-n{}-o{}-{}", n, order, hn));
            let saved = e.mode;
            if quiet && e.mode != Mode::Unscripted {
                e.quiet = true;
                // large builds: a dense insert draws at most a few values; keep the per-step script short
                e.script_len = 64;
            }
            let seq: Vec<u64> = match order {
                0 | 1 => (0..n).collect(),
                2 => (0..n).rev().collect(),
                3 => {
                    let mut v: Vec<u64> = (0..n).collect();
                    for k in (1..v.len()).rev() {
                        let j = e.rng.below(k as u64 + 1) as usize;
                        v.swap(k, j);
                    }
                    v
                }
                4 => {
                    let stride = [7u64, 64, 1000, 4099][e.rng.below(4) as usize];
                    let mut v = vec![];
                    for s in 0..stride {
                        let mut x = s;
                        while x < n {
                            v.push(x);
                            x += stride;
                        }
                    }
                    v
                }
                5 => {
                    // outside-in
                    let mut v = vec![];
                    let (mut lo, mut hi) = (0u64, n - 1);
                    while lo < hi {
                        v.push(lo);
                        v.push(hi);
                        lo += 1;
                        hi -= 1;
                    }
                    if lo == hi {
                        v.push(lo);
                    }
                    v
                }
                6 => {
                    // a prefix, the maximum, then the rest
                    let m = 1 + e.rng.below(n - 1);
                    let mut v: Vec<u64> = (0..m).collect();
                    v.push(n - 1);
                    v.extend(m..n - 1);
                    v
                }
                _ => {
                    // inside-out
                    let mut v = vec![];
                    let mid = n / 2;
                    for k in 0..=mid {
                        if mid + k < n {
                            v.push(mid + k);
                        }
                        if k > 0 && mid >= k {
                            v.push(mid - k);
                        }
                    }
                    v
                }
            };
            e.check_c11 = true;
            let t_start = std::time::Instant::now();
            if order == 0 {
                e.op_collect(0, &seq);
            } else {
                e.op_new(0);
                // fix the growth style for the whole build: minimal, maximal or random
                // (minimal growth makes the crate rebuild the table once per new bucket: quadratic, so only for small n)
                e.draw_style = if n > (1 << 14) { [1, 4][e.rng.below(2) as usize] } else { [0, 1, 4, 4][e.rng.below(4) as usize] };
                e.force_style = Some(e.draw_style);
                for &x in &seq {
                    e.op_ins(0, x);
                    // ascending insertion passes through "exactly 0..m" for every m on the way: each is an instance
                    if order == 1 && x + 1 >= 64 {
                        let m = x + 1;
                        let b = alloc::live().1 as u64;
                        if b > m / 4 + 64 {
                            e.fail("C12", format!("0..{} built by ascending insertion: the set owns {} heap bytes, more than 2 bits per member + 64 bytes ({})", m, b, m / 4 + 64));
                            break;
                        }
                    }
                }
            }
            let (_, bytes) = alloc::live();
            let s = e.slots[0].as_ref().unwrap();
            if s.len() as u64 != n {
                e.fail("C12,C01,C02", format!("0..{} built in order {}: len() = {}", n, order, s.len()));
            }
            let bytes = bytes as u64;
            if order <= 1 {
                if bytes > n / 4 + 64 {
                    e.fail("C12", format!("0..{} built by {}: the set owns {} heap bytes, more than 2 bits per member + 64 bytes ({})", n, if order == 0 { "collect()" } else { "ascending insertion" }, bytes, n / 4 + 64));
                }
            } else if bytes > 2 * n + 256 {
                e.fail("C12", format!("0..{} inserted in order {}: the set owns {} heap bytes, more than 2 bytes per member + 256 ({})", n, order, bytes, 2 * n + 256));
            }
            e.bump(&format!("dense:order{}", order));
            if n >= (1 << 16) && std::env::var("TS_TIMING").is_ok() {
                eprintln!("HTIME n={} order={} style={} ms={}", n, order, e.draw_style, t_start.elapsed().as_millis());
            }
            e.quiet = false;
            e.mode = saved;
            if n <= 1500 {
                crate::profiles::audit(e, 0, false);
            }
            e.op_drop(0);
        }
        // collect() from iterators that yield members more than once still builds "exactly 0..n"
        if n <= (1 << 18) {
            for rep in [2u64, 3] {
                e.begin(&format!("dense-n{}-collect-x{}-{}", n, rep, hn));
                if quiet && e.mode != Mode::Unscripted {
                    e.quiet = true;
                    e.script_len = 64;
                }
                let seq: Vec<u64> = (0..rep).flat_map(|_| 0..n).collect();
                e.check_c11 = true;
                e.op_collect(0, &seq);
                let bytes = alloc::live().1 as u64;
                if e.slots[0].as_ref().unwrap().len() as u64 != n {
                    e.fail("C12,C05", format!("0..{} collected from a sequence repeating it {} times: len() = {}", n, rep, e.slots[0].as_ref().unwrap().len()));
                }
                if bytes > n / 4 + 64 {
                    e.fail("C12", format!("0..{} built by collect() from a sequence repeating every member {} times: the set owns {} heap bytes, more than 2 bits per member + 64 bytes ({})", n, rep, bytes, n / 4 + 64));
                }
                e.quiet = false;
                e.op_drop(0);
            }
        }
    }
}

/// C14: fail every allocation the operation makes, one at a time, on a clone of the set
pub fn fail_injection<S: USet>(e: &mut Eng<S>, hists: usize, steps: usize) {
    for h in 0..hists {
        let regime = [0u64, 1, 2, 3, 4, 5, 6, 9, 10, 11][h % 10];
        e.begin(&format!("fail-{}-r{}", h, regime));
        e.op_new(0);
        // directed prologue (first histories): inline sets whose maximum sits on a dense-word boundary, then one more small value
        let mut forced: Vec<(u64, u64)> = vec![];
        if h < 12 {
            let mx = [63u64, 64, 65, 127, 128, 129, 191, 192, 193, 255, 256, 1023][h];
            let k = if S::W == 64 { 6 } else { 5 };
            for x in 0..k {
                e.op_ins(0, x);
            }
            e.op_ins(0, mx);
            forced.push((0, k));
        } else {
            // a small inline set, then an extend that has to leave the word (the wrappers may route `extend`
            // of an inline set through another path than the insert loop)
            forced.push((10, 7));
            forced.push((0, 3));
            forced.push((0, 1));
        }
        for _ in 0..steps {
            e.step += 1;
            let mut v = e.gen_value(0, regime);
            if let Some(f) = forced.last() {
                v = f.1;
            }
            let kind = if let Some(k) = forced.pop() { k.0 } else { e.rng.below(13) };
            let ext_n: u64 = [5, 5, 18, 40][e.rng.below(4) as usize];
            // dry run on a clone: how many allocations does the op request?
            let probe = |s: &mut S, kind: u64, v: u64| -> bool {
                match kind {
                    0..=6 => s.ins(v),
                    7 => s.rem(v),
                    8 => {
                        let c = s.clone();
                        drop(c);
                        true
                    }
                    9 => {
                        let w = S::wco(s);
                        drop(w);
                        true
                    }
                    10 => {
                        // extend by a few (or a few dozen: bulk paths) values around v (several inserts, possibly several growths)
                        let vs: Vec<u64> = (0..ext_n).map(|k| S::norm(v.wrapping_add(k * 1000))).collect();
                        s.extend(&vs);
                        true
                    }
                    11 => {
                        let u = S::union_ref(s, s);
                        drop(u);
                        true
                    }
                    _ => {
                        let u = S::diff_ref(s, s);
                        drop(u);
                        true
                    }
                }
            };
            let before = e.repr(0);
            // scripted draws must be identical for the dry run and every faulted run
            let draws: Vec<u64> = (0..48).map(|_| e.rng.next()).collect();
            let push = |dr: &Vec<u64>| {
                #[cfg(feature = "rand")]
                {
                    tinyset::verif_rand::clear();
                    for &d in dr {
                        tinyset::verif_rand::push(d);
                    }
                }
                let _ = dr;
            };
            #[cfg(not(feature = "rand"))]
            let seed0 = tinyset::verif_rand::seed();
            let mut c0 = e.slots[0].as_ref().unwrap().clone();
            push(&draws);
            alloc::ZEROED_ALLOCS.store(0, SeqCst);
            let _ = alloc::under_test(|| probe(&mut c0, kind, v));
            let nalloc = alloc::ZEROED_ALLOCS.load(SeqCst);
            drop(c0);
            // draws the unfaulted run consumed (scripted build): the model needs them to run the whole insert
            #[cfg(feature = "rand")]
            let used_draws: Vec<u64> = {
                let left = tinyset::verif_rand::clear();
                draws[..draws.len() - left.min(draws.len())].to_vec()
            };
            #[cfg(not(feature = "rand"))]
            let used_draws: Vec<u64> = vec![];
            // what the set holds after each failed request of an insert, for the model's failure states
            let mut after_fail: Vec<String> = vec![];
            for k in 0..nalloc.min(6) {
                let (lb0, _) = alloc::live();
                let mut c = e.slots[0].as_ref().unwrap().clone();
                let cb = repr_string(&c);
                push(&draws);
                #[cfg(not(feature = "rand"))]
                tinyset::verif_rand::set_seed(seed0);
                alloc::FAIL_ZEROED_AT.store(k as i64, SeqCst);
                let r = catch_unwind(AssertUnwindSafe(|| alloc::under_test(|| probe(&mut c, kind, v))));
                let fired = alloc::FAIL_ZEROED_AT.swap(-1, SeqCst) < 0;
                e.bump("fail:injected");
                if !fired {
                    // the op took another path (e.g. different address-dependent behaviour); nothing failed
                    continue;
                }
                // the panic payload is itself a heap block: release it before looking at the ledger
                let panicked = r.is_err();
                drop(r);
                match panicked {
                    false => e.fail("C14", format!("operation kind {} value {} returned normally although allocation #{} failed (set {})", kind, v, k, before)),
                    true => {
                        e.bump("fail:panicked");
                        let ca = repr_string(&c);
                        after_fail.push(ca.clone());
                        let same_members = {
                            let a: BTreeSet<u64> = c.items().into_iter().collect();
                            a == e.oracle[0] && c.len() == e.oracle[0].len()
                        };
                        if ca != cb {
                            // allowed: e.g. the placeholder was re-chosen before the failing growth; contents must be equal
                            e.bump("fail:representation-changed-contents-equal");
                        }
                        if kind == 10 {
                            // extend is a loop of inserts: what was inserted before the failing insert stays
                            let now: BTreeSet<u64> = c.items().into_iter().collect();
                            let vs: BTreeSet<u64> = (0..ext_n).map(|k| S::norm(v.wrapping_add(k * 1000))).collect();
                            let upper: BTreeSet<u64> = e.oracle[0].union(&vs).cloned().collect();
                            if !(e.oracle[0].is_subset(&now) && now.is_subset(&upper) && c.len() == now.len()) {
                                e.fail("C14", format!("after a caught allocation failure inside extend the set holds neither its prior contents nor a prefix of the extension (allocation #{}, value {})", k, v));
                            }
                        }
                        if kind <= 7 && !same_members {
                            e.fail("C14", format!("after a caught allocation failure (allocation #{} of op kind {} value {}) the set changed: before {} after {}", k, kind, v, cb, ca));
                        }
                        // still usable: the same operation now succeeds with the right answer
                        push(&draws);
                        let want = match kind {
                            0..=6 => !e.oracle[0].contains(&S::norm(v)),
                            7 => e.oracle[0].contains(&S::norm(v)),
                            _ => true,
                        };
                        match catch_unwind(AssertUnwindSafe(|| alloc::under_test(|| probe(&mut c, kind, v)))) {
                            Ok(b) if b == want => {}
                            Ok(b) => e.fail("C14", format!("after a caught allocation failure the retried op kind {} value {} returned {} instead of {}", kind, v, b, want)),
                            Err(_) => e.fail("C14", format!("after a caught allocation failure the retried op kind {} value {} panicked", kind, v)),
                        }
                    }
                }
                drop(c);
                // everything the faulted run and the retry allocated must be gone with the clone
                let (lb1, _) = alloc::live();
                if lb1 != lb0 {
                    e.fail("C14,C06", format!("{} blocks leaked after a caught allocation failure in op kind {} value {} (allocation #{} failed)", lb1 - lb0, kind, v, k));
                    alloc::OP_LIVE_BLOCKS.store(lb0, SeqCst);
                }
            }
            #[cfg(feature = "rand")]
            tinyset::verif_rand::clear();
            #[cfg(not(feature = "rand"))]
            tinyset::verif_rand::set_seed(seed0);
            // (typed wrappers: `Set64<T>::insert` / `extend` are `SetU64::insert` under `to_u64`; values go out encoded)
            if kind <= 6 && nalloc <= 6 && after_fail.len() as u64 == nalloc as u64 {
                let mut l = format!("flt 0 {} {}", S::enc(S::norm(v)), nalloc);
                if e.mode == crate::engine::Mode::Script {
                    l.push_str(" D");
                    for d in &used_draws {
                        l.push_str(&format!(" {}", d));
                    }
                }
                l.push_str(" R");
                for (k, r) in after_fail.iter().enumerate() {
                    if k > 0 {
                        l.push_str(" |");
                    }
                    l.push(' ');
                    l.push_str(r);
                }
                e.emit(&l);
                e.bump(&format!("flt:requests:{}", nalloc));
            }
            if kind == 10 && nalloc <= 6 && after_fail.len() as u64 == nalloc as u64 {
                let vs: Vec<u64> = (0..ext_n).map(|k| S::norm(v.wrapping_add(k * 1000))).collect();
                let mut l = format!("flx 0 {}", vs.len());
                for x in &vs {
                    l.push_str(&format!(" {}", S::enc(*x)));
                }
                l.push_str(&format!(" {}", nalloc));
                if e.mode == crate::engine::Mode::Script {
                    l.push_str(" D");
                    for d in &used_draws {
                        l.push_str(&format!(" {}", d));
                    }
                }
                l.push_str(" R");
                for (k, r) in after_fail.iter().enumerate() {
                    if k > 0 {
                        l.push_str(" |");
                    }
                    l.push(' ');
                    l.push_str(r);
                }
                e.emit(&l);
                e.bump(&format!("flx:requests:{}", nalloc));
            }
            // the real step, recorded in the trace
            match kind {
                0..=6 => e.op_ins(0, v),
                7 => e.op_rem(0, v),
                10 => {
                    let vs: Vec<u64> = (0..ext_n).map(|k| S::norm(v.wrapping_add(k * 1000))).collect();
                    e.op_extend(0, &vs);
                }
                _ => e.op_con(0, v),
            }
            if e.slots[0].as_ref().unwrap().capacity() > 300 {
                break;
            }
        }
        e.op_drop(0);
    }
}

/// C18: concurrent readers on shared sets give the single-threaded answers
pub fn readers<S: USet>(e: &mut Eng<S>, i: usize) {
    readers_n(e, i, 20)
}

/// `rounds` read-only operations per thread; large sets get more so that a transient write inside a
/// long scan is overlapped by other readers with high probability
pub fn readers_n<S: USet>(e: &mut Eng<S>, i: usize, rounds: usize) {
    let s = match e.slots[i].take() {
        Some(s) => s,
        None => return,
    };
    let before = repr_string(&s);
    let items = s.items();
    let top = (s.capacity() as u64).saturating_sub(1).saturating_mul(64);
    let probes: Vec<u64> = items.iter().cloned().take(50).chain(items.iter().rev().cloned().take(8)).chain((0..30).map(|k| k * 7919))
        .chain((0..64).map(|b| S::norm(top.saturating_add(b)))).collect();
    let answers: Vec<bool> = probes.iter().map(|&p| s.con(p)).collect();
    let (len, cap, mem) = (s.len(), s.capacity(), s.mem_used());
    let bad = std::sync::atomic::AtomicUsize::new(0);
    let walkers_left = std::sync::atomic::AtomicUsize::new(2);
    std::thread::scope(|sc| {
        for t in 0..6 {
            let (s, items, probes, answers, bad, walkers_left) = (&s, &items, &probes, &answers, &bad, &walkers_left);
            sc.spawn(move || {
                let mut round = 0;
                loop {
                    // beyond the default 20 rounds the roles are fixed per thread, so that walkers and
                    // probers overlap all the time: threads 0,3 walk, 1,4 probe until the walkers are done
                    let intense = rounds > 20;
                    if intense && matches!(t, 1 | 4) {
                        if walkers_left.load(SeqCst) == 0 {
                            break;
                        }
                    } else if round >= rounds || (intense && matches!(t, 2 | 5) && round >= rounds / 8) {
                        if intense && matches!(t, 0 | 3) {
                            walkers_left.fetch_sub(1, SeqCst);
                        }
                        break;
                    }
                    round += 1;
                    let kind = if !intense { (t + round) % 6 } else { match t { 0 | 3 => 1, 1 | 4 => if round % 16 == 0 { 4 } else { 0 }, 2 => 3, _ => 5 } };
                    let ok = match kind {
                        0 => probes.iter().zip(answers.iter()).all(|(&p, &a)| s.con(p) == a),
                        1 => &s.items() == items,
                        2 => s.len() == len && s.capacity() == cap && s.mem_used() == mem && s.is_empty() == (len == 0),
                        3 => {
                            let c = s.clone();
                            &c == s && &c.items() == items
                        }
                        4 => s.shortcut(It::Iter, 0, "max").0 == items.iter().cloned().max() && s.shortcut(It::Iter, 0, "last").0 == items.last().cloned(),
                        _ => {
                            let u = S::union_ref(s, s);
                            let d = S::diff_ref(s, s);
                            let w = S::wco(s);
                            u.len() == len && d.len() == 0 && w.len() == 0 && !s.debug_string().is_empty()
                        }
                    };
                    if !ok {
                        bad.fetch_add(1, SeqCst);
                    }
                }
            });
        }
    });
    if bad.load(SeqCst) > 0 {
        e.fail("C18", format!("{} concurrent read rounds disagreed with the single-threaded answers", bad.load(SeqCst)));
    }
    if repr_string(&s) != before {
        e.fail("C18", "the representation changed under concurrent shared-reference operations".into());
    }
    e.bump("readers:rounds");
    e.slots[i] = Some(s);
    // the per-thread clones were not allocated under the ledger's attribution; nothing to reconcile
}

/// C16 / C19: serialise slot i with serde_json, compare with the model, deserialise into slot k
#[cfg(any(feature = "serde", feature = "compactserde"))]
pub fn serde_roundtrip<S: USet>(e: &mut Eng<S>, i: usize, k: usize) {
    use std::fmt::Write;
    if e.slots[i].is_none() || i == k {
        return;
    }
    let js = e.slots[i].as_ref().unwrap().to_json();
    if S::TYPED && !cfg!(feature = "compactserde") {
        if let Some(want) = S::json_of_items(&e.slots[i].as_ref().unwrap().items()) {
            if want != js {
                e.fail("C16", format!("the serialised form {} is not the plain member sequence {}", js.chars().take(80).collect::<String>(), want.chars().take(80).collect::<String>()));
            }
            match S::from_json(&js) {
                Ok(b) => {
                    if &b != e.slots[i].as_ref().unwrap() {
                        e.fail("C16", "typed round trip through serde yields a different set".into());
                    }
                }
                Err(err) => e.fail("C16", format!("deserialising what was just serialised failed: {}", err)),
            }
            e.bump("serde:typed");
            return;
        }
    }
    let parsed: Result<Vec<u64>, _> = js.trim_matches(|c| c == '[' || c == ']').split(',').filter(|x| !x.is_empty()).map(|x| x.trim().parse::<u64>()).collect();
    let nums = match parsed {
        Ok(n) => n,
        Err(_) => {
            e.fail("C16,C19", format!("the serialised form is not a plain sequence of unsigned members: {}", js.chars().take(80).collect::<String>()));
            return;
        }
    };
    let mut l = String::new();
    for x in &nums {
        write!(l, " {}", x).unwrap();
    }
    e.slots[k] = None;
    let pushed = e.script_n(k, 6000);
    let back = alloc::under_test(|| S::from_json(&js));
    let dr = e.script_done(pushed);
    match back {
        Err(err) => e.fail("C16,C19", format!("deserialising what was just serialised failed: {}", err)),
        Ok(b) => {
            if &b != e.slots[i].as_ref().unwrap() {
                e.fail("C16,C19", format!("round trip through serde yields a different set: {:?} became {:?}", e.slots[i].as_ref().unwrap().items().iter().take(6).collect::<Vec<_>>(), b.items().iter().take(6).collect::<Vec<_>>()));
            }
            if cfg!(feature = "compactserde") {
                e.emit(&format!("toarr {} {}{}", i, nums.len(), l));
                e.slots[k] = Some(b);
                let rp = e.repr(k);
                e.emit(&format!("fromarr {} {}{}{} R {}", k, nums.len(), l, if dr.is_empty() { " D".to_string() } else { dr.clone() }, rp));
            } else {
                // the default encoding is the member sequence in iteration order
                e.emit(&format!("iter {} {}{}", i, nums.len(), l));
                if nums.len() != e.slots[i].as_ref().unwrap().len() {
                    e.fail("C16", format!("the serialised sequence has {} entries for a set of {} members", nums.len(), e.slots[i].as_ref().unwrap().len()));
                }
                e.slots[k] = Some(b);
                // deserialisation = inserting one at a time into a new set
                let rp = e.repr(k);
                e.emit(&format!("new {}", k));
                e.emit(&format!("ext {} {}{}{} R {}", k, nums.len(), l, dr, rp));
            }
            e.oracle[k] = e.oracle[i].clone();
            e.hw[k] = e.hw[i];
            e.hinted[k] = true;
            e.check_members(k, "C16,C19", "deserialised set");
            e.bump(&format!("serde:{}", e.tag(i)));
        }
    }
    e.post_check();
}

/// C16: deserialising an arbitrary sequence (any order, duplicates) yields the set of its distinct items
#[cfg(all(feature = "serde", not(feature = "compactserde")))]
pub fn serde_sequence<S: USet>(e: &mut Eng<S>, k: usize, v: &[u64]) {
    if S::TYPED {
        // a plain sequence in the element type's notation, any order, with duplicates
        let v: Vec<u64> = v.iter().map(|&x| S::norm(x)).collect();
        if let Some(js) = S::json_of_items(&v) {
            match S::from_json(&js) {
                Ok(b) => {
                    let got: BTreeSet<u64> = b.items().into_iter().collect();
                    let want: BTreeSet<u64> = v.iter().cloned().collect();
                    if got != want || b.len() != want.len() {
                        e.fail("C16", format!("deserialising the sequence {} gives {} members instead of its {} distinct items", js.chars().take(60).collect::<String>(), b.len(), want.len()));
                    }
                }
                Err(err) => e.fail("C16", format!("deserialising a plain sequence failed: {}", err)),
            }
            e.bump("serde:typed-sequence");
        }
        return;
    }
    let js = format!("[{}]", v.iter().map(|x| x.to_string()).collect::<Vec<_>>().join(","));
    e.slots[k] = None;
    let pushed = e.script_n(k, 6000);
    let res = alloc::under_test(|| S::from_json(&js));
    let dr = e.script_done(pushed);
    match res {
        Err(err) => e.fail("C16", format!("deserialising a plain sequence failed: {}", err)),
        Ok(b) => {
            e.slots[k] = Some(b);
            {
                use std::fmt::Write;
                let mut l = String::new();
                for x in v {
                    write!(l, " {}", x).unwrap();
                }
                let rp = e.repr(k);
                e.emit(&format!("new {}", k));
                e.emit(&format!("ext {} {}{}{} R {}", k, v.len(), l, dr, rp));
            }
            e.oracle[k] = v.iter().cloned().collect();
            e.hw[k] = e.oracle[k].len();
            e.hinted[k] = true;
            e.check_members(k, "C16", "deserialised sequence");
            let l = e.slots[k].as_ref().unwrap().len();
            if l != e.oracle[k].len() {
                e.fail("C16", format!("deserialised sequence: len {} for {} distinct items", l, e.oracle[k].len()));
            }
            e.bump("serde:sequence");
        }
    }
    e.post_check();
}

/// boundary sizes and repetition patterns that random short histories do not reach
pub fn sizes<S: USet>(e: &mut Eng<S>, thorough: bool) {
    // collect / extend of exactly n distinct small values, n around 255..257, 511..513, 1023..1025 (and 65535.. in thorough)
    let mut ns: Vec<u64> = (250..=264).chain(508..=516).chain(1022..=1026).collect();
    if thorough {
        ns.extend(65530..=65542);
    }
    for &n in &ns {
        e.begin(&format!("sizes-collect-{}", n));
        let v: Vec<u64> = (0..n).map(|k| (k * 7919) % n).collect(); // a permutation-like order with all of 0..n
        let mut w: Vec<u64> = (0..n).collect();
        w.reverse();
        e.op_collect(0, &w);
        e.op_new(1);
        e.op_extend(1, &v);
        e.op_eq(0, 1);
        e.op_obs(0);
        e.op_iter(0);
        // the same number of distinct values, sparse, with one far outlier
        let sp: Vec<u64> = (0..n).map(|k| k * 97).chain(std::iter::once(S::max_elem() - 3)).collect();
        e.op_collect(2, &sp);
        e.op_obs(2);
    }
    // heavy repetition: thousands of items, few distinct values
    for (distinct, reps, top) in [(10u64, 300u64, 40_000u64), (60, 50, 40_000), (258, 12, 5000), (5, 2000, 3_000_000 & S::max_elem())] {
        e.begin(&format!("sizes-repeat-{}x{}", distinct, reps));
        let mut v = vec![];
        for r in 0..reps {
            for k in 0..distinct {
                v.push((k * (top / distinct) + (r % 2) * 0) & S::max_elem());
            }
        }
        e.op_collect(0, &v);
        e.op_obs(0);
        e.op_new(1);
        e.op_extend(1, &v);
        e.op_eq(0, 1);
    }
    // one big batch (above any plausible bulk-path threshold): sparse values, collect vs extend vs insert loop
    for n in [20_000u64, 70_000] {
        if n > 20_000 && !thorough {
            continue;
        }
        e.begin(&format!("sizes-bulk-{}", n));
        // large or random growth draws only: with minimal growth steps (draws 0 / <= W) the one-at-a-time
        // build makes hundreds of rebuilds of a 20 000-member table, which the crate does in a second and
        // the model in minutes
        e.force_style = Some(if e.rng.chance(1, 2) { 1 } else { 4 });
        let v: Vec<u64> = (0..n).map(|k| S::norm(k.wrapping_mul(0x9E3779B97F4A7C15) >> 20)).collect();
        e.op_collect(0, &v);
        e.op_new(1);
        e.op_extend(1, &v);
        e.op_eq(0, 1);
        e.op_obs(1);
        e.op_iter(1);
        #[cfg(any(feature = "serde", feature = "compactserde"))]
        {
            serde_roundtrip(e, 1, 4);
            #[cfg(all(feature = "serde", not(feature = "compactserde")))]
            serde_sequence(e, 5, &v);
        }
        e.op_drop(0);
        e.op_drop(1);
    }
    // a large dense set grown in place, cloned, drained, dropped (block sizes beyond a page)
    for n in [40_000u64, 70_000] {
        e.begin(&format!("sizes-bigdense-{}", n));
        e.quiet = true;
        e.script_len = 16;
        let v: Vec<u64> = (0..n).collect();
        e.op_collect(0, &v);
        for x in [n + 10, n + 5000, n + 5001, 2 * n, 2 * n + 64, 3 * n] {
            e.op_ins(0, x);
        }
        e.op_clone(1, 0);
        e.op_ins(1, 4 * n);
        e.op_rem(0, 17);
        e.op_eq(0, 1);
        e.op_binop(4, 0, 1, true, false);
        e.op_drain(1, Some(100));
        e.op_drop(4);
        e.op_drop(0);
        e.op_drop(1);
        e.quiet = false;
    }
}

pub fn fixed<S: USet>(e: &mut Eng<S>, profile: &str) {
    // the size scenarios are the same for every seed: additional seeds of one check skip them (TS_SKIP_SIZES)
    if matches!(profile, "collect" | "mem" | "alloc" | "det" | "serde" | "compact") && std::env::var("TS_SKIP_SIZES").is_err() {
        sizes(e, false);
    }
    if matches!(profile, "collect" | "alloc") {
        // a whole batch arriving at a dense set: the batch's maximum lies beyond the current bitmap (by a little, by a
        // lot, exactly at the next word), the batch is ascending / descending / holds members already present; the
        // receiver was collected or built one at a time; then the same through single inserts
        for (name, n, lo, hi) in [("next-word", 100u64, 100u64, 200u64), ("boundary", 96, 96, 129), ("overlap", 200, 150, 420),
                                  ("far", 300, 2000, 2100), ("one-item", 64, 127, 128), ("wide", 500, 500, 3000)] {
            for variant in 0..3 {
                e.begin(&format!("dense-extend-{}-{}", name, variant));
                let base: Vec<u64> = (0..n).collect();
                if variant == 1 {
                    e.op_new(0);
                    for &x in &base {
                        e.op_ins(0, x);
                    }
                } else {
                    e.op_collect(0, &base);
                }
                let mut batch: Vec<u64> = (lo..hi).collect();
                if variant == 2 {
                    batch.reverse();
                    batch.push(n / 2);
                    batch.push(lo);
                }
                e.op_clone(1, 0);
                e.op_extend(0, &batch);
                e.op_obs(0);
                for &x in &batch {
                    e.op_ins(1, x);
                }
                e.op_eq(0, 1);
                e.op_iter(0);
                e.op_extend(0, &[hi + 40, hi + 41]);
                e.op_rem(0, hi - 1);
                e.op_obs(0);
                e.op_drop(0);
                e.op_drop(1);
            }
        }
    }
    if profile == "eqops" {
        // the same members reached through different layouts and insertion orders: == and Hash must agree
        for (name, start, n, stride) in [("run300", 1024u64, 300u64, 1u64), ("run1000", 100_000, 1000, 1), ("run90", 5000, 90, 1), ("stride", 2000, 200, 3), ("lowrun", 0, 400, 1)] {
            e.begin(&format!("hash-layouts-{}", name));
            let v: Vec<u64> = (0..n).map(|k| S::norm(start + k * stride)).collect();
            e.op_new(0);
            for &x in &v {
                e.op_ins(0, x);
            }
            e.op_new(1);
            for &x in v.iter().rev() {
                e.op_ins(1, x);
            }
            e.op_collect(2, &v);
            e.op_new(3);
            e.op_extend(3, &v);
            e.op_new(4);
            for k in 0..n {
                e.op_ins(4, v[((k * 7919) % n) as usize]);
            }
            e.op_ins(4, S::norm(start + n * stride + 77));
            e.op_rem(4, S::norm(start + n * stride + 77));
            for i in 0..5 {
                for j in 0..5 {
                    if i < j {
                        e.op_eq(i, j);
                    }
                }
            }
            for k in 0..5 {
                e.op_drop(k);
            }
        }
    }
    if profile == "eqops" {
        // equal members, same table shape, different bucket order: a clone in which members are removed and re-inserted
        // (Robin-Hood tables are not canonical: keys sharing a home slot sit in insertion order); and the member
        // `capacity * bits` of a bitmap table, whose bucket wraps to slot 0 although it is the largest
        for (name, vals) in [
            ("bitmap23", (0..9u64).map(|k| 23 * [1u64, 3, 4, 5, 6, 7, 8, 12, 2][k as usize]).chain([1u64 << (S::W / 2 + 6)]).collect::<Vec<u64>>()),
            ("bitmap-spread", (0..24u64).map(|k| 1000 + k * 977).collect()),
            ("plain", (0..20u64).map(|k| (1u64 << (S::W - 1)) + k * 7919).chain([0u64]).collect()),
            ("bitmap54", (1..9u64).map(|k| 54 * k).collect()),
        ] {
            e.begin(&format!("eq-same-shape-{}", name));
            let vals: Vec<u64> = vals.iter().map(|&x| S::norm(x)).collect();
            e.op_collect(0, &vals);
            e.op_clone(1, 0);
            for &x in vals.iter().take(6) {
                e.op_rem(1, x);
                e.op_ins(1, x);
                e.op_eq(0, 1);
            }
            // the boundary member cap*bits (when the set is a bitmap table), against the same members in another shape
            if let Some((_, Some((_, cap, bits, _)))) = e.slots[0].as_ref().map(|s| s.repr()) {
                if bits > 0 && bits < S::W as u64 {
                    let v = S::norm((cap as u64).wrapping_mul(bits));
                    e.op_ins(0, v);
                    let mut all: Vec<u64> = vals.clone();
                    all.push(v);
                    let extra = S::norm(v.wrapping_add(9 * bits).wrapping_add(1));
                    all.push(extra);
                    e.op_collect(2, &all);
                    e.op_rem(2, extra);
                    e.op_eq(0, 2);
                    e.op_new(3);
                    for &x in all.iter().rev() {
                        if x != extra {
                            e.op_ins(3, x);
                        }
                    }
                    e.op_eq(0, 3);
                    e.op_eq(2, 3);
                }
            }
            for k in 0..4 {
                e.op_drop(k);
            }
        }
    }
    if profile == "readers" {
        // large sets of every heap layout under concurrent readers (long-table paths of the read-only code)
        let w = S::W as u64;
        e.begin("readers-big-dense");
        let v: Vec<u64> = (0..90_000u64).filter(|k| k % 3 != 1 && !(20_000..60_000).contains(k)).collect();
        e.op_collect(0, &v);
        readers_n(e, 0, 120);
        e.op_ins(0, 89_999);
        e.op_rem(0, 3);
        readers_n(e, 0, 120);
        e.begin("readers-sparse-dense");
        e.op_wcm(0, 1 << 16, 1 << 22);
        for x in [0u64, 5, 1 << 22, 70_000] {
            e.op_ins(0, x);
        }
        readers_n(e, 0, 1200);
        e.begin("readers-big-bitmap-table");
        let v: Vec<u64> = (0..30_000u64).map(|k| S::norm((k * 977) % (1 << (w / 2)))).collect();
        e.op_collect(1, &v);
        readers_n(e, 1, 120);
        e.begin("readers-big-plain-table");
        let v: Vec<u64> = (0..20_000u64).map(|k| S::norm((k.wrapping_mul(0x9E3779B97F4A7C15)) | (1 << (w - 1)))).chain([0u64]).collect();
        e.op_collect(2, &v);
        readers_n(e, 2, 120);
        e.op_binop(3, 2, 2, false, false);
        e.op_binop(3, 2, 2, true, false);
        readers_n(e, 2, 120);
        for k in 0..4 {
            e.op_drop(k);
        }
    }
    // replay corpus: the inputs of the past findings (DESIGN.md section 6) run first in every profile
    e.begin("corpus-D1-dup-collect");
    e.op_collect(0, &[5, 5]);
    e.op_collect(1, &[1, 1, 1]);
    e.begin("corpus-D13-placeholder");
    e.op_wcb(0, 4, 0);
    if let Some((_, Some((_, _, ph, _)))) = e.slots[0].as_ref().map(|s| s.repr()) {
        e.op_ins(0, 0);
        e.op_ins(0, ph);
        e.op_con(0, 0);
        e.op_con(0, ph);
        e.op_rem(0, 0);
    }
    e.begin("corpus-D5-powers");
    e.op_new(0);
    for k in 10..(S::W - 1) {
        e.op_ins(0, 1u64 << k);
    }
    e.begin("corpus-D6-outlier");
    e.op_new(0);
    for x in 0..8 {
        e.op_ins(0, x);
    }
    e.op_ins(0, 64000);
    // every layout conversion, deterministically (minimal growth keeps the table full)
    for style in [0u64, 1, 4] {
        e.begin(&format!("corpus-conversions-{}", style));
        e.op_new(0);
        e.draw_style = style;
        e.force_style = Some(style);
        for k in 0..64u64 {
            e.draw_style = style;
            e.op_ins(0, 3599 - k * 57);
        }
        for k in 0..120u64 {
            e.draw_style = style;
            e.op_ins(0, k);
        }
        e.op_ins(0, 200);
        e.op_ins(0, 1 << 20);
        e.op_ins(0, 3 << 20);
        e.op_ins(0, (1u64 << (S::W - 2)) + 5);
        e.op_ins(0, 0);
        for k in 0..60u64 {
            e.op_rem(0, k * 2);
        }
        crate::profiles::audit(e, 0, false);
    }
    if profile == "core" || profile == "term" {
        // long churn on ONE set whose size stays small: thousands of alternating inserts and removes over a small
        // universe (tables are rebuilt, never shrunk; deletion by backward shift and placeholder re-selection are
        // exercised far beyond what a 100-step history reaches)
        let w = S::W as u64;
        for (name, base, stride, uni) in [("tiny", 0u64, 1u64, 90u64), ("bitmap", 1000, 37, 80), ("plain", 1u64 << (w - 1), 7919, 70), ("mixed", 0, (1u64 << (w - 2)) / 61, 64)] {
            e.begin(&format!("churn-{}", name));
            e.op_new(0);
            let steps = 6000;
            for k in 0..steps {
                let x = S::norm(base.wrapping_add(e.rng.below(uni).wrapping_mul(stride)));
                let n = e.oracle[0].len();
                let remove = if n > 40 { e.rng.chance(3, 4) } else if n < 8 { e.rng.chance(1, 5) } else { e.rng.chance(1, 2) };
                if remove {
                    // remove a present value most of the time
                    let y = if n > 0 && e.rng.chance(4, 5) { *e.oracle[0].iter().nth(e.rng.below(n as u64) as usize).unwrap() } else { x };
                    e.op_rem(0, y);
                } else {
                    e.op_ins(0, x);
                }
                if k % 400 == 399 {
                    e.op_iter(0);
                    e.op_obs(0);
                    // a set extended from its own members, and combined with its own clone, is unchanged
                    let own: Vec<u64> = e.oracle[0].iter().cloned().collect();
                    e.op_extend(0, &own);
                    e.op_clone(1, 0);
                    e.op_binop(2, 0, 1, true, false);
                    e.op_eq(0, 2);
                    e.op_binop(3, 0, 1, false, false);
                    e.op_obs(3);
                }
            }
            for k in 0..4 {
                e.op_drop(k);
            }
        }
    }
    if profile == "iter" || profile == "core" {
        e.begin("corpus-D3-shortcuts");
        e.op_collect(0, &[0, 1, 2, 3, 4, 5, 6]);
        crate::profiles::audit(e, 0, true);
        e.op_collect(1, &[100, 1266, 99999, 100009, 5000]);
        crate::profiles::audit(e, 1, true);
        e.op_collect(2, &[0, 7, 1 << (S::W - 1), 3, 99]);
        crate::profiles::audit(e, 2, true);
        // tables that are mostly empty: after removing most members, and after a generous hint
        // (iterators and cloned iterators over sparse tables; `clone` may legitimately compact, its iterators must agree)
        for (name, stride) in [("bitmap", 37u64), ("plain", 1 << (S::W - 4)), ("dense", 1)] {
            e.begin(&format!("iter-sparse-{}", name));
            e.op_new(0);
            for k in 0..60u64 {
                e.op_ins(0, S::norm(5 + k.wrapping_mul(stride)));
            }
            for k in 0..60u64 {
                if k % 8 != 3 {
                    e.op_rem(0, S::norm(5 + k.wrapping_mul(stride)));
                }
            }
            crate::profiles::audit(e, 0, true);
            e.op_wcm(1, 64, S::norm(5 + 59u64.wrapping_mul(stride)));
            for k in [3u64, 11, 19, 27] {
                e.op_ins(1, S::norm(5 + k.wrapping_mul(stride)));
            }
            crate::profiles::audit(e, 1, true);
            e.op_drop(0);
            e.op_drop(1);
        }
    }
}

/// Small-scope exhaustive comparison of the private primitives with the model (support for the tie, not a proof):
/// every Robin Hood table reachable with `n ≤ nmax` buckets over a small key universe, offsets {0, 3};
/// `compute_array_bits` on the 2^k lattice; the inline codec on field-boundary lattices.
pub fn prims<S: USet>(e: &mut Eng<S>, thorough: bool) {
    use std::collections::{BTreeSet, VecDeque};
    use std::fmt::Write;
    e.begin("prims-rh");
    let nmax = if thorough { 6 } else { 5 };
    let kmax: u64 = if thorough { 13 } else { 10 };
    let show = |a: &Vec<u64>| {
        let mut s = String::new();
        for x in a {
            write!(s, " {}", x).unwrap();
        }
        s
    };
    for off in [0u64, 3] {
        for n in 1..=nmax {
            let start: Vec<u64> = vec![0; n];
            let mut seen: BTreeSet<Vec<u64>> = BTreeSet::new();
            let mut q = VecDeque::new();
            seen.insert(start.clone());
            q.push_back(start);
            let mut states = 0;
            while let Some(a) = q.pop_front() {
                states += 1;
                if states > (if thorough { 6000 } else { 1500 }) {
                    break;
                }
                for k in 0..kmax {
                    // lookup
                    let (kind, idx) = S::prim_lookfor(k, &a, off);
                    e.emit(&format!("plf {} {} {}{} {} {}", off, k, n, show(&a), kind, idx));
                    // removal
                    let mut b = a.clone();
                    let r = S::prim_remove(k, &mut b, off);
                    e.emit(&format!("prm {} {} {}{} {}{}", off, k, n, show(&a), r as u8, show(&b)));
                    if r && seen.insert(b.clone()) {
                        q.push_back(b);
                    }
                    // insertion of a fresh key (precondition of p_insert: room, key absent)
                    let present = a.iter().any(|&w| w != 0 && (w >> off) == k);
                    if !present && a.iter().any(|&w| w == 0) && (off == 0 && k != 0 || off > 0) {
                        let mut c = a.clone();
                        let i = S::prim_insert(k, &mut c, off);
                        e.emit(&format!("pin {} {} {}{} {}{}", off, k, n, show(&a), i, show(&c)));
                        let word = if off == 0 { k } else { (k << off) | (1 + (k % 7)) };
                        c[i] = word;
                        if seen.insert(c.clone()) {
                            q.push_back(c);
                        }
                    }
                }
            }
            e.bump(&format!("prims:tables:n{}:off{}", n, off));
            *e.stats.entry("prims:states".into()).or_insert(0) += states as u64;
        }
    }
    e.begin("prims-cab");
    for k in 0..S::W as u64 {
        for d in [0u64, 1, 2] {
            let x = ((1u128 << k) as u64).wrapping_add(d).wrapping_sub(1) & S::max_elem();
            e.emit(&format!("cab {} {}", x, S::prim_cab(x)));
        }
    }
    e.emit(&format!("cab {} {}", S::max_elem(), S::prim_cab(S::max_elem())));
    e.begin("prims-tiny");
    let table = splits::<S>();
    for n in 1..table.len() {
        let ws = &table[n];
        let choices = 4usize.pow(n as u32).min(if thorough { 20000 } else { 3000 });
        for code in 0..choices {
            let mut f = vec![];
            let mut c = code;
            for w in ws {
                let top = (1u64 << w) - 1;
                f.push([0, 1, top, top + 1][c % 4]);
                c /= 4;
            }
            let members = match from_fields(&f) {
                Some(m) if m.iter().all(|&x| x <= S::max_elem()) => m,
                _ => continue,
            };
            let w = S::prim_tiny_new(&members);
            let mut l = format!("tnew {}", members.len());
            for x in &members {
                write!(l, " {}", x).unwrap();
            }
            e.emit(&format!("{} {}", l, w.map(|x| x.to_string()).unwrap_or("none".into())));
            if let Some(word) = w {
                let items = S::prim_tiny_items(word);
                if items != members {
                    e.fail("C10,C04", format!("inline word of {:?} decodes to {:?}", members, items));
                }
                // insert / contains probes around every member and field boundary
                let mut probes: Vec<u64> = vec![0, 1, S::max_elem()];
                for &m in &members {
                    probes.extend_from_slice(&[m, m.wrapping_sub(1), m.wrapping_add(1)]);
                }
                for p in probes {
                    let p = p & S::max_elem();
                    let c = S::prim_tiny_contains(word, p);
                    e.emit(&format!("tcon {} {} {}", word, p, c as u8));
                    if c != members.contains(&p) {
                        e.fail("C01,C02", format!("inline contains({}) = {} for {:?}", p, c, members));
                    }
                    let r = S::prim_tiny_insert(word, p);
                    e.emit(&format!("tins {} {} {}", word, p, r.map(|x| x.to_string()).unwrap_or("none".into())));
                }
            }
        }
    }
}

/// D15 replay: with growth draws that are all multiples of the capacity, a full bitmap table of `c`
/// consecutive keys regrows one bucket per nested `insert`; the nesting depth is about `c / 15`.
/// Run in a thread with the default 2 MiB stack, in a subprocess (a stack overflow aborts the process).
pub fn deep_regrow<S: USet>(c: usize, stack_kb: usize) -> bool {
    let h = std::thread::Builder::new().stack_size(stack_kb * 1024).spawn(move || {
        let bits = 8u64;
        let mut s = S::wcb(c, bits);
        for i in 0..c as u64 {
            tinyset::verif_rand::push(u64::MAX);
            s.ins((2000 + 8 * c as u64 + i) * bits);
        }
        tinyset::verif_rand::clear();
        let cap0 = s.capacity();
        for _ in 0..(c * 4 + 1000) {
            tinyset::verif_rand::push(0);
        }
        let r = s.ins((2000 + 9 * c as u64 + c as u64 / 8 + 40) * bits);
        let left = tinyset::verif_rand::clear();
        eprintln!("DEEP type={} c={} cap_before={} cap_after={} draws_used={} ret={} len={}", S::NAME, c, cap0, s.capacity(), c * 4 + 1000 - left, r, s.len());
        r && s.len() == c + 1
    }).unwrap();
    h.join().unwrap_or(false)
}

/// D11 probe: fail the first allocation made inside `collect()` / the inline `remove` (both build a `Vec`).
/// Returns only if the process is still alive afterwards.
pub fn vecfail<S: USet>(which: &str) -> &'static str {
    let mut s = S::new();
    s.ins(1);
    s.ins(3);
    alloc::FAIL_AT.store(0, SeqCst);
    let r = catch_unwind(AssertUnwindSafe(|| {
        alloc::under_test(|| match which {
            "collect" => {
                let c = S::collect(&[5, 1 << 20, 77]);
                drop(c);
            }
            _ => {
                s.rem(1);
            }
        })
    }));
    alloc::FAIL_AT.store(-1, SeqCst);
    if r.is_err() {
        "PANICKED"
    } else {
        "RETURNED"
    }
}
