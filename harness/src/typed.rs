//! Typed wrappers (`Set64<T>`, `SetUsize`) behind the `USet` interface, and the `Fits64` tables.
//! Values travel through the engine as the raw bit pattern of `T`; the trace carries `to_u64`.
use crate::engine::*;
use crate::uset::*;
use std::hash::{Hash, Hasher};
use tinyset::{Fits64, Set64, SetUsize};

#[cfg(any(feature = "serde", feature = "compactserde"))]
pub trait MaybeSerde: serde::Serialize + serde::de::DeserializeOwned {}
#[cfg(any(feature = "serde", feature = "compactserde"))]
impl<T: serde::Serialize + serde::de::DeserializeOwned> MaybeSerde for T {}
#[cfg(not(any(feature = "serde", feature = "compactserde")))]
pub trait MaybeSerde {}
#[cfg(not(any(feature = "serde", feature = "compactserde")))]
impl<T> MaybeSerde for T {}

pub trait Elem: Fits64 + Copy + Ord + Eq + std::fmt::Debug + Send + Sync + MaybeSerde + std::panic::RefUnwindSafe + std::panic::UnwindSafe + 'static {
    const NAME: &'static str;
    const BITS: u32;
    fn from_raw(v: u64) -> Self;
    fn to_raw(self) -> u64;
}
macro_rules! elem_int {
    ($t:ty, $name:expr, $bits:expr) => {
        impl Elem for $t {
            const NAME: &'static str = $name;
            const BITS: u32 = $bits;
            fn from_raw(v: u64) -> Self {
                v as $t
            }
            fn to_raw(self) -> u64 {
                (self as u64) & (u64::MAX >> (64 - $bits))
            }
        }
    };
}
elem_int!(u8, "u8", 8);
elem_int!(u16, "u16", 16);
elem_int!(u32, "u32", 32);
elem_int!(u64, "u64", 64);
elem_int!(usize, "usize", 64);
elem_int!(i8, "i8", 8);
elem_int!(i16, "i16", 16);
elem_int!(i32, "i32", 32);
elem_int!(i64, "i64", 64);
elem_int!(isize, "isize", 64);
impl Elem for char {
    const NAME: &'static str = "char";
    const BITS: u32 = 32;
    fn from_raw(v: u64) -> Self {
        let x = (v % 0x110000) as u32;
        std::char::from_u32(x).unwrap_or(std::char::from_u32(x ^ 0x800 ^ 0x1000).unwrap_or('a'))
    }
    fn to_raw(self) -> u64 {
        self as u64
    }
}

struct Rec(Vec<u64>);
impl Hasher for Rec {
    fn finish(&self) -> u64 {
        0
    }
    fn write(&mut self, bytes: &[u8]) {
        for b in bytes {
            self.0.push(0x100 + *b as u64);
        }
    }
    fn write_u64(&mut self, i: u64) {
        self.0.push(i);
    }
}

#[derive(Clone, Debug)]
pub struct W64<T: Elem>(pub Set64<T>);
impl<T: Elem> PartialEq for W64<T> {
    fn eq(&self, o: &Self) -> bool {
        self.0 == o.0
    }
}

macro_rules! it_typed {
    ($self:ident, $which:ident, $pos:ident, $body:ident) => {
        match $which {
            It::Iter => $body!($self.0.iter(), $pos),
            It::Into => $body!($self.0.clone().into_iter(), $pos),
            It::IntoClone => {
                let mut it = $self.0.clone().into_iter();
                for _ in 0..$pos {
                    it.next();
                }
                $body!(it.clone(), 0)
            }
        }
    };
}
macro_rules! nexts_t {
    ($it:expr, $pos:expr) => {{
        let mut it = $it;
        let mut p = vec![];
        for _ in 0..$pos {
            if let Some(x) = it.next() {
                p.push(x.to_raw());
            }
        }
        let mut v = vec![];
        while let Some(x) = it.next() {
            v.push(x.to_raw());
        }
        let fused = it.next().is_none() && it.next().is_none();
        (v, fused, p)
    }};
}

impl<T: Elem> USet for W64<T> {
    const W: u32 = 64;
    const NAME: &'static str = "Set64";
    const HEADER: usize = 24;
    const ELEM: usize = 8;
    const ALIGN: usize = 8;
    const TYPED: bool = true;
    const HAS_OWN_OPS: bool = false;
    fn enc(v: u64) -> u64 {
        T::from_raw(v).to_u64()
    }
    fn norm(v: u64) -> u64 {
        T::from_raw(v).to_raw()
    }
    fn pick(v: &[u64], max: bool) -> Option<u64> {
        let it = v.iter().map(|&x| T::from_raw(x));
        if max {
            it.max().map(|x| x.to_raw())
        } else {
            it.min().map(|x| x.to_raw())
        }
    }
    fn hash_words(&self) -> Option<Vec<u64>> {
        let mut r = Rec(vec![]);
        self.0.hash(&mut r);
        Some(r.0)
    }
    fn max_elem() -> u64 {
        u64::MAX >> (64 - T::BITS)
    }
    fn new() -> Self {
        W64(Set64::new())
    }
    fn dflt() -> Self {
        W64(Default::default())
    }
    fn wcb(cap: usize, _bits: u64) -> Self {
        W64(Set64::with_capacity(cap))
    }
    fn wcm(cap: usize, _mx: u64) -> Self {
        W64(Set64::with_capacity(cap))
    }
    fn wco(_o: &Self) -> Self {
        W64(Set64::new())
    }
    fn ins(&mut self, v: u64) -> bool {
        self.0.insert(T::from_raw(v))
    }
    fn rem(&mut self, v: u64) -> bool {
        self.0.remove(&T::from_raw(v))
    }
    fn con(&self, v: u64) -> bool {
        let (a, b) = (self.0.contains(T::from_raw(v)), self.0.contains(&T::from_raw(v)));
        if a != b {
            panic!("contains by value and by reference disagree");
        }
        a
    }
    fn len(&self) -> usize {
        self.0.len()
    }
    fn is_empty(&self) -> bool {
        self.0.is_empty()
    }
    fn capacity(&self) -> usize {
        self.0.verif_inner().capacity()
    }
    fn mem_used(&self) -> usize {
        self.0.verif_inner().mem_used()
    }
    fn collect(v: &[u64]) -> Self {
        W64(v.iter().map(|&x| T::from_raw(x)).collect())
    }
    fn extend(&mut self, v: &[u64]) {
        std::iter::Extend::extend(&mut self.0, v.iter().map(|&x| T::from_raw(x)))
    }
    fn items(&self) -> Vec<u64> {
        self.0.iter().map(|x| x.to_raw()).collect()
    }
    fn into_items(self) -> Vec<u64> {
        self.0.into_iter().map(|x| x.to_raw()).collect()
    }
    fn drain_items(&mut self) -> Vec<u64> {
        self.0.drain().map(|x| x.to_raw()).collect()
    }
    fn drain_drop(&mut self, take: usize) -> Vec<u64> {
        let mut d = self.0.drain();
        let mut v = vec![];
        for _ in 0..take {
            if let Some(x) = d.next() {
                v.push(x.to_raw());
            }
        }
        v
    }
    fn repr(&self) -> (usize, Heap) {
        let r = self.0.verif_inner().verif_repr();
        (r.word, r.heap)
    }
    fn header(&self) -> (usize, Option<(usize, usize, u64)>) {
        self.0.verif_inner().verif_header()
    }
    fn nexts(&self, which: It, pos: usize) -> (Vec<u64>, bool, Vec<u64>) {
        match which {
            It::Iter => nexts_t!(self.0.iter(), pos),
            It::Into => nexts_t!(self.0.clone().into_iter(), pos),
            It::IntoClone => {
                let mut it = self.0.clone().into_iter();
                let mut p = vec![];
                for _ in 0..pos {
                    if let Some(x) = it.next() {
                        p.push(x.to_raw());
                    }
                }
                let c = it.clone();
                let a = nexts_t!(it, 0);
                let b = nexts_t!(c, 0);
                let (mut sa, mut sb) = (a.0.clone(), b.0.clone());
                sa.sort();
                sb.sort();
                (b.0, a.1 && b.1 && sa == sb, p)
            }
        }
    }
    fn shortcut(&self, which: It, pos: usize, kind: &str) -> (Option<u64>, Option<Vec<u64>>) {
        macro_rules! sc_t {
            ($it:expr, $p:expr) => {{
                let mut it = $it;
                for _ in 0..$p {
                    it.next();
                }
                match kind {
                    // T's own order; the engine's oracle compares raw bit patterns, so map through the order of T
                    "min" => it.min().map(|x| x.to_raw()),
                    "max" => it.max().map(|x| x.to_raw()),
                    "last" => it.last().map(|x| x.to_raw()),
                    "count" => Some(it.count() as u64),
                    "nth" => it.nth(2).map(|x| x.to_raw()),
                    "fold" => Some(it.fold(0u64, |a, x| a.wrapping_mul(31).wrapping_add(x.to_raw()))),
                    "skip" => it.skip(1).last().map(|x| x.to_raw()),
                    "step" => Some(it.step_by(2).count() as u64),
                    "find" => it.find(|x| x.to_raw() & 1 == 1).map(|x| x.to_raw()),
                    "byref" => {
                        let a = it.by_ref().take(2).count() as u64;
                        Some(a * 1_000_000 + it.count() as u64)
                    }
                    _ => {
                        let (lo, hi) = it.size_hint();
                        if hi == Some(lo) {
                            Some(lo as u64)
                        } else {
                            Some(u64::MAX)
                        }
                    }
                }
            }};
        }
        match which {
            It::Iter => (sc_t!(self.0.iter(), pos), None),
            It::Into => {
                let mut it = self.0.clone().into_iter();
                for _ in 0..pos {
                    it.next();
                }
                let plain: Vec<u64> = it.clone().map(|x| x.to_raw()).collect();
                (sc_t!(it, 0), Some(plain))
            }
            It::IntoClone => {
                let mut it = self.0.clone().into_iter();
                for _ in 0..pos {
                    it.next();
                }
                let c = it.clone();
                let plain: Vec<u64> = it.map(|x| x.to_raw()).collect();
                (sc_t!(c, 0), Some(plain))
            }
        }
    }
    fn union_ref(a: &Self, b: &Self) -> Self {
        W64(&a.0 | &b.0)
    }
    fn union_own(a: Self, b: &Self) -> Self {
        W64(&a.0 | &b.0)
    }
    fn diff_ref(a: &Self, b: &Self) -> Self {
        W64(&a.0 - &b.0)
    }
    fn diff_own(a: Self, b: &Self) -> Self {
        W64(&a.0 - &b.0)
    }
    fn debug_string(&self) -> String {
        format!("{:?}", self.0)
    }
    #[cfg(any(feature = "serde", feature = "compactserde"))]
    fn to_json(&self) -> String {
        serde_json::to_string(&self.0).unwrap()
    }
    #[cfg(any(feature = "serde", feature = "compactserde"))]
    fn from_json(s: &str) -> Result<Self, String> {
        serde_json::from_str(s).map(W64).map_err(|e| e.to_string())
    }
    #[cfg(any(feature = "serde", feature = "compactserde"))]
    fn json_of_items(items: &[u64]) -> Option<String> {
        let v: Vec<T> = items.iter().map(|&x| T::from_raw(x)).collect();
        Some(serde_json::to_string(&v).unwrap())
    }
}

#[derive(Clone, Debug, PartialEq)]
pub struct WUsize(pub SetUsize);
macro_rules! nexts_u {
    ($it:expr, $pos:expr) => {{
        let mut it = $it;
        let mut p = vec![];
        for _ in 0..$pos {
            if let Some(x) = it.next() {
                p.push(x as u64);
            }
        }
        let mut v = vec![];
        while let Some(x) = it.next() {
            v.push(x as u64);
        }
        let fused = it.next().is_none() && it.next().is_none();
        (v, fused, p)
    }};
}
macro_rules! sc_u {
    ($it:expr, $pos:expr, $kind:expr) => {{
        let mut it = $it;
        for _ in 0..$pos {
            it.next();
        }
        match $kind {
            "min" => it.min().map(|x| x as u64),
            "max" => it.max().map(|x| x as u64),
            "last" => it.last().map(|x| x as u64),
            "count" => Some(it.count() as u64),
            "nth" => it.nth(2).map(|x| x as u64),
            "fold" => Some(it.fold(0u64, |a, x| a.wrapping_mul(31).wrapping_add(x as u64))),
            "skip" => it.skip(1).last().map(|x| x as u64),
            "step" => Some(it.step_by(2).count() as u64),
            "find" => it.find(|x| (*x as u64) & 1 == 1).map(|x| x as u64),
            "byref" => {
                let a = it.by_ref().take(2).count() as u64;
                Some(a * 1_000_000 + it.count() as u64)
            }
            _ => {
                let (lo, hi) = it.size_hint();
                if hi == Some(lo) {
                    Some(lo as u64)
                } else {
                    Some(u64::MAX)
                }
            }
        }
    }};
}
impl USet for WUsize {
    const W: u32 = 64;
    const NAME: &'static str = "SetUsize";
    const HEADER: usize = 24;
    const ELEM: usize = 8;
    const ALIGN: usize = 8;
    fn max_elem() -> u64 {
        u64::MAX
    }
    fn new() -> Self {
        WUsize(SetUsize::new())
    }
    fn dflt() -> Self {
        WUsize(Default::default())
    }
    fn wcb(_cap: usize, _bits: u64) -> Self {
        WUsize(SetUsize::new())
    }
    fn wcm(_cap: usize, _mx: u64) -> Self {
        WUsize(SetUsize::default())
    }
    const TYPED: bool = true;
    fn wco(o: &Self) -> Self {
        WUsize(SetUsize::with_capacity_of(&o.0))
    }
    fn ins(&mut self, v: u64) -> bool {
        self.0.insert(v as usize)
    }
    fn rem(&mut self, v: u64) -> bool {
        self.0.remove(v as usize)
    }
    fn con(&self, v: u64) -> bool {
        self.0.contains(v as usize)
    }
    fn len(&self) -> usize {
        self.0.len()
    }
    fn is_empty(&self) -> bool {
        self.0.is_empty()
    }
    fn capacity(&self) -> usize {
        self.0.capacity()
    }
    fn mem_used(&self) -> usize {
        self.0.verif_inner().mem_used()
    }
    fn collect(v: &[u64]) -> Self {
        WUsize(v.iter().map(|&x| x as usize).collect())
    }
    fn extend(&mut self, v: &[u64]) {
        std::iter::Extend::extend(&mut self.0, v.iter().map(|&x| x as usize))
    }
    fn items(&self) -> Vec<u64> {
        self.0.iter().map(|x| x as u64).collect()
    }
    fn into_items(self) -> Vec<u64> {
        self.0.into_iter().map(|x| x as u64).collect()
    }
    fn drain_items(&mut self) -> Vec<u64> {
        self.0.drain().map(|x| x as u64).collect()
    }
    fn drain_drop(&mut self, take: usize) -> Vec<u64> {
        let mut d = self.0.drain();
        let mut v = vec![];
        for _ in 0..take {
            if let Some(x) = d.next() {
                v.push(x as u64);
            }
        }
        v
    }
    fn repr(&self) -> (usize, Heap) {
        let r = self.0.verif_inner().verif_repr();
        (r.word, r.heap)
    }
    fn header(&self) -> (usize, Option<(usize, usize, u64)>) {
        self.0.verif_inner().verif_header()
    }
    fn nexts(&self, which: It, pos: usize) -> (Vec<u64>, bool, Vec<u64>) {
        match which {
            It::Iter => nexts_u!(self.0.iter(), pos),
            _ => nexts_u!(self.0.clone().into_iter(), pos),
        }
    }
    fn shortcut(&self, which: It, pos: usize, kind: &str) -> (Option<u64>, Option<Vec<u64>>) {
        match which {
            It::Iter => (sc_u!(self.0.iter(), pos, kind), None),
            // `setusize::IntoIter` is not `Clone`: order-dependent answers cannot be compared with plain iteration of
            // the same consuming iterator, they are taken from the borrowed iterator instead
            _ if matches!(kind, "last" | "nth" | "skip" | "find" | "fold") => (sc_u!(self.0.iter(), pos, kind), None),
            _ => {
                // order-independent kinds: compare with the members not yet yielded by this very iterator
                let all: Vec<u64> = self.0.iter().map(|x| x as u64).collect();
                let mut it = self.0.clone().into_iter();
                let mut left = all;
                for _ in 0..pos {
                    if let Some(x) = it.next() {
                        if let Some(k) = left.iter().position(|&y| y == x as u64) {
                            left.remove(k);
                        }
                    }
                }
                (sc_u!(it, 0, kind), Some(left))
            }
        }
    }
    fn union_ref(a: &Self, b: &Self) -> Self {
        WUsize(&a.0 | &b.0)
    }
    fn union_own(a: Self, b: &Self) -> Self {
        WUsize(a.0 | &b.0)
    }
    fn diff_ref(a: &Self, b: &Self) -> Self {
        WUsize(&a.0 - &b.0)
    }
    fn diff_own(a: Self, b: &Self) -> Self {
        WUsize(a.0 - &b.0)
    }
    fn debug_string(&self) -> String {
        format!("{:?}", self.0)
    }
    #[cfg(any(feature = "serde", feature = "compactserde"))]
    fn to_json(&self) -> String {
        serde_json::to_string(&self.0).unwrap()
    }
    #[cfg(any(feature = "serde", feature = "compactserde"))]
    fn from_json(s: &str) -> Result<Self, String> {
        serde_json::from_str(s).map(WUsize).map_err(|e| e.to_string())
    }
}

/// `Fits64` tables: exhaustive for 8/16-bit, boundary lattice + samples for wider types, all
/// boundaries of the scalar-value range for `char`.  Lines: `fits <ty> <raw> <to_u64>`.
fn fits_table<T: Elem>(out: &mut dyn std::io::Write, rng: &mut Xs, samples: usize, fails: &mut Vec<String>) -> u64 {
    let mut vals: Vec<u64> = vec![];
    if T::BITS <= 16 {
        vals.extend(0..(1u64 << T::BITS));
    } else {
        for k in 0..T::BITS {
            let b = 1u64 << k;
            vals.extend_from_slice(&[b.wrapping_sub(1), b, b.wrapping_add(1), !b, (!b).wrapping_add(1)]);
        }
        vals.extend_from_slice(&[0, 1, u64::MAX, u64::MAX - 1, 0xD7FF, 0xD800, 0xDFFF, 0xE000, 0x10FFFF, 0x110000, 0xFFFF, 0x10000]);
        for _ in 0..samples {
            vals.push(rng.next() >> rng.below(64));
            vals.push(!(rng.next() >> rng.below(64)));
        }
    }
    let mut seen = std::collections::BTreeMap::new();
    let mut n = 0;
    for v in vals {
        let x = T::from_raw(v);
        let raw = x.to_raw();
        let enc = match std::panic::catch_unwind(|| x.to_u64()) {
            Ok(e) => e,
            Err(_) => {
                fails.push(format!("ORACLE-FAIL props=C03 type={} hist=fits step=0 to_u64({:?}) panicked", T::NAME, x));
                continue;
            }
        };
        writeln!(out, "fits {} {} {}", T::NAME, raw, enc).unwrap();
        n += 1;
        let back = match std::panic::catch_unwind(|| unsafe { T::from_u64(enc) }) {
            Ok(b) => b,
            Err(_) => {
                fails.push(format!("ORACLE-FAIL props=C03 type={} hist=fits step=0 from_u64(to_u64({:?})) panicked (code {})", T::NAME, x, enc));
                continue;
            }
        };
        if back != x {
            fails.push(format!("ORACLE-FAIL props=C03 type={} hist=fits step=0 from_u64(to_u64({:?})) = {:?}", T::NAME, x, back));
        }
        if let Some(prev) = seen.insert(enc, raw) {
            if prev != raw {
                fails.push(format!("ORACLE-FAIL props=C03 type={} hist=fits step=0 to_u64 maps the distinct values with bit patterns {} and {} to the same code {}", T::NAME, prev, raw, enc));
            }
        }
        // magnitude: |x| as u128 from the sign-extended raw pattern
        let signed = T::NAME.starts_with('i');
        let mag: u128 = if signed {
            let sh = 64 - T::BITS;
            let s = ((raw << sh) as i64) >> sh;
            (s as i128).unsigned_abs()
        } else {
            raw as u128
        };
        let bound = if signed { 2 * mag + 1 } else { mag };
        if (enc as u128) > bound {
            fails.push(format!("ORACLE-FAIL props=C03 type={} hist=fits step=0 to_u64({:?}) = {} exceeds the bound {}", T::NAME, x, enc, bound));
        }
    }
    n
}

fn typed_run<S: USet>(args: &[String], label: &str) -> (i32, String) {
    let profile = args[2].trim_start_matches("typed");
    let profile = if profile.is_empty() { "core" } else { profile };
    let profile = match profile {
        "iter" => "iter",
        "collect" => "collect",
        "clone" => "alloc",
        "hash" | "ops" => "eqops",
        "hints" => "hints",
        "inline" => "typedinline",
        "dense" => "typeddense",
        "serde" => "serde",
        "det" => "det",
        p => p,
    };
    let seed: u64 = args[3].parse().unwrap();
    let hists: usize = args[4].parse().unwrap();
    let steps: usize = args[5].parse().unwrap();
    let path = format!("{}.{}", args[6], label);
    let out: Box<dyn std::io::Write> = Box::new(std::io::BufWriter::new(std::fs::File::create(&path).unwrap()));
    let mode = if cfg!(feature = "det") { Mode::Det } else if cfg!(feature = "rand") { Mode::Script } else { Mode::Splitmix };
    let mut e: Eng<S> = Eng::new(seed, mode, out);
    crate::profiles::run_profile(&mut e, profile, hists, steps);
    e.finish();
    drop(std::mem::replace(&mut e.out, Box::new(std::io::sink())));
    for (k, v) in &e.stats {
        eprintln!("HSTAT {}:{} {}", label, k, v);
    }
    for s in e.samples.iter().take(3) {
        eprintln!("HSAMPLE [{}] {}", label, s);
    }
    eprintln!("HSUMMARY type={} profile={} seed={} histories={} distinct_signatures={} oracle_failures={} wall_ms=0", label, profile, seed, hists, e.sig.len(), e.fails.len());
    ((!e.fails.is_empty()) as i32, path)
}

pub fn run(args: &[String]) -> i32 {
    let mut rc = 0;
    let mut parts: Vec<String> = vec![];
    if args[2] == "fits" {
        let seed: u64 = args[3].parse().unwrap();
        let samples: usize = args[4].parse::<usize>().unwrap() * 20000;
        let mut rng = Xs::new(seed);
        let mut fails = vec![];
        let path = format!("{}.fits", args[6]);
        let mut n = 0;
        {
            let mut out = std::io::BufWriter::new(std::fs::File::create(&path).unwrap());
            use std::io::Write;
            writeln!(out, "cfg 64 script").unwrap();
            writeln!(out, "hist fits").unwrap();
            n += fits_table::<u8>(&mut out, &mut rng, samples, &mut fails);
            n += fits_table::<u16>(&mut out, &mut rng, samples, &mut fails);
            n += fits_table::<u32>(&mut out, &mut rng, samples, &mut fails);
            n += fits_table::<u64>(&mut out, &mut rng, samples, &mut fails);
            n += fits_table::<usize>(&mut out, &mut rng, samples, &mut fails);
            n += fits_table::<i8>(&mut out, &mut rng, samples, &mut fails);
            n += fits_table::<i16>(&mut out, &mut rng, samples, &mut fails);
            n += fits_table::<i32>(&mut out, &mut rng, samples, &mut fails);
            n += fits_table::<i64>(&mut out, &mut rng, samples, &mut fails);
            n += fits_table::<isize>(&mut out, &mut rng, samples, &mut fails);
            n += fits_table::<char>(&mut out, &mut rng, samples, &mut fails);
        }
        for f in fails.iter().take(20) {
            eprintln!("{}", f);
        }
        eprintln!("HSTAT fits:values {}", n);
        eprintln!("HSAMPLE fits i8 255 1   (raw bit pattern, to_u64)");
        eprintln!("HSUMMARY type=Fits64 profile=fits seed={} histories=11 distinct_signatures=11 oracle_failures={} wall_ms=0", seed, fails.len());
        rc |= (!fails.is_empty()) as i32;
        parts.push(path);
    } else {
        macro_rules! go {
            ($t:ty, $label:expr) => {{
                let (r, p) = typed_run::<$t>(args, $label);
                rc |= r;
                parts.push(p);
            }};
        }
        let unsigned_only = args[2] == "typedinline" || args[2] == "typeddense";
        if !unsigned_only {
            go!(W64<i32>, "Set64_i32");
            go!(W64<u8>, "Set64_u8");
            go!(W64<i64>, "Set64_i64");
            go!(W64<char>, "Set64_char");
            go!(W64<i8>, "Set64_i8");
            go!(W64<u16>, "Set64_u16");
            go!(W64<isize>, "Set64_isize");
        }
        go!(W64<u64>, "Set64_u64");
        if args[2] == "typeddense" {
            go!(W64<u32>, "Set64_u32");
        }
        go!(WUsize, "SetUsize");
    }
    // concatenate the parts into the requested trace file
    let mut all = std::fs::File::create(&args[6]).unwrap();
    for p in parts {
        let mut f = std::fs::File::open(&p).unwrap();
        std::io::copy(&mut f, &mut all).unwrap();
        let _ = std::fs::remove_file(&p);
    }
    rc
}
