//! Typed wrappers and `Fits64` (filled in below)
pub fn run(args: &[String]) -> i32 {
    if args[6] != "-" {
        std::fs::write(&args[6], "").unwrap();
    }
    eprintln!("HSUMMARY type=typed profile={} seed={} histories=0 distinct_signatures=0 oracle_failures=0 wall_ms=0", args[2], args[3]);
    0
}
