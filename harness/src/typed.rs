//! Typed wrappers and `Fits64` (filled in below)
pub fn run(_args: &[String]) -> i32 {
    0
}
