import Setproto.SetF
open SF

def parseRepr (toks : List String) : Option Rp :=
  match toks with
  | ["E"] => some .empty
  | ["S", w] => some (.stack (Tiny.ofWord w.toNat!))
  | "H" :: sz :: cap :: bits :: ws => some (.heap sz.toNat! cap.toNat! bits.toNat! (ws.map String.toNat!).toArray)
  | _ => none

def reprEq : Rp → Rp → Bool
  | .empty, .empty => true
  | .stack a, .stack b => a == b
  | .heap s1 c1 b1 a1, .heap s2 c2 b2 a2 => s1 == s2 && c1 == c2 && b1 == b2 && a1 == a2
  | _, _ => false

def showR : Rp → String
  | .empty => "E"
  | .stack t => s!"S {Tiny.toWord t}"
  | .heap sz cap bits a => s!"H {sz} {cap} {bits} {a}"

def main : IO Unit := do
  let txt ← IO.FS.readFile "/root/scratch/set_trace.txt"
  let mut cur : Rp := .empty
  let mut bad := 0
  let mut n := 0
  let mut skip := false
  for line in txt.splitOn "\n" do
    if line.isEmpty then continue
    let toks := line.splitOn " "
    match toks with
    | ["new"] => cur := .empty; skip := false
    | "it" :: l :: items =>
      if skip then continue
      n := n + 1
      let got := (items.filter (· ≠ "")).map String.toNat!
      if elems cur != got || len cur != l.toNat! then
        bad := bad + 1
        if bad < 8 then IO.println s!"ITER mismatch model {elems cur} impl {got} repr {showR cur}"
    | op :: v :: ret :: rest =>
      if skip then continue
      n := n + 1
      let e := v.toNat!
      let r := ret.toNat! == 1
      let some impl := parseRepr rest | IO.println s!"parse error {line}"
      let res : Except Err (Rp × Bool) :=
        match op with
        | "i" => insert 8 cur e
        | "r" => remove 8 cur e
        | _ => .ok (cur, contains cur e)
      match res with
      | .ok (m, mr) =>
        if !(reprEq m impl) || mr != r then
          bad := bad + 1; skip := true
          if bad < 8 then IO.println s!"MISMATCH op {op} {e}: before {showR cur}\n   model ret {mr} {showR m}\n   impl  ret {r} {showR impl}"
        cur := impl
      | .error er =>
        bad := bad + 1; skip := true
        if bad < 8 then IO.println s!"MODEL ERROR op {op} {e} before {showR cur}: {repr (match er with | .diverge => "diverge" | .fuel => "fuel" | .overflow => "overflow" | .unreachable => "unreachable" | .noRoom => "noRoom")}"
        cur := impl
    | _ => pure ()
  IO.println s!"steps {n} bad {bad}"
