def hello := "world"
