namespace Tiny32

def splits32 : List (List Nat) :=
  [[], [31], [31, 30], [31, 15, 15], [25, 12, 12, 12], [21, 10, 10, 10, 10],
   [21, 8, 8, 8, 8, 8]]

/-- Rust `log_2`: 1 for 0, else the bit length -/
def log2 (x : Nat) : Nat := if x = 0 then 1 else Nat.log2 x + 1

def unpack : List Nat → Nat → List Nat
  | [], _ => []
  | w :: ws, bits => (bits % 2 ^ w) :: unpack ws (bits / 2 ^ w)

def pack : List Nat → List Nat → Nat
  | w :: ws, v :: vs => v + 2 ^ w * pack ws vs
  | _, _ => 0

/-- fields (first, gap-1, gap-1, …) to members -/
def membersFrom (last : Nat) : List Nat → List Nat
  | [] => []
  | f :: fs => (last + 1 + f) :: membersFrom (last + 1 + f) fs
def members : List Nat → List Nat
  | [] => []
  | f :: fs => f :: membersFrom f fs

/-- members (strictly increasing) to fields -/
def fieldsFrom (last : Nat) : List Nat → List Nat
  | [] => []
  | x :: xs => (x - last - 1) :: fieldsFrom x xs
def fields : List Nat → List Nat
  | [] => []
  | x :: xs => x :: fieldsFrom x xs

structure T where
  sz : Nat
  bits : Nat
deriving DecidableEq, Repr

def T.widths (t : T) : List Nat := splits32.getD t.sz []
def T.fields (t : T) : List Nat := unpack t.widths t.bits
def T.members (t : T) : List Nat := Tiny32.members t.fields

/-- `Tiny::new_sorted_deduped` -/
def fitAll : List Nat → List Nat → Bool
  | w :: ws, v :: vs => log2 v ≤ w && fitAll ws vs
  | _, _ => true
def newSortedDeduped (v : List Nat) : Option T :=
  if v.length = 0 ∨ v.length > 6 then none
  else
    let ws := splits32.getD v.length []
    let fs := fields v
    if fitAll ws fs then some ⟨v.length, pack ws fs⟩ else none

/-- the tail of `Tiny::insert` once an old field does not fit its new width:
    only an already-present `e` can succeed -/
def searchRest : List Nat → Nat → Bool
  | [], _ => false
  | n :: fs, e => if n = e then true else if e < n then false else searchRest fs (e - (n + 1))

/-- after `e` was placed before `n`: the remaining old fields must fit the shifted new widths -/
def shiftRest : List Nat → List Nat → List Nat → Option (List Nat)
  | [], [], acc => some acc
  | newb :: nw, n :: fs, acc => if log2 n > newb then none else shiftRest nw fs (acc ++ [n])
  | _, _, _ => none   -- unreachable: lengths agree

inductive Res | same | none | new (fields : List Nat)
deriving DecidableEq, Repr

/-- main loop of `Tiny::insert` over (new widths, old fields) -/
def go : List Nat → List Nat → Nat → List Nat → Res
  | [newb], [], e, acc => if log2 e > newb then .none else .new (acc ++ [e])
  | newb :: nw, n :: fs, e, acc =>
    if e = n then .same
    else if log2 n > newb then
      (if e < n then .none else if searchRest fs (e - (n + 1)) then .same else .none)
    else if e < n then
      match nw with
      | newb2 :: nw' =>
        if log2 (n - e - 1) > newb2 then .none
        else match shiftRest nw' fs (acc ++ [e, n - e - 1]) with
          | some r => .new r
          | none => .none
      | [] => .none  -- unreachable
    else go nw fs (e - (n + 1)) (acc ++ [n])
  | _, _, _, _ => .none  -- unreachable

def insert (t : T) (e : Nat) : Option T :=
  if t.sz + 1 ≤ 6 then
    let nw := splits32.getD (t.sz + 1) []
    match go nw t.fields e [] with
    | .same => some t
    | .none => none
    | .new fs => some ⟨t.sz + 1, pack nw fs⟩
  else if t.members.contains e then some t else none

def contains (t : T) (e : Nat) : Bool :=
  let rec loop : List Nat → Nat → Bool
    | [], _ => false
    | n :: fs, e => if e = n then true else if e < n then false else loop fs (e - (n + 1))
  loop t.fields e

def toWord (t : T) : Nat := (if t.sz ≥ 4 then t.sz + 1 else t.sz) ||| (t.bits <<< 3)
def ofWord (x : Nat) : T := ⟨(x % 4) + (x % 8 / 4) * 3, x >>> 3⟩

end Tiny32
