import Setproto.Tiny32
import Setproto.RH
namespace SF32
open RH (Tbl get put)

def M32 : Nat := 2 ^ 32
def M64 : Nat := 2 ^ 64
def log2 := Tiny32.log2

/-- `compute_array_bits` of setu32.rs (note the 62) -/
def cab (mx : Nat) : Nat :=
  if log2 mx < 2 then 62 else if log2 mx > 62 then 0 else 32 - log2 mx

/-- `rand32` under `deterministic_iteration` = `rand64(cap, bits) as u32` -/
def rand32 (cap bits : Nat) : Nat :=
  (((cap * 9838956529666160483) % M64) ^^^ ((bits * 17253312864001072049) % M64)) % M32

inductive Rp
  | empty
  | stack (t : Tiny32.T)
  | heap (sz cap bits : Nat) (a : Tbl)

inductive Err | diverge | fuel | overflow | unreachable | noRoom
deriving DecidableEq

abbrev R := Except Err

def withCapBits (cap bits : Nat) : R Rp :=
  if cap > 0 then
    if bits = 0 then
      let b := rand32 cap 0
      .ok (.heap 0 cap (if b ≤ 32 then b + 33 else b) (Array.replicate cap 0))
    else .ok (.heap 0 cap bits (Array.replicate cap 0))
  else .ok .empty

def denseWithMax (mx : Nat) : Rp :=
  let cap := 1 + mx / 32 + mx / 128
  .heap 0 cap 32 (Array.replicate cap 0)

def withCapMax (cap mx : Nat) : R Rp :=
  if cap > mx >>> 5 then .ok (denseWithMax mx) else withCapBits cap (cab mx)

def bitsOf (w nbits : Nat) : List Nat := (List.range nbits).filter (fun b => w.testBit b)

def elems : Rp → List Nat
  | .empty => []
  | .stack t => t.members
  | .heap _ _ bits a =>
    if bits = 0 ∨ bits > 32 then
      (a.toList.filter (· ≠ 0)).map (fun x => if x = bits then 0 else x)
    else if bits = 32 then
      (a.toList.zipIdx).flatMap (fun (w, i) => (bitsOf w 32).map (fun b => i * 32 + b))
    else
      a.toList.flatMap (fun w => (bitsOf w bits).map (fun b => (w >>> bits) * bits + b))

/-- "more than 1/16 of the buckets are empty" -/
def hasRoom (a : Tbl) : Bool := (a.toList.filter (· == 0)).length > a.size >>> 4

abbrev Ins := Rp → Nat → R (Rp × Bool)

def scanUp (a : List Nat) : (fuel i : Nat) → Option Nat
  | 0, _ => none
  | f + 1, i => if i ≤ 32 ∨ a.contains i then scanUp a f ((i + 1) % M32) else some i

def sortDedup (l : List Nat) : List Nat := (l.toArray.qsort (· < ·)).toList.eraseDups

def insertAll (rec : Ins) (r : Rp) (xs : List Nat) : R Rp :=
  xs.foldlM (fun r x => do let (r', _) ← rec r x; pure r') r

def rebuild (rec : Ins) (new : Rp) (old : Rp) (e : Nat) : R (Rp × Bool) := do
  let new ← insertAll rec new (elems old)
  let (new, _) ← rec new e
  pure (new, true)

def placeRaw (v : Nat) (t : Tbl) : R Tbl :=
  match RH.pinsert v t 0 with
  | .ok (idx, t') => .ok (put t' idx v)
  | .error _ => .error .noRoom

def insertDense (rec : Ins) (sz cap : Nat) (a : Tbl) (e : Nat) : R (Rp × Bool) :=
  let key := e >>> 5
  if key < cap then
    let w := get a key
    let present := w.testBit (e % 32)
    .ok (.heap (if present then sz else sz + 1) cap 32 (put a key (w ||| (1 <<< (e % 32)))), !present)
  else if e >>> 5 > sz then do
    let new ← withCapBits (1 + 2 * sz) (cab e)
    rebuild rec new (.heap sz cap 32 a) e
  else
    -- dense_increase_mx: realloc, zero-fill the tail, sz += 1
    let ncap := 1 + e / 32 + e / 128
    let na : Tbl := Array.replicate ncap 0
    let na := (List.range cap).foldl (fun acc i => put acc i (get a i)) na
    .ok (.heap (sz + 1) ncap 32 (put na key (1 <<< (e % 32))), true)

def insertBig (sz cap bits : Nat) (a : Tbl) (e : Nat) : R (Rp × Bool) := do
  let (a, bits) ← (if e = bits then
      let (hadZero, a1) := RH.premove bits a 0
      match scanUp a1.toList (a1.size + 34) (rand32 cap bits) with
      | none => .error .diverge
      | some i =>
        if hadZero then do
          let a2 ← placeRaw i a1
          pure (a2, i)
        else pure (a1, i)
    else pure (a, bits) : R (Tbl × Nat))
  let e' := if e = 0 then bits else e
  match RH.lookfor e' a 0 with
  | .found _ => pure (.heap sz cap bits a, false)
  | .empty idx => pure (.heap (sz + 1) cap bits (put a idx e'), true)
  | .needInsert =>
    if hasRoom a then do
      let a' ← placeRaw e' a
      pure (.heap (sz + 1) cap bits a', true)
    else do
      let newcap := cap + 1 + (rand32 cap bits % cap)
      let na : Tbl := Array.replicate newcap 0
      let na ← (a.toList.filter (· ≠ 0)).foldlM (fun t v => placeRaw v t) na
      let na ← placeRaw e' na
      pure (.heap (sz + 1) newcap bits na, true)

def insertBitmap (rec : Ins) (sz cap bits : Nat) (a : Tbl) (e : Nat) : R (Rp × Bool) :=
  if cab e < bits then do
    let newbits := cab e
    let r := rand32 cap bits
    let keys := sortDedup ((elems (.heap sz cap bits a)).map (· / (max newbits 1)))
    let needed := keys.length + 1
    let new ← withCapBits (needed + 1 + needed / 8 + r % needed) newbits
    rebuild rec new (.heap sz cap bits a) e
  else
    let key := e / bits
    let off := e % bits
    let word := ((key <<< bits) % M32) ||| (1 <<< off)
    match RH.lookfor key a bits with
    | .found idx =>
      let w := get a idx
      if w.testBit off then .ok (.heap sz cap bits a, false)
      else .ok (.heap (sz + 1) cap bits (put a idx (w ||| (1 <<< off))), true)
    | .empty idx => .ok (.heap (sz + 1) cap bits (put a idx word), true)
    | .needInsert =>
      if hasRoom a then
        match RH.pinsert key a bits with
        | .ok (idx, a') => .ok (.heap (sz + 1) cap bits (put a' idx word), true)
        | .error _ => .error .noRoom
      else
        let mx0 := (a.toList.map (fun x => (x >>> bits) * bits + bits)).foldl max 0
        let mx := if e > mx0 then e else mx0
        if cap > mx >>> 6 then
          rebuild rec (denseWithMax mx) (.heap sz cap bits a) e
        else do
          let newcap := cap + 1 + (rand32 cap bits % cap)
          let new ← withCapBits newcap bits
          rebuild rec new (.heap sz cap bits a) e

def insertStep (rec : Ins) : Ins
  | .empty, e =>
    match Tiny32.newSortedDeduped [e] with
    | some t => .ok (.stack t, true)
    | none => do
      let r ← withCapMax 1 e
      rec r e
  | .stack t, e =>
    match Tiny32.insert t e with
    | some t' => .ok (.stack t', t'.sz != t.sz)
    | none => do
      let mx0 := t.members.getLast?.getD 0
      let mx := if e > mx0 then e else mx0
      let r ← withCapMax (t.sz + 1) mx
      rebuild rec r (.stack t) e
  | .heap sz cap bits a, e =>
    if bits = 32 then insertDense rec sz cap a e
    else if bits = 0 ∨ bits > 32 then insertBig sz cap bits a e
    else insertBitmap rec sz cap bits a e

def insert : Nat → Ins
  | 0 => fun _ _ => .error .fuel
  | fuel + 1 => insertStep (insert fuel)

def fromIter (fuel : Nat) (v : List Nat) : R Rp :=   -- v sorted, no duplicates (the only way `remove` calls it)
  match v.getLast? with
  | none => .ok .empty
  | some mx =>
    match Tiny32.newSortedDeduped v with
    | some t => .ok (.stack t)
    | none =>
      if v.length > mx >>> 4 then do
        let s ← withCapMax v.length mx
        insertAll (insert fuel) s v
      else
        let bits := cab mx
        if bits = 0 then do
          let s ← withCapBits v.length bits
          insertAll (insert fuel) s v
        else do
          let keys := (v.map (· / bits)).eraseDups
          let sz := (keys.length + 1) * 11 / 10
          let s ← withCapBits sz bits
          insertAll (insert fuel) s v

def remove (fuel : Nat) : Rp → Nat → R (Rp × Bool)
  | .empty, _ => .ok (.empty, false)
  | .stack t, e =>
    if t.members.contains e then
      if t.sz - 1 = 0 then .ok (.empty, true)
      else do
        let r ← fromIter fuel (t.members.filter (· ≠ e))
        pure (r, true)
    else .ok (.stack t, false)
  | .heap sz cap bits a, e =>
    if bits = 32 then
      let key := e >>> 5
      if key < cap then
        let w := get a key
        let present := w.testBit (e % 32)
        .ok (.heap (if present then sz - 1 else sz) cap 32 (put a key (w &&& (M32 - 1 - (1 <<< (e % 32))))), present)
      else .ok (.heap sz cap bits a, false)
    else if bits = 0 ∨ bits > 32 then
      if e = bits then .ok (.heap sz cap bits a, false)
      else
        let e' := if e = 0 then bits else e
        let (had, a') := RH.premove e' a 0
        .ok (.heap (if had then sz - 1 else sz) cap bits a', had)
    else
      if cab e < bits then .ok (.heap sz cap bits a, false)
      else
        let key := e / bits
        let off := e % bits
        match RH.lookfor key a bits with
        | .found idx =>
          let w := get a idx
          if w.testBit off then
            let newa := w &&& (M32 - 1 - (1 <<< off))
            if newa = (key <<< bits) % M32 then
              .ok (.heap (sz - 1) cap bits (RH.premove key a bits).2, true)
            else .ok (.heap (sz - 1) cap bits (put a idx newa), true)
          else .ok (.heap sz cap bits a, false)
        | _ => .ok (.heap sz cap bits a, false)

def contains : Rp → Nat → Bool
  | .empty, _ => false
  | .stack t, e => Tiny32.contains t e
  | .heap _ cap bits a, e =>
    if bits = 32 then
      let key := e >>> 5
      if key < cap then (get a key).testBit (e % 32) else false
    else if bits = 0 ∨ bits > 32 then
      if e = bits then false
      else match RH.lookfor (if e = 0 then bits else e) a 0 with | .found _ => true | _ => false
    else
      if cab e < bits then false
      else match RH.lookfor (e / bits) a bits with
        | .found idx => (get a idx).testBit (e % bits)
        | _ => false

def len : Rp → Nat
  | .empty => 0
  | .stack t => t.sz
  | .heap sz _ _ _ => sz

end SF32
