import Setproto.Set
import Setproto.Set32
