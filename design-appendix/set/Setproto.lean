import Setproto.Set
