import Setproto.Set
import Setproto.Set32
import Setproto.SetF
import Setproto.Set32F
import Setproto.TinyC
import Setproto.SetC
