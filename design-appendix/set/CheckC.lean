import Setproto.SetC
open SC

def parseRepr (toks : List String) (cd : TinyC.Codec) : Option Rp :=
  match toks with
  | ["E"] => some .empty
  | ["S", w] => some (.stack (TinyC.ofWord cd w.toNat!))
  | "H" :: sz :: cap :: bits :: ws => some (.heap sz.toNat! cap.toNat! bits.toNat! (ws.map String.toNat!).toArray)
  | _ => none

def reprEq : Rp → Rp → Bool
  | .empty, .empty => true
  | .stack a, .stack b => a == b
  | .heap s1 c1 b1 a1, .heap s2 c2 b2 a2 => s1 == s2 && c1 == c2 && b1 == b2 && a1 == a2
  | _, _ => false

def showR (cd : TinyC.Codec) : Rp → String
  | .empty => "E"
  | .stack t => s!"S {TinyC.toWord cd t}"
  | .heap sz cap bits a => s!"H {sz} {cap} {bits} {a}"

def main (args : List String) : IO Unit := do
  let (c, path) := match args with
    | ["32", p] => (cfg32, p)
    | [_, p] => (cfg64, p)
    | _ => (cfg64, "/root/scratch/set_trace.txt")
  let txt ← IO.FS.readFile path
  let mut cur : Rp := .empty
  let mut bad := 0
  let mut n := 0
  let mut skip := false
  for line in txt.splitOn "\n" do
    if line.isEmpty then continue
    let toks := line.splitOn " "
    match toks with
    | ["new"] => cur := .empty; skip := false
    | "it" :: l :: items =>
      if skip then continue
      n := n + 1
      let got := (items.filter (· ≠ "")).map String.toNat!
      if elems c cur != got || len cur != l.toNat! then
        bad := bad + 1
        if bad < 8 then IO.println s!"ITER mismatch model {elems c cur} impl {got}"
    | op :: v :: ret :: rest =>
      if skip then continue
      n := n + 1
      let e := v.toNat!
      let r := ret.toNat! == 1
      let some impl := parseRepr rest c.codec | IO.println s!"parse error {line}"
      let res : Except Err ((Rp × Bool) × Unit) :=
        match op with
        | "i" => insert c detRng 8 cur e ()
        | "r" => remove c detRng 8 cur e ()
        | _ => .ok ((cur, contains c cur e), ())
      match res with
      | .ok ((m, mr), _) =>
        if !(reprEq m impl) || mr != r then
          bad := bad + 1; skip := true
          if bad < 8 then IO.println s!"MISMATCH op {op} {e}: before {showR c.codec cur}\n   model ret {mr} {showR c.codec m}\n   impl  ret {r} {showR c.codec impl}"
        cur := impl
      | .error _ =>
        bad := bad + 1; skip := true
        if bad < 8 then IO.println s!"MODEL ERROR op {op} {e} before {showR c.codec cur}"
        cur := impl
    | _ => pure ()
  IO.println s!"steps {n} bad {bad}"
