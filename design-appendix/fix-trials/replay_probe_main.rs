use tinyset::{SetU32, SetU64};
#[cfg(feature = "det")]
fn rand64(cap: usize, bits: u64) -> u64 { (cap as u64).wrapping_mul(9838956529666160483) ^ bits.wrapping_mul(17253312864001072049) }
#[cfg(feature = "det")]
fn main() {
    let mut s = SetU64::new();
    s.insert(1u64 << 62);
    let p = rand64(1, 0);
    for _ in 0..100 { let c = rand64(s.capacity(), p); if s.contains(c) { break; } s.insert(c); }
    let before: Vec<u64> = { let mut v: Vec<_> = s.iter().collect(); v.sort(); v };
    let r = s.insert(p);
    let mut after: Vec<u64> = s.iter().collect(); after.sort();
    let mut expect = before.clone(); expect.push(p); expect.sort();
    println!("D9 u64 insert(placeholder) returned {} contents ok {}", r, after == expect);
    let s = SetU32::with_capacity_and_bits(67266299, 0);
    println!("D9 u32 ctor returned cap {}", s.capacity());
    let mut s = SetU32::with_capacity_and_bits(4, 0);
    let b0 = rand64(4, 0) as u32; let c1 = rand64(4, b0 as u64) as u32;
    s.insert(c1); let r = s.insert(b0);
    println!("D9 u32 insert(placeholder) returned {} len {} has both {}", r, s.len(), s.contains(b0) && s.contains(c1));
}
#[cfg(feature = "cser")]
fn main() {
    for v in vec![vec![1u32<<30], vec![1000,2000,3000,4000], vec![5,100000], vec![1,2,3], vec![], vec![7], (0..100).collect(), vec![u32::MAX, 5, 77]] {
        let s: SetU32 = v.iter().cloned().collect();
        let j = serde_json::to_string(&s).unwrap();
        let b: SetU32 = serde_json::from_str(&j).unwrap();
        println!("D8 {:?} -> {} eq {}", &v[..v.len().min(5)], &j[..j.len().min(40)], b == s);
    }
    for v in vec![vec![1u64<<60], vec![0,1,2], (0..100).collect(), vec![u64::MAX, 5, 0]] {
        let s: SetU64 = v.iter().cloned().collect();
        let j = serde_json::to_string(&s).unwrap();
        let b: SetU64 = serde_json::from_str(&j).unwrap();
        println!("u64 eq {}", b == s);
    }
}
#[cfg(feature = "dflt")]
fn main() {
    let s: SetU32 = vec![5u32, 5].into_iter().collect();
    println!("D1 {:?}", s);
    let s: SetU32 = std::iter::repeat(0u32).take(1000).chain(vec![16000u32]).collect();
    println!("D1b dup-heavy collect: len {} cap {}", s.len(), s.capacity());
    // D3
    let s: SetU64 = (0..7u64).collect();
    let mut it = s.clone().into_iter(); it.next(); it.next();
    println!("D3 stack min after 2: {:?}", it.clone().min());
    for _ in 0..5 { it.next(); }
    println!("D3 exhausted last {:?} max {:?} min {:?}", it.clone().last(), it.clone().max(), it.clone().min());
    for (name, s) in vec![("bitmap", (1000..1300u64).step_by(7).collect::<SetU64>()), ("big", vec![u64::MAX, 1<<63, 12345678901234567, 99, 0].into_iter().collect()), ("dense", (0..500u64).collect()), ("stack", vec![3,9,27].into_iter().collect())] {
        let all: Vec<u64> = s.iter().collect();
        let mut ok = true;
        for k in 0..=all.len() {
            let mut it = s.clone().into_iter(); for _ in 0..k { it.next(); }
            let rest = &all[k..];
            ok &= it.clone().min() == rest.iter().cloned().min();
            ok &= it.clone().max() == rest.iter().cloned().max();
            ok &= it.clone().last() == rest.last().cloned();
            ok &= it.clone().count() == rest.len();
            ok &= it.size_hint() == (rest.len(), Some(rest.len()));
        }
        println!("D3 {} all positions ok {}", name, ok);
    }
    for (name, s) in vec![("bitmap32", (1000..1300u32).step_by(7).collect::<SetU32>()), ("big32", vec![u32::MAX, 1<<31, 1234567890, 99, 0].into_iter().collect()), ("dense32", (0..500u32).collect()), ("stack32", vec![3,9,27].into_iter().collect())] {
        let all: Vec<u32> = s.iter().collect();
        let mut ok = true;
        for k in 0..=all.len() {
            let mut it = s.clone().into_iter(); for _ in 0..k { it.next(); }
            let rest = &all[k..];
            ok &= it.clone().min() == rest.iter().cloned().min();
            ok &= it.clone().max() == rest.iter().cloned().max();
            ok &= it.clone().last() == rest.last().cloned();
            ok &= it.clone().count() == rest.len();
        }
        println!("D3 {} all positions ok {}", name, ok);
    }
    let s: SetU64 = (0..1000u64).collect();
    println!("D4 mem_used {} expected {}", s.mem_used(), 8 + s.capacity()*8+24);
    let s: SetU32 = (0..1000u32).collect();
    println!("D4 u32 mem_used {} expected {}", s.mem_used(), 8 + s.capacity()*4+12);
    let mut worst = 0;
    for _ in 0..200 { let mut s = SetU64::new(); for k in 10..60 { s.insert(1u64<<k); worst = worst.max(s.capacity() as i64 - 3*s.len() as i64); } }
    println!("D5 u64 max(cap - 3*len) over 200 runs of 2^10..2^59: {}", worst);
    let mut worst = 0;
    for _ in 0..200 { let mut s = SetU32::new(); for k in 5..32 { s.insert(1u32<<k); worst = worst.max(s.capacity() as i64 - 3*s.len() as i64); } }
    println!("D5 u32 max(cap - 3*len): {}", worst);
    let mut s = SetU64::new(); for k in 0..8 { s.insert(k); } s.insert(64000);
    println!("D6 u64 dense+outlier len {} cap {}", s.len(), s.capacity());
    let mut s = SetU32::new(); for k in 0..8 { s.insert(k); } s.insert(16000);
    println!("D6 u32 dense+outlier len {} cap {}", s.len(), s.capacity());
    let n: u64 = 1<<20;
    let mut s = SetU64::new(); for i in 0..8 { s.insert(i); } s.insert(n-1); for i in 8..n-1 { s.insert(i); }
    println!("D7 u64 bytes/member {:.3}", (s.capacity()*8+24) as f64 / n as f64);
    let mut s = SetU32::new(); for i in 0..8 { s.insert(i); } s.insert(n as u32-1); for i in 8..n as u32-1 { s.insert(i); }
    println!("D7 u32 bytes/member {:.3}", (s.capacity()*4+12) as f64 / n as f64);
    let s = SetU32::with_capacity_and_bits((1usize<<32) + 5, 7);
    println!("D10 cap {}", s.capacity()); drop(s);
    let r = std::panic::catch_unwind(|| { let mut s = SetU32::with_capacity_and_bits(u32::MAX as usize, 1); s.insert(1u32 << 31) });
    println!("D12 {:?}", r.is_ok());
}
