use std::collections::BTreeSet;
use tinyset::{SetU32, SetU64};
struct Rng(u64);
impl Rng { fn next(&mut self) -> u64 { self.0 ^= self.0 << 13; self.0 ^= self.0 >> 7; self.0 ^= self.0 << 17; self.0 } }
fn main() {
    let seed: u64 = std::env::args().nth(1).map(|s| s.parse().unwrap()).unwrap_or(1);
    let mut r = Rng(seed.wrapping_mul(0x9E3779B97F4A7C15) | 1);
    let mut fails = 0; let mut worst64 = 0i64; let mut worst32 = 0i64;
    for case in 0..40000u64 {
        let regime = r.next() % 7;
        let mut s = SetU64::new(); let mut s32 = SetU32::new();
        let mut m: BTreeSet<u64> = BTreeSet::new(); let mut m32: BTreeSet<u64> = BTreeSet::new();
        let (mut hi, mut hi32) = (0usize, 0usize);
        let len = 1 + r.next() % 150;
        for _ in 0..len {
            let pick = |r: &mut Rng, m: &BTreeSet<u64>| -> u64 { match r.next() % 9 {
                0 => r.next() % 8, 1 => { let k = r.next() % 64; (1u64 << k).wrapping_add(r.next() % 3).wrapping_sub(1) }
                2 | 3 => m.iter().nth((r.next() as usize) % m.len().max(1)).cloned().unwrap_or(0),
                _ => match regime { 0 => r.next() % 64, 1 => r.next() % 5000, 2 => (r.next() % 100) * 1000, 3 => r.next() >> (r.next()%64), 4 => r.next() % 600, 5 => 1u64 << (r.next() % 64), _ => (1u64<<62) + r.next() % 1000 } } };
            let v = pick(&mut r, &m); let v32 = (pick(&mut r, &m32) & 0xffff_ffff) as u32;
            let op = r.next() % 10;
            let (a, b, a32, b32) = if op < 6 { (s.insert(v), m.insert(v), s32.insert(v32), m32.insert(v32 as u64)) }
                else if op < 9 { (s.remove(v), m.remove(&v), s32.remove(v32), m32.remove(&(v32 as u64))) }
                else { (s.contains(v), m.contains(&v), s32.contains(v32), m32.contains(&(v32 as u64))) };
            hi = hi.max(m.len()); hi32 = hi32.max(m32.len());
            let mut it: Vec<u64> = s.iter().collect(); it.sort();
            let mut it32: Vec<u64> = s32.iter().map(|x| x as u64).collect(); it32.sort();
            if a != b || s.len() != m.len() || it != m.iter().cloned().collect::<Vec<_>>() { println!("U64 MISMATCH case {}", case); fails += 1; break; }
            if a32 != b32 || s32.len() != m32.len() || it32 != m32.iter().cloned().collect::<Vec<_>>() { println!("U32 MISMATCH case {}", case); fails += 1; break; }
            // C11 bound: block words <= 8*M + 8
            if s.capacity() > 0 { worst64 = worst64.max((s.capacity() + 3) as i64 - (8 * hi + 8) as i64); }
            if s32.capacity() > 0 { worst32 = worst32.max((s32.capacity() + 3) as i64 - (8 * hi32 + 8) as i64); }
        }
        if fails > 3 { break; }
    }
    println!("fuzz fails {} ; C11 slack violated by (words) u64 {} u32 {}", fails, worst64, worst32);
}
