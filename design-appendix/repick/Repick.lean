namespace Repick

def M : Nat := 2 ^ 64

/-- the repaired loop: one draw `i`, then scan upward (wrapping) to the first usable value -/
def repickAux (a : List Nat) : (fuel i : Nat) → Option Nat
  | 0, _ => none
  | f + 1, i => if i ≤ 64 ∨ i ∈ a then repickAux a f ((i + 1) % M) else some i

def bad (a : List Nat) (x : Nat) : Prop := x ≤ 64 ∨ x ∈ a

theorem step_iter (i j : Nat) : ((i + j) % M + 1) % M = (i + (j + 1)) % M := by
  rw [Nat.add_mod, Nat.mod_mod, ← Nat.add_mod]; congr 1

theorem none_all_bad (a : List Nat) : ∀ (f i0 j0 : Nat),
    repickAux a f ((i0 + j0) % M) = none → ∀ j, j0 ≤ j → j < j0 + f → bad a ((i0 + j) % M) := by
  intro f
  induction f with
  | zero => intro i0 j0 _ j h1 h2; omega
  | succ f ih =>
    intro i0 j0 h j h1 h2
    unfold repickAux at h
    by_cases hb : (i0 + j0) % M ≤ 64 ∨ (i0 + j0) % M ∈ a
    · rw [if_pos hb, step_iter] at h
      by_cases hj : j = j0
      · subst hj; exact hb
      · exact ih i0 (j0 + 1) h j (by omega) (by omega)
    · rw [if_neg hb] at h; cases h

theorem some_good (a : List Nat) : ∀ (f i r : Nat), repickAux a f i = some r → 64 < r ∧ r ∉ a := by
  intro f
  induction f with
  | zero => intro i r h; cases h
  | succ f ih =>
    intro i r h
    unfold repickAux at h
    by_cases hb : i ≤ 64 ∨ i ∈ a
    · rw [if_pos hb] at h; exact ih _ _ h
    · rw [if_neg hb] at h
      cases h
      constructor
      · omega
      · intro hm; exact hb (Or.inr hm)

/-- the scan needs at most `|table| + 66` steps, whatever the draw and whatever the table holds -/
theorem repick_terminates (a : List Nat) (i : Nat) (hi : i < M) (hsmall : a.length + 66 ≤ M) :
    ∃ r, repickAux a (a.length + 66) i = some r ∧ 64 < r ∧ r ∉ a := by
  cases h : repickAux a (a.length + 66) i with
  | some r => exact ⟨r, rfl, some_good a _ _ _ h⟩
  | none =>
    exfalso
    have h' : repickAux a (a.length + 66) ((i + 0) % M) = none := by
      have e0 : (i + 0) % M = i := by simp [Nat.mod_eq_of_lt hi]
      rw [e0]; exact h
    have hall := none_all_bad a (a.length + 66) i 0 h'
    -- the visited values
    let L := (List.range (a.length + 66)).map (fun j => (i + j) % M)
    have hM : 0 < M := by unfold M; exact Nat.two_pow_pos 64
    have hinj : ∀ x y, x < a.length + 66 → y < a.length + 66 → x < y → (i + x) % M ≠ (i + y) % M := by
      intro x y hx hy hlt e
      have h1 : (i + y) % M = ((i + x) % M + (y - x)) % M := by
        rw [Nat.mod_add_mod]; congr 1; omega
      rw [← e] at h1
      have hr := Nat.mod_lt (i + x) hM
      by_cases hc : (i + x) % M + (y - x) < M
      · rw [Nat.mod_eq_of_lt hc] at h1; omega
      · have hge : (i + x) % M + (y - x) ≥ M := by omega
        have hlt2 : (i + x) % M + (y - x) - M < M := by omega
        rw [Nat.mod_eq_sub_mod hge, Nat.mod_eq_of_lt hlt2] at h1; omega
    have hnodup : L.Nodup := by
      show List.Pairwise (· ≠ ·) _
      rw [List.pairwise_map]
      apply List.Pairwise.imp_of_mem _ (List.pairwise_lt_range (n := a.length + 66))
      intro x y hx hy hlt
      exact hinj x y (List.mem_range.1 hx) (List.mem_range.1 hy) hlt
    have hsub : L ⊆ List.range 65 ++ a := by
      intro v hv
      obtain ⟨j, hj, rfl⟩ := List.mem_map.1 hv
      have hj' := List.mem_range.1 hj
      rcases hall j (Nat.zero_le _) (by omega) with hb | hb
      · exact List.mem_append.2 (Or.inl (List.mem_range.2 (by omega)))
      · exact List.mem_append.2 (Or.inr hb)
    have hlen := hnodup.length_le_of_subset hsub
    simp [L] at hlen
    omega

#print axioms repick_terminates
end Repick
