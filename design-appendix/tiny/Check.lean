import Tinyproto.Model
open Tiny

/-- replay one trace line against the model; returns error string or none -/
def replay (toks : List String) : Option String := Id.run do
  let mut cur : Option T := none   -- none = empty set
  let mut rest := toks
  let mut fuel := 40
  while fuel > 0 do
    fuel := fuel - 1
    match rest with
    | v :: ret :: w :: more =>
      rest := more
      let e := v.toNat!
      let r := ret.toNat! == 1
      -- model step
      let (nxt, changed) : Option T × Bool :=
        match cur with
        | none => (newSortedDeduped [e], true)
        | some t => match insert t e with
          | some t' => (some t', t'.sz != t.sz)
          | none => (none, true)
      if w == "H" then
        if nxt.isSome then return some s!"impl went heap, model inline: v={e} cur={repr cur}"
        return none
      else
        match nxt with
        | none => return some s!"model went heap, impl inline: v={e} cur={repr cur}"
        | some t' =>
          if toWord t' != w.toNat! then return some s!"word mismatch v={e} model {toWord t'} impl {w} cur={repr cur}"
          if changed != r then return some s!"ret mismatch v={e}"
          cur := some t'
    | _ => return none
  return none

def main : IO Unit := do
  let txt ← IO.FS.readFile "/root/scratch/tiny_trace.txt"
  let mut bad := 0
  let mut n := 0
  for line in txt.splitOn "\n" do
    if line.isEmpty then continue
    n := n + 1
    match replay (line.splitOn " ") with
    | some e => bad := bad + 1; if bad < 6 then IO.println e
    | none => pure ()
  IO.println s!"lines {n} bad {bad}"
