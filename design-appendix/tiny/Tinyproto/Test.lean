import Tinyproto.Model
open Tiny

def insSorted (e : Nat) : List Nat → List Nat
  | [] => [e]
  | x :: xs => if e < x then e :: x :: xs else if e = x then x :: xs else x :: insSorted e xs

def lattice (w : Nat) : List Nat := [0, 1, 2, 2^w - 2, 2^w - 1, 2^w, 2^w + 1].filter (fun x => true && x < 2^62)

/-- check insert on t for a set of candidate e's -/
def checkInsert (t : T) (es : List Nat) : List String := Id.run do
  let mut bad := []
  let ms := t.members
  for e in es do
    match insert t e with
    | some t' =>
      let exp := if ms.contains e then ms else insSorted e ms
      if t'.members != exp then bad := s!"insert {repr t} {ms} e={e} -> {t'.members} expected {exp}" :: bad
      if ms.contains e && t' != t then bad := s!"insert present changed {repr t} {e}" :: bad
      if ofWord (toWord t') != t' then bad := s!"word roundtrip {repr t'}" :: bad
    | none =>
      if ms.contains e then bad := s!"insert present gave none {repr t} {ms} e={e}" :: bad
    if contains t e != ms.contains e then bad := s!"contains {repr t} {ms} {e}" :: bad
  return bad

/-- build all sets over lattice values by ascending construction -/
def run : Nat × List String := Id.run do
  let mut bad : List String := []
  let mut count := 0
  -- candidate members: lattice of all widths
  let cands := ([7,8,10,12,15,19,21,25,31,40,61].flatMap lattice ++ [3,5,100,1000,4096,70000]).eraseDups
  let csorted := cands.toArray.qsort (· < ·) |>.toList
  -- sets of size 1..3 from candidates (collect path), then inserts of every candidate
  for x in csorted do
    match newSortedDeduped [x] with
    | some t =>
      count := count + 1
      if t.members != [x] then bad := s!"new [{x}] members {t.members}" :: bad
      bad := checkInsert t csorted ++ bad
      for y in csorted do
        if x < y then
          match newSortedDeduped [x, y] with
          | some t2 =>
            count := count + 1
            if t2.members != [x, y] then bad := s!"new [{x},{y}] {t2.members}" :: bad
            bad := checkInsert t2 csorted ++ bad
          | none => pure ()
    | none => pure ()
  return (count, bad.take 8)

#eval run

-- deeper: chains of 7 with small gaps near boundaries
def run2 : Nat × List String := Id.run do
  let mut bad : List String := []
  let mut count := 0
  let firsts := [0, 1, 2^19 - 2, 2^19 - 1, 2^19, 2^21 - 1, 2^21, 2^25 - 1, 2^25]
  let gaps := [1, 2, 127, 128, 129, 255, 256, 257, 1023, 1024, 1025, 4096, 4097]
  for f in firsts do
    for g1 in gaps do
      for g2 in gaps do
        let base := [f, f + g1, f + g1 + g2]
        let mut cur : Option T := newSortedDeduped base
        let mut ms := base
        for g in [1, 128, 129, 256, 2] do
          match cur with
          | some t =>
            count := count + 1
            let e := (ms.getLast?.getD 0) + g
            let mid := (ms.head?.getD 0) + 1
            bad := checkInsert t [e, mid, 0, f + g1 + 1, f + g1 - 1] ++ bad
            cur := insert t e
            match cur with
            | some t' => ms := t'.members
            | none => pure ()
          | none => pure ()
  return (count, bad.take 8)
#eval run2
