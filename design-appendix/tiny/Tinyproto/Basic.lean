def hello := "world"
