import Tinyproto.Model
import Tinyproto.Lemmas
import Tinyproto.Go
import Tinyproto.Spec
import Tinyproto.Budget
