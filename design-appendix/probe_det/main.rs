use tinyset::SetU64;
use std::fmt::Write;
struct Rng(u64);
impl Rng { fn next(&mut self) -> u64 { self.0 ^= self.0 << 13; self.0 ^= self.0 >> 7; self.0 ^= self.0 << 17; self.0 } }
fn rand64(cap: usize, bits: u64) -> u64 { (cap as u64).wrapping_mul(9838956529666160483) ^ bits.wrapping_mul(17253312864001072049) }
fn word(s: &SetU64) -> usize { unsafe { *(s as *const SetU64 as *const usize) } }
/// (sz, cap, bits, words) of a heap set
fn heap(s: &SetU64) -> Option<(usize, usize, u64, Vec<u64>)> {
    let w = word(s);
    if w == 0 || w & 7 != 0 { return None; }
    unsafe {
        let p = w as *const usize;
        let (sz, cap) = (*p, *p.add(1));
        let bits = *(p.add(2) as *const u64);
        let a = std::slice::from_raw_parts(p.add(3) as *const u64, cap).to_vec();
        Some((sz, cap, bits, a))
    }
}
fn repr(s: &SetU64) -> String {
    match heap(s) {
        None => { let w = word(s); if w == 0 { "E".into() } else { format!("S {}", w) } }
        Some((sz, cap, bits, a)) => { let mut o = format!("H {} {} {}", sz, cap, bits); for x in a { write!(o, " {}", x).unwrap(); } o }
    }
}
fn main() {
    let seed: u64 = std::env::args().nth(1).map(|s| s.parse().unwrap()).unwrap_or(1);
    let cases: u64 = std::env::args().nth(2).map(|s| s.parse().unwrap()).unwrap_or(2000);
    let mut r = Rng(seed.wrapping_mul(0x9E3779B97F4A7C15) | 1);
    for _case in 0..cases {
        println!("new");
        let mut s = SetU64::new();
        let regime = if seed >= 200 { 7 + r.next() % 3 } else if seed >= 100 { 7 + r.next() % 3 } else { r.next() % 7 };
        let n = if seed >= 200 { 20 + r.next() % 600 } else if seed >= 100 { 20 + r.next() % 400 } else { 1 + r.next() % 70 };
        let mut present: Vec<u64> = vec![];
        for _ in 0..n {
            let pick = if seed >= 200 { 7 + r.next() % 5 } else { r.next() % 12 };
            let pick = if seed >= 200 && r.next() % 4 == 0 { 2 } else { pick };
            let v = match pick {
                0 => r.next() % 8,
                1 => { let k = r.next() % 64; let b = 1u64 << k; match r.next() % 3 { 0 => b.wrapping_sub(1), 1 => b, _ => b.wrapping_add(1) } }
                2 | 3 => if present.is_empty() { 0 } else { present[(r.next() as usize) % present.len()] },
                4 => match heap(&s) { Some((_, cap, bits, a)) if bits == 0 || bits > 64 => { let c = rand64(cap, bits); if c > 64 && !a.contains(&c) { bits } else { 1 } }, _ => 0 },           // the placeholder itself (only when the re-pick terminates)
                5 => match heap(&s) { Some((_, cap, bits, _)) if bits == 0 || bits > 64 => rand64(cap, bits), _ => u64::MAX }, // next candidate
                6 => match heap(&s) { Some((_, cap, _, a)) if cap > 0 => { let x = a[(r.next() as usize) % cap]; x.wrapping_add(cap as u64) } _ => 7 },  // slot collision
                _ => match regime { 0 => r.next() % 64, 1 => r.next() % 4000, 2 => (r.next() % 60) * 1000, 3 => r.next() >> (r.next() % 64), 4 => (1u64 << 62) + r.next() % 50, 5 => r.next() % 300 + (r.next() % 3) * (1 << 20), 6 => 1u64 << (r.next() % 64), 7 => r.next() % 2000, 8 => r.next() % 200, _ => (r.next() % 500) * 3 + if r.next() % 50 == 0 { 1 << 16 } else { 0 } },
            };
            let op = r.next() % 10;
            if op < 6 { let ret = s.insert(v); if ret { present.push(v); } println!("i {} {} {}", v, ret as u8, repr(&s)); }
            else if op < 9 { let ret = s.remove(v); present.retain(|&x| x != v); println!("r {} {} {}", v, ret as u8, repr(&s)); }
            else { let ret = s.contains(v); println!("c {} {} {}", v, ret as u8, repr(&s)); }
            if s.capacity() > 400 { break; }
        }
        let it: Vec<String> = s.iter().map(|x| x.to_string()).collect();
        println!("it {} {}", s.len(), it.join(" "));
    }
}
