namespace Fits
def toU64 (x : BitVec 64) : BitVec 64 :=
  let negRep := ((~~~ x) <<< 1) ||| 1#64
  let posRep := x <<< 1
  let negMask : BitVec 64 := (if x.msb then 0#64 else 1#64) - 1#64
  (negRep &&& negMask) ||| (posRep &&& ~~~ negMask)
def fromU64 (x : BitVec 64) : BitVec 64 :=
  let posVal := x >>> 1
  let negVal := ~~~ (x >>> 1)
  let posMask := (x &&& 1#64) - 1#64
  (posVal &&& posMask) ||| (negVal &&& ~~~ posMask)

theorem m1 : (0#64 - 1#64) = BitVec.allOnes 64 := by decide
theorem m0 : (1#64 - 1#64) = 0#64 := by decide

theorem and_lit (a : BitVec 64) : a &&& 18446744073709551615#64 = a := by
  apply BitVec.eq_of_toNat_eq
  rw [BitVec.toNat_and]
  show a.toNat &&& (2 ^ 64 - 1) = a.toNat
  rw [Nat.and_two_pow_sub_one_eq_mod]; exact Nat.mod_eq_of_lt a.isLt

/-- a mask that is all-ones or zero selects one of the two operands -/
theorem sel_ones (a b : BitVec 64) : (a &&& BitVec.allOnes 64) ||| (b &&& ~~~ BitVec.allOnes 64) = a := by
  simp [and_lit]
theorem sel_zero (a b : BitVec 64) : (a &&& 0#64) ||| (b &&& ~~~ 0#64) = b := by
  simp [and_lit]

theorem toU64_pos (x : BitVec 64) (h : x.msb = false) : toU64 x = x <<< 1 := by
  unfold toU64; simp only [h, Bool.false_eq_true, if_false, m0]; exact sel_zero _ _
theorem toU64_neg (x : BitVec 64) (h : x.msb = true) : toU64 x = ((~~~ x) <<< 1) ||| 1#64 := by
  unfold toU64; simp only [h, if_true, m1]; exact sel_ones _ _

theorem low_pos (x : BitVec 64) : (x <<< 1) &&& 1#64 = 0#64 := by
  ext i hi; simp; omega
theorem low_neg (y : BitVec 64) : ((y <<< 1) ||| 1#64) &&& 1#64 = 1#64 := by
  ext i hi; simp; intro h; omega

theorem shl_shr (x : BitVec 64) (h : x.msb = false) : (x <<< 1) >>> 1 = x := by
  ext i hi
  simp
  by_cases hi' : i = 63
  · subst hi'; simp [BitVec.msb_eq_getLsbD_last] at h; simp [h]
  · have : i + 1 < 64 := by omega
    have h2 : 1 + i < 64 := by omega
    simp [h2, BitVec.getLsbD_eq_getElem hi]

theorem shl_or_shr (x : BitVec 64) (h : x.msb = true) : ~~~ ((((~~~ x) <<< 1) ||| 1#64) >>> 1) = x := by
  ext i hi
  simp
  by_cases hi' : i = 63
  · subst hi'; simp [BitVec.msb_eq_getLsbD_last] at h; simp [h]
  · have : i + 1 < 64 := by omega
    simp [this, hi]
    try (intro h'; omega)

theorem roundtrip (x : BitVec 64) : fromU64 (toU64 x) = x := by
  cases h : x.msb
  · rw [toU64_pos x h]; unfold fromU64; simp only [low_pos, m1]
    rw [sel_ones]; exact shl_shr x h
  · rw [toU64_neg x h]; unfold fromU64; simp only [low_neg, m0]
    rw [sel_zero]; exact shl_or_shr x h
#print axioms roundtrip
end Fits
