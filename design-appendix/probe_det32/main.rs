use tinyset::SetU32;
use std::fmt::Write;
struct Rng(u64);
impl Rng { fn next(&mut self) -> u64 { self.0 ^= self.0 << 13; self.0 ^= self.0 >> 7; self.0 ^= self.0 << 17; self.0 } }
fn rand32(cap: u32, bits: u32) -> u32 { ((cap as usize as u64).wrapping_mul(9838956529666160483) ^ (bits as u64).wrapping_mul(17253312864001072049)) as u32 }
fn word(s: &SetU32) -> usize { unsafe { *(s as *const SetU32 as *const usize) } }
fn heap(s: &SetU32) -> Option<(u32, u32, u32, Vec<u32>)> {
    let w = word(s);
    if w == 0 || w & 3 != 0 { return None; }
    unsafe {
        let p = w as *const u32;
        let (sz, cap, bits) = (*p, *p.add(1), *p.add(2));
        let a = std::slice::from_raw_parts(p.add(3), cap as usize).to_vec();
        Some((sz, cap, bits, a))
    }
}
fn repr(s: &SetU32) -> String {
    match heap(s) {
        None => { let w = word(s); if w == 0 { "E".into() } else { format!("S {}", w) } }
        Some((sz, cap, bits, a)) => { let mut o = format!("H {} {} {}", sz, cap, bits); for x in a { write!(o, " {}", x).unwrap(); } o }
    }
}
fn main() {
    let seed: u64 = std::env::args().nth(1).map(|s| s.parse().unwrap()).unwrap_or(1);
    let cases: u64 = std::env::args().nth(2).map(|s| s.parse().unwrap()).unwrap_or(2000);
    let mut r = Rng(seed.wrapping_mul(0x9E3779B97F4A7C15) | 1);
    for _case in 0..cases {
        println!("new");
        let mut s = SetU32::new();
        let dense = seed >= 200;
        let regime = if dense { 7 + r.next() % 3 } else { r.next() % 7 };
        let n = if dense { 20 + r.next() % 600 } else { 1 + r.next() % 70 };
        let mut present: Vec<u32> = vec![];
        for _ in 0..n {
            let pick = if dense { if r.next() % 4 == 0 { 2 } else { 7 + r.next() % 5 } } else { r.next() % 12 };
            let v: u32 = match pick {
                0 => (r.next() % 8) as u32,
                1 => { let k = r.next() % 32; let b = 1u32 << k; match r.next() % 3 { 0 => b.wrapping_sub(1), 1 => b, _ => b.wrapping_add(1) } }
                2 | 3 => if present.is_empty() { 0 } else { present[(r.next() as usize) % present.len()] },
                4 => match heap(&s) { Some((_, cap, bits, a)) if bits == 0 || bits > 32 => { let c = rand32(cap, bits); if c > 32 && !a.contains(&c) { bits } else { 1 } }, _ => 0 },
                5 => match heap(&s) { Some((_, cap, bits, _)) if bits == 0 || bits > 32 => rand32(cap, bits), _ => u32::MAX },
                6 => match heap(&s) { Some((_, cap, _, a)) if cap > 0 => { let x = a[(r.next() as usize) % cap as usize]; x.wrapping_add(cap) } _ => 7 },
                _ => match regime { 0 => (r.next() % 64) as u32, 1 => (r.next() % 4000) as u32, 2 => ((r.next() % 60) * 1000) as u32, 3 => (r.next() as u32) >> (r.next() % 32), 4 => (1u32 << 31) + (r.next() % 50) as u32, 5 => (r.next() % 300) as u32 + ((r.next() % 3) as u32) * (1 << 20), 6 => 1u32 << (r.next() % 32), 7 => (r.next() % 2000) as u32, 8 => (r.next() % 200) as u32, _ => ((r.next() % 500) * 3) as u32 + if r.next() % 50 == 0 { 1 << 16 } else { 0 } },
            };
            let op = r.next() % 10;
            if op < 6 { let ret = s.insert(v); if ret { present.push(v); } println!("i {} {} {}", v, ret as u8, repr(&s)); }
            else if op < 9 { let ret = s.remove(v); present.retain(|&x| x != v); println!("r {} {} {}", v, ret as u8, repr(&s)); }
            else { let ret = s.contains(v); println!("c {} {} {}", v, ret as u8, repr(&s)); }
            if s.capacity() > 400 { break; }
        }
        let it: Vec<String> = s.iter().map(|x| x.to_string()).collect();
        println!("it {} {}", s.len(), it.join(" "));
    }
}
