import Rhproto.Model
open RH

/-- enumerate all tables reachable by inserts/removes of keys < K in a table of size n (off = 0, word = key+1 shifted? use off=2, word = key<<2 | 1) -/
def word (off k : Nat) : Nat := if off = 0 then k else (k <<< off) ||| 1

def insertKey (off : Nat) (a : Tbl) (k : Nat) : Option Tbl :=
  match lookfor k a off with
  | .found _ => some a
  | .empty i => some (put a i (word off k))
  | .needInsert =>
    if hasZero a then
      match pinsert k a off with
      | .ok (i, a') => some (put a' i (word off k))
      | .error _ => none
    else some a  -- full: caller would grow; skip

partial def explore (off n K : Nat) : Nat × Nat × List String := Id.run do
  let mut seen : List Tbl := [Array.replicate n 0]
  let mut frontier : List Tbl := [Array.replicate n 0]
  let mut bad : List String := []
  let mut steps := 0
  while !frontier.isEmpty do
    let mut nxt : List Tbl := []
    for a in frontier do
      for k in (if off = 0 then (List.range K).map (· + 1) else List.range K) do
        steps := steps + 1
        -- lookup agreement with membership
        let present := (keys a off).contains k
        let lk := lookfor k a off
        let foundOk := match lk with | .found i => present && (get a i >>> off) == k | _ => !present
        if !foundOk then bad := s!"lookup {a} k={k} -> {repr lk}" :: bad
        -- insert
        match insertKey off a k with
        | none => bad := s!"insert error {a} k={k}" :: bad
        | some a' =>
          if !(inv a' off) then bad := s!"insert breaks inv {a} k={k} -> {a'}" :: bad
          let ks := (keys a' off)
          if !(ks.contains k) && hasZero a then bad := s!"insert lost key {a} {k}" :: bad
          if !present && hasZero a && ks.length != (keys a off).length + 1 then bad := s!"insert count {a} {k} {a'}" :: bad
          if !(seen.contains a') then seen := a' :: seen; nxt := a' :: nxt
        -- remove
        let (r, a'') := premove k a off
        if r != present then bad := s!"remove ret {a} k={k}" :: bad
        if !(inv a'' off) then bad := s!"remove breaks inv {a} k={k} -> {a''}" :: bad
        if (keys a'' off).contains k then bad := s!"remove left key {a} {k}" :: bad
        if present && (keys a'' off).length + 1 != (keys a off).length then bad := s!"remove count {a} {k}" :: bad
        if !(seen.contains a'') then seen := a'' :: seen; nxt := a'' :: nxt
    frontier := nxt
  return (seen.length, steps, bad.take 5)

#eval explore 2 3 7
#eval explore 0 4 9
#eval explore 3 5 8
#eval explore 0 5 8
#eval explore 1 6 7
