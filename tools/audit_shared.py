#!/usr/bin/env python3
"""Side condition of the model for C18 (read off /repo/src on every run).

The Lean model represents every operation that takes the set by shared reference (`contains`, `len`, `iter`, `clone`,
`==`, `hash`, the borrowed operators, `with_capacity_of`, Debug, the iterators over `&set`) as a pure function of the
representation.  That reading is faithful only if those functions never write through the shared reference.  Rust
enforces it for safe code; the crate is full of raw pointers, so this audit checks the unsafe escape routes
syntactically:

 * in the set files, inside every function whose receiver / set parameters are shared (`&self`, `&SetU64`, `&Self`,
   `&[u64]` ...): no `&mut *p.0`, no assignment through `(*p.0)`, no `p.0 as *mut`, no `as_ptr() as *mut`,
   no `from_raw_parts_mut`, no `ptr::write*`/`copy*` INTO `p.0`;
 * in the iterator files and the typed wrappers: no `*mut`, `from_raw_parts_mut`, `as_mut_ptr` at all;
 * no interior mutability (`Cell`, `RefCell`, `UnsafeCell`, `Atomic*`, `Mutex`, `static mut`) in any of these files.

It prints one line per finding and exits 1 if there is any.  A finding is a broken obligation of the tie, not a
failing input: the check then looks for one with the concurrent-reader scenarios."""
import os, re, sys

REPO = os.environ.get("VERIF_REPO", "/repo")
SET_FILES = ["src/setu64.rs", "src/setu32.rs"]
STRICT_FILES = ["src/setu64/iter.rs", "src/setu32/iter.rs", "src/set64.rs", "src/setusize.rs", "src/copyset.rs"]
INTERIOR = re.compile(r"\b(UnsafeCell|RefCell|Cell\s*<|Atomic[A-Z]\w*|Mutex|RwLock|static\s+mut)\b")


def strip_comments(src):
    src = re.sub(r"/\*.*?\*/", lambda m: " " * len(m.group(0)) if "\n" not in m.group(0) else re.sub(r"[^\n]", " ", m.group(0)), src, flags=re.S)
    out = []
    for line in src.split("\n"):
        i = line.find("//")
        out.append(line if i < 0 else line[:i])
    return "\n".join(out)


def functions(src):
    """yield (name, signature, body, line) for every fn with a body"""
    for m in re.finditer(r"\bfn\s+(\w+)\s*(<[^>{;]*>)?\s*\(", src):
        # signature up to the opening brace of the body (or ';' for a declaration)
        i = m.end()
        depth = 1
        while i < len(src) and depth:
            depth += {"(": 1, ")": -1}.get(src[i], 0)
            i += 1
        j = i
        while j < len(src) and src[j] not in "{;":
            j += 1
        if j >= len(src) or src[j] == ";":
            continue
        k = j + 1
        depth = 1
        while k < len(src) and depth:
            depth += {"{": 1, "}": -1}.get(src[k], 0)
            k += 1
        yield m.group(1), src[m.start():j], src[j:k], src.count("\n", 0, m.start()) + 1


def shared_names(sig):
    """names through which the function sees a set (or its words) by shared reference"""
    names = []
    params = sig[sig.index("(") + 1:]
    if re.search(r"&\s*('\w+\s+)?self\b", params) and not re.search(r"&\s*('\w+\s+)?mut\s+self\b", params):
        names.append("self")
    for m in re.finditer(r"(\w+)\s*:\s*&\s*('\w+\s+)?(?!mut\b)(Self|SetU64|SetU32|SetUsize|Set64\s*<[^>]*>|\[\s*u(?:64|32)\s*\])", params):
        names.append(m.group(1))
    return names


def audit():
    findings = []
    for rel in SET_FILES + STRICT_FILES:
        path = os.path.join(REPO, rel)
        if not os.path.exists(path):
            continue
        src = strip_comments(open(path).read())
        # the verification hooks live in their own cfg-guarded modules and are not part of the audited code
        for m in INTERIOR.finditer(src):
            findings.append(f"{rel}:{src.count(chr(10), 0, m.start()) + 1}: interior mutability `{m.group(0).strip()}` in a file of shared-reference operations")
        if rel in STRICT_FILES:
            for m in re.finditer(r"\*mut\b|from_raw_parts_mut|as_mut_ptr|ptr::write|copy_nonoverlapping", src):
                findings.append(f"{rel}:{src.count(chr(10), 0, m.start()) + 1}: `{m.group(0)}` in a file that the model reads as safe code over the set")
            continue
        for name, sig, body, line in functions(src):
            for p in shared_names(sig):
                P = re.escape(p)
                pats = [
                    (rf"&\s*mut\s*\(?\s*\*\s*{P}\s*\.\s*0", "takes `&mut *{p}.0`"),
                    (rf"\(\s*\*\s*{P}\s*\.\s*0\s*\)\s*(\.\s*\w+\s*)+(\[[^\]]*\]\s*)?([-+*/|&^]|<<|>>)?=(?!=)", "assigns through `(*{p}.0)`"),
                    (rf"{P}\s*\.\s*0\s+as\s+\*mut", "casts `{p}.0` to a mutable pointer"),
                    (rf"{P}\s*\.\s*as_ptr\s*\(\s*\)\s*as\s*\*mut", "casts `{p}.as_ptr()` to a mutable pointer"),
                ]
                for pat, what in pats:
                    for m in re.finditer(pat, body):
                        findings.append(f"{rel}:{line + body.count(chr(10), 0, m.start())}: fn {name} sees `{p}` by shared reference and {what.format(p=p)}")
            if shared_names(sig):
                # any store through a raw pointer must go to a block this function has just obtained from the allocator
                fresh = set(m.group(1) for m in re.finditer(r"let\s+(?:mut\s+)?(\w+)\s*(?::[^=;]+)?=\s*[^;]*\balloc(?:_zeroed)?\s*\(", body))
                fresh |= set(m.group(1) for m in re.finditer(r"let\s+(?:mut\s+)?(\w+)\s*(?::[^=;]+)?=\s*[^;]*\brealloc\s*\(", body))
                # wrappers of a fresh pointer: `let x = SetU64(ptr);` then `(*x.0)`
                wrapped = set(m.group(1) for m in re.finditer(r"let\s+(?:mut\s+)?(\w+)\s*=\s*\w+\s*\(\s*(\w+)\s*\)\s*;", body) if m.group(2) in fresh)
                for m in re.finditer(r"\(\s*\*\s*(\w+)\s*(\.\s*0\s*)?\)\s*(\.\s*\w+\s*)+(\[[^\]]*\]\s*)?([-+*/|&^]|<<|>>)?=(?!=)", body):
                    x, dot0 = m.group(1), m.group(2)
                    if (dot0 and x in wrapped) or (not dot0 and x in fresh):
                        continue
                    findings.append(f"{rel}:{line + body.count(chr(10), 0, m.start())}: fn {name} takes the set by shared reference and stores through `(*{x}{'.0' if dot0 else ''})`, which is not a block it has just allocated")
                for m in re.finditer(r"&\s*mut\s*\(?\s*\*\s*(\w+)", body):
                    if m.group(1) not in fresh:
                        findings.append(f"{rel}:{line + body.count(chr(10), 0, m.start())}: fn {name} takes the set by shared reference and forms `&mut *{m.group(1)}`")
                for m in re.finditer(r"as_ptr\s*\(\s*\)\s*as\s*\*mut|from_raw_parts_mut|as_mut_ptr", body):
                    findings.append(f"{rel}:{line + body.count(chr(10), 0, m.start())}: fn {name} takes the set by shared reference and uses `{m.group(0)}`")
    # de-duplicate, keep order
    seen, out = set(), []
    for f in findings:
        if f not in seen:
            seen.add(f)
            out.append(f)
    return out


if __name__ == "__main__":
    fs = audit()
    for f in fs:
        print("SHARED-REF-AUDIT:", f)
    if not fs:
        print("shared-reference audit: no write path through a shared reference in", ", ".join(SET_FILES + STRICT_FILES))
    sys.exit(1 if fs else 0)
