#!/usr/bin/env python3
"""Regenerate the table of seeded changes in DESIGN.md (between the SEEDTABLE markers) from seeded/*/meta.json."""
import json, os, re, glob
VERIF = os.path.dirname(os.path.dirname(os.path.abspath(__file__)))

def kind(detail):
    d = detail.lower()
    if "translator:" in d or "lake build" in d or "axioms" in d:
        return "translator/theorem"
    if "did not return within the time limit" in d:
        return "watchdog"
    if d.lstrip().startswith("mismatch"):
        return "correspondence"
    if d.lstrip().startswith("type="):
        return "oracle"
    return "other"

def key(name):
    m = re.match(r"(R(\d+)-)?C(\d+)-(\w+)", name)
    return (int(m.group(2) or 1), int(m.group(3)), m.group(4))

rows = []
for d in sorted((os.path.basename(p) for p in glob.glob(os.path.join(VERIF, "seeded", "*")) if os.path.isdir(p)), key=key):
    meta = json.load(open(os.path.join(VERIF, "seeded", d, "meta.json")))
    c = meta.get("check")
    if meta.get("obsolete"):
        rows.append("| %s | (obsolete) | %s |" % (d, str(meta.get("obsolete"))[:140].replace("|", "/")))
        continue
    if not c:
        rows.append("| %s | (not run) | confirmed=%s |" % (d, meta.get("confirmed")))
        continue
    det = "; ".join(x.strip() for x in c.get("detail", []))[:140].replace("|", "/").replace("\n", " ")
    rows.append("| %s | %s | %s |" % (d, kind(det) if c.get("detected") else "**MISSED**", det))
table = "| change | caught by | report |\n|---|---|---|\n" + "\n".join(rows)
p = os.path.join(VERIF, "DESIGN.md")
s = open(p).read()
a, b = "<!-- SEEDTABLE -->", "<!-- /SEEDTABLE -->"
if a in s:
    s = s[:s.index(a) + len(a)] + "\n" + table + "\n" + s[s.index(b):]
else:
    # first use: replace the existing table
    i = s.index("| change | caught by | report |")
    j = s.index("\n\n", i)
    s = s[:i] + a + "\n" + table + "\n" + b + s[j:]
open(p, "w").write(s)
n = sum(1 for r in rows if "MISSED" not in r and "(o" not in r and "(not" not in r)
print("%d rows, %d detected" % (len(rows), n))
