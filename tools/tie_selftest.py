#!/usr/bin/env python3
"""Self-test of the theorem tie (not a registered check): small edits to the functions that the translator
regenerates (`log_2`, `compute_array_bits`, `split_*`, `p_poverty`, the inline-word codec, `p_lookfor`, `p_insert`,
`p_remove`, the constants) are applied to a scratch copy of /repo/src; each must either be refused by the translator
(TIE-BROKEN) or make a theorem of Proofs/Consts, Proofs/Fns or Proofs/Loops stop checking.  Works on copies under
/tmp (removed afterwards); /repo and /verif/lean are not touched.  Prints one line per edit and a summary."""
import os, re, shutil, subprocess, sys
V = os.path.dirname(os.path.dirname(os.path.abspath(__file__)))
W = "/tmp/tie_selftest"
EDITS = [
 ("setu64.rs", "log_2 of 0", r"(fn log_2\(x: u64\) -> u64 \{\s*if x == 0 \{\s*)1", r"\g<1>0"),
 ("setu64.rs", "compute_array_bits threshold", r"if log_2\(mx\) < 2 \{", "if log_2(mx) < 3 {"),
 ("setu64.rs", "compute_array_bits small result", r"return 62;", "return 61;"),
 ("setu64.rs", "EQUIVALENT: compute_array_bits loop step (the loop never iterates)", r"bits \+= 1;", "bits += 2;"),
 ("setu64.rs", "compute_array_bits width", r"let mut bits = num_bits::<u64>\(\) - log_2\(mx\);", "let mut bits = num_bits::<u64>() - log_2(mx) - 1;"),
 ("setu64.rs", "split remainder", r"\(x / bits, \(x % bits\)\)", "(x / bits, (x % (bits + 1)))"),
 ("setu64.rs", "p_poverty", r"\(\(idx % n\) \+ n - ", "((idx % n) + n + 1 - "),
 ("setu64.rs", "p_lookfor comparison", r"(fn p_lookfor[\s\S]*?)else if pov_ki < pov", r"\g<1>else if pov_ki <= pov"),
 ("setu64.rs", "p_lookfor empty test", r"(fn p_lookfor[\s\S]*?)if a\[ii\] == 0 \{", r"\g<1>if a[ii] == 1 {"),
 ("setu64.rs", "p_insert inner range", r"for j in 1\.\.n \{\s*pov_displaced \+= 1;", "for j in 0..n {\n                pov_displaced += 1;"),
 ("setu64.rs", "p_insert forgets to clear the stolen slot", r"a\[stolen\] = 0;\n", "\n"),
 ("setu64.rs", "p_insert swap replaced by a store", r"std::mem::swap\(&mut a\[jj\], &mut displaced\);", "a[jj] = displaced;"),
 ("setu64.rs", "p_insert poverty not advanced", r"(for j in 1\.\.n \{\s*)pov_displaced \+= 1;", r"\g<1>"),
 ("setu64.rs", "p_remove bound", r"if i > iki \{", "if i >= iki {"),
 ("setu64.rs", "p_remove happy-customer test", r"a\[jj\] == 0 \|\| pov_kj == 0", "a[jj] == 0 || pov_kj == 1"),
 ("setu64.rs", "p_remove shift source", r"a\[previous\] = a\[jj\];", "a[previous] = a[previous];"),
 ("setu64.rs", "p_remove forgets to advance", r"previous = jj;\n", "\n"),
 ("setu64.rs", "Tiny::to_usize shift", r"self\.sz as usize \| self\.bits << 3", "self.sz as usize | self.bits << 4"),
 ("setu64.rs", "Tiny::from_usize mask", r"sz: x as u8 & 7,", "sz: x as u8 & 3,"),
 ("setu64.rs", "contains dense word index", r"(pub fn contains[\s\S]*?)let key = e >> 6;", r"\g<1>let key = e >> 5;"),
 ("setu64.rs", "contains dense bit", r"bits & \(1 << \(e & 63\)\) != 0", "bits & (1 << (e & 31)) != 0"),
 ("setu64.rs", "contains heap drops the width test", r"(pub fn contains[\s\S]*?)if compute_array_bits\(e\) < s\.bits \{", r"\g<1>if compute_array_bits(e) + 1 < s.bits {"),
 ("setu64.rs", "contains big placeholder test", r"(pub fn contains[\s\S]*?)if e == s\.bits \{\s*return false;", r"\g<1>if e == s.bits + 1 {\n                    return false;"),
 ("setu64.rs", "contains big forgets the stand-in for 0", r"(pub fn contains[\s\S]*?)let e = if e == 0 \{ s\.bits \} else \{ e \};", r"\g<1>let e = if e == 0 { e } else { e };"),
 ("setu64.rs", "remove dense clears the wrong bit", r"\*bits = \*bits & !whichbit;", "*bits = *bits & !(whichbit << 1);"),
 ("setu64.rs", "remove dense forgets the count", r"if present \{\s*\*sz = \*sz - 1;\s*\}", "if present {\n                    }"),
 ("setu64.rs", "remove heap keeps an emptied bucket", r"if newa == key << s\.bits \{", "if newa == (key << s.bits) + 1 {"),
 ("setu64.rs", "remove heap count", r"(let newa = a\[idx\] & !\(1 << offset\);\s*)s\.sz -= 1;", r"\g<1>s.sz -= 2;"),
 ("setu64.rs", "remove big placeholder", r"(pub fn remove[\s\S]*?)let e = if e == 0 \{ s\.bits \} else \{ e \};", r"\g<1>let e = if e == 0 { e } else { e };"),
 ("setu64.rs", "Tiny::contains gap", r"(fn contains\(mut self[\s\S]*?)e -= n \+ 1;", r"\g<1>e -= n;"),
 ("setu64.rs", "Tiny::contains order test", r"(fn contains\(mut self[\s\S]*?)\} else if e < n \{", r"\g<1>} else if e <= n + 1 {"),
 ("setu64.rs", "mask", r"(fn mask\(bits: usize\) -> u64 \{\s*)\(1 << bits\) - 1", r"\g<1>(1 << bits)"),
 ("setu64.rs", "insert dense sets the wrong bit", r"\*bits = \*bits \| whichbit;", "*bits = *bits | (whichbit << 1);"),
 ("setu64.rs", "insert dense counts a present element", r"if !present \{\s*\*sz = \*sz \+ 1;", "if present {\n                        *sz = *sz + 1;"),
 ("setu64.rs", "insert heap empty-spot word", r"a\[idx\] = key << s\.bits \| 1 << offset;", "a[idx] = key << s.bits | 1 << (offset + 1);"),
 ("setu64.rs", "insert heap found: forgets the count", r"(a\[idx\] = a\[idx\] \| \(1 << offset\);\s*)s\.sz \+= 1;", r"\g<1>"),
 ("setu32.rs", "insert heap room rule", r"n \+ 1 > a\.len\(\) >> 4", "n + 1 > a.len() >> 3"),
 ("setu64.rs", "insert big: present element reported new", r"LookedUp::KeyFound\(_\) => \{\s*return false;", "LookedUp::KeyFound(_) => {\n                        return true;"),
 ("setu64.rs", "insert big: stand-in for 0 dropped", r"(pub fn insert[\s\S]*?)let e = if e == 0 \{ s\.bits \} else \{ e \};", r"\g<1>let e = if e == 0 { e } else { e };"),
 ("setu64.rs", "insert placeholder: scan accepts 64", r"while i <= 64 \|\| i == e", "while i < 64 || i == e"),
 ("setu64.rs", "insert placeholder: the old placeholder may be picked again", r"while i <= 64 \|\| i == e \|\| ", "while i <= 64 || "),
 ("setu64.rs", "insert placeholder: members are not avoided", r"while i <= 64 \|\| i == e \|\| a\.iter\(\)\.any\(\|&v\| v == i\)", "while i <= 64 || i == e"),
 ("setu64.rs", "insert placeholder: stand-in for 0 re-inserted when it was absent", r"(s\.bits = i;\s*)if had_zero \{", r"\g<1>if !had_zero {"),
 ("setu64.rs", "insert placeholder: stand-in for 0 not removed", r"let had_zero = p_remove\(s\.bits, a, 0\);", "let had_zero = p_remove(0, a, 0);"),
 ("setu64.rs", "insert placeholder: new placeholder off by one", r"(\n\s*)s\.bits = i;(\s*if had_zero)", r"\g<1>s.bits = i + 1;\g<2>"),
 ("setu32.rs", "insert placeholder: scan accepts 32", r"while i <= 32 \|\| i == e", "while i < 32 || i == e"),
 ("setu64.rs", "inline constructor: gap off by one", r"let y = if offset == 0 \{ x \} else \{ x - last - 1 \};", "let y = if offset == 0 { x } else { x - last };"),
 ("setu64.rs", "inline constructor: width test weakened", r"(fn new_sorted_deduped[\s\S]*?)if log_2\(y\) > nbits \{", r"\g<1>if log_2(y) > nbits + 1 {"),
 ("setu64.rs", "inline constructor: payload shifted wrongly", r"bits = bits \| \(y as usize\) << offset;", "bits = bits | (y as usize) << (offset + 1);"),
 ("setu64.rs", "inline constructor: length limit", r"(fn new_sorted_deduped[\s\S]*?)v\.len\(\) > BITSPLITS\.len\(\) - 1", r"\g<1>v.len() > BITSPLITS.len() - 2"),
 ("setu32.rs", "inline constructor: offset not advanced by the width", r"(fn new\(mut v[\s\S]*?)offset \+= nbits;", r"\g<1>offset += nbits + 1;"),
 ("setu64/iter.rs", "inline iteration: gap not restored", r"self\.last = self\.last \+ 1 \+ difference", "self.last = self.last + difference"),
 ("setu64/iter.rs", "inline iteration: payload not advanced", r"(Internal::Stack\(_\) => \{[\s\S]*?)self\.bits = self\.bits >> nbits;", r"\g<1>self.bits = self.bits >> (nbits - 1);"),
 ("setu32/iter.rs", "inline iteration: wrong width index", r"let nbits = bitsplits\[\(self\.sz - self\.sz_left\) as usize\];", "let nbits = bitsplits[(self.sz_left - 1) as usize];"),
 ("setu64/iter.rs", "plain iteration: placeholder not mapped back to 0", r"return Some\(if x == self\.bits \{ 0 \} else \{ x \}\);", "return Some(x);"),
 ("setu32/iter.rs", "plain iteration: count not decremented", r"(Internal::Big \{ a, \.\. \} => \{\s*while let[\s\S]*?)self\.sz_left -= 1;", r"\g<1>"),
 ("setu64/iter.rs", "bitmap iteration: scan starts one bit late", r"(Internal::Heap \{ a, \.\. \} => \{[\s\S]*?)let oldbit = self\.whichbit;", r"\g<1>let oldbit = self.whichbit + 1;"),
 ("setu64/iter.rs", "bitmap iteration: whichbit not reset on the next bucket", r"(self\.index \+= 1;\s*)self\.whichbit = 0;", r"\g<1>"),
 ("setu64/iter.rs", "bitmap iteration: member rebuilt with the wrong key shift", r"unsplit_u64\(x >> self\.bits, oldbit, self\.bits\)", "unsplit_u64(x >> (self.bits - 1), oldbit, self.bits)"),
 ("setu64/iter.rs", "dense iteration: word index scaled by 32", r"\(\(self\.index as u64\) << 6\) \+ bit as u64", "((self.index as u64) << 5) + bit as u64"),
 ("setu32/iter.rs", "dense iteration: scan stops at bit 31", r"while self\.whichbit < 32 \{", "while self.whichbit < 31 {"),
 ("setu32/iter.rs", "bitmap iteration: count not decremented", r"(Internal::Heap \{ a, \.\. \} => \{[\s\S]*?if \(x & \(1 << oldbit\)\) != 0 \{\s*)self\.sz_left -= 1;", r"\g<1>"),
 ("setu64.rs", "unsplit", r"(fn unsplit_u64[\s\S]*?)k \* bits \+ offset", r"\g<1>k * bits + offset + 1"),
 ("setu64.rs", "dispatch: 64 selects the bitmap table", r"(fn internal<'a>[\s\S]*?)\} else if b\.bits == 64 \{", r"\g<1>} else if b.bits == 63 {"),
 ("setu64.rs", "dispatch: internal_mut disagrees with internal", r"(fn internal_mut<'a>[\s\S]*?)if b\.bits == 0 \|\| b\.bits > 64 \{", r"\g<1>if b.bits == 0 || b.bits > 65 {"),
 ("setu32.rs", "dispatch: plain table threshold", r"(fn internal<'a>[\s\S]*?)if b\.bits == 0 \|\| b\.bits > 32 \{", r"\g<1>if b.bits == 0 || b.bits > 33 {"),
 ("setu64.rs", "Tiny::insert: gap of the successor off by one", r"n = n - e - 1;", "n = n - e;"),
 ("setu64.rs", "Tiny::insert: duplicate not recognised in the overflow search", r"if n == e \{\s*return Some\(backup\);", "if n + 1 == e {\n                                return Some(backup);"),
 ("setu64.rs", "Tiny::insert: the last member's width is not tested", r"(// the new one is last\s*)if log_2\(e as u64\) > newb \{", r"\g<1>if log_2(e as u64) > newb + 1 {"),
 ("setu32.rs", "Tiny::insert: the copied gaps are not re-tested against the new row", r"(let oldb = old_iter\.next\(\)\.unwrap\(\);\s*let n = self\.bits & mask\(oldb as usize\) as usize;\s*)if log_2\(n as u32\) > newb \{\s*return None;\s*\}", r"\g<1>"),
 ("setu64.rs", "Tiny::next: first member offset", r"(fn next\(&mut self\) -> Option<u64> \{[\s\S]*?)self\.last = difference;", r"\g<1>self.last = difference + 1;"),
 ("copyset.rs", "eq: lengths not compared", r"if self\.len\(\) != other\.len\(\) \{\s*return false;\s*\}\s*(for i in self\.iter\(\))", r"\g<1>"),
 ("set64.rs", "Set64 eq: answers true on the first common member", r"(for k in other\.0\.iter\(\) \{\s*)if !self\.0\.contains\(k\) \{\s*return false;", r"\g<1>if self.0.contains(k) {\n                return true;"),
 ("setu64.rs", "insert inline: answer of the Stack arm inverted", r"return newt\.sz != t\.sz;", "return newt.sz == t.sz;"),
 ("setu32.rs", "insert empty: singleton stored without its tag", r"(InternalMut::Empty => \{\s*if let Some\(t\) = Tiny::from_singleton\(e\) \{\s*)\*self = SetU32\(t\.to_usize\(\) as \*mut S\);", r"\g<1>*self = SetU32(t.bits as *mut S);"),
 ("copyset.rs", "operator: &a - &b keeps the common members", r"(fn sub\(self, rhs: &\$ty\) -> \$ty \{[\s\S]*?)if !rhs\.contains\(v\) \{", r"\g<1>if rhs.contains(v) {"),
 ("copyset.rs", "operator: &a | &b sized from the smaller operand", r"if self\.len\(\) > rhs\.len\(\) \{", "if self.len() < rhs.len() {"),
 ("copyset.rs", "operator: a - &b inserts instead of removing", r"(fn sub\(mut self, rhs: &\$ty\) -> \$ty \{\s*for v in rhs\.iter\(\) \{\s*)self\.remove\(v\);", r"\g<1>self.insert(v);"),
 ("setu64.rs", "remove inline: the removed member is kept", r"\*self = t\.filter\(\|&x\| x != e\)\.collect\(\);", "*self = t.filter(|&x| x == e).collect();"),
 ("setu64.rs", "BITSPLITS row", r"&\[25, 12, 12, 12\]", "&[26, 12, 12, 12]"),
 ("setu32.rs", "log_2 width", r"(fn log_2\(x: u32\)[\s\S]*?)num_bits::<u32>\(\) as u32 - x\.leading_zeros\(\)", r"\g<1>num_bits::<u32>() as u32 + 1 - x.leading_zeros()"),
 ("setu32.rs", "compute_array_bits large threshold", r"else if log_2\(mx\) > 62 \{", "else if log_2(mx) > 31 {"),
 ("setu32.rs", "p_poverty", r"\(\(idx % n\) \+ n - ", "((idx % n) + 2 * n - "),
 ("setu32.rs", "count codec encode", r"self\.sz \* \(1 - fourbit\) \+ fourbit \* \(self\.sz \+ 1\)", "self.sz * (1 - fourbit) + fourbit * (self.sz + 2)"),
 ("setu32.rs", "count codec decode", r"\(x as u8 & 3\) \+ \(x as u8 & 4\) / 4 \* 3", "(x as u8 & 3) + (x as u8 & 4) / 4 * 4"),
 ("setu32.rs", "p_insert probe index", r"(fn p_insert[\s\S]*?)let ii = \(\(k as u64 \+ pov as u64\) % n as u64\) as usize;", r"\g<1>let ii = ((k as u64 + pov as u64 + 1) % n as u64) as usize;"),
 ("setu32.rs", "p_remove narrowing", r"\(\(\(ii \+ n\) as u32 - \(ki % n as u32\)\) % n as u32\)", "(((ii + n) as u32 - (ki % n as u32) + 1) % n as u32)"),
 ("setu32.rs", "p_lookfor returns found for empty", r"(fn p_lookfor[\s\S]*?)return LookedUp::EmptySpot\(ii\);", r"\g<1>return LookedUp::KeyFound(ii);"),
 ("setu32.rs", "tag mask", r"self\.0 as usize & 3 == 0", "self.0 as usize & 7 == 0"),
 ("setu32.rs", "alignment", r"from_size_align_unchecked\(bytes_for_capacity\(sz\), 4\)", "from_size_align_unchecked(bytes_for_capacity(sz), 8)"),
]
def sh(cmd, cwd=None, env=None):
    p = subprocess.run(cmd, shell=True, cwd=cwd, env=env, stdout=subprocess.PIPE, stderr=subprocess.STDOUT, text=True)
    return p.returncode, p.stdout
def main():
    shutil.rmtree(W, ignore_errors=True)
    os.makedirs(W + "/repo")
    shutil.copytree("/repo/src", W + "/repo/src")
    sh(f"rsync -a --exclude .lake/build/bin {V}/lean/ {W}/lean/")
    env = dict(os.environ, VERIF_REPO=W + "/repo", VERIF_GEN_OUT=W + "/lean/TinysetModel/Generated")
    target = "TinysetModel.Proofs.Consts TinysetModel.Proofs.Fns TinysetModel.Proofs.Loops TinysetModel.Proofs.ContainsSrc TinysetModel.Proofs.RemoveSrc TinysetModel.Proofs.InsertSrc TinysetModel.Proofs.TinySrc TinysetModel.Proofs.IterSrc TinysetModel.Proofs.IterDrainSrc TinysetModel.Proofs.TinyInsertSrc TinysetModel.Properties.C08 TinysetModel.Properties.C09 TinysetModel.Proofs.Fits"
    rc, out = sh(f"python3 {V}/tools/gen_consts.py && lake build {target}", cwd=W + "/lean", env=env)
    if rc != 0:
        print("baseline does not build:", out[-800:]); return 2
    n = caught = 0
    only = os.environ.get("TIE_ONLY")          # run only the edits whose description contains this text
    for fname, what, pat, rep in EDITS:
        if only and not any(o in what for o in only.split("|")):
            continue
        path = f"{W}/repo/src/{fname}"
        orig = open(path).read()
        new, k = re.subn(pat, rep, orig, count=1)
        if k != 1 or new == orig:
            print(f"SKIP   {fname}: {what}: pattern not found"); continue
        n += 1
        open(path, "w").write(new)
        rc, out = sh(f"python3 {V}/tools/gen_consts.py", cwd=W + "/lean", env=env)
        if rc != 0:
            caught += 1
            print(f"REFUSED  {fname}: {what}: {out.strip().splitlines()[-1][:100]}")
        else:
            rc, out = sh(f"lake build {target}", cwd=W + "/lean", env=env)
            if rc != 0:
                caught += 1
                m = re.search(r"error: (\S+):(\d+)", out)
                print(f"THEOREM  {fname}: {what}: {m.group(1) + ':' + m.group(2) if m else 'build failed'}")
            elif what.startswith("EQUIVALENT"):
                caught += 1
                print(f"ACCEPTED {fname}: {what}: the theorems still check, as they should")
            else:
                print(f"MISSED   {fname}: {what}")
        open(path, "w").write(orig)
    shutil.rmtree(W, ignore_errors=True)
    print(f"tie self-test: {caught} of {n} edits decided correctly (rejected by the translator or by a theorem; the semantically equivalent edit accepted)")
    return 0 if caught == n else 1
if __name__ == "__main__":
    sys.exit(main())
