"""Translate the small pure helper functions of src/setu64.rs and src/setu32.rs into Lean functions over `Nat`:
`log_2`, `compute_array_bits`, `split_u64`/`split_u32`, `p_poverty`, `Tiny::to_usize`, `Tiny::from_usize`
(the `sz` and `bits` fields).  `Proofs/Fns.lean` proves that the hand-written model computes exactly these
functions (for arguments of the element type), so an edit to one of them changes a definition under a theorem.

Accepted Rust subset (anything else raises TieError):
  block  := stmt* expr
  stmt   := `let [mut] x = expr ;`
          | `if c { return e ; } [else if c { return e ; }]*`          (early returns)
          | `while c { x += e ; }`                                     (bounded: 256 iterations)
  expr   := literals, identifiers, `self.f`, parentheses, tuples `(a, b)`, `if c { block } else { block }`,
            calls `f(args)`, `num_bits::<T>()`, `x.leading_zeros()`, casts `as T`, unary `!` (not used),
            binary `* / % + - << >> & | == != < > <= >=`
Semantics: unbounded `Nat`; `as u8/u16/u32` truncates (mod 2^w), casts to u64/usize are the identity for values
below 2^64; `-` is truncated subtraction (the theorems are stated where the Rust code does not underflow);
`x.leading_zeros()` is `W - bitlength(x)` for the width W of the function's element type."""
import re
from gen_fits import TieError, tokenize, body_of

WIDTH = {"u8": 8, "u16": 16, "u32": 32, "u64": 64, "usize": 64}

class FP:
    def __init__(self, toks, W, fnames, suffix):
        self.t, self.i, self.W, self.fnames, self.suffix = toks, 0, W, fnames, suffix
    def peek(self, k=0):
        return self.t[self.i + k] if self.i + k < len(self.t) else ("eof", None)
    def eat(self, kind=None, val=None):
        k, v = self.peek()
        if (kind and k != kind) or (val is not None and v != val):
            raise TieError(f"expected {kind} {val}, got {k} {v}")
        self.i += 1
        return v
    def at(self, val):
        return self.peek()[1] == val and self.peek()[0] in ("op", "id")
    # ---- statements
    def block(self):
        """returns a Lean term for `stmt* expr`"""
        if self.at("let"):
            self.eat()
            if self.at("mut"):
                self.eat()
            name = self.eat("id")
            self.eat("op", "=")
            e = self.expr()
            self.eat("op", ";")
            rest = self.block()
            return f"(let {name} := {e}; {rest})"
        if self.at("if") and self.is_return_if():
            return self.return_chain()
        if self.at("while"):
            self.eat()
            c = self.expr()
            self.eat("op", "{")
            x = self.eat("id")
            self.eat("op", "+")
            self.eat("op", "=")
            e = self.expr()
            self.eat("op", ";")
            self.eat("op", "}")
            rest = self.block()
            return f"(let {x} := RI.whileN 256 (fun {x} => decide ({c})) (fun {x} => {x} + {e}) {x}; {rest})"
        e = self.expr()
        return e
    def is_return_if(self):
        # `if ... { return`
        j, depth = self.i, 0
        while j < len(self.t):
            if self.t[j] == ("op", "{"):
                return self.t[j + 1] == ("id", "return")
            j += 1
        return False
    def return_chain(self):
        self.eat("id", "if")
        c = self.expr()
        self.eat("op", "{")
        self.eat("id", "return")
        a = self.expr()
        self.eat("op", ";")
        self.eat("op", "}")
        if self.at("else"):
            self.eat()
            if not (self.at("if") and self.is_return_if()):
                raise TieError("else after an early return")
            rest = self.return_chain()
        else:
            rest = self.block()
        return f"(if {c} then {a} else {rest})"
    # ---- expressions (Rust precedence)
    def expr(self):
        return self.cmp()
    def cmp(self):
        a = self.bor()
        while self.peek() in (("op", "=="), ("op", "!="), ("op", ">="), ("op", "<="), ("op", "<"), ("op", ">")):
            op = self.eat()
            b = self.bor()
            a = f"({a} {'=' if op == '==' else '≠' if op == '!=' else '≥' if op == '>=' else '≤' if op == '<=' else op} {b})"
        return a
    def bor(self):
        a = self.band()
        while self.peek() == ("op", "|"):
            self.eat()
            a = f"({a} ||| {self.band()})"
        return a
    def band(self):
        a = self.shift()
        while self.peek() == ("op", "&"):
            self.eat()
            a = f"({a} &&& {self.shift()})"
        return a
    def shift(self):
        a = self.add()
        while self.peek() in (("op", "<<"), ("op", ">>")):
            op = self.eat()
            a = f"({a} {'<<<' if op == '<<' else '>>>'} {self.add()})"
        return a
    def add(self):
        a = self.mul()
        while self.peek() in (("op", "+"), ("op", "-")) and self.peek(1) != ("op", "="):
            op = self.eat()
            a = f"({a} {op} {self.mul()})"
        return a
    def mul(self):
        a = self.cast()
        while self.peek() in (("op", "*"), ("op", "/"), ("op", "%")):
            op = self.eat()
            a = f"({a} {op} {self.cast()})"
        return a
    def cast(self):
        a = self.postfix()
        while self.at("as"):
            self.eat()
            ty = self.eat("id")
            if ty not in WIDTH:
                raise TieError(f"cast to {ty}")
            if WIDTH[ty] < 64:
                a = f"({a} % {2 ** WIDTH[ty]})"
        return a
    def postfix(self):
        a = self.atom()
        while self.peek() == ("op", "."):
            self.eat()
            m = self.eat("id")
            if m == "leading_zeros":
                self.eat("op", "(")
                self.eat("op", ")")
                a = f"(RI.clz {self.W} {a})"
            else:
                raise TieError(f"method {m}")
        return a
    def atom(self):
        k, v = self.peek()
        if k == "num":
            self.eat()
            return str(v)
        if k == "op" and v == "(":
            self.eat()
            e = self.expr()
            if self.peek() == ("op", ","):
                self.eat()
                f = self.expr()
                self.eat("op", ")")
                return f"({e}, {f})"
            self.eat("op", ")")
            return e
        if k == "id" and v == "if":
            self.eat()
            c = self.expr()
            self.eat("op", "{")
            a = self.block()
            self.eat("op", "}")
            self.eat("id", "else")
            self.eat("op", "{")
            b = self.block()
            self.eat("op", "}")
            return f"(if {c} then {a} else {b})"
        if k == "id":
            self.eat()
            m = re.match(r'num_bits::$', v)
            if v == "num_bits::":
                # num_bits::<T>()
                self.eat("op", "<")
                ty = self.eat("id")
                self.eat("op", ">")
                self.eat("op", "(")
                self.eat("op", ")")
                if ty not in WIDTH:
                    raise TieError(f"num_bits::<{ty}>")
                return str(WIDTH[ty])
            if v == "self":
                self.eat("op", ".")
                f = self.eat("id")
                return f"self_{f}"
            if self.peek() == ("op", "("):
                if v not in self.fnames:
                    raise TieError(f"call of {v}")
                self.eat()
                args = []
                while not self.at(")"):
                    args.append(self.expr())
                    if self.at(","):
                        self.eat()
                self.eat("op", ")")
                return f"({v}_{self.suffix} {' '.join(args)})"
            return v
        raise TieError(f"unexpected token {k} {v}")

def fn_src(src, sig_re, what):
    m = re.search(sig_re, src)
    if not m:
        raise TieError(f"cannot find {what}")
    return body_of(src, m.end() - 1)[0]

def tr_block(body, W, fnames, suffix):
    p = FP(tokenize(body), W, fnames, suffix)
    e = p.block()
    if p.peek()[0] != "eof":
        raise TieError(f"trailing tokens {p.peek()} in {body[:40]!r}")
    return e

def gen_one(src, W, suffix, out):
    ty = "u64" if W == 64 else "u32"
    fnames = {"log_2", "compute_array_bits"}
    b = fn_src(src, r'\nfn log_2\(x: %s\) -> %s \{' % (ty, ty), f"log_2 ({suffix})")
    out.append(f"def log_2_{suffix} (x : Nat) : Nat := {tr_block(b, W, fnames, suffix)}")
    b = fn_src(src, r'\nfn compute_array_bits\(mx: %s\) -> %s \{' % (ty, ty), f"compute_array_bits ({suffix})")
    out.append(f"def compute_array_bits_{suffix} (mx : Nat) : Nat := {tr_block(b, W, fnames, suffix)}")
    b = fn_src(src, r'\nfn split_%s\(x: %s, bits: %s\) -> \(%s, %s\) \{' % (ty, ty, ty, ty, ty), f"split_{ty}")
    out.append(f"def split_{suffix} (x bits : Nat) : Nat × Nat := {tr_block(b, W, fnames, suffix)}")
    b = fn_src(src, r'\nfn p_poverty\(k: %s, idx: usize, n: usize\) -> usize \{' % ty, f"p_poverty ({suffix})")
    out.append(f"def p_poverty_{suffix} (k idx n : Nat) : Nat := {tr_block(b, W, fnames, suffix)}")
    b = fn_src(src, r'\n    fn to_usize\(self\) -> usize \{', f"Tiny::to_usize ({suffix})")
    out.append(f"def tiny_to_usize_{suffix} (self_sz self_bits : Nat) : Nat := {tr_block(b, W, fnames, suffix)}")
    b = fn_src(src, r'\n    fn from_usize\(x: usize\) -> Self \{', f"Tiny::from_usize ({suffix})")
    # `[let sz = e;] Tiny { sz[: e], bits: e, sz_spent: 0, last: 0, }`
    m = re.match(r'\s*(?:let sz = (?P<l>[^;]+);\s*)?Tiny \{\s*sz(?:: (?P<s>[^,]+))?,\s*bits: (?P<b>[^,]+),\s*sz_spent: 0,\s*last: 0,\s*\}\s*$', b)
    if not m or not (m.group("l") or m.group("s")):
        raise TieError(f"Tiny::from_usize shape ({suffix})")
    out.append(f"def tiny_from_usize_sz_{suffix} (x : Nat) : Nat := {tr_block(m.group('l') or m.group('s'), W, fnames, suffix)}")
    out.append(f"def tiny_from_usize_bits_{suffix} (x : Nat) : Nat := {tr_block(m.group('b'), W, fnames, suffix)}")

def gen_fns(s64, s32):
    out = ["/-! GENERATED by /verif/tools/gen_fns.py from src/setu64.rs and src/setu32.rs — do not edit.",
           "The small pure helper functions of the crate as functions over `Nat` (see the translator for the accepted",
           "Rust subset and the semantics); `Proofs/Fns.lean` proves the model computes exactly these. -/",
           "namespace Gen", "namespace RI",
           "/-- `leading_zeros` of a `w`-bit value -/",
           "def clz (w x : Nat) : Nat := if x = 0 then w else w - (Nat.log2 x + 1)",
           "/-- a `while c { x += e }` loop, at most `fuel` iterations -/",
           "def whileN : Nat → (Nat → Bool) → (Nat → Nat) → Nat → Nat",
           "  | 0, _, _, x => x",
           "  | fuel + 1, c, f, x => if c x then whileN fuel c f (f x) else x",
           "end RI"]
    gen_one(s64, 64, "64", out)
    gen_one(s32, 32, "32", out)
    out.append("end Gen")
    return "\n".join(out) + "\n"
