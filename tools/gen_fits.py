"""Translate the `Fits64` implementations in src/set64.rs into Lean `BitVec` terms.

Accepted Rust subset (anything else raises TieError): `let` bindings, `if c { a } else { b }`
(with constant folding of a `const NAME: bool`), parentheses, integer literals, identifiers,
unary `!`, casts `as T`, binary `<< >> & | - == >=`, `std::char::from_u32(e).unwrap()`.
Typing: every expression carries (width, signed); casts zero-extend from unsigned, sign-extend
from signed, truncate to narrower; `bool as T` is 0/1; `>>` is only accepted on unsigned."""
import re

class TieError(Exception):
    pass

TYPES = {"u8": (8, False), "u16": (16, False), "u32": (32, False), "u64": (64, False), "usize": (64, False),
         "i8": (8, True), "i16": (16, True), "i32": (32, True), "i64": (64, True), "isize": (64, True)}

TOK = re.compile(r'\s*(?:(\d+)|([A-Za-z_$][A-Za-z0-9_:$]*)|(<<|>>|==|>=|<=|!=|&&|\|\||[-+*/%&|^!(){};=<>.,]))')

def tokenize(s):
    s = re.sub(r'//[^\n]*', '', s)
    out, pos = [], 0
    while pos < len(s):
        if s[pos:].strip() == "":
            break
        m = TOK.match(s, pos)
        if not m:
            raise TieError(f"cannot tokenize near {s[pos:pos+30]!r}")
        if m.group(1) is not None:
            out.append(("num", int(m.group(1))))
        elif m.group(2) is not None:
            out.append(("id", m.group(2)))
        else:
            out.append(("op", m.group(3)))
        pos = m.end()
    return out

class P:
    def __init__(self, toks, env, consts, ty):
        self.t, self.i, self.env, self.consts, self.ty = toks, 0, dict(env), consts, ty
    def peek(self):
        return self.t[self.i] if self.i < len(self.t) else ("eof", None)
    def eat(self, kind=None, val=None):
        k, v = self.peek()
        if (kind and k != kind) or (val is not None and v != val):
            raise TieError(f"expected {kind} {val}, got {k} {v}")
        self.i += 1
        return v
    def at(self, val):
        return self.peek()[1] == val and self.peek()[0] in ("op", "id")
    # block := { let x = e; }* expr
    def block(self):
        saved = dict(self.env)
        while self.at("let"):
            self.eat()
            if self.at("mut"):
                raise TieError("let mut")
            name = self.eat("id")
            if self.at(":"):
                raise TieError("typed let")
            self.eat("op", "=")
            e = self.expr()
            self.eat("op", ";")
            self.env[name] = e
        e = self.expr()
        self.env = saved
        return e
    def expr(self):
        return self.cmp()
    def cmp(self):
        a = self.bor()
        while self.peek() in (("op", "=="), ("op", ">="), ("op", "<"), ("op", ">"), ("op", "<=")):
            op = self.eat()
            b = self.bor()
            a = self.mk_cmp(op, a, b)
        return a
    def bor(self):
        a = self.band()
        while self.peek() == ("op", "|"):
            self.eat()
            a = self.mk_bin("|||", a, self.band())
        return a
    def band(self):
        a = self.shift()
        while self.peek() == ("op", "&"):
            self.eat()
            a = self.mk_bin("&&&", a, self.shift())
        return a
    def shift(self):
        a = self.add()
        while self.peek() in (("op", "<<"), ("op", ">>")):
            op = self.eat()
            b = self.add()
            if b[0] != "lit":
                raise TieError("shift by non-literal")
            if a[0] == "lit":
                raise TieError("shift of untyped literal")
            if op == ">>" and a[2]:
                raise TieError("arithmetic shift of a signed value")
            a = ("bv", a[1], a[2], f"({a[3]} {'<<<' if op == '<<' else '>>>'} {b[1]})")
        return a
    def add(self):
        a = self.cast()
        while self.peek() == ("op", "-"):
            self.eat()
            a = self.mk_bin("-", a, self.cast())
        return a
    def cast(self):
        a = self.unary()
        while self.at("as"):
            self.eat()
            ty = self.eat("id")
            ty = self.ty.get(ty, ty)
            if ty not in TYPES:
                raise TieError(f"cast to {ty}")
            w, sg = TYPES[ty]
            if a[0] == "bool":
                a = ("bv", w, sg, f"(if {a[1]} then 1#{w} else 0#{w})")
            elif a[0] == "lit":
                a = ("bv", w, sg, f"{a[1]}#{w}")
            else:
                _, w0, sg0, t = a
                if w == w0:
                    a = ("bv", w, sg, t)
                elif w < w0:
                    a = ("bv", w, sg, f"(BitVec.setWidth {w} {t})")
                elif sg0:
                    a = ("bv", w, sg, f"(BitVec.signExtend {w} {t})")
                else:
                    a = ("bv", w, sg, f"(BitVec.setWidth {w} {t})")
        return a
    def unary(self):
        if self.peek() == ("op", "!"):
            self.eat()
            a = self.unary()
            if a[0] != "bv":
                raise TieError("! on non-integer")
            return ("bv", a[1], a[2], f"(~~~{a[3]})")
        return self.atom()
    def atom(self):
        k, v = self.peek()
        if k == "num":
            self.eat()
            return ("lit", v)
        if k == "op" and v == "(":
            self.eat()
            e = self.expr()
            self.eat("op", ")")
            return e
        if k == "id" and v == "if":
            self.eat()
            c = self.expr()
            self.eat("op", "{")
            a = self.block()
            self.eat("op", "}")
            self.eat("id", "else")
            self.eat("op", "{")
            b = self.block()
            self.eat("op", "}")
            if c[0] == "const":
                return a if c[1] else b
            if c[0] != "bool":
                raise TieError("if on non-bool")
            if a[0] != "bv" or b[0] != "bv" or a[1:3] != b[1:3]:
                raise TieError("if branches differ in type")
            return ("bv", a[1], a[2], f"(if {c[1]} then {a[3]} else {b[3]})")
        if k == "id" and v == "std::char::from_u32":
            self.eat()
            self.eat("op", "(")
            e = self.expr()
            self.eat("op", ")")
            self.eat("op", ".")
            self.eat("id", "unwrap")
            self.eat("op", "(")
            self.eat("op", ")")
            if e[0] != "bv" or e[1] != 32:
                raise TieError("from_u32 argument")
            return ("char?", e[3])
        if k == "id":
            self.eat()
            if v in self.consts:
                return ("const", self.consts[v])
            if v in self.env:
                return self.env[v]
            raise TieError(f"unknown identifier {v}")
        raise TieError(f"unexpected token {k} {v}")
    def coerce(self, a, b):
        if a[0] == "lit" and b[0] == "bv":
            a = ("bv", b[1], b[2], f"{a[1]}#{b[1]}")
        if b[0] == "lit" and a[0] == "bv":
            b = ("bv", a[1], a[2], f"{b[1]}#{a[1]}")
        if a[0] != "bv" or b[0] != "bv" or a[1:3] != b[1:3]:
            raise TieError(f"operands differ in type: {a[:3]} vs {b[:3]}")
        return a, b
    def mk_bin(self, op, a, b):
        a, b = self.coerce(a, b)
        return ("bv", a[1], a[2], f"({a[3]} {op} {b[3]})")
    def mk_cmp(self, op, a, b):
        a, b = self.coerce(a, b)
        if op == "==":
            return ("bool", f"({a[3]} == {b[3]})")
        if op == ">=":
            return ("bool", f"(BitVec.sle {b[3]} {a[3]})" if a[2] else f"(BitVec.ule {b[3]} {a[3]})")
        if op == "<=":
            return ("bool", f"(BitVec.sle {a[3]} {b[3]})" if a[2] else f"(BitVec.ule {a[3]} {b[3]})")
        if op == "<":
            return ("bool", f"(BitVec.slt {a[3]} {b[3]})" if a[2] else f"(BitVec.ult {a[3]} {b[3]})")
        if op == ">":
            return ("bool", f"(BitVec.slt {b[3]} {a[3]})" if a[2] else f"(BitVec.ult {b[3]} {a[3]})")
        raise TieError(op)

def body_of(src, start):
    i = src.index("{", start)
    depth, j = 0, i
    while True:
        if src[j] == "{":
            depth += 1
        elif src[j] == "}":
            depth -= 1
            if depth == 0:
                return src[i + 1:j], j
        j += 1

def fn_bodies(block):
    m1 = re.search(r'unsafe fn from_u64\(x: u64\) -> Self', block)
    m2 = re.search(r'fn to_u64\(self\) -> u64', block)
    if not m1 or not m2:
        raise TieError("from_u64 / to_u64 not found")
    return body_of(block, m1.end())[0], body_of(block, m2.end())[0]

def translate(body, env, consts, tymap, want):
    p = P(tokenize(body), env, consts, tymap)
    e = p.block()
    if p.peek()[0] != "eof":
        raise TieError(f"trailing tokens {p.peek()}")
    if want == "char?":
        if e[0] != "char?":
            raise TieError("char from_u64 shape")
        return e[1]
    if e[0] == "lit":
        raise TieError("literal result")
    if e[0] != "bv" or (e[1], e[2]) != want:
        raise TieError(f"result type {e[:3]} but expected {want}")
    return e[3]

def gen_fits(src):
    consts = {}
    for m in re.finditer(r'const (\w+): bool = (true|false);', src):
        consts[m.group(1)] = m.group(2) == "true"
    out = ["/-! GENERATED by /verif/tools/gen_fits.py from src/set64.rs — do not edit.",
           "`to_u64` / `from_u64` of every `Fits64` implementation, as `BitVec` terms. -/", "namespace Gen"]
    names = []
    def emit(ty, fb, tb, tymap):
        w, sg = TYPES[ty]
        frm = translate(fb, {"x": ("bv", 64, False, "x")}, consts, tymap, (w, sg))
        to = translate(tb, {"self": ("bv", w, sg, "self")}, consts, tymap, (64, False))
        out.append(f"def to_u64_{ty} (self : BitVec {w}) : BitVec 64 := {to}")
        out.append(f"def from_u64_{ty} (x : BitVec 64) : BitVec {w} := {frm}")
        names.append((ty, w, sg))
    m = re.search(r'macro_rules! define_fits \{', src)
    if not m:
        raise TieError("define_fits! not found")
    fb, tb = fn_bodies(body_of(src, m.end() - 1)[0])
    for inst in re.finditer(r'^define_fits!\((\w+), \w+\);', src, re.M):
        emit(inst.group(1), fb, tb, {"$ty": inst.group(1)})
    m = re.search(r'macro_rules! define_ifits \{', src)
    if not m:
        raise TieError("define_ifits! not found")
    fb, tb = fn_bodies(body_of(src, m.end() - 1)[0])
    for inst in re.finditer(r'^define_ifits!\((\w+), (\w+), \w+\);', src, re.M):
        emit(inst.group(1), fb, tb, {"$ty": inst.group(1), "$uty": inst.group(2)})
    m = re.search(r'impl Fits64 for char \{', src)
    if not m:
        raise TieError("impl Fits64 for char not found")
    fb, tb = fn_bodies(body_of(src, m.end() - 1)[0])
    cfrm = translate(fb, {"x": ("bv", 64, False, "x")}, consts, {}, "char?")
    cto = translate(tb, {"self": ("bv", 32, False, "self")}, consts, {}, (64, False))
    out.append("/-- `char` is modelled as its scalar value; `std::char::from_u32` accepts exactly the scalar values -/")
    out.append("def isScalar (c : BitVec 32) : Bool := c.toNat < 0xD800 || (0xE000 ≤ c.toNat && c.toNat ≤ 0x10FFFF)")
    out.append("def to_u64_char (self : BitVec 32) : BitVec 64 := " + cto)
    out.append(f"def from_u64_char (x : BitVec 64) : Option (BitVec 32) := if isScalar {cfrm} then some {cfrm} else none")
    out.append("/-- (type, width, signed) of every integer implementation found in the source -/")
    out.append("def fitsTypes : List (String × Nat × Bool) := [" + ", ".join(f'("{t}", {w}, {"true" if s else "false"})' for t, w, s in names) + "]")
    out.append("end Gen")
    return "\n".join(out) + "\n"
