"""Shared machinery of /verif/check: translator, Lean build + axiom audit, harness builds,
trace validation, evidence and replay files."""
import json, os, re, subprocess, sys, time, hashlib, threading
from concurrent.futures import ThreadPoolExecutor

VERIF = os.path.dirname(os.path.dirname(os.path.abspath(__file__)))
REPO = os.environ.get("VERIF_REPO", "/repo")
LEAN = os.path.join(VERIF, "lean")
HARNESS = os.path.join(VERIF, "harness")
WORK = os.path.join(VERIF, ".work")
ALLOWED_AXIOMS = {"propext", "Classical.choice", "Quot.sound"}
ENV = dict(os.environ, CARGO_NET_OFFLINE="true")

BUILDS = {
    "rand": ["--features", "rand"],
    "plain": [],
    "det": ["--features", "det"],
    "serde": ["--features", "rand,serde"],
    "compact": ["--features", "rand,compactserde"],
    "detcompact": ["--features", "det,compactserde"],
    # the crate as a downstream release build compiles it (no debug assertions, no overflow checks): data races
    # and other optimisation-dependent behaviour can be invisible in the checked build and visible here
    "randfast": ["--features", "rand", "--profile", "fast"],
}

def sh(cmd, cwd=None, timeout=None, env=None, stdin=None):
    t0 = time.time()
    try:
        p = subprocess.run(cmd, cwd=cwd, env=env or ENV, stdin=stdin, stdout=subprocess.PIPE, stderr=subprocess.PIPE,
                           timeout=timeout, text=True, errors="replace")
        return p.returncode, p.stdout, p.stderr, time.time() - t0
    except subprocess.TimeoutExpired as e:
        out = e.stdout.decode(errors="replace") if isinstance(e.stdout, bytes) else (e.stdout or "")
        err = e.stderr.decode(errors="replace") if isinstance(e.stderr, bytes) else (e.stderr or "")
        return -9, out, err, time.time() - t0

# ----------------------------------------------------------------------------- translator + lean
def regenerate():
    rc, out, err, _ = sh([sys.executable, os.path.join(VERIF, "tools", "gen_consts.py")])
    return rc, (out + err).strip()

def lake_build(targets, timeout=1500):
    rc, out, err, dt = sh(["lake", "build"] + targets, cwd=LEAN, timeout=timeout)
    txt = out + err
    errors = [l for l in txt.splitlines() if re.match(r"^error:", l)]
    return rc, errors, txt, dt

def property_theorems(pid):
    """every `theorem` declared in Properties/<pid>.lean (the property's proof obligations)"""
    path = os.path.join(LEAN, "TinysetModel", "Properties", pid + ".lean")
    if not os.path.exists(path):
        return []
    src = open(path).read()
    src = re.sub(r"/-.*?-/", "", src, flags=re.S)
    ns = re.findall(r"^namespace (\S+)", src, re.M)
    prefix = (ns[0] + ".") if ns else ""
    return [prefix + m for m in re.findall(r"^theorem (\S+)", src, re.M)]

def grep_forbidden(pid):
    """sorry/admit/axiom/native_decide/bv_decide/implemented_by/unsafe/maxHeartbeats 0 anywhere in the Lean sources"""
    hits = []
    for root, _, files in os.walk(os.path.join(LEAN, "TinysetModel")):
        for f in files:
            if not f.endswith(".lean"):
                continue
            p = os.path.join(root, f)
            src = open(p).read()
            src = re.sub(r"/-.*?-/", "", src, flags=re.S)
            src = re.sub(r"--[^\n]*", "", src)
            for m in re.finditer(r"\bsorry\b|\badmit\b|^axiom |native_decide|bv_decide|implemented_by|\bunsafe |maxHeartbeats 0", src, re.M):
                hits.append(f"{os.path.relpath(p, LEAN)}: {m.group(0).strip()}")
    return hits

def audit_axioms(pid, theorems):
    """#print axioms for every obligation; returns (ok_list, bad_list[(thm, why)])"""
    if not theorems:
        return [], []
    os.makedirs(os.path.join(WORK, "audit"), exist_ok=True)
    path = os.path.join(WORK, "audit", pid + ".lean")
    with open(path, "w") as f:
        f.write(f"import TinysetModel.Properties.{pid}\n")
        for t in theorems:
            f.write(f"#print axioms {t}\n")
    rc, out, err, _ = sh(["lake", "env", "lean", path], cwd=LEAN, timeout=900)
    txt = out + err
    ok, bad = [], []
    for t in theorems:
        m = re.search(r"'" + re.escape(t) + r"' (does not depend on any axioms|depends on axioms: \[([^\]]*)\])", txt, re.S)
        if not m:
            bad.append((t, "no #print axioms output (theorem missing or file does not build)"))
            continue
        axs = set(a.strip() for a in (m.group(2) or "").replace("\n", " ").split(",") if a.strip())
        extra = axs - ALLOWED_AXIOMS
        if extra:
            bad.append((t, "depends on axioms " + ", ".join(sorted(extra))))
        else:
            ok.append((t, sorted(axs)))
    return ok, bad

def leanchecker(modules):
    rc, out, err, dt = sh(["lake", "env", "leanchecker"] + modules, cwd=LEAN, timeout=3000)
    return rc, (out + err).strip(), dt

# ----------------------------------------------------------------------------- harness
_build_lock = threading.Lock()
_built = {}

def build_harness(variant):
    with _build_lock:
        if variant in _built:
            return _built[variant]
        env = dict(ENV, CARGO_TARGET_DIR=os.path.join(WORK, "target-" + variant))
        lock = os.path.join(HARNESS, "Cargo.lock")
        if not os.path.exists(lock):
            import shutil
            shutil.copy(os.path.join(REPO, "Cargo.lock"), lock)
        prof = [] if "--profile" in BUILDS[variant] else ["--release"]
        rc, out, err, dt = sh(["cargo", "build", "--offline"] + prof + BUILDS[variant], cwd=HARNESS, env=env, timeout=1200)
        exe = os.path.join(WORK, "target-" + variant, "release" if prof else BUILDS[variant][BUILDS[variant].index("--profile") + 1], "tsharness")
        res = (rc == 0 and os.path.exists(exe), exe, (out + err)[-3000:], dt)
        _built[variant] = res
        return res

def driver_exe():
    return os.path.join(LEAN, ".lake", "build", "bin", "tsmodel")

class RunResult:
    def __init__(self):
        self.cmd = ""
        self.oracle_fails = []   # (tags, text)
        self.mismatches = []
        self.hstats = {}
        self.dstats = {}
        self.samples = []
        self.histories = 0
        self.steps = 0
        self.signatures = 0
        self.timeout = False
        self.crashed = None
        self.trace = None
        self.wall = 0.0
        self.unvalidated = False

def run_one(variant, typ, profile, seed, hists, steps, mode="native", extra=(), timeout=600, validate=True, tag="", env_extra=None):
    """one harness run + validation of its trace by the Lean driver"""
    r = RunResult()
    ok, exe, log, _ = build_harness(variant)
    name = f"{variant}-{typ}-{profile}-{seed}{tag}"
    trace = os.path.join(WORK, "traces", name + ".txt")
    os.makedirs(os.path.dirname(trace), exist_ok=True)
    r.trace = trace
    cmd = [exe, typ, profile, str(seed), str(hists), str(steps), trace, mode] + list(extra)
    r.cmd = " ".join(cmd)
    if not ok:
        r.crashed = "harness does not build against the current /repo:\n" + log
        return r
    t0 = time.time()
    rc, out, err, dt = sh(cmd, timeout=timeout, env=dict(ENV, **(env_extra or {})))
    r.wall = dt
    for line in err.splitlines():
        if line.startswith("ORACLE-FAIL"):
            m = re.match(r"ORACLE-FAIL props=(\S+) (.*)", line)
            r.oracle_fails.append((m.group(1).split(","), m.group(2)))
        elif line.startswith("HSTAT "):
            _, k, v = line.split(" ", 2)
            r.hstats[k] = r.hstats.get(k, 0) + int(v)
        elif line.startswith("HSAMPLE "):
            r.samples.append(line[8:])
        elif line.startswith("HSUMMARY"):
            m = re.search(r"histories=(\d+) distinct_signatures=(\d+)", line)
            if m:
                r.histories, r.signatures = int(m.group(1)), int(m.group(2))
    if rc == -9:
        r.timeout = True
        return r
    if rc not in (0, 1):
        r.crashed = f"harness exited with status {rc}: {err[-1500:]}"
        return r
    if validate and mode != "unscripted":
        with open(trace) as f:
            # the model's run time is not what is being checked: generous limit, so that a loaded machine raises no alarm
            rc2, out2, err2, dt2 = sh([driver_exe()], stdin=f, timeout=max(timeout, 1500))
        r.wall += dt2
        if rc2 == -9:
            r.mismatches.append("the Lean model did not finish validating the trace in time")
        for line in out2.splitlines():
            if line.startswith("MISMATCH"):
                r.mismatches.append(line)
            elif line.startswith("STAT "):
                _, k, v = line.split(" ", 2)
                r.dstats[k] = r.dstats.get(k, 0) + int(v)
            elif line.startswith("SUMMARY"):
                m = re.search(r"histories=(\d+) steps=(\d+)", line)
                if m:
                    r.steps = int(m.group(2))
        if rc2 not in (0, 1, -9):
            r.mismatches.append(f"the Lean driver crashed (status {rc2}): {err2[-500:]}")
    else:
        r.unvalidated = True
    return r

def history_lines(trace, hist):
    out, on = [], False
    try:
        with open(trace) as f:
            for line in f:
                if line.startswith("cfg ") or line.startswith("seed "):
                    if line.startswith("cfg "):
                        out.append(line.rstrip("\n"))
                    elif on:
                        out.append(line.rstrip("\n"))
                if line.startswith("hist "):
                    on = line.split()[1] == hist
                if on:
                    out.append(line.rstrip("\n")[:4000])
                    if len(out) > 3000:
                        break
    except OSError:
        pass
    return out

def write_replay(pid, kind, detail, run=None, hist=None, extra=None):
    os.makedirs(os.path.join(VERIF, "replays"), exist_ok=True)
    h = hashlib.sha1((pid + kind + detail).encode()).hexdigest()[:10]
    path = os.path.join(VERIF, "replays", f"{pid}-{h}.txt")
    with open(path, "w") as f:
        hdr = {"property": pid, "kind": kind, "detail": detail[:2000], "cmd": run.cmd if run else None, "hist": hist}
        if extra:
            hdr.update(extra)
        f.write("# replay " + json.dumps(hdr) + "\n")
        f.write(f"# {kind}: {detail[:1500]}\n")
        if run is not None:
            f.write(f"# reproduce: {run.cmd}\n")
            if hist:
                f.write("# trace of the failing history (implementation side; `tsmodel < file` re-validates it):\n")
                for l in history_lines(run.trace, hist):
                    f.write(l + "\n")
    return path

# ----------------------------------------------------------------------------- known findings
def load_known():
    p = os.path.join(VERIF, "known_findings.json")
    if not os.path.exists(p):
        return []
    return json.load(open(p)).get("findings", [])

def match_known(pid, text):
    for k in load_known():
        if k.get("status") == "open" and pid in k.get("properties", []) and re.search(k["match"], text):
            return k
    return None

# ----------------------------------------------------------------------------- evidence
def write_evidence(pid, tier, seed, coverage, wall, violations, assumptions):
    os.makedirs(os.path.join(VERIF, "evidence"), exist_ok=True)
    ev = {"property_id": pid, "tier": tier, "seed": seed, "level": "proof", "coverage": coverage,
          "assumptions": assumptions, "wall_s": round(wall, 2), "violations": violations}
    with open(os.path.join(VERIF, "evidence", pid + ".json"), "w") as f:
        json.dump(ev, f, indent=1)
