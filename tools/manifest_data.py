NOTES = ("Family: machine-checked proof in Lean 4. Every check = translator + kernel-checked theorems about the executable model "
         "+ representation-exact correspondence of the model with the real crate + oracles on the implementation. "
         "Theorem coverage differs per property and is stated in each level_claimed.text; where the full statement is not yet "
         "proved, the proved part is named and the rest is carried by the correspondence check (which is not a proof).")
NOT_APPLICABLE = []
BASE_NOTE = ("Trusted: Lean 4.33.0 kernel; axioms ⊆ {propext, Classical.choice, Quot.sound} (audited by #print axioms on every run); the hand-written model, "
             "trusted as far as this run's correspondence check exercises it (return value + representation words per step); the translator for constants/Fits64; "
             "harness and driver code. Modelled not verified: raw pointers, unwinding, std, serde, rand crate, allocator, threads. 64-bit target, debug overflow semantics, capacities < 2^31 / 2^60.")
def C(pid, text, technique, note=BASE_NOTE):
    return {"property_id": pid, "text": text, "technique": technique, "note": note}
T = "Lean 4 theorems over an executable model + representation-exact trace correspondence with the crate"
CHECKS = [
 C("C01", "Kernel-checked so far: the complete Robin Hood layer (lookup complete/sound, insertion cascade and backward-shift deletion preserve distinctness, order and cut, change the word multiset by exactly one), the bridge lemma to both table layouts, and set-level refinement for the plain-table layout (contains, remove, insert without growth) for every RNG oracle. The full statement (every layout, growth, whole histories) is not yet a theorem: it is carried by the correspondence check (every step of every generated history: same answer and same representation words as the Lean model, under scripted/deterministic/SplitMix draws) plus an ideal-set oracle.", T),
 C("C02", "As C01, instantiated at the u32 configuration (same generic theorems; u32 codec, 1/16 room rule).", T),
 C("C03", "Fits64 bodies are translated from the source into BitVec terms on every run; theorems about them are being added. Correspondence: typed-wrapper histories and Fits64 tables against the model.", T),
 C("C04", "Iteration order is the model's `elems`; cursor model validated per position against the crate; theorems being added.", T),
 C("C05", "collect/extend modelled (fromIter = sort+dedup+layout choice+insert loop); theorems being added; representation-exact correspondence.", T),
 C("C06", "Tag-mask coherence is a theorem over the masks read from the source (every inline-vs-pointer test uses a mask that the block alignment guarantees to be zero); block sizes/frees are checked by the ledger allocator of the harness (guard bytes, size/align match, minimal-alignment mode).", T),
 C("C07", "clone/with_capacity_of modelled; independence checked through per-set model instances and the ledger allocator; theorems being added.", T),
 C("C08", "== / Debug / Hash input modelled on top of elems/contains; theorems being added.", T),
 C("C09", "| and - (all forms) modelled as the insert/remove loops they are; theorems being added.", T),
 C("C10", "Kernel-checked: the budget table in the source equals the documented one; collect() of an in-budget list is inline and decodes to itself; ascending insertion stays inline at every step; width monotonicity (prefixes stay in budget); an inline value owns no block and mem_used is one word. Not yet a theorem: removals staying inline. Correspondence + oracle on the field-boundary lattice.", T),
 C("C11", "mem_used and block size modelled; per-step oracle on the allocator-observed block size and the 8*M+8 bound; theorems being added.", T),
 C("C12", "dense footprints: oracle on allocator-observed bytes for collect/ascending/any-order; theorems being added.", T),
 C("C13", "cursor shortcuts modelled (min/max/last/count/size_hint at every position) and compared per position; theorems being added.", T),
 C("C14", "allocation failure injection at every allocation point (harness); theorems being added.", T),
 C("C15", "hint constructors modelled; histories from hinted sets validated like C01/C02; theorems being added.", T),
 C("C16", "serde encoding = model's elems; deserialize = insert loop; correspondence under the serde feature.", T),
 C("C17", "deterministic generator constants read from source and proved equal to the model's; unscripted deterministic build must match the model exactly.", T),
 C("C18", "every shared-reference operation is a function of the representation in the model; harness compares representation before/after each such call and runs concurrent readers.", T),
 C("C19", "to_array/from_array modelled; round trip compared under compactserde.", T),
 C("C20", "Kernel-checked: the placeholder scan terminates within |table|+W+3 steps for every draw, table and inserted value, and returns a usable value; all other model loops are structurally recursive or fuel-bounded by the table length (Lean's termination checker). Fuel sufficiency of the recursive insert is validated by the correspondence (fixed fuel), not yet a theorem. Watchdog on every harness run.", T),
]
