#!/usr/bin/env python3
"""Translator: regenerates the Lean data the theorems depend on from /repo's current source.

  Generated/Consts.lean : BITSPLITS (64-bit target) of both set types, the pointer-tag masks
                          used at every inline-vs-heap test, header/element sizes, the
                          deterministic generator's multipliers, the SplitMix64 constants,
                          the thresholds and growth formulas that appear as literals.
  Generated/Fits.lean   : to_u64 / from_u64 of every Fits64 impl as BitVec terms.

Anything it cannot parse is a broken tie (exit 3 with a message), never ignored.
Files are rewritten only when their content changes, so lake stays incremental."""
import re, sys, os

REPO = os.environ.get("VERIF_REPO", "/repo")
OUT = os.environ.get("VERIF_GEN_OUT") or os.path.join(os.path.dirname(os.path.abspath(__file__)), "..", "lean", "TinysetModel", "Generated")

class TieError(Exception):
    pass

def read(p):
    with open(os.path.join(REPO, p)) as f:
        return f.read()

def bitsplits(src, name):
    m = re.search(r'#\[cfg\(target_pointer_width = "64"\)\]\s*static BITSPLITS: \[&\[(?:u64|u32)\]; (\d+)\] = \[(.*?)\];', src, re.S)
    if not m:
        raise TieError(f"{name}: cannot find the 64-bit BITSPLITS table")
    rows = re.findall(r'&\[([^\]]*)\]', m.group(2))
    if len(rows) != int(m.group(1)):
        raise TieError(f"{name}: BITSPLITS row count")
    out = []
    for r in rows:
        r = r.strip()
        out.append([int(x) for x in r.split(",") if x.strip()] if r else [])
    return out

def masks(src, name):
    """every `as usize & N` used to tell an inline word from a pointer, with the function it is in"""
    res = []
    fn = "?"
    for line in src.splitlines():
        m = re.match(r'\s*(?:pub )?(?:const )?(?:unsafe )?fn (\w+)', line)
        if m:
            fn = m.group(1)
        m2 = re.match(r'\s*impl(?:<[^>]*>)? (\w+)(?: for (\w+))?', line)
        if m2 and m2.group(2):
            fn = m2.group(1)
        for mm in re.finditer(r'\.0 as usize & (\d+)', line):
            res.append((fn, int(mm.group(1))))
    if not res:
        raise TieError(f"{name}: no pointer-tag tests found")
    return res

def alloc_sites(src):
    """every direct allocator call (`std::alloc::*`) and every ownership escape hatch (`mem::forget`,
    `ManuallyDrop`, `Box::from_raw/into_raw/leak`), with the function it occurs in, in source order"""
    res = []
    fn = "?"
    for line in src.splitlines():
        code = line.split("//")[0]
        m = re.match(r'\s*(?:pub )?(?:const )?(?:unsafe )?fn (\w+)', code)
        if m:
            fn = m.group(1)
        for mm in re.finditer(r'\balloc::(alloc_zeroed|alloc|dealloc|realloc)\s*\(|\b(mem::forget|ManuallyDrop|Box::from_raw|Box::into_raw|Box::leak|Vec::from_raw_parts)\b', code):
            res.append((fn, mm.group(1) or mm.group(2)))
    return res

def one(pattern, src, what, flags=0):
    m = re.search(pattern, src, flags)
    if not m:
        raise TieError(f"cannot find {what}")
    return m

def lean_list(xs):
    return "[" + ", ".join(str(x) for x in xs) + "]"

def gen_consts():
    s64, s32, rnd = read("src/setu64.rs"), read("src/setu32.rs"), read("src/rand.rs")
    b64, b32 = bitsplits(s64, "setu64.rs"), bitsplits(s32, "setu32.rs")
    m64, m32 = masks(s64, "setu64.rs"), masks(s32, "setu32.rs")
    p1 = int(one(r'\(cap as u64\)\.wrapping_mul\((\d+)\)', rnd, "deterministic multiplier 1").group(1))
    p2 = int(one(r'\(bits\)\.wrapping_mul\((\d+)\)', rnd, "deterministic multiplier 2").group(1))
    one(r'let x = \(cap as u64\)\.wrapping_mul\(\d+\);\s*let y = \(bits\)\.wrapping_mul\(\d+\);\s*x \^ y', rnd, "shape x ^ y of the deterministic generator")
    inc = int(one(r'SEED\.fetch_add\((0x[0-9a-f]+)', rnd, "SplitMix increment").group(1), 16)
    sm = one(r'let z = \(z \^ \(z >> (\d+)\)\) \* Wrapping\((0x[0-9a-f]+)\);\s*let z = \(z \^ \(z >> (\d+)\)\) \* Wrapping\((0x[0-9a-f]+)\);\s*\(z \^ \(z >> (\d+)\)\)\.0', rnd, "SplitMix finaliser")
    smc = [int(sm.group(1)), int(sm.group(2), 16), int(sm.group(3)), int(sm.group(4), 16), int(sm.group(5))]
    def hdr(src, name, ty):
        m = one(r'struct Sbeginning \{\s*sz: (\w+),\s*cap: (\w+),\s*bits: (\w+),\s*\}', src, f"{name}: header struct")
        size = {"usize": 8, "u64": 8, "u32": 4}
        h = sum(size[m.group(i)] for i in (1, 2, 3))
        b = one(r'fn bytes_for_capacity\(sz: usize\) -> usize \{\s*sz \* (\d+) \+ std::mem::size_of::<S>\(\) - (\d+)', src, f"{name}: bytes_for_capacity")
        if b.group(1) != b.group(2):
            raise TieError(f"{name}: bytes_for_capacity shape")
        al = one(r'Layout::from_size_align_unchecked\((?:size|bytes_for_capacity\(sz\)), (\d+)\)', src, f"{name}: layout alignment")
        return h, int(b.group(1)), int(al.group(1))
    h64, h32 = hdr(s64, "setu64.rs", "u64"), hdr(s32, "setu32.rs", "u32")
    def lits(src, name, w):
        d = {}
        d["capShift"] = int(one(r'pub fn with_capacity_and_max\(cap: usize, mx: \w+\) -> \w+ \{\s*if cap as \w+ > mx >> (\d+)', src, f"{name}: with_capacity_and_max threshold").group(1))
        m = one(r'fn dense_with_max\(mx: \w+\) -> \w+ \{\s*let cap = 1 \+ mx / (\d+) \+ mx / (\d+);', src, f"{name}: dense_with_max")
        d["denseDiv"] = [int(m.group(1)), int(m.group(2))]
        d["placeholderAbove"] = int(one(r'if b <= (\d+) \{\s*b \+ (\d+)', src, f"{name}: placeholder floor").group(1))
        d["placeholderShift"] = int(one(r'if b <= (\d+) \{\s*b \+ (\d+)', src, f"{name}: placeholder floor").group(2))
        d["scanAbove"] = int(one(r'while i <= (\d+) \|\| i == e \|\| a\.iter\(\)\.any\(\|&v\| v == i\)', src, f"{name}: placeholder scan").group(1))
        d["sparseShift"] = int(one(r'if \(e >> (\d+)\) as usize > \*sz', src, f"{name}: dense->sparse criterion").group(1))
        d["denseBig"] = int(one(r"if s\.cap(?: as u64)? > mx >> (\d+)", src, f"{name}: table->dense criterion").group(1))
        return d
    l64, l32 = lits(s64, "setu64.rs", 64), lits(s32, "setu32.rs", 32)
    a64, a32 = alloc_sites(s64), alloc_sites(s32)
    aother = []
    for f in ("src/setu64/iter.rs", "src/setu32/iter.rs", "src/set64.rs", "src/setusize.rs", "src/copyset.rs", "src/sets.rs", "src/lib.rs"):
        aother += [(f + ":" + fn, call) for fn, call in alloc_sites(read(f))]
    def sitel(ms):
        return "[" + ", ".join(f'("{f}", "{c}")' for f, c in ms) + "]"
    def tagl(ms):
        return "[" + ", ".join(f'("{f}", {m})' for f, m in ms) + "]"
    txt = f"""/-! GENERATED by /verif/tools/gen_consts.py from {REPO}/src — do not edit.
Data read off the current source; `Proofs/Consts.lean` proves the model's constants equal these. -/
namespace Gen
def bitsplits64 : List (List Nat) := {"[" + ", ".join(lean_list(r) for r in b64) + "]"}
def bitsplits32 : List (List Nat) := {"[" + ", ".join(lean_list(r) for r in b32) + "]"}
/-- (function, mask) of every inline-vs-pointer test `self.0 as usize & mask` -/
def tagMasks64 : List (String × Nat) := {tagl(m64)}
def tagMasks32 : List (String × Nat) := {tagl(m32)}
/-- (function, call) of every direct allocator call in the file, in source order -/
def allocSites64 : List (String × String) := {sitel(a64)}
def allocSites32 : List (String × String) := {sitel(a32)}
/-- the same for the iterator, wrapper and operator files (expected: none) -/
def allocSitesOther : List (String × String) := {sitel(aother)}
def detMul1 : Nat := {p1}
def detMul2 : Nat := {p2}
def smInc : Nat := {inc}
def smConsts : List Nat := {lean_list(smc)}
/-- (header bytes, element bytes, alignment) -/
def layout64 : Nat × Nat × Nat := ({h64[0]}, {h64[1]}, {h64[2]})
def layout32 : Nat × Nat × Nat := ({h32[0]}, {h32[1]}, {h32[2]})
def capShift64 : Nat := {l64['capShift']}
def capShift32 : Nat := {l32['capShift']}
def denseDiv64 : List Nat := {lean_list(l64['denseDiv'])}
def denseDiv32 : List Nat := {lean_list(l32['denseDiv'])}
def placeholderFloor64 : Nat × Nat := ({l64['placeholderAbove']}, {l64['placeholderShift']})
def placeholderFloor32 : Nat × Nat := ({l32['placeholderAbove']}, {l32['placeholderShift']})
def scanAbove64 : Nat := {l64['scanAbove']}
def scanAbove32 : Nat := {l32['scanAbove']}
def sparseShift64 : Nat := {l64['sparseShift']}
def sparseShift32 : Nat := {l32['sparseShift']}
def denseBigShift64 : Nat := {l64['denseBig']}
def denseBigShift32 : Nat := {l32['denseBig']}
end Gen
"""
    return txt

def write_if_changed(path, txt):
    os.makedirs(os.path.dirname(path), exist_ok=True)
    old = None
    if os.path.exists(path):
        old = open(path).read()
    if old != txt:
        open(path, "w").write(txt)
        return True
    return False

def main():
    try:
        c = gen_consts()
        import gen_fits
        gen_fits.TieError = TieError
        f = gen_fits.gen_fits(read("src/set64.rs"))
        import gen_fns
        gen_fns.TieError = TieError
        fn = gen_fns.gen_fns(read("src/setu64.rs"), read("src/setu32.rs"))
        import gen_loops
        gen_loops.TieError = TieError
        lp = gen_loops.gen_loops(read("src/setu64.rs"), read("src/setu32.rs"), read("src/setu64/iter.rs"), read("src/setu32/iter.rs"), read("src/copyset.rs"), read("src/set64.rs"))
    except TieError as e:
        print(f"TIE-BROKEN translator: {e}")
        return 3
    except Exception as e:           # source text outside anything the translators expect: a broken tie, not a crash
        print(f"TIE-BROKEN translator: cannot read the source ({type(e).__name__}: {e})")
        return 3
    ch1 = write_if_changed(os.path.join(OUT, "Consts.lean"), c)
    ch2 = write_if_changed(os.path.join(OUT, "Fits.lean"), f)
    ch3 = write_if_changed(os.path.join(OUT, "Fns.lean"), fn)
    ch4 = write_if_changed(os.path.join(OUT, "Loops.lean"), lp)
    print(f"generated Consts.lean ({'changed' if ch1 else 'same'}), Fits.lean ({'changed' if ch2 else 'same'}), Fns.lean ({'changed' if ch3 else 'same'}), Loops.lean ({'changed' if ch4 else 'same'})")
    return 0

if __name__ == "__main__":
    sys.path.insert(0, os.path.dirname(os.path.abspath(__file__)))
    sys.exit(main())
