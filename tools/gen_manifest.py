#!/usr/bin/env python3
"""Writes /verif/MANIFEST.json from tools/manifest_data.py (so the 20 entries stay consistent)."""
import json, os, sys
sys.path.insert(0, os.path.dirname(os.path.abspath(__file__)))
from manifest_data import CHECKS, NOT_APPLICABLE, NOTES
V = os.path.dirname(os.path.dirname(os.path.abspath(__file__)))
m = {
 "version": 1,
 "setup_cmd": "cd /verif && ./check --setup",
 "hooks": {
  "guard": "droundy_tinyset_verif",
  "enable": "RUSTFLAGS='--cfg droundy_tinyset_verif' (set in /verif/harness/.cargo/config.toml); the harness crate depends on /repo by path",
  "baseline_off_cmd": "cd /repo && cargo test --workspace --no-fail-fast --offline",
  "source_commits": ["8f3eb94", "3b4eb06", "3f04f5f"],
  "add_only": True
 },
 "engines": [
  {"name": "lean-model", "path": "/verif/lean", "serves_properties": [c["property_id"] for c in CHECKS], "kind_free_text": "Lean 4 executable model of the crate (TinysetModel/Model), kernel-checked theorems about it (Proofs, Properties), generated constants and Fits64 terms (Generated), compiled trace validator (Driver.lean -> tsmodel)"},
  {"name": "harness", "path": "/verif/harness", "serves_properties": [c["property_id"] for c in CHECKS], "kind_free_text": "Rust harness driving the real crate in-process (scripted RNG, representation view, ledger allocator with guard bytes / minimal alignment / failure injection), ideal-set oracles, trace writer for the Lean driver"},
  {"name": "translator", "path": "/verif/tools/gen_consts.py", "serves_properties": [c["property_id"] for c in CHECKS], "kind_free_text": "runs first in every check: regenerates BITSPLITS, tag masks, layout constants, growth/conversion thresholds, RNG constants and the Fits64 bodies (as BitVec terms) from /repo/src; Proofs/Consts.lean proves the model uses exactly those; refuses source shapes it does not know (reported as a broken tie)"},
  {"name": "shared-reference-audit", "path": "/verif/tools/audit_shared.py", "serves_properties": ["C18"], "kind_free_text": "side condition of the model read off /repo/src on every run: no function taking a set by shared reference stores through a raw pointer other than a freshly allocated block, forms &mut from it or casts it to *mut; no *mut in iterator/wrapper files; no interior mutability"}
 ],
 "checks": [],
 "notes": NOTES,
 "not_applicable": NOT_APPLICABLE,
}
for c in CHECKS:
    pid = c["property_id"]
    m["checks"].append({
        "property_id": pid,
        "quick_cmd": f"./check {pid} --tier quick",
        "thorough_cmd": f"./check {pid} --tier thorough",
        "evidence_file": f"/verif/evidence/{pid}.json",
        "replay_cmd_template": f"./check {pid} --replay {{path}}",
        "engine": "lean-model",
        "level_claimed": {"category": "proof", "text": c["text"], "design_ref": c.get("design_ref", "DESIGN.md section 7, " + pid)},
        "level_note": c["note"],
        "technique": c["technique"],
    })
json.dump(m, open(os.path.join(V, "MANIFEST.json"), "w"), indent=1)
print("MANIFEST.json written,", len(m["checks"]), "checks")
