"""Translate the Robin-Hood primitives `p_lookfor`, `p_insert`, `p_remove` of src/setu64.rs and src/setu32.rs —
imperative code: `for` loops over a slice with early returns, mutable locals, element assignment and
`std::mem::swap` — into Lean functions (`Generated/Loops.lean`).  `Proofs/Loops.lean` proves the hand-written model
(`Model/RH.lean`) computes exactly these functions.

Scheme: every `for v in lo..hi { body }` becomes a top-level function, structurally recursive on a fuel argument
(`hi - lo` at the call), whose parameters are the variables in scope (those assigned inside the loop are threaded
through the recursion); `return e` yields `.ok (e, a)` with the current contents of the slice; `panic!` and
`unreachable!` yield `.error`; an `if` duplicates the statements that follow it into its branches, so no join points
are needed.  Accepted statements: `let [mut] x = e;`, `x = e;`, `x += e;`, `a[i] = e;`,
`std::mem::swap(&mut a[i], &mut x);`, `return e;`, `panic!(..)`, `unreachable!()`, `if/else if/else`, `for`, and a
final expression.  The statements after an inner loop must not fall through into the enclosing loop (they do not, in
the three functions).  Slice reads are `Array.getD _ _ 0` (the Rust code would panic on an index out of bounds; all
indices here are reduced modulo the length).  Anything else raises TieError."""
import re
from gen_fits import TieError, tokenize, body_of
from gen_fns import FP, WIDTH

class LP(FP):
    """expression parser extended with indexing, `.len()`, booleans, `||`/`&&`, the `LookedUp` constructors"""
    def expr(self):
        a = self.conj()
        while self.peek() == ("op", "||"):
            self.eat()
            a = f"({a} ∨ {self.conj()})"
        return a
    def conj(self):
        a = self.cmp()
        while self.peek() == ("op", "&&"):
            self.eat()
            a = f"({a} ∧ {self.cmp()})"
        return a
    def cmp(self):
        n0 = self.i
        a = self.bor()
        while self.peek() in (("op", "=="), ("op", "!="), ("op", ">="), ("op", "<="), ("op", "<"), ("op", ">")):
            op = self.eat()
            b = self.bor()
            a = f"({a} {'=' if op == '==' else '≠' if op == '!=' else '≥' if op == '>=' else '≤' if op == '<=' else op} {b})"
            self.props.add(a)
        return a
    props = set()
    aliases = {}
    boolexprs = set()
    lists = set()
    def unary(self):
        if self.peek() == ("op", "!"):
            self.eat()
            a = self.unary()
            if a in self.boolexprs:
                r = f"(!{a})"
                self.boolexprs.add(r)
                return r
            return f"(RI.notW {self.W} {a})"
        if self.peek() == ("op", "*"):
            # `*r` for a reference `r`: the place it refers to (an element of the slice, or a header field)
            self.eat()
            v = self.eat("id")
            if v in self.aliases:
                arr, i = self.aliases[v]
                return f"(RI.idx {arr} {i})"
            return v
        return self.atom()
    def cast(self):
        a = self.postfix()
        while self.at("as"):
            self.eat()
            ty = self.eat("id")
            if ty not in WIDTH:
                raise TieError(f"cast to {ty}")
            if WIDTH[ty] < 64:
                a = f"({a} % {2 ** WIDTH[ty]})"
        return a
    def postfix(self):
        a = self.unary()
        while True:
            if self.peek() == ("op", ".") and self.peek(1)[0] == "id" and self.peek(2) != ("op", "("):
                # field of a header view (`s.bits`)
                self.eat()
                a = f"{a}_{self.eat('id')}"
            elif self.peek() == ("op", ".") and self.peek(1)[0] == "id":
                self.eat()
                m = self.eat("id")
                self.eat("op", "(")
                self.eat("op", ")")
                if m == "key_found":
                    a = f"(RI.keyFound {a})"
                elif m == "wrapping_add1":
                    a = f"(({a} + 1) % {2 ** self.W})"
                elif m == "leading_zeros":
                    a = f"(RI.clz {self.W} {a})"
                elif m == "len" and a == "BITSPLITS":
                    a = f"(List.length bitsplits{self.suffix})"
                elif m == "len" and a in self.lists:
                    a = f"(List.length {a})"
                elif m == "len":
                    a = f"(Array.size {a})"
                else:
                    raise TieError(f"method {m}")
            elif self.peek() == ("op", "[") :
                raise TieError("indexing token")
            else:
                break
        return a
    def atom(self):
        k, v = self.peek()
        if k == "id" and v in ("true", "false"):
            self.eat()
            return v
        if k == "id" and v.startswith("LookedUp::"):
            self.eat()
            ctor = {"LookedUp::EmptySpot": "Looked.empty", "LookedUp::KeyFound": "Looked.found", "LookedUp::NeedInsert": "Looked.needInsert"}.get(v)
            if ctor is None:
                raise TieError(v)
            if self.peek() == ("op", "("):
                self.eat()
                e = self.expr()
                self.eat("op", ")")
                return f"({ctor} {e})"
            return ctor
        if k == "id" and v == "None":
            self.eat()
            return "none"
        if k == "id" and v == "Some" and self.peek(1) == ("op", "("):
            self.eat(); self.eat()
            x = self.expr(); self.eat("op", ")")
            return f"(some {x})"
        if k == "id" and v == "mk_tiny" and self.peek(1) == ("op", "("):
            # `Some(Tiny { sz, bits, sz_spent: 0, last: 0 })`: the two fields that carry information
            self.eat(); self.eat()
            x = self.expr(); self.eat("op", ","); y = self.expr(); self.eat("op", ")")
            return f"(some ({x}, {y}))"
        if k == "id" and v == "sortdedup" and self.peek(1) == ("op", "("):
            # `v.sort(); v.dedup();` — `std`'s functions are a parameter of the translated function
            self.eat(); self.eat()
            x = self.expr(); self.eat("op", ")")
            return f"(sd {x})"
        if k == "id" and v == "sopnil":
            self.eat()
            return "([] : List (Nat × Nat))"
        if k == "id" and v in ("sopins", "soprem") and self.peek(1) == ("op", "("):
            # `s.insert(v)` / `self.remove(v)` on the set under construction: one more step of the script (1 insert, 0 remove)
            self.eat(); self.eat()
            x = self.expr(); self.eat("op", ","); y = self.expr(); self.eat("op", ")")
            return f"({x} ++ [({1 if v == 'sopins' else 0}, {y})])"
        if k == "id" and v == "mk_script" and self.peek(1) == ("op", "("):
            self.eat(); self.eat()
            x = self.expr(); self.eat("op", ","); y = self.expr(); self.eat("op", ")")
            return f"({x}, {y})"
        if k == "id" and v == "tinyany" and self.peek(1) == ("op", "("):
            # `self.clone().any(|x| x == e)`: the inline iterator run to its end (`tiny_drain`), then membership
            self.eat(); self.eat()
            x = self.expr(); self.eat("op", ")")
            r = f"(tiny_any_{self.suffix} self_sz self_bits {x})"
            self.boolexprs.add(r)
            return r
        if k == "id" and v == "pcontains" and self.peek(1) == ("op", "("):
            # `other.contains(i)`: the other operand's `contains` is a parameter of the translated function
            self.eat(); self.eat()
            x = self.expr(); self.eat("op", ")")
            r = f"(p_contains {x})"
            self.boolexprs.add(r)
            return r
        if k == "id" and v == "hasword" and self.peek(1) == ("op", "("):
            self.eat(); self.eat()
            arr = self.eat("id"); self.eat("op", ","); x = self.expr(); self.eat("op", ")")
            r = f"(RI.hasWord {arr} {x})"
            self.boolexprs.add(r)
            return r
        if k == "id" and v in ("anyzero", "room16") and self.peek(1) == ("op", "("):
            self.eat(); self.eat()
            arr = self.eat("id"); self.eat("op", ")")
            r = f"(RI.{v} {arr})"
            self.boolexprs.add(r)
            return r
        if k == "id" and v == "std::usize::MAX":
            self.eat()
            return "18446744073709551615"
        if k == "id" and v == "mask" and self.peek(1) == ("op", "("):
            self.eat(); self.eat()
            x = self.expr(); self.eat("op", ")")
            return f"(mask_{self.suffix} {x})"
        if k == "id" and v == "BITSPLITS" and self.peek(1) == ("idx", None):
            self.eat(); self.eat("idx")
            e = self.expr()
            self.eat("idxend")
            return f"(List.getD bitsplits{self.suffix} {e} [])"
        if k == "id" and self.peek(1) == ("idx", None):
            self.eat()
            self.eat("idx")
            e = self.expr()
            self.eat("idxend")
            if v in self.lists:
                return f"(List.getD {v} {e} 0)"
            return f"(RI.idx {v} {e})"
        if k == "id" and v in ("split_u64", "split_u32") and self.peek(1) == ("op", "("):
            self.eat(); self.eat()
            x = self.expr(); self.eat("op", ","); b = self.expr(); self.eat("op", ")")
            return f"(split_{self.suffix} {x} {b})"
        return super().atom()

def lex(body):
    body = re.sub(r'//[^\n]*', '', body)
    body = re.sub(r'panic!\("[^"]*"\)', 'panic!()', body)
    # index brackets get their own token kinds (the shared tokenizer has no `[`)
    body = body.replace("[", " @IDX@ ").replace("]", " @IDXEND@ ")
    toks = []
    for part in re.split(r'(@IDX@|@IDXEND@)', body):
        if part == "@IDX@":
            toks.append(("idx", None))
        elif part == "@IDXEND@":
            toks.append(("idxend", None))
        else:
            toks.extend(tokenize(part))
    return toks

class SP:
    """statement parser -> AST"""
    def __init__(self, toks, W, suffix):
        self.p = LP(toks, W, {"p_poverty", "compute_array_bits", "p_lookfor"}, suffix)
        self.p.props = set()
        self.p.boolexprs = set()
    def at(self, v):
        return self.p.at(v)
    def block(self):
        """statements until `}` or eof"""
        out = []
        while self.p.peek()[0] != "eof" and not self.at("}"):
            out.append(self.stmt())
        return out
    def braced(self):
        self.p.eat("op", "{")
        b = self.block()
        self.p.eat("op", "}")
        return b
    def stmt(self):
        p = self.p
        if self.at("let") and p.peek(1) == ("op", "("):
            p.eat(); p.eat()
            x = p.eat("id"); p.eat("op", ","); y = p.eat("id"); p.eat("op", ")")
            p.eat("op", "=")
            e = p.expr()
            p.eat("op", ";")
            return ("let2", x, y, e)
        if self.at("let"):
            p.eat()
            if self.at("mut"):
                p.eat()
            x = p.eat("id")
            if x.endswith(":"):
                x = x[:-1]
                p.eat("id")          # the type annotation
            p.eat("op", "=")
            if self.at("p_remove") and p.peek(1) == ("op", "("):
                p.eat(); p.eat()
                k = p.expr(); p.eat("op", ","); arr = p.eat("id"); p.eat("op", ","); off = p.expr(); p.eat("op", ")")
                p.eat("op", ";")
                p.boolexprs.add(x)
                return ("callrm", x, k, arr, off)
            if self.at("p_insert") and p.peek(1) == ("op", "("):
                p.eat(); p.eat()
                k = p.expr(); p.eat("op", ","); arr = p.eat("id"); p.eat("op", ","); off = p.expr(); p.eat("op", ")")
                p.eat("op", ";")
                return ("callins", x, k, arr, off)
            e = p.expr()
            p.eat("op", ";")
            if e in p.props:
                p.boolexprs.add(x)
            return ("let", x, e)
        if self.at("return"):
            p.eat()
            e = p.expr()
            p.eat("op", ";")
            return ("return", e)
        if self.at("p_remove") and p.peek(1) == ("op", "("):
            p.eat(); p.eat()
            k = p.expr(); p.eat("op", ","); arr = p.eat("id"); p.eat("op", ","); off = p.expr(); p.eat("op", ")")
            p.eat("op", ";")
            return ("callrm", "_", k, arr, off)
        if p.peek() == ("op", "*") and p.peek(1)[0] == "id" and p.peek(2) == ("op", "=") and p.peek(3) != ("op", "="):
            p.eat(); v = p.eat("id"); p.eat()
            e = p.expr()
            p.eat("op", ";")
            if v in p.aliases:
                arr, i = p.aliases[v]
                return ("setidx", arr, i, e)
            return ("assign", v, e)
        if p.peek()[0] == "id" and p.peek(1) == ("op", ".") and p.peek(2)[0] == "id" and p.peek(3) in (("op", "-"), ("op", "+")) and p.peek(4) == ("op", "="):
            v = p.eat("id"); p.eat(); f = p.eat("id"); op = p.eat(); p.eat()
            e = p.expr()
            p.eat("op", ";")
            return ("assign", f"{v}_{f}", f"({v}_{f} {op} {e})")
        if p.peek()[0] == "id" and p.peek(1) == ("op", ".") and p.peek(2)[0] == "id" and p.peek(3) == ("op", "=") and p.peek(4) != ("op", "="):
            v = p.eat("id"); p.eat(); f = p.eat("id"); p.eat()
            e = p.expr()
            if p.peek() == ("op", ";") or not self.at("}"):
                p.eat("op", ";")
            return ("assign", f"{v}_{f}", e)
        if self.at("while") and p.peek(1) == ("id", "let"):
            # `while let Some(&x) = a.get(self.index) { .. }`: a walk along the slice; every pass through the body advances
            # the index by one exactly once, so `len - index + 1` iterations always suffice
            p.eat(); p.eat()
            p.eat("id", "Some"); p.eat("op", "("); p.eat("op", "&"); x = p.eat("id"); p.eat("op", ")")
            p.eat("op", "=")
            arr = p.eat("id"); p.eat("op", "."); p.eat("id", "get"); p.eat("op", "(")
            i = p.expr(); p.eat("op", ")")
            body = self.braced()
            tops = [st for st in body if st == ("assign", i, f"({i} + 1)")]
            nested = set()
            for st in body:
                if st[0] != "assign":
                    nested |= assigned([st])
            if len(tops) != 1 or i in nested or len([st for st in body if st[0] == "assign" and st[1] == i]) != 1:
                raise TieError(f"while let over {arr}: the body does not advance {i} by one exactly once")
            return ("whilelet", x, arr, i, body)
        if self.at("while") and p.peek(1)[0] == "id" and p.peek(1)[1] == "self":
            # `while self.f < bound { .. }` where the body advances `self.f` by one exactly once per iteration and leaves the
            # bound alone: `bound - self.f` iterations always suffice; the body may `return`
            p.eat()
            X = p.bor(); p.eat("op", "<"); Y = p.bor()
            body = self.braced()
            tops = [st for st in body if st[0] == "assign" and st[1] == X]
            nested = set()
            for st in body:
                if st[0] not in ("assign", "let"):
                    nested |= assigned([st])
            adv = len(tops) == 1 and (tops[0][2] == f"({X} + 1)" or
                                      (tops[0][2].startswith("(1 + ") and ("let", tops[0][2][5:-1], X) in body))
            if not adv or X in nested or any(re.search(r'\b%s\b' % re.escape(v), Y) for v in assigned(body)):
                raise TieError(f"while {X} < {Y}: the body does not advance {X} by one exactly once, or changes the bound")
            c = f"({X} < {Y})"
            p.props.add(c)
            return ("whilelt", X, Y, body)
        if self.at("while"):
            p.eat()
            c = p.expr()
            p.eat("op", "{")
            x = p.eat("id"); p.eat("op", "=")
            e = p.expr()
            p.eat("op", ";")
            p.eat("op", "}")
            return ("while", c, x, e)
        if self.at("match") and p.peek(1) == ("id", "p_lookfor"):
            # match p_lookfor(k, a, off) { LookedUp::KeyFound(idx) => {..} LookedUp::EmptySpot(idx) => {..} LookedUp::NeedInsert => {} }
            p.eat()
            scrut = p.expr()
            p.eat("op", "{")
            arms = {}
            while not self.at("}"):
                ctor = p.eat("id")
                v = None
                if p.peek() == ("op", "("):
                    p.eat(); v = p.eat("id"); p.eat("op", ")")
                p.eat("op", "="); p.eat("op", ">")
                if p.peek() == ("op", "(") and p.peek(1) == ("op", ")"):
                    p.eat(); p.eat()
                    arms[ctor] = (v, [])
                else:
                    arms[ctor] = (v, self.braced())
                if p.peek() == ("op", ","):
                    p.eat()
            p.eat("op", "}")
            if set(arms) != {"LookedUp::KeyFound", "LookedUp::EmptySpot", "LookedUp::NeedInsert"}:
                raise TieError("match p_lookfor: arms")
            return ("matchlf", scrut, arms)
        if self.at("panic") or self.at("unreachable"):
            kind = p.eat("id")
            p.eat("op", "!")
            p.eat("op", "(")
            p.eat("op", ")")
            if p.peek() == ("op", ";"):
                p.eat()
            return ("panic", kind)
        if self.at("std::mem::swap"):
            p.eat()
            p.eat("op", "(")
            p.eat("op", "&"); p.eat("id", "mut")
            arr = p.eat("id"); p.eat("idx"); i = p.expr(); p.eat("idxend")
            p.eat("op", ",")
            p.eat("op", "&"); p.eat("id", "mut")
            x = p.eat("id")
            p.eat("op", ")")
            p.eat("op", ";")
            return ("swap", arr, i, x)
        if self.at("whilenext"):
            # `while let Some(x) = it.next() { .. }` over an iterator held in a variable (rewritten by the caller)
            p.eat(); x = p.eat("id"); L = p.eat("id")
            body = self.braced()
            return ("whilenext", x, L, body)
        if self.at("ifnext"):
            # `if let Some(x) = it.next() { .. } else { .. }`
            p.eat(); x = p.eat("id"); L = p.eat("id")
            a = self.braced()
            p.eat("id", "else")
            b = self.braced()
            return ("ifnext", x, L, a, b)
        if self.at("letnext"):
            # `let x = it.next().unwrap();`
            p.eat(); x = p.eat("id"); L = p.eat("id"); p.eat("op", ";")
            return ("letnext", x, L)
        if self.at("forl"):
            # `for x in it { .. }` over the rest of an iterator held in a variable
            p.eat(); x = p.eat("id"); L = p.eat("id")
            body = self.braced()
            return ("forlist", x, L, body)
        if self.at("forzip"):
            # `for (x, w) in xs.iter().cloned().zip(ws.iter().cloned()) { .. }` (rewritten by the caller, shape pinned there)
            p.eat(); x = p.eat("id"); w = p.eat("id"); xs = p.eat("id"); ws = p.eat("id")
            body = self.braced()
            return ("forzip", x, w, xs, ws, body)
        if self.at("for") and p.peek(2) == ("id", "in") and p.peek(3)[0] == "id" and p.peek(4) == ("op", ".") and p.peek(5) == ("id", "iter"):
            # `for b in xs.iter().cloned() { .. }` over a row of BITSPLITS
            p.eat(); v = p.eat("id"); p.eat(); xs = p.eat("id")
            for t in (".", "iter", "(", ")", ".", "cloned", "(", ")"):
                p.eat(None, t)
            body = self.braced()
            return ("forlist", v, xs, body)
        if self.at("for"):
            p.eat()
            v = p.eat("id")
            p.eat("id", "in")
            lo = p.cast()
            p.eat("op", "."); p.eat("op", ".")
            hi = p.cast()
            body = self.braced()
            return ("for", v, lo, hi, body)
        if self.at("if") and p.peek(1) == ("id", "let"):
            p.eat(); p.eat()
            ctor = p.eat("id")
            p.eat("op", "(")
            if p.peek() == ("op", "&"):
                p.eat()
            v = p.eat("id"); p.eat("op", ")")
            p.eat("op", "=")
            if ctor == "Some":
                arr = p.eat("id"); p.eat("op", "."); m = p.eat("id"); p.eat("op", "(")
                if m not in ("get", "get_mut"):
                    raise TieError(f"if let Some(..) = {arr}.{m}")
                i = p.expr(); p.eat("op", ")")
                scrut = ("get", arr, i)
                if m == "get_mut":
                    p.aliases = dict(p.aliases); p.aliases[v] = (arr, i)
            elif ctor == "LookedUp::KeyFound":
                scrut = ("found", p.expr())
            else:
                raise TieError(f"if let {ctor}")
            a = self.braced()
            b = []
            if self.at("else"):
                p.eat("id", "else")
                b = self.braced()
            return ("iflet", v, scrut, a, b)
        if self.at("if"):
            arms = []
            els = None
            while True:
                p.eat("id", "if")
                c = p.expr()
                arms.append((c, self.braced()))
                if self.at("else"):
                    p.eat()
                    if self.at("if"):
                        continue
                    els = self.braced()
                break
            return ("if", arms, els)
        # assignment forms or a final expression
        k, v = p.peek()
        if k == "id" and p.peek(1) == ("idx", None):
            # a[i] = e;   (or an expression starting with an index)
            save = p.i
            p.eat(); p.eat("idx"); i = p.expr(); p.eat("idxend")
            if p.peek() == ("op", "=") and p.peek(1) != ("op", "="):
                p.eat()
                e = p.expr()
                p.eat("op", ";")
                return ("setidx", v, i, e)
            p.i = save
        if k == "id" and p.peek(1) == ("op", "=") and p.peek(2) != ("op", "="):
            p.eat(); p.eat()
            e = p.expr()
            p.eat("op", ";")
            return ("assign", v, e)
        if k == "id" and v == "self" and p.peek(1) == ("op", ".") and p.peek(3) == ("op", "=") and p.peek(4) != ("op", "="):
            p.eat(); p.eat(); f = p.eat("id"); p.eat()
            e = p.expr()
            p.eat("op", ";")
            return ("assign", f"self_{f}", e)
        if k == "id" and p.peek(1) == ("op", "-") and p.peek(2) == ("op", "="):
            p.eat(); p.eat(); p.eat()
            e = p.expr()
            p.eat("op", ";")
            return ("assign", v, f"({v} - {e})")
        if k == "id" and p.peek(1) == ("op", "+") and p.peek(2) == ("op", "="):
            p.eat(); p.eat(); p.eat()
            e = p.expr()
            p.eat("op", ";")
            return ("assign", v, f"({v} + {e})")
        e = p.expr()
        if p.peek() == ("op", ";"):
            p.eat()
        return ("expr", e)

def assigned(stmts):
    out = set()
    for s in stmts:
        if s[0] == "assign":
            out.add(s[1])
        elif s[0] == "setidx":
            out.add(s[1])
        elif s[0] == "swap":
            out.add(s[1]); out.add(s[3])
        elif s[0] == "if":
            for _, b in s[1]:
                out |= assigned(b)
            if s[2] is not None:
                out |= assigned(s[2])
        elif s[0] == "for":
            out |= assigned(s[4])
        elif s[0] == "forlist":
            out |= assigned(s[3])
        elif s[0] == "forzip":
            out |= assigned(s[5])
        elif s[0] == "whilelet":
            out |= assigned(s[4])
        elif s[0] == "whilelt":
            out |= assigned(s[3])
        elif s[0] == "whilenext":
            out.add(s[2]); out |= assigned(s[3])
        elif s[0] == "ifnext":
            out.add(s[2]); out |= assigned(s[3]) | assigned(s[4])
        elif s[0] == "letnext":
            out.add(s[2])
        elif s[0] == "iflet":
            out |= assigned(s[3]) | assigned(s[4])
        elif s[0] == "matchlf":
            for _, (_, b) in s[2].items():
                out |= assigned(b)
        elif s[0] == "callins" or s[0] == "callrm":
            out.add(s[3])
        elif s[0] == "while":
            out.add(s[2])
    return out

class Gen:
    def __init__(self, name, params, ret, pure=False, props=None):
        self.name, self.params, self.ret = name, params, ret       # params: [(name, leantype)]
        self.defs = []
        self.nloops = 0
        self.pure = pure          # a function of `&self`: `return e` is just the value (a `bool`)
        self.props = props or set()
        self.boolvars = set()
        self.W = 64
        self.szvar = None         # `&mut self` arms: the header's member count is returned with the answer
    def value(self, e):
        v = f"(decide {e})" if e in self.props else e
        if self.retstate and self.inwhile:
            return f"(Except.error ({v}, {self.retstate}))"
        if self.retstate:
            return f"({v}, {self.retstate})"
        if self.exc:
            return f"(Except.ok {v})"
        if self.pure:
            return v
        if self.szvar:
            return f"(Except.ok (({v}, {self.szvar}), a))"
        return f"(Except.ok ({e}, a))"
    boolexprs = set()
    vartypes = {}             # variables of other types (the script of an operator)
    exc = False               # a function that may panic (`unwrap`): values are wrapped in `Except.ok`
    listvars = set()          # iterators over a row of BITSPLITS held in variables
    inwhile = 0               # inside a `while` that may `return`: the loop function yields `Except.error value`
    retstate = None           # `&mut self` methods of a plain struct: the fields are returned with the value
    def diverges(self, s):
        """every branch of the `if` statement ends in return / panic"""
        def div(b):
            if not b:
                return False
            l = b[-1]
            if l[0] in ("return", "panic"):
                return True
            if l[0] == "if":
                return l[2] is not None and all(div(x) for _, x in l[1]) and div(l[2])
            return False
        return s[2] is not None and all(div(b) for _, b in s[1]) and div(s[2])
    def cond(self, c):
        return f"({c} = true)" if (c in self.boolvars or c in self.boolexprs) else c
    joins = False
    def ty(self, x):
        if x in self.boolvars or x in self.boolexprs:
            return "Bool"
        if x in self.vartypes:
            return self.vartypes[x]
        return dict(self.params).get(x, "List Nat" if (x == "bitsplits" or x in self.listvars) else "Nat")
    def comp(self, stmts, scope, tail):
        """Lean term for the statement list; `tail`: term used when control falls off the end (None: must not)"""
        scope = list(dict.fromkeys(scope))        # a shadowing `let` keeps one entry
        if not stmts:
            if tail is None:
                raise TieError(f"{self.name}: control falls off the end of a block that must return")
            return tail
        s, rest = stmts[0], stmts[1:]
        k = s[0]
        if k == "let":
            if s[2] in self.props:
                self.boolvars.add(s[1])
                return f"(let {s[1]} := decide {s[2]}; {self.comp(rest, scope + [s[1]], tail)})"
            return f"(let {s[1]} := {s[2]}; {self.comp(rest, scope + [s[1]], tail)})"
        if k == "while":
            _, c, x, e = s
            # an unbounded `while`: at most `len + W + 3` iterations are ever needed (`placeholder_scan_terminates`)
            return (f"(let {x} := RI.whileN (Array.size a + {self.W} + 3) (fun {x} => decide {c}) (fun {x} => {e}) {x}; "
                    f"{self.comp(rest, scope, tail)})")
        if k == "callins":
            _, x, key, arr, off = s
            return (f"(match p_insert_{self.suffix} {key} {arr} {off} with | Except.error err => Except.error err "
                    f"| Except.ok ({x}, {arr}) => {self.comp(rest, scope + [x], tail)})")
        if k == "matchlf":
            _, scrut, arms = s
            fv, fb = arms["LookedUp::KeyFound"]
            ev, eb = arms["LookedUp::EmptySpot"]
            _, nb = arms["LookedUp::NeedInsert"]
            return (f"(match {scrut} with | Except.error err => Except.error err "
                    f"| Except.ok (Looked.found {fv}, _) => {self.comp(fb + rest, scope + ([fv] if fv != '_' else []), tail)} "
                    f"| Except.ok (Looked.empty {ev}, _) => {self.comp(eb + rest, scope + ([ev] if ev != '_' else []), tail)} "
                    f"| Except.ok (Looked.needInsert, _) => {self.comp(nb + rest, scope, tail)})")
        if k == "callrm":
            _, x, key, arr, off = s
            if x != "_":
                self.boolvars.add(x)
            return (f"(match p_remove_{self.suffix} {key} {arr} {off} with | Except.error err => Except.error err "
                    f"| Except.ok ({x}, {arr}) => {self.comp(rest, scope + ([x] if x != '_' else []), tail)})")
        if k == "assign":
            return f"(let {s[1]} := {s[2]}; {self.comp(rest, scope, tail)})"
        if k == "setidx":
            return f"(let {s[1]} := RI.set {s[1]} {s[2]} {s[3]}; {self.comp(rest, scope, tail)})"
        if k == "swap":
            return f"(let swap_tmp := RI.idx {s[1]} {s[2]}; let {s[1]} := RI.set {s[1]} {s[2]} {s[3]}; let {s[3]} := swap_tmp; {self.comp(rest, scope, tail)})"
        if k == "return":
            return self.value(s[1])
        if k == "expr":
            if rest:
                raise TieError(f"{self.name}: expression statement in the middle of a block")
            return self.value(s[1])
        if k == "let2":
            return f"(let {s[1]} := ({s[3]}).1; let {s[2]} := ({s[3]}).2; {self.comp(rest, scope + [s[1], s[2]], tail)})"
        if k == "iflet":
            _, v, scrut, a, b = s
            if scrut[0] == "get":
                return (f"(if {scrut[2]} < Array.size {scrut[1]} then (let {v} := RI.idx {scrut[1]} {scrut[2]}; "
                        f"{self.comp(a + rest, scope + [v], tail)}) else {self.comp(b + rest, scope, tail)})")
            return (f"(match RI.foundIdx {scrut[1]} with | some {v} => {self.comp(a + rest, scope + [v], tail)} "
                    f"| none => {self.comp(b + rest, scope, tail)})")
        if k == "panic":
            return f'(Except.error "{s[1]}")'
        if k == "if" and self.joins and rest and tail is None and not self.diverges(s):
            # the statements after the `if` become a function of the variables in scope (a join point)
            self.nloops += 1
            jname = f"{self.name}_join{self.nloops}"
            jt = self.comp(rest, scope, None)
            sig = " ".join(f"({x} : {self.ty(x)})" for x in scope)
            self.defs.append(f"def {jname} {sig} : {self.ret} := {jt}")
            call = f"({jname} {' '.join(scope)})"
            arms, els = s[1], s[2]
            t = self.comp(els, scope, call) if els else call
            for c, b in reversed(arms):
                t = f"(if {self.cond(c)} then {self.comp(b, scope, call)} else {t})"
            return t
        if k == "if":
            arms, els = s[1], s[2]
            t = self.comp((els or []) + rest, scope, tail)
            for c, b in reversed(arms):
                t = f"(if {self.cond(c)} then {self.comp(b + rest, scope, tail)} else {t})"
            return t
        if k == "forlist":
            _, v, xs, body = s
            self.nloops += 1
            idx = self.nloops
            fname = f"{self.name}_loop{idx}"
            restv = f"rest{idx}"
            muts = [x for x in scope if x in assigned(body)]
            after = self.comp(rest, scope, tail)
            # the iterated list itself stays a parameter only when what follows the loop still mentions it
            immut = [x for x in scope if x not in muts and (x != xs or re.search(r'\b%s\b' % re.escape(xs), after))]
            cont = f"({fname} {' '.join(immut)} {restv} {' '.join(muts)})".replace("  ", " ")
            bodyt = self.comp(body, scope + [restv, v], cont)
            sig = " ".join(f"({x} : {self.ty(x)})" for x in immut)
            mty = " → ".join(self.ty(x) for x in muts)
            arrow = f"List Nat → {mty + ' → ' if muts else ''}{self.ret}"
            pats0 = ", ".join(["[]"] + muts)
            pats1 = ", ".join([f"{v} :: {restv}"] + muts)
            self.defs.append(f"def {fname} {sig} : {arrow}\n  | {pats0} => {after}\n  | {pats1} => {bodyt}")
            return f"({fname} {' '.join(immut)} {xs} {' '.join(muts)})".replace("  ", " ")
        if k == "ifnext":
            _, x, L, a, b = s
            return (f"(match {L} with | {x} :: {L} => {self.comp(a + rest, scope + [x], tail)} "
                    f"| [] => {self.comp(b + rest, scope, tail)})")
        if k == "letnext":
            _, x, L = s
            return f'(match {L} with | {x} :: {L} => {self.comp(rest, scope + [x], tail)} | [] => (Except.error "unwrap"))'
        if k == "whilenext":
            _, x, L, body = s
            self.nloops += 1
            idx = self.nloops
            fname = f"{self.name}_loop{idx}"
            muts = [y for y in scope if y in assigned(body) and y != L]
            immut = [y for y in scope if y not in muts and y != L]
            after = self.comp(rest, scope, tail)
            cont = f"({fname} {' '.join(immut)} {L} {' '.join(muts)})".replace("  ", " ")
            bodyt = self.comp(body, scope + [x], cont)
            sig = " ".join(f"({y} : {self.ty(y)})" for y in immut)
            mty = " → ".join(self.ty(y) for y in muts)
            ms = "".join(", " + y for y in muts)
            self.defs.append(f"def {fname} {sig} : List Nat → {mty + ' → ' if muts else ''}{self.ret}\n"
                             f"  | []{ms} => (let {L} : List Nat := []; {after})\n  | {x} :: {L}{ms} => {bodyt}")
            return f"({fname} {' '.join(immut)} {L} {' '.join(muts)})".replace("  ", " ")
        if k == "whilelt":
            _, X, Y, body = s
            self.nloops += 1
            idx = self.nloops
            fname = f"{self.name}_loop{idx}"
            fuel = f"fuel{idx}"
            muts = [y for y in scope if y in assigned(body)]
            immut = [y for y in scope if y not in muts]
            mt = "(" + ", ".join(muts) + ")"
            mtty = " × ".join(self.ty(y) for y in muts)
            cont = f"({fname} {' '.join(immut)} {fuel} {' '.join(muts)})".replace("  ", " ")
            self.inwhile += 1
            bodyt = self.comp(body, scope + [fuel], cont)
            self.inwhile -= 1
            sig = " ".join(f"({y} : {self.ty(y)})" for y in immut)
            mty = " → ".join(self.ty(y) for y in muts)
            ms = ", ".join(muts)
            self.defs.append(f"def {fname} {sig} : Nat → {mty} → Except ({self.ret}) ({mtty})\n  | 0, {ms} => Except.ok {mt}\n"
                             f"  | {fuel} + 1, {ms} => (if {X} < {Y} then {bodyt} else Except.ok {mt})")
            restt = self.comp(rest, scope, tail)
            err = "Except.error r" if self.inwhile else "r"
            return (f"(match {fname} {' '.join(immut)} ({Y} - {X}) {' '.join(muts)} with | Except.error r => {err} "
                    f"| Except.ok {mt} => {restt})").replace("  ", " ")
        if k == "whilelet":
            _, x, arr, i, body = s
            self.nloops += 1
            idx = self.nloops
            fname = f"{self.name}_loop{idx}"
            fuel = f"fuel{idx}"
            muts = [y for y in scope if y in assigned(body)]
            immut = [y for y in scope if y not in muts]
            after = self.comp(rest, scope, tail)
            cont = f"({fname} {' '.join(immut)} {fuel} {' '.join(muts)})".replace("  ", " ")
            bodyt = self.comp(body, scope + [fuel, x], cont)
            sig = " ".join(f"({y} : {self.ty(y)})" for y in immut)
            mty = " → ".join(self.ty(y) for y in muts)
            arrow = f"Nat → {mty + ' → ' if muts else ''}{self.ret}"
            ms = ", ".join(muts)
            self.defs.append(f"def {fname} {sig} : {arrow}\n  | 0, {ms} => {after}\n  | {fuel} + 1, {ms} => "
                             f"(if {i} < Array.size {arr} then (let {x} := RI.idx {arr} {i}; {bodyt}) else {after})")
            return f"({fname} {' '.join(immut)} ((Array.size {arr} - {i}) + 1) {' '.join(muts)})".replace("  ", " ")
        if k == "forzip":
            _, x, w, xs, ws, body = s
            self.nloops += 1
            idx = self.nloops
            fname = f"{self.name}_loop{idx}"
            rx, rw = f"restx{idx}", f"restw{idx}"
            muts = [y for y in scope if y in assigned(body)]
            immut = [y for y in scope if y not in muts and y not in (xs, ws)]
            after = self.comp(rest, [y for y in scope if y not in (xs, ws)], tail)
            cont = f"({fname} {' '.join(immut)} {rx} {rw} {' '.join(muts)})".replace("  ", " ")
            bodyt = self.comp(body, [y for y in scope if y not in (xs, ws)] + [rx, rw, x, w], cont)
            sig = " ".join(f"({y} : {self.ty(y)})" for y in immut)
            mty = " → ".join(self.ty(y) for y in muts)
            arrow = f"List Nat → List Nat → {mty + ' → ' if muts else ''}{self.ret}"
            ms = ", ".join(muts)
            self.defs.append(f"def {fname} {sig} : {arrow}\n  | [], _, {ms} => {after}\n  | _ :: _, [], {ms} => {after}\n"
                             f"  | {x} :: {rx}, {w} :: {rw}, {ms} => {bodyt}")
            return f"({fname} {' '.join(immut)} {xs} {ws} {' '.join(muts)})".replace("  ", " ")
        if k == "for":
            _, v, lo, hi, body = s
            self.nloops += 1
            idx = self.nloops
            fname = f"{self.name}_loop{idx}"
            fuel = f"fuel{idx}"
            muts = [x for x in scope if x in assigned(body)]
            immut = [x for x in scope if x not in muts]
            # what follows the loop runs when the loop variable reaches `hi`
            after = self.comp(rest, scope, tail)
            cont = f"({fname} {' '.join(immut)} {fuel} ({v} + 1) {' '.join(muts)})".replace("  ", " ")
            bodyt = self.comp(body, scope + [fuel, v], cont)
            sig = " ".join(f"({x} : {self.ty(x)})" for x in immut)
            mty = " → ".join(self.ty(x) for x in muts)
            arrow = f"Nat → Nat → {mty + ' → ' if muts else ''}{self.ret}"
            pats0 = ", ".join(["0", v] + muts)
            pats1 = ", ".join([f"{fuel} + 1", v] + muts)
            self.defs.append(f"def {fname} {sig} : {arrow}\n  | {pats0} => {after}\n  | {pats1} => {bodyt}")
            return f"({fname} {' '.join(immut)} ({hi} - {lo}) {lo} {' '.join(muts)})".replace("  ", " ")
        raise TieError(f"{self.name}: statement {k}")

def gen_fn(src, W, suffix, fn, sig_re, params, ret):
    m = re.search(sig_re, src)
    if not m:
        raise TieError(f"cannot find {fn} ({suffix})")
    body = body_of(src, m.end() - 1)[0]
    sp = SP(lex(body), W, suffix)
    stmts = sp.block()
    if sp.p.peek()[0] != "eof":
        raise TieError(f"{fn}: trailing tokens {sp.p.peek()}")
    g = Gen(f"{fn}_{suffix}", params, ret)
    top = g.comp(stmts, [x for x, _ in params], None)
    sig = " ".join(f"({x} : {t})" for x, t in params)
    return g.defs + [f"def {fn}_{suffix} {sig} : {ret} := {top}"]

def gen_contains(src, W, suffix):
    ty = "u64" if W == 64 else "u32"
    m = re.search(r'\n    pub fn contains\(&self, e: %s\) -> bool \{' % ty, src)
    if not m:
        raise TieError(f"cannot find contains ({suffix})")
    body = body_of(src, m.end() - 1)[0]
    if not re.search(r'match self\.internal\(\) \{\s*Internal::Empty => false,\s*Internal::Stack\(t\) => t\.contains\(e\),', body):
        raise TieError(f"contains ({suffix}): shape of the Empty / Stack arms")
    out = []
    for arm, pat, params in (("dense", r'Internal::Dense \{ a, \.\. \} => \{', [("e", "Nat"), ("a", "Array Nat")]),
                             ("heap", r'Internal::Heap \{ s, a \} => \{', [("e", "Nat"), ("s_bits", "Nat"), ("a", "Array Nat")]),
                             ("big", r'Internal::Big \{ s, a \} => \{', [("e", "Nat"), ("s_bits", "Nat"), ("a", "Array Nat")])):
        mm = re.search(pat, body)
        if not mm:
            raise TieError(f"contains ({suffix}): {arm} arm")
        ab = body_of(body, mm.end() - 1)[0]
        sp = SP(lex(ab), W, suffix)
        stmts = sp.block()
        if sp.p.peek()[0] != "eof":
            raise TieError(f"contains {arm}: trailing tokens {sp.p.peek()}")
        g = Gen(f"contains_{arm}_{suffix}", params, "Bool", pure=True, props=sp.p.props)
        top = g.comp(stmts, [x for x, _ in params], None)
        sig = " ".join(f"({x} : {t})" for x, t in params)
        out.append(f"def contains_{arm}_{suffix} {sig} : Bool := {top}")
    return out

def gen_remove(src, W, suffix):
    ty = "u64" if W == 64 else "u32"
    m = re.search(r'\n    pub fn remove\(&mut self, e: %s\) -> bool \{' % ty, src)
    if not m:
        raise TieError(f"cannot find remove ({suffix})")
    body = body_of(src, m.end() - 1)[0]
    if not re.search(r'match self\.internal_mut\(\) \{\s*InternalMut::Empty => false,\s*InternalMut::Stack\(t\) => \{', body):
        raise TieError(f"remove ({suffix}): shape of the Empty / Stack arms")
    out = []
    for arm, pat, params, szvar in (
            ("dense", r'InternalMut::Dense \{ sz, a \} => \{', [("e", "Nat"), ("sz", "Nat"), ("a", "Array Nat")], "sz"),
            ("heap", r'InternalMut::Heap \{ s, a \} => \{', [("e", "Nat"), ("s_sz", "Nat"), ("s_bits", "Nat"), ("a", "Array Nat")], "s_sz"),
            ("big", r'InternalMut::Big \{ s, a \} => \{', [("e", "Nat"), ("s_sz", "Nat"), ("s_bits", "Nat"), ("a", "Array Nat")], "s_sz")):
        mm = re.search(pat, body)
        if not mm:
            raise TieError(f"remove ({suffix}): {arm} arm")
        ab = body_of(body, mm.end() - 1)[0]
        sp = SP(lex(ab), W, suffix)
        sp.p.aliases = {}
        stmts = sp.block()
        if sp.p.peek()[0] != "eof":
            raise TieError(f"remove {arm}: trailing tokens {sp.p.peek()}")
        g = Gen(f"remove_{arm}_{suffix}", params, "Except String ((Bool × Nat) × Array Nat)", props=sp.p.props)
        g.szvar = szvar
        g.suffix = suffix
        top = g.comp(stmts, [x for x, _ in params], None)
        sig = " ".join(f"({x} : {t})" for x, t in params)
        out.append(f"def remove_{arm}_{suffix} {sig} : Except String ((Bool × Nat) × Array Nat) := {top}")
    return out

def block_after(text, start):
    """(block body, index after its closing brace) of the `{`-block that starts at or after `start`"""
    b, j = body_of(text, start)
    return b, j + 1

def gen_insert_fast(src, W, suffix):
    """the arms of `insert` up to the point where the set has to grow: the growing parts are replaced by `panic!()`
    (an `.error`): whenever the translated arm returns `.ok`, no growth happened"""
    ty = "u64" if W == 64 else "u32"
    m = re.search(r'\n    pub fn insert\(&mut self, e: %s\) -> bool \{' % ty, src)
    if not m:
        raise TieError(f"cannot find insert ({suffix})")
    body = body_of(src, m.end() - 1)[0]
    out = []
    # Dense arm: `if let Some(bits) = a.get_mut(key) { in place } else { grow / convert }`
    mm = re.search(r'InternalMut::Dense \{ sz, a \} => \{', body)
    if not mm:
        raise TieError(f"insert ({suffix}): dense arm")
    ab = body_of(body, mm.end() - 1)[0]
    k = re.search(r'if let Some\(bits\) = a\.get_mut\(key\) \{', ab)
    if not k:
        raise TieError(f"insert ({suffix}): dense arm shape")
    then_b, after = block_after(ab, k.end() - 1)
    if not re.match(r'\s*else \{', ab[after:]):
        raise TieError(f"insert ({suffix}): dense arm else")
    dense = ab[:after] + " else { panic!() }"
    # Heap arm: the narrowing rebuild and everything after the room test are growth
    mm = re.search(r'InternalMut::Heap \{ s, a \} => \{', body)
    if not mm:
        raise TieError(f"insert ({suffix}): heap arm")
    ab = body_of(body, mm.end() - 1)[0]
    k = re.search(r'if compute_array_bits\(e\) < s\.bits \{', ab)
    if not k:
        raise TieError(f"insert ({suffix}): heap arm narrowing test")
    _, after = block_after(ab, k.end() - 1)
    ab = ab[:k.end()] + " panic!() }" + ab[after:]
    if W == 64:
        room = re.search(r'if a\.iter\(\)\.cloned\(\)\.any\(\|x\| x == 0\) \{', ab)
        pseudo = "if anyzero(a) {"
    else:
        room = re.search(r'if a\.iter\(\)\s*\.cloned\(\)\s*\.filter\(\|&x\| x == 0\)[^\n]*\s*\.enumerate\(\)[^\n]*\s*\.any\(\|\(n, _\)\| n \+ 1 > a\.len\(\) >> 4\)\s*(?://[^\n]*\s*)?\{', ab)
        pseudo = "if room16(a) {"
    if not room:
        raise TieError(f"insert ({suffix}): heap arm room test")
    _, after = block_after(ab, room.end() - 1)
    heap = ab[:room.start()] + pseudo + ab[room.end():after] + " panic!()"
    # Big arm: the placeholder re-selection (`e == s.bits`) and the growth after the room test are not translated
    mm = re.search(r'InternalMut::Big \{ s, a \} => \{', body)
    if not mm:
        raise TieError(f"insert ({suffix}): big arm")
    ab = body_of(body, mm.end() - 1)[0]
    k = re.match(r'\s*if e == s\.bits \{', ab)
    if not k:
        raise TieError(f"insert ({suffix}): big arm placeholder test")
    _, after = block_after(ab, k.end() - 1)
    ab = ab[:k.end()] + " panic!() }" + ab[after:]
    ab = re.sub(r'a\[p_insert\(e, a, 0\)\] = e;', 'let idx = p_insert(e, a, 0); a[idx] = e;', ab)
    if W == 64:
        room = re.search(r'if a\.iter\(\)\.cloned\(\)\.any\(\|x\| x == 0\) \{', ab)
    else:
        room = re.search(r'if a\.iter\(\)\s*\.cloned\(\)\s*\.filter\(\|&x\| x == 0\)[^\n]*\s*\.enumerate\(\)[^\n]*\s*\.any\(\|\(n, _\)\| n \+ 1 > a\.len\(\) >> 4\)\s*(?://[^\n]*\s*)?\{', ab)
    if not room:
        raise TieError(f"insert ({suffix}): big arm room test")
    _, after = block_after(ab, room.end() - 1)
    big = ab[:room.start()] + pseudo + ab[room.end():after] + " panic!()"
    # the same arm WITH the placeholder re-selection; the generator's draw is a parameter
    mm = re.search(r'InternalMut::Big \{ s, a \} => \{', body)
    abf = body_of(body, mm.end() - 1)[0]
    abf, n1 = re.subn(r'crate::rand::rand(?:64|32)\(s\.cap, s\.bits\)', 'draw', abf, count=1)
    abf, n2 = re.subn(r'a\.iter\(\)\.any\(\|&v\| v == i\)', 'hasword(a, i)', abf, count=1)
    abf, n3 = re.subn(r'i\.wrapping_add\(1\)', 'i.wrapping_add1()', abf, count=1)
    abf, n4 = re.subn(r'a\[p_insert\(s\.bits, a, 0\)\] = s\.bits;', 'let idx0 = p_insert(s.bits, a, 0); a[idx0] = s.bits;', abf, count=1)
    abf = re.sub(r'a\[p_insert\(e, a, 0\)\] = e;', 'let idx = p_insert(e, a, 0); a[idx] = e;', abf)
    if (n1, n2, n3, n4) != (1, 1, 1, 1):
        raise TieError(f"insert ({suffix}): big arm, placeholder re-selection shape {(n1, n2, n3, n4)}")
    if W == 64:
        room = re.search(r'if a\.iter\(\)\.cloned\(\)\.any\(\|x\| x == 0\) \{', abf)
    else:
        room = re.search(r'if a\.iter\(\)\s*\.cloned\(\)\s*\.filter\(\|&x\| x == 0\)[^\n]*\s*\.enumerate\(\)[^\n]*\s*\.any\(\|\(n, _\)\| n \+ 1 > a\.len\(\) >> 4\)\s*(?://[^\n]*\s*)?\{', abf)
    if not room:
        raise TieError(f"insert ({suffix}): big arm room test")
    _, after = block_after(abf, room.end() - 1)
    bigfull = abf[:room.start()] + pseudo + abf[room.end():after] + " panic!()"
    sp = SP(lex(bigfull), W, suffix)
    sp.p.aliases = {}
    stmts = sp.block()
    if sp.p.peek()[0] != "eof":
        raise TieError(f"insert bigfull: trailing tokens {sp.p.peek()}")
    params = [("e", "Nat"), ("s_sz", "Nat"), ("s_bits", "Nat"), ("a", "Array Nat"), ("draw", "Nat")]
    g = Gen(f"insert_bigfull_{suffix}", params, "Except String ((Bool × Nat × Nat) × Array Nat)", props=sp.p.props)
    g.szvar = "s_sz, s_bits"
    g.suffix = suffix
    g.W = W
    g.boolexprs = sp.p.boolexprs
    g.joins = True
    top = g.comp(stmts, [x for x, _ in params], None)
    sig = " ".join(f"({x} : {t})" for x, t in params)
    out += g.defs
    out.append(f"def insert_bigfull_{suffix} {sig} : Except String ((Bool × Nat × Nat) × Array Nat) := {top}")
    for arm, text, params, szvar in (("dense", dense, [("e", "Nat"), ("sz", "Nat"), ("a", "Array Nat")], "sz"),
                                     ("heap", heap, [("e", "Nat"), ("s_sz", "Nat"), ("s_bits", "Nat"), ("a", "Array Nat")], "s_sz"),
                                     ("big", big, [("e", "Nat"), ("s_sz", "Nat"), ("s_bits", "Nat"), ("a", "Array Nat")], "s_sz")):
        sp = SP(lex(text), W, suffix)
        sp.p.aliases = {}
        stmts = sp.block()
        if sp.p.peek()[0] != "eof":
            raise TieError(f"insert {arm}: trailing tokens {sp.p.peek()}")
        ret = "Except String ((Bool × Nat × Nat) × Array Nat)" if arm == "big" else "Except String ((Bool × Nat) × Array Nat)"
        g = Gen(f"insert_{arm}_{suffix}", params, ret, props=sp.p.props)
        g.szvar = "s_sz, s_bits" if arm == "big" else szvar
        g.suffix = suffix
        g.W = W
        g.boolexprs = sp.p.boolexprs
        g.joins = (arm == "big")
        top = g.comp(stmts, [x for x, _ in params], None)
        sig = " ".join(f"({x} : {t})" for x, t in params)
        out += g.defs
        out.append(f"def insert_{arm}_{suffix} {sig} : {ret} := {top}")
    return out

def gen_tiny_contains(src, W, suffix):
    ty = "u64" if W == 64 else "u32"
    out = []
    m = re.search(r'\nfn mask\(bits: usize\) -> %s \{' % ty, src)
    if not m:
        raise TieError(f"cannot find mask ({suffix})")
    mp = LP(lex(body_of(src, m.end() - 1)[0]), W, set(), suffix)
    out.append(f"def mask_{suffix} (bits : Nat) : Nat := {mp.expr()}")
    m = re.search(r'\n    fn contains\(mut self, e: %s\) -> bool \{' % ty, src)
    if not m:
        raise TieError(f"cannot find Tiny::contains ({suffix})")
    sp = SP(lex(body_of(src, m.end() - 1)[0]), W, suffix)
    sp.p.fnames = set()
    stmts = sp.block()
    if sp.p.peek()[0] != "eof":
        raise TieError(f"Tiny::contains: trailing tokens {sp.p.peek()}")
    params = [("self_sz", "Nat"), ("self_bits", "Nat"), ("e", "Nat")]
    g = Gen(f"tiny_contains_{suffix}", params, "Bool", pure=True, props=sp.p.props)
    top = g.comp(stmts, [x for x, _ in params], None)
    out += g.defs
    out.append(f"def tiny_contains_{suffix} (self_sz : Nat) (self_bits : Nat) (e : Nat) : Bool := {top}")
    return out

def gen_tiny_new(src, W, suffix):
    """`Tiny::new_sorted_deduped(v: &[u64])` / `Tiny::new(mut v: Vec<u32>)`: the constructor of the inline word"""
    if W == 64:
        m = re.search(r'\n    fn new_sorted_deduped\(v: &\[u64\]\) -> Option<Self> \{', src)
        zipre = r'for \(x, nbits\) in v\.iter\(\)\.cloned\(\)\.zip\(bitsplits\.iter\(\)\.cloned\(\)\) \{'
    else:
        m = re.search(r'\n    fn new\(mut v: Vec<u32>\) -> Option<Self> \{', src)
        zipre = r'for \(x, nbits\) in v\.into_iter\(\)\.zip\(bitsplits\.iter\(\)\.cloned\(\)\) \{'
    if not m:
        raise TieError(f"cannot find the inline constructor ({suffix})")
    body = body_of(src, m.end() - 1)[0]
    body, n1 = re.subn(zipre, 'forzip x nbits v bitsplits {', body, count=1)
    body, n2 = re.subn(r'Some\(Tiny \{\s*sz,\s*bits,\s*sz_spent: 0,\s*last: 0,\s*\}\)', 'mk_tiny(sz, bits)', body, count=1)
    n3 = 1
    if W == 32:
        body, n3 = re.subn(r'v\.sort\(\);\s*v\.dedup\(\);', 'v = sortdedup(v);', body, count=1)
    if (n1, n2, n3) != (1, 1, 1) or "Tiny {" in body:
        raise TieError(f"inline constructor ({suffix}): shape {(n1, n2, n3)}")
    sp = SP(lex(body), W, suffix)
    sp.p.fnames = {"log_2"}
    sp.p.lists = {"v", "bitsplits"}
    stmts = sp.block()
    if sp.p.peek()[0] != "eof":
        raise TieError(f"inline constructor: trailing tokens {sp.p.peek()}")
    params = [("v", "List Nat")] + ([("sd", "List Nat → List Nat")] if W == 32 else [])
    g = Gen(f"tiny_new_{suffix}", params, "Option (Nat × Nat)", pure=True, props=sp.p.props)
    top = g.comp(stmts, [x for x, _ in params], None)
    sig = " ".join(f"({x} : {t})" for x, t in params)
    return g.defs + [f"def tiny_new_{suffix} {sig} : Option (Nat × Nat) := {top}"]

def gen_tiny_singleton(src, W, suffix):
    """`Tiny::from_singleton`: the inline word of a one-element set"""
    ty = "u64" if W == 64 else "u32"
    m = re.search(r'\n    fn from_singleton\(x: %s\) -> Option<Self> \{' % ty, src)
    if not m:
        raise TieError(f"cannot find Tiny::from_singleton ({suffix})")
    body = body_of(src, m.end() - 1)[0]
    body, n1 = re.subn(r'Some\(Tiny \{\s*sz: 1,\s*bits: x as usize,\s*sz_spent: 0,\s*last: 0,\s*\}\)', 'mk_tiny(1, x as usize)', body, count=1)
    body, n2 = re.subn(r'BITSPLITS\[1\]\[0\]', 'bs10', body, count=1)
    if (n1, n2) != (1, 1) or "Tiny {" in body:
        raise TieError(f"Tiny::from_singleton ({suffix}): shape {(n1, n2)}")
    lp = LP(lex(body), W, {"log_2"}, suffix)
    t = lp.expr()
    if lp.peek()[0] != "eof":
        raise TieError(f"Tiny::from_singleton: trailing tokens {lp.peek()}")
    t = t.replace("bs10", f"(List.getD (List.getD bitsplits{suffix} 1 []) 0 0)")
    return [f"def tiny_from_singleton_{suffix} (x : Nat) : Option (Nat × Nat) := {t}"]

def gen_tiny_next(src, W, suffix):
    """`<Tiny as Iterator>::next`: the iterator over an inline word that `insert` (conversion to a table), `remove`,
    `max` and the operators use"""
    ty = "u64" if W == 64 else "u32"
    m = re.search(r'impl Iterator for Tiny \{\s*type Item = %s;\s*fn next\(&mut self\) -> Option<%s> \{' % (ty, ty), src)
    if not m:
        raise TieError(f"cannot find <Tiny as Iterator>::next ({suffix})")
    body = body_of(src, m.end() - 1)[0]
    sp = SP(lex(body), W, suffix)
    sp.p.fnames = set()
    sp.p.lists = {"bitsplits"}
    stmts = sp.block()
    if sp.p.peek()[0] != "eof":
        raise TieError(f"Tiny::next: trailing tokens {sp.p.peek()}")
    params = [("self_sz", "Nat"), ("self_sz_spent", "Nat"), ("self_bits", "Nat"), ("self_last", "Nat")]
    ret = "Option Nat × Nat × Nat × Nat"
    g = Gen(f"tiny_next_{suffix}", params, ret, pure=True, props=sp.p.props)
    g.retstate = "self_sz_spent, self_bits, self_last"
    top = g.comp(stmts, [x for x, _ in params], None)
    sig = " ".join(f"({x} : {t})" for x, t in params)
    drain = (f"/-- `Iterator::any` / `for x in t` on the inline word: `next` until it answers `None` -/\n"
             f"def tiny_drain_{suffix} (sz : Nat) : Nat → Nat → Nat → Nat → List Nat\n  | 0, _, _, _ => []\n"
             f"  | f + 1, spent, bits, last =>\n    match tiny_next_{suffix} sz spent bits last with\n    | (none, _, _, _) => []\n"
             f"    | (some x, spent', bits', last') => x :: tiny_drain_{suffix} sz f spent' bits' last'")
    anyd = f"def tiny_any_{suffix} (sz bits e : Nat) : Bool := (tiny_drain_{suffix} sz (sz + 1) 0 bits 0).contains e"
    return g.defs + [f"def tiny_next_{suffix} {sig} : {ret} := {top}", drain, anyd]

def gen_tiny_insert(src, W, suffix):
    """`Tiny::insert`: re-packing the inline word with one more member (or reporting that it is there / does not fit)"""
    ty = "u64" if W == 64 else "u32"
    m = re.search(r'\n    fn insert\(mut self, e: %s\) -> Option<Self> \{' % ty, src)
    if not m:
        raise TieError(f"cannot find Tiny::insert ({suffix})")
    body = body_of(src, m.end() - 1)[0]
    subs = [
        (r'if let Some\(new_bitsplits\) = BITSPLITS\.get\(self\.sz as usize \+ 1\) \{',
         'if self.sz as usize + 1 < BITSPLITS.len() { let new_bitsplits = BITSPLITS[self.sz as usize + 1];', 1),
        (r'let mut new = Tiny \{\s*bits: 0,\s*sz: self\.sz \+ 1,\s*last: 0,\s*sz_spent: 0,\s*\};', 'let mut new_bits = 0; let new_sz = self.sz + 1;', 1),
        (r'let backup = self\.clone\(\);', 'let backup_bits = self.bits;', 1),
        (r'let mut old_iter = old_bitsplits\.iter\(\)\.cloned\(\);', 'let mut old_iter = old_bitsplits;', 1),
        (r'let mut new_iter = new_bitsplits\.iter\(\)\.cloned\(\);', 'let mut new_iter = new_bitsplits;', 1),
        (r'while let Some\(newb\) = new_iter\.next\(\) \{', 'whilenext newb new_iter {', 1),
        (r'if let Some\(oldb\) = old_iter\.next\(\) \{', 'ifnext oldb old_iter {', 1),
        (r'for oldb in old_iter \{', 'forl oldb old_iter {', 1),
        (r'for newb in new_iter \{', 'forl newb new_iter {', 1),
        (r'let newb = new_iter\.next\(\)\.unwrap\(\);', 'letnext newb new_iter;', 1),
        (r'let oldb = old_iter\.next\(\)\.unwrap\(\);', 'letnext oldb old_iter;', 1),
        (r'Some\(backup\)', 'mk_tiny(self.sz, backup_bits)', 2),
        (r'Some\(new\)', 'mk_tiny(new_sz, new.bits)', 2),
        (r'Some\(self\)', 'mk_tiny(self.sz, self.bits)', 1),
        (r'self\.clone\(\)\.any\(\|x\| x == e as %s\)' % ty, 'tinyany(e)', 1),
    ]
    for pat, rep, cnt in subs:
        body, n = re.subn(pat, rep, body)
        if n != cnt:
            raise TieError(f"Tiny::insert ({suffix}): shape: {pat} found {n} times, expected {cnt}")
    if "Tiny {" in body or ".next()" in body or ".clone()" in body:
        raise TieError(f"Tiny::insert ({suffix}): shape")
    sp = SP(lex(body), W, suffix)
    sp.p.fnames = {"log_2"}
    sp.p.lists = {"old_bitsplits", "new_bitsplits"}
    stmts = sp.block()
    if sp.p.peek()[0] != "eof":
        raise TieError(f"Tiny::insert: trailing tokens {sp.p.peek()}")
    params = [("self_sz", "Nat"), ("self_bits", "Nat"), ("e", "Nat")]
    ret = "Except String (Option (Nat × Nat))"
    g = Gen(f"tiny_insert_{suffix}", params, ret, pure=True, props=sp.p.props)
    g.exc = True
    g.boolexprs = sp.p.boolexprs
    g.listvars = {"old_bitsplits", "new_bitsplits", "old_iter", "new_iter"}
    top = g.comp(stmts, [x for x, _ in params], None)
    sig = " ".join(f"({x} : {t})" for x, t in params)
    return g.defs + [f"def tiny_insert_{suffix} {sig} : {ret} := {top}"]

def gen_insert_inline(src, W, suffix):
    """the `Empty` and `Stack` arms of `insert` up to the point where the set has to leave the word: the glue around
    `Tiny::from_singleton` / `Tiny::insert` / `to_usize` (shape pinned; the new tagged word and the answer are read off it)"""
    ty = "u64" if W == 64 else "u32"
    st = "SetU64" if W == 64 else "SetU32"
    m = re.search(r'\n    pub fn insert\(&mut self, e: %s\) -> bool \{' % ty, src)
    if not m:
        raise TieError(f"cannot find insert ({suffix})")
    body = body_of(src, m.end() - 1)[0]
    e1 = re.search(r'InternalMut::Empty => \{\s*if let Some\(t\) = Tiny::from_singleton\(e\) \{\s*\*self = %s\(t\.to_usize\(\) as \*mut S\);\s*return true;\s*\}' % st, body)
    s1 = re.search(r'InternalMut::Stack\(t\) => \{\s*if let Some\(newt\) = t\.insert\(e\) \{\s*\*self = %s\(newt\.to_usize\(\) as \*mut S\);\s*return newt\.sz != t\.sz;\s*\}' % st, body)
    if not e1 or not s1:
        raise TieError(f"insert ({suffix}): the inline arms")
    return [f"/-- `Empty` arm: `Some((new tagged word, answer))`, or `None` where the set has to be built on the heap -/\n"
            f"def insert_empty_{suffix} (e : Nat) : Option (Nat × Bool) := (tiny_from_singleton_{suffix} e).map (fun t => (tiny_to_usize_{suffix} t.1 t.2, true))",
            f"/-- `Stack` arm: `Tiny::insert`, then the new word and `newt.sz != t.sz` -/\n"
            f"def insert_stack_{suffix} (t_sz t_bits e : Nat) : Except String (Option (Nat × Bool)) := "
            f"(tiny_insert_{suffix} t_sz t_bits e).map (fun o => o.map (fun newt => (tiny_to_usize_{suffix} newt.1 newt.2, decide (newt.1 ≠ t_sz))))"]

def gen_remove_inline(src, W, suffix):
    """the `Stack` arm of `remove`: membership by running the inline iterator, then the empty word or `collect()` of the
    remaining members (shape pinned; the list handed to `collect()` is read off it)"""
    ty = "u64" if W == 64 else "u32"
    st = "SetU64" if W == 64 else "SetU32"
    m = re.search(r'\n    pub fn remove\(&mut self, e: %s\) -> bool \{' % ty, src)
    if not m:
        raise TieError(f"cannot find remove ({suffix})")
    body = body_of(src, m.end() - 1)[0]
    pat = (r'InternalMut::Empty => false,\s*InternalMut::Stack\(t\) => \{\s*if t\.clone\(\)\.any\(\|x\| x == e\) \{\s*let sz = t\.sz - 1;\s*'
           r'if sz == 0 \{\s*\*self = %s\(0 as \*mut S\);\s*\} else \{\s*\*self = t\.filter\(\|&x\| x != e\)\.collect\(\);\s*\}\s*true\s*\} else \{\s*false\s*\}\s*\}' % st)
    if not re.search(pat, body):
        raise TieError(f"remove ({suffix}): the inline arm")
    return [f"/-- `Stack` arm of `remove`: `none` — not a member (answer `false`, set unchanged); `some none` — the last member\n"
            f"(the set becomes the null word); `some (some v)` — `v` is what `t.filter(|&x| x != e)` yields, handed to `collect()` -/\n"
            f"def remove_stack_{suffix} (t_sz t_bits e : Nat) : Option (Option (List Nat)) :=\n"
            f"  if tiny_any_{suffix} t_sz t_bits e = true then\n"
            f"    (if t_sz - 1 = 0 then some none\n"
            f"     else some (some ((tiny_drain_{suffix} t_sz (t_sz + 1) 0 t_bits 0).filter (fun x => decide (x ≠ e)))))\n"
            f"  else none"]

def gen_iter_stack(isrc, W, suffix):
    """the `Stack` arm of `Inner::next` (iter.rs): one step of the iteration over an inline set"""
    ty = "u64" if W == 64 else "u32"
    m = re.search(r'impl<T: Borrow<Set%s>> Iterator for Inner<T> \{\s*type Item = %s;\s*(?:#\[inline\]\s*)?fn next\(&mut self\) -> Option<Self::Item> \{' % (ty.upper(), ty), isrc)
    if not m:
        raise TieError(f"cannot find Inner::next ({suffix})")
    fb = body_of(isrc, m.end() - 1)[0]
    mm = re.search(r'Internal::Stack\(_\) => \{', fb)
    if not mm:
        raise TieError(f"Inner::next ({suffix}): Stack arm")
    body = body_of(fb, mm.end() - 1)[0]
    body = body.replace("super::BITSPLITS", "BITSPLITS").replace("super::mask", "mask")
    sp = SP(lex(body), W, suffix)
    sp.p.fnames = set()
    sp.p.lists = {"bitsplits"}
    stmts = sp.block()
    if sp.p.peek()[0] != "eof":
        raise TieError(f"Inner::next stack arm: trailing tokens {sp.p.peek()}")
    payload = "self_bits" if W == 64 else "self_stack_bits"      # `SetU32`'s cursor keeps the inline payload in its own field
    params = [("self_sz", "Nat"), ("self_sz_left", "Nat"), (payload, "Nat"), ("self_last", "Nat")]
    ret = "Option Nat × Nat × Nat × Nat"
    g = Gen(f"iter_next_stack_{suffix}", params, ret, pure=True, props=sp.p.props)
    g.retstate = f"self_sz_left, {payload}, self_last"
    top = g.comp(stmts, [x for x, _ in params], None)
    sig = " ".join(f"({x} : {t})" for x, t in params)
    return g.defs + [f"def iter_next_stack_{suffix} {sig} : {ret} := {top}"]

def gen_iter_big(isrc, W, suffix):
    """the `Big` arm of `Inner::next` (iter.rs): the walk along a plain table to the next member"""
    ty = "u64" if W == 64 else "u32"
    m = re.search(r'impl<T: Borrow<Set%s>> Iterator for Inner<T> \{\s*type Item = %s;\s*(?:#\[inline\]\s*)?fn next\(&mut self\) -> Option<Self::Item> \{' % (ty.upper(), ty), isrc)
    if not m:
        raise TieError(f"cannot find Inner::next ({suffix})")
    fb = body_of(isrc, m.end() - 1)[0]
    mm = re.search(r'Internal::Big \{ a, \.\. \} => \{', fb)
    if not mm:
        raise TieError(f"Inner::next ({suffix}): Big arm")
    body = body_of(fb, mm.end() - 1)[0]
    sp = SP(lex(body), W, suffix)
    sp.p.fnames = set()
    stmts = sp.block()
    if sp.p.peek()[0] != "eof":
        raise TieError(f"Inner::next big arm: trailing tokens {sp.p.peek()}")
    params = [("a", "Array Nat"), ("self_bits", "Nat"), ("self_index", "Nat"), ("self_sz_left", "Nat")]
    ret = "Option Nat × Nat × Nat"
    g = Gen(f"iter_next_big_{suffix}", params, ret, pure=True, props=sp.p.props)
    g.retstate = "self_index, self_sz_left"
    top = g.comp(stmts, [x for x, _ in params], None)
    sig = " ".join(f"({x} : {t})" for x, t in params)
    return g.defs + [f"def iter_next_big_{suffix} {sig} : {ret} := {top}"]

def gen_iter_arm(isrc, src, W, suffix, arm):
    """the `Heap` / `Dense` arm of `Inner::next` (iter.rs): nested loops over buckets (words) and bits"""
    ty = "u64" if W == 64 else "u32"
    m = re.search(r'impl<T: Borrow<Set%s>> Iterator for Inner<T> \{\s*type Item = %s;\s*(?:#\[inline\]\s*)?fn next\(&mut self\) -> Option<Self::Item> \{' % (ty.upper(), ty), isrc)
    if not m:
        raise TieError(f"cannot find Inner::next ({suffix})")
    fb = body_of(isrc, m.end() - 1)[0]
    out = []
    if arm == "heap":
        mm = re.search(r'Internal::Heap \{ a, \.\. \} => \{', fb)
        if not mm:
            raise TieError(f"Inner::next ({suffix}): Heap arm")
        body = body_of(fb, mm.end() - 1)[0]
        um = re.search(r'\nfn unsplit_%s\(k: %s, offset: %s, bits: %s\) -> %s \{' % (ty, ty, ty, ty, ty), src)
        if not um:
            raise TieError(f"cannot find unsplit_{ty}")
        from gen_fns import tr_block
        out.append(f"def unsplit_{suffix} (k offset bits : Nat) : Nat := {tr_block(body_of(src, um.end() - 1)[0], W, set(), suffix)}")
        body = body.replace(f"unsplit_{ty}(", "unsplit(")
    else:
        mm = re.search(r'Internal::Dense \{ a, \.\. \} => loop \{', fb)
        if not mm:
            raise TieError(f"Inner::next ({suffix}): Dense arm")
        body = body_of(fb, mm.end() - 1)[0]
        # `loop { if let Some(word) = a.get(i) { .. } else { return None; } }` is `while let Some(word) = a.get(i) { .. } None`
        body, n1 = re.subn(r'^\s*if let Some\(word\) = a\.get\(self\.index\) \{', 'while let Some(&word) = a.get(self.index) {', body, count=1)
        body, n2 = re.subn(r'\} else \{\s*return None;\s*\}\s*$', '} None', body, count=1)
        if (n1, n2) != (1, 1):
            raise TieError(f"Inner::next ({suffix}): Dense arm shape {(n1, n2)}")
    sp = SP(lex(body), W, suffix)
    sp.p.fnames = {"unsplit"}
    stmts = sp.block()
    if sp.p.peek()[0] != "eof":
        raise TieError(f"Inner::next {arm} arm: trailing tokens {sp.p.peek()}")
    params = [("a", "Array Nat"), ("self_bits", "Nat"), ("self_index", "Nat"), ("self_whichbit", "Nat"), ("self_sz_left", "Nat")]
    ret = "Option Nat × Nat × Nat × Nat"
    g = Gen(f"iter_next_{arm}_{suffix}", params, ret, pure=True, props=sp.p.props)
    g.retstate = "self_index, self_whichbit, self_sz_left"
    top = g.comp(stmts, [x for x, _ in params], None)
    sig = " ".join(f"({x} : {t})" for x, t in params)
    return out + g.defs + [f"def iter_next_{arm}_{suffix} {sig} : {ret} := {top}"]

def gen_dispatch(src, W, suffix):
    """the layout dispatch at the end of `internal()` / `internal_mut()`: which view a heap block's `bits` word selects
    (0: `Big`, 1: `Dense`, 2: `Heap`)"""
    out = []
    code = {"Big": 0, "Dense": 1, "Heap": 2}
    for fn, enum, name in (("internal", "Internal", "layout"), ("internal_mut", "InternalMut", "layout_mut")):
        m = re.search(r"\n    fn %s<'a>\(&'a (?:mut )?self\) -> %s<'a> \{" % (fn, enum), src)
        if not m:
            raise TieError(f"cannot find {fn} ({suffix})")
        body = body_of(src, m.end() - 1)[0]
        mm = re.search(r'if (b\.bits[^{]*?) \{\s*%s::(\w+) \{[^}]*\}\s*\} else if (b\.bits[^{]*?) \{\s*%s::(\w+) \{[^}]*\}\s*\} else \{\s*%s::(\w+) \{[^}]*\}\s*\}\s*\}\s*$' % (enum, enum, enum), body)
        if not mm:
            raise TieError(f"{fn} ({suffix}): layout dispatch")
        c1, v1, c2, v2, v3 = mm.groups()
        if {v1, v2, v3} != set(code):
            raise TieError(f"{fn} ({suffix}): views {v1}, {v2}, {v3}")
        conds = []
        for c in (c1, c2):
            lp = LP(lex(c), W, set(), suffix)
            t = lp.expr()
            if lp.peek()[0] != "eof":
                raise TieError(f"{fn} ({suffix}): condition {c}")
            conds.append(t)
        out.append(f"def {name}_{suffix} (b_bits : Nat) : Nat := (if {conds[0]} then {code[v1]} else (if {conds[1]} then {code[v2]} else {code[v3]}))")
    return out

def gen_set_eq(csrc, ssrc):
    """`PartialEq::eq` of the untyped sets (the `impl_set_methods!` macro of copyset.rs) and of `Set64<T>` (set64.rs):
    the two `len()`s, the iteration of one operand and `contains` of the other are parameters"""
    out = []
    for name, src, sig_re, it, cont in (
            ("set_eq", csrc, r'impl PartialEq for \$ty \{\s*fn eq\(&self, other: &Self\) -> bool \{', r'self\.iter\(\)', r'other\.contains\('),
            ("set64_eq", ssrc, r'impl<T: Fits64> PartialEq for Set64<T> \{\s*fn eq\(&self, other: &Set64<T>\) -> bool \{', r'other\.0\.iter\(\)', r'self\.0\.contains\(')):
        m = re.search(sig_re, src)
        if not m:
            raise TieError(f"cannot find {name}")
        body = body_of(src, m.end() - 1)[0]
        body, n1 = re.subn(r'self\.len\(\)', 'self_len', body)
        body, n2 = re.subn(r'other\.len\(\)', 'other_len', body)
        body, n3 = re.subn(r'for (\w+) in %s \{' % it, r'for \1 in p_iter.iter().cloned() {', body)
        body, n4 = re.subn(cont, 'pcontains(', body)
        if (n1, n2, n3, n4) != (1, 1, 1, 1) or "self." in body or "other." in body:
            raise TieError(f"{name}: shape {(n1, n2, n3, n4)}")
        sp = SP(lex(body), 64, "64")
        sp.p.fnames = set()
        stmts = sp.block()
        if sp.p.peek()[0] != "eof":
            raise TieError(f"{name}: trailing tokens {sp.p.peek()}")
        params = [("self_len", "Nat"), ("other_len", "Nat"), ("p_iter", "List Nat"), ("p_contains", "Nat → Bool")]
        g = Gen(name, params, "Bool", pure=True, props=sp.p.props)
        g.boolexprs = sp.p.boolexprs
        top = g.comp(stmts, [x for x, _ in params], None)
        sig = " ".join(f"({x} : {t})" for x, t in params)
        out += g.defs + [f"def {name} {sig} : Bool := {top}"]
    return out

def gen_operators(csrc, ssrc=None):
    """the four operator forms of the `impl_set_methods!` macro (copyset.rs): `&a - &b`, `a - &b`, `&a | &b`, `a | &b`.
    Each body becomes the SCRIPT it runs on the set it returns: where that set starts (0: `self` itself, 1:
    `with_capacity_of(&self)`, 2: `with_capacity_of(&rhs)`, 3: `new()` — `Set64<T>`, whose `with_capacity` is `new()`) and the `insert` (1) / `remove` (0) calls in order; the
    operands' `len()`, iteration and `contains` are parameters"""
    out = []
    forms = [
        ("sub_ref", r"fn sub\(self, rhs: &\$ty\) -> \$ty \{", False),
        ("sub_own", r"fn sub\(mut self, rhs: &\$ty\) -> \$ty \{", True),
        ("bitor_ref", r"fn bitor\(self, rhs: & \$ty\) -> \$ty \{", False),
        ("bitor_own", r"fn bitor\(mut self, rhs: & \$ty\) -> \$ty \{", True),
    ]
    if ssrc is not None:
        if not re.search(r'pub fn with_capacity\(_cap: usize\) -> Self \{\s*Self::new\(\)\s*\}', ssrc):
            raise TieError("Set64::with_capacity is no longer `new()`")
        forms += [("set64_sub", r"fn sub\(self, rhs: &Set64<T>\) -> Set64<T> \{", False),
                  ("set64_bitor", r"fn bitor\(self, rhs: &Set64<T>\) -> Set64<T> \{", False)]
    for name, sig_re, own in forms:
        src_ = ssrc if name.startswith("set64_") else csrc
        m = re.search(sig_re, src_)
        if not m:
            raise TieError(f"cannot find operator {name}")
        body = body_of(src_, m.end() - 1)[0]
        subs = [
            (r"let mut s = Set64::with_capacity\(self\.len\(\)\);", "let s_start = 3; let mut s_ops = sopnil;"),
            (r"let mut s: Set64<T> = Set64::with_capacity\(self\.len\(\) \+ rhs\.len\(\)\);", "let s_start = 3; let mut s_ops = sopnil;"),
            (r"!rhs\.contains\(&(\w+)\)", r"!pcontains(\1)"),
            (r"let mut s = <\$ty>::with_capacity_of\(&self\);", "let s_start = 1; let mut s_ops = sopnil;"),
            (r"let mut s: \$ty = if self\.len\(\) > rhs\.len\(\) \{\s*<\$ty>::with_capacity_of\(&self\)\s*\} else \{\s*<\$ty>::with_capacity_of\(&rhs\)\s*\};",
             "let s_start = if self_len > rhs_len { 1 } else { 2 }; let mut s_ops = sopnil;"),
            (r"for (\w+) in self\.iter\(\) \{", r"for \1 in p_lhs.iter().cloned() {"),
            (r"for (\w+) in rhs\.iter\(\) \{", r"for \1 in p_rhs.iter().cloned() {"),
            (r"!rhs\.contains\((\w+)\)", r"!pcontains(\1)"),
            (r"\bs\.insert\((\w+)\);", r"s_ops = sopins(s_ops, \1);"),
            (r"self\.insert\((\w+)\);", r"s_ops = sopins(s_ops, \1);"),
            (r"self\.remove\((\w+)\);", r"s_ops = soprem(s_ops, \1);"),
            (r"\n\s*(?:s|self)\s*$", "\n mk_script(s_start, s_ops)"),
        ]
        for pat, rep in subs:
            body = re.sub(pat, rep, body)
        if own:
            body = "let s_start = 0; let mut s_ops = sopnil;" + body
        if re.search(r'\bself\.|\brhs\.', body) or "$ty" in body or "mk_script" not in body:
            raise TieError(f"operator {name}: shape: {body.strip()[:120]}")
        sp = SP(lex(body), 64, "64")
        sp.p.fnames = set()
        stmts = sp.block()
        if sp.p.peek()[0] != "eof":
            raise TieError(f"operator {name}: trailing tokens {sp.p.peek()}")
        params = [("self_len", "Nat"), ("rhs_len", "Nat"), ("p_lhs", "List Nat"), ("p_rhs", "List Nat"), ("p_contains", "Nat → Bool")]
        ret = "Nat × List (Nat × Nat)"
        g = Gen(name, params, ret, pure=True, props=sp.p.props)
        g.boolexprs = sp.p.boolexprs
        g.vartypes = {"s_ops": "List (Nat × Nat)"}
        top = g.comp(stmts, [x for x, _ in params], None)
        sig = " ".join(f"({x} : {t})" for x, t in params)
        out += g.defs + [f"def {name} {sig} : {ret} := {top}"]
    return out

def gen_loops(s64, s32, i64=None, i32=None, csrc=None, ssrc=None):
    out = ["import TinysetModel.Generated.Fns", "import TinysetModel.Generated.Consts",
           "/-! GENERATED by /verif/tools/gen_loops.py from src/setu64.rs and src/setu32.rs — do not edit.",
           "The Robin-Hood primitives `p_lookfor`, `p_insert`, `p_remove` translated statement by statement (see the",
           "translator for the scheme); `Proofs/Loops.lean` proves the model's `RH.lookfor/pinsert/premove` compute these. -/",
           "namespace Gen",
           "inductive Looked | empty (i : Nat) | found (i : Nat) | needInsert",
           "deriving DecidableEq, Repr",
           "namespace RI",
           "/-- slice read / write -/",
           "def idx (a : Array Nat) (i : Nat) : Nat := a.getD i 0",
           "def set (a : Array Nat) (i v : Nat) : Array Nat := a.setIfInBounds i v",
           "/-- `if let LookedUp::KeyFound(idx) = ..` / `.key_found()` on the result of `p_lookfor` -/",
           "def foundIdx : Except String (Looked × Array Nat) → Option Nat",
           "  | .ok (.found i, _) => some i",
           "  | _ => none",
           "def keyFound (r : Except String (Looked × Array Nat)) : Bool := (foundIdx r).isSome",
           "/-- `a.iter().cloned().any(|x| x == 0)`; more than 1/16 of the buckets empty (`SetU32`) -/",
           "def anyzero (a : Array Nat) : Bool := a.toList.any (· == 0)",
           "def room16 (a : Array Nat) : Bool := (a.toList.filter (· == 0)).length > a.size >>> 4",
           "/-- `a.iter().any(|&v| v == i)` -/",
           "def hasWord (a : Array Nat) (i : Nat) : Bool := a.toList.contains i",
           "/-- `!x` of a `w`-bit unsigned value -/",
           "def notW (w x : Nat) : Nat := 2 ^ w - 1 - x",
           "end RI"]
    for src, W, suffix in ((s64, 64, "64"), (s32, 32, "32")):
        ty = "u64" if W == 64 else "u32"
        P = [("k", "Nat"), ("a", "Array Nat"), ("offset", "Nat")]
        out += gen_fn(src, W, suffix, "p_lookfor", r'\nfn p_lookfor\(k: %s, a: &\[%s\], offset: %s\) -> LookedUp \{' % (ty, ty, ty), P, "Except String (Looked × Array Nat)")
        out += gen_fn(src, W, suffix, "p_insert", r'\nfn p_insert\(k: %s, a: &mut \[%s\], offset: %s\) -> usize \{' % (ty, ty, ty), P, "Except String (Nat × Array Nat)")
        out += gen_fn(src, W, suffix, "p_remove", r'\nfn p_remove\(k: %s, a: &mut \[%s\], offset: %s\) -> bool \{' % (ty, ty, ty), P, "Except String (Bool × Array Nat)")
        out += gen_contains(src, W, suffix)
        out += gen_remove(src, W, suffix)
        out += gen_tiny_contains(src, W, suffix)
        out += gen_insert_fast(src, W, suffix)
        out += gen_dispatch(src, W, suffix)
        out += gen_tiny_new(src, W, suffix)
        out += gen_tiny_singleton(src, W, suffix)
        out += gen_tiny_next(src, W, suffix)
        out += gen_tiny_insert(src, W, suffix)
        out += gen_insert_inline(src, W, suffix)
        out += gen_remove_inline(src, W, suffix)
        isrc = i64 if W == 64 else i32
        if isrc is not None:
            out += gen_iter_stack(isrc, W, suffix)
            out += gen_iter_big(isrc, W, suffix)
            out += gen_iter_arm(isrc, src, W, suffix, "heap")
            out += gen_iter_arm(isrc, src, W, suffix, "dense")
    if csrc is not None and ssrc is not None:
        out += gen_set_eq(csrc, ssrc)
        out += gen_operators(csrc, ssrc)
    out.append("end Gen")
    return "\n".join(out) + "\n"

if __name__ == "__main__":
    import sys
    print(gen_loops(open("/repo/src/setu64.rs").read(), open("/repo/src/setu32.rs").read(),
                    open("/repo/src/setu64/iter.rs").read(), open("/repo/src/setu32/iter.rs").read(),
                    open("/repo/src/copyset.rs").read(), open("/repo/src/set64.rs").read()))
