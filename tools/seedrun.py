#!/usr/bin/env python3
"""Runs the registered check of the targeted property against every confirmed seeded change:
apply /verif/seeded/<name>/patch.diff to /repo, run ./check <ID> --tier quick, undo.  Records the
outcome in meta.json (detected, exit status, VIOLATION lines)."""
import json, os, re, subprocess, sys, time
V = "/verif"
def sh(cmd, timeout=3000):
    p = subprocess.run(cmd, shell=True, cwd=V, stdout=subprocess.PIPE, stderr=subprocess.STDOUT, text=True, timeout=timeout, errors="replace")
    return p.returncode, p.stdout
names = sorted(d for d in os.listdir(f"{V}/seeded") if os.path.exists(f"{V}/seeded/{d}/patch.diff"))
if len(sys.argv) > 1:
    names = [n for n in names if n in sys.argv[1:] or n.split("-")[0] in sys.argv[1:] or any(n.startswith(a) for a in sys.argv[1:])]
for n in names:
    pid = [t for t in n.split("-") if t.startswith("C")][0]
    mp = f"{V}/seeded/{n}/meta.json"
    meta = json.load(open(mp)) if os.path.exists(mp) else {}
    rc, out = sh("git -C /repo status --porcelain")
    if out.strip():
        print("repo not clean, abort:", out); sys.exit(1)
    rc, out = sh(f"git -C /repo apply {V}/seeded/{n}/patch.diff")
    if rc != 0:
        print(n, "patch does not apply", out[-300:]); continue
    t0 = time.time()
    # the evidence file describes the unchanged tree: keep it, a run against a seeded change must not replace it
    ev = f"{V}/evidence/{pid}.json"
    saved = open(ev).read() if os.path.exists(ev) else None
    try:
        rc, out = sh(f"./check {pid} --tier quick", timeout=2400)
    finally:
        sh("git -C /repo checkout -- . && git -C /repo clean -fdq src tests")
        sh("python3 tools/gen_consts.py")       # the generated Lean files describe the unchanged tree again
        if saved is not None:
            open(ev, "w").write(saved)
    viol = [l for l in out.splitlines() if l.startswith("VIOLATION")]
    detail = [l for l in out.splitlines() if l.startswith("  ")][:4]
    meta["check"] = {"cmd": f"./check {pid} --tier quick", "exit": rc, "detected": rc == 1 and bool(viol), "violations": viol[:5],
                     "detail": [d[:400] for d in detail], "wall_s": round(time.time() - t0, 1), "summary": [l for l in out.splitlines() if re.match(r"^C\d+:", l)]}
    json.dump(meta, open(mp, "w"), indent=1)
    print(n, "DETECTED" if meta["check"]["detected"] else f"MISSED (exit {rc})", f"{time.time()-t0:.0f}s", (detail[0][:160] if detail else ""), flush=True)
