#!/usr/bin/env python3
"""Confirms each seeded change delivered under /tmp/seedout/<ID>/<x>/ (patch.diff, demo.rs, README.md):
in a scratch worktree of /repo: (1) the patch applies, (2) the crate's own suite still passes with it,
(3) the demonstration fails with it, (4) the demonstration passes without it.  Writes
/verif/seeded/<ID>-<x>/{patch.diff,demo.rs,README.md,meta.json}.  Scratch worktrees are removed."""
import json, os, re, shutil, subprocess, sys, time
from concurrent.futures import ThreadPoolExecutor
SRC = os.environ.get("SEED_SRC", "/tmp/seedout")
OUT = "/verif/seeded"
PREFIX = os.environ.get("SEED_PREFIX", "")
ENV = dict(os.environ, CARGO_NET_OFFLINE="true")

def sh(cmd, cwd, timeout=1500, env=None):
    try:
        p = subprocess.run(cmd, cwd=cwd, shell=True, env=env or ENV, stdout=subprocess.PIPE, stderr=subprocess.STDOUT, text=True, timeout=timeout, errors="replace")
        return p.returncode, p.stdout
    except subprocess.TimeoutExpired as e:
        return -9, (e.stdout or b"").decode(errors="replace") if isinstance(e.stdout, bytes) else (e.stdout or "")

def one(args):
    pid, x = args
    src = os.path.join(SRC, pid, x)
    name = f"{PREFIX}{pid}-{x}"
    dst = os.path.join(OUT, name)
    os.makedirs(dst, exist_ok=True)
    for f in ("patch.diff", "demo.rs", "README.md"):
        if os.path.exists(os.path.join(src, f)):
            shutil.copy(os.path.join(src, f), os.path.join(dst, f))
    readme = open(os.path.join(src, "README.md")).read() if os.path.exists(os.path.join(src, "README.md")) else ""
    feats = ""
    m = re.search(r"cargo test[^\n`]*--test seed[^\n`]*", readme)
    line = m.group(0) if m else ""
    for f in ("--no-default-features", "--features deterministic_iteration", "--features serde", "--features compactserde", "--release"):
        if f in line:
            feats += " " + f
    if "deterministic_iteration" in open(os.path.join(src, "demo.rs")).read() and "deterministic_iteration" not in feats:
        feats = " --no-default-features --features deterministic_iteration"
    wt = f"/tmp/seedverify/{name}"
    meta = {"property": pid, "variant": x, "demo_features": feats.strip(), "ran": []}
    sh(f"git -C /repo worktree remove --force {wt}", "/repo")
    rc, out = sh(f"git -C /repo worktree add -q --detach {wt} HEAD", "/repo")
    env = dict(ENV, CARGO_TARGET_DIR=f"{wt}/target")
    try:
        rc, out = sh(f"git apply --check {src}/patch.diff", wt)
        meta["applies"] = rc == 0
        if rc != 0:
            meta["apply_error"] = out[-500:]
            return meta
        test = f"seed_{name.replace('-', '_')}"
        shutil.copy(os.path.join(src, "demo.rs"), f"{wt}/tests/{test}.rs")
        # 4: demo on the unchanged code
        cmd = f"timeout 900 cargo test --offline{feats} --test {test}"
        rc, out = sh(cmd, wt, env=env)
        meta["demo_passes_unchanged"] = rc == 0
        meta["ran"].append({"cmd": cmd, "tree": "unchanged", "rc": rc, "tail": out[-600:]})
        # 3: demo with the change
        sh(f"git apply {src}/patch.diff", wt)
        rc, out = sh(cmd, wt, env=env)
        meta["demo_fails_with_change"] = rc != 0
        meta["ran"].append({"cmd": cmd, "tree": "changed", "rc": rc, "tail": out[-900:]})
        # 2: the crate's own suite with the change (without the demo)
        os.remove(f"{wt}/tests/{test}.rs")
        cmd2 = "cargo test --offline --workspace --no-fail-fast"
        rc, out = sh(cmd2, wt, env=env)
        ok = rc == 0
        rc2, out2 = sh(cmd2, wt, env=env)
        meta["suite_passes_with_change"] = ok and rc2 == 0
        meta["ran"].append({"cmd": cmd2 + " (twice)", "tree": "changed", "rc": [rc, rc2], "tail": "\n".join(l for l in out.splitlines() if l.startswith("test result"))})
        meta["confirmed"] = bool(meta["applies"] and meta["demo_passes_unchanged"] and meta["demo_fails_with_change"] and meta["suite_passes_with_change"])
    finally:
        sh(f"git -C /repo worktree remove --force {wt}", "/repo")
        shutil.rmtree(wt, ignore_errors=True)
    m2 = re.search(r"(?is)(trigger|needs)[^\n]*\n(.{0,600})", readme)
    meta["needs"] = (m2.group(0)[:700] if m2 else readme[:700])
    return meta

def main():
    jobs = []
    for pid in sorted(os.listdir(SRC)):
        d = os.path.join(SRC, pid)
        if not (os.path.isdir(d) and re.match(r"C\d\d$", pid)):
            continue
        for x in sorted(os.listdir(d)):
            if os.path.exists(os.path.join(d, x, "patch.diff")):
                if len(sys.argv) > 1 and f"{pid}-{x}" not in sys.argv[1:] and pid not in sys.argv[1:]:
                    continue
                jobs.append((pid, x))
    os.makedirs("/tmp/seedverify", exist_ok=True)
    with ThreadPoolExecutor(max_workers=5) as ex:
        for meta in ex.map(one, jobs):
            name = f"{PREFIX}{meta['property']}-{meta['variant']}"
            p = os.path.join(OUT, name, "meta.json")
            old = json.load(open(p)) if os.path.exists(p) else {}
            old.update(meta)
            json.dump(old, open(p, "w"), indent=1)
            print(name, "confirmed" if meta.get("confirmed") else "NOT-CONFIRMED", {k: v for k, v in meta.items() if k in ("applies", "demo_passes_unchanged", "demo_fails_with_change", "suite_passes_with_change")}, flush=True)

if __name__ == "__main__":
    main()
