"""Per-property configuration: which harness runs decide the correspondence and the oracles,
and which oracle tags count for the property."""

def R(build, typ, profile, hists, steps, mode="native", extra=(), thor=None, seeds=1):
    return dict(build=build, typ=typ, profile=profile, hists=hists, steps=steps, mode=mode, extra=list(extra),
                thor=thor or (hists * 8, steps * 2), seeds=seeds)

COMMON_ASSUMPTIONS = [
    "Lean 4.33.0 kernel; axioms of every listed theorem are within {propext, Classical.choice, Quot.sound}",
    "the hand-written model (lean/TinysetModel/Model) is tied to /repo by the correspondence check of this run: same return value and same representation words at every step of every generated history",
    "constants (BITSPLITS, tag masks, RNG multipliers, thresholds) and the Fits64 bodies are regenerated from /repo/src by tools/gen_consts.py, tools/gen_fits.py on every run",
    "64-bit target; debug-assertion/overflow-check build of the crate; capacities below 2^31 (u32) / 2^60 (u64)",
    "modelled, not verified: raw pointer accesses, unwinding, std (Vec, sort, dedup), serde/serde_json, rand crate, system allocator, threads",
]

PROPS = {
    "C01": dict(tags=["C01"], runs=[
        R("rand", "64", "core", 260, 80), R("plain", "64", "core", 160, 80), R("det", "64", "core", 160, 80),
        R("rand", "64", "core", 60, 80, mode="unscripted"), R("rand", "64", "prims", 1, 1, thor=(2, 1)),
        R("randfast", "64", "core", 80, 80), R("rand", "64", "inline", 1, 1)]),
    "C02": dict(tags=["C02"], runs=[
        R("rand", "32", "core", 260, 80), R("plain", "32", "core", 160, 80), R("det", "32", "core", 160, 80),
        R("rand", "32", "core", 60, 80, mode="unscripted"), R("rand", "32", "prims", 1, 1, thor=(2, 1)),
        R("randfast", "32", "core", 80, 80), R("rand", "32", "inline", 1, 1)]),
    "C03": dict(tags=["C03"], runs=[
        R("rand", "typed", "fits", 1, 1), R("rand", "typed", "typed", 120, 60), R("rand", "typed", "typediter", 30, 40),
        R("rand", "typed", "typedinline", 1, 1)]),
    "C04": dict(tags=["C04"], runs=[
        R("rand", "64", "iter", 160, 50), R("rand", "32", "iter", 160, 50), R("det", "64", "iter", 80, 50),
        R("rand", "typed", "typediter", 60, 40)]),
    "C05": dict(tags=["C05"], runs=[
        R("rand", "64", "collect", 160, 50), R("rand", "32", "collect", 160, 50), R("det", "32", "collect", 80, 50),
        R("rand", "typed", "typedcollect", 60, 40), R("rand", "64", "inline", 1, 1), R("rand", "32", "inline", 1, 1)]),
    "C06": dict(tags=["C06"], runs=[
        R("rand", "64", "alloc", 140, 70), R("rand", "32", "alloc", 140, 70),
        R("rand", "32", "alloc", 140, 70, extra=["minalign"]), R("rand", "64", "alloc", 80, 70, extra=["minalign"]),
        R("rand", "32", "iter", 60, 40, extra=["minalign"])]),
    "C07": dict(tags=["C07"], runs=[
        R("rand", "64", "alloc", 140, 70), R("rand", "32", "alloc", 140, 70, extra=["minalign"]),
        R("det", "64", "alloc", 80, 70), R("rand", "typed", "typedclone", 60, 40)]),
    "C08": dict(tags=["C08"], runs=[
        R("rand", "64", "eqops", 160, 60), R("rand", "32", "eqops", 160, 60), R("rand", "typed", "typedhash", 80, 40)]),
    "C09": dict(tags=["C09"], runs=[
        R("rand", "64", "eqops", 160, 60), R("rand", "32", "eqops", 160, 60), R("det", "64", "eqops", 60, 60),
        R("rand", "typed", "typedops", 60, 40), R("rand", "64", "inline", 1, 1), R("rand", "32", "inline", 1, 1)]),
    "C10": dict(tags=["C10"], runs=[
        R("rand", "64", "inline", 1, 1), R("rand", "32", "inline", 1, 1), R("rand", "typed", "typedinline", 1, 1)]),
    "C11": dict(tags=["C11"], runs=[
        R("rand", "64", "mem", 160, 120), R("rand", "32", "mem", 160, 120), R("det", "64", "mem", 60, 120),
        R("plain", "32", "mem", 60, 120)]),
    "C12": dict(tags=["C12"], runs=[
        R("rand", "64", "dense", 40, 1, thor=(240, 1)), R("rand", "32", "dense", 40, 1, thor=(240, 1)), R("det", "64", "dense", 16, 1, thor=(60, 1)),
        R("rand", "typed", "typeddense", 8, 1, thor=(40, 1))]),
    "C13": dict(tags=["C13"], runs=[
        R("rand", "64", "iter", 160, 50), R("rand", "32", "iter", 160, 50), R("det", "32", "iter", 80, 50),
        R("rand", "typed", "typediter", 60, 40)]),
    "C14": dict(tags=["C14"], runs=[
        R("rand", "64", "fail", 60, 40), R("rand", "32", "fail", 60, 40), R("det", "64", "fail", 30, 40),
        R("rand", "typed", "typedfail", 24, 30)]),
    "C15": dict(tags=["C15"], runs=[
        R("rand", "64", "hints", 200, 60), R("rand", "32", "hints", 200, 60), R("det", "64", "hints", 80, 60),
        R("rand", "typed", "typedhints", 30, 40)]),
    "C16": dict(tags=["C16"], runs=[
        R("serde", "64", "serde", 120, 50), R("serde", "32", "serde", 120, 50), R("serde", "typed", "typedserde", 60, 30)]),
    "C17": dict(tags=["C17"], runs=[
        R("det", "64", "det", 120, 80), R("det", "32", "det", 120, 80), R("det", "typed", "typeddet", 20, 40),
        R("det", "32", "det", 60, 80, extra=["minalign"])]),
    "C18": dict(tags=["C18"], runs=[
        R("rand", "64", "readers", 100, 60), R("rand", "32", "readers", 100, 60),
        R("randfast", "64", "readers", 40, 60), R("randfast", "32", "readers", 40, 60)]),
    "C19": dict(tags=["C19"], runs=[
        R("compact", "64", "compact", 140, 60), R("compact", "32", "compact", 140, 60), R("detcompact", "64", "compact", 60, 60)]),
    "C20": dict(tags=["C20"], runs=[
        R("det", "64", "term", 120, 80), R("det", "32", "term", 120, 80), R("plain", "64", "term", 80, 80),
        R("rand", "64", "term", 80, 80), R("rand", "32", "term", 80, 80)]),
}
