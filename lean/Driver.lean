import TinysetModel.Model.Fault
import TinysetModel.Model.Alloc
import TinysetModel.Model.WFCheck
import TinysetModel.Generated.Fits
/-! Trace validator: reads the line protocol written by `/verif/harness` on stdin, re-executes
every step on the Lean model and reports every line where return value, representation or
iteration order differ.  One process validates one trace file. -/
open SC

/-- RNG used by the driver: scripted list, deterministic function, or SplitMix counter -/
inductive RS
  | script (l : List Nat)
  | over               -- the script ran out: the model wants more draws than the implementation made
  | det
  | sm (seed : Nat)

def uRng : Rng RS :=
  { draw := fun s cap bits =>
      match s with
      | .script [] => (11400714819323198485, .over)   -- keeps growth steps large: no cubic rebuild chains on a trace that has already diverged
      | .script l => let (v, l') := scriptRng.draw l cap bits; (v, .script l')
      | .over => (11400714819323198485, .over)
      | .det => ((detRng.draw () cap bits).1, .det)
      | .sm seed => let (v, s') := splitmixRng.draw seed cap bits; (v, .sm s') }

def FUEL : Nat := 400

def fnv (ws : List Nat) : Nat :=
  ws.foldl (fun h w => ((h ^^^ w) * 1099511628211) % 2 ^ 64) 14695981039346656037

inductive IR
  | e | s (w : Nat) | h (sz cap bits : Nat) (ws : Array Nat) | x (sz cap bits hash : Nat) | bad

def toks2nats (l : List String) : List Nat := l.map String.toNat!

def parseIR : List String → IR
  | ["E"] => .e
  | ["S", w] => .s w.toNat!
  | "H" :: sz :: cap :: bits :: ws => .h sz.toNat! cap.toNat! bits.toNat! (toks2nats ws).toArray
  | ["X", sz, cap, bits, h] => .x sz.toNat! cap.toNat! bits.toNat! h.toNat!
  | _ => .bad

def irMatches (cd : TinyC.Codec) : IR → Rp → Bool
  | .e, .empty => true
  | .s w, .stack t => TinyC.toWord cd t == w
  | .h sz cap bits ws, .heap sz' cap' bits' a => sz == sz' && cap == cap' && bits == bits' && ws == a
  | .x sz cap bits h, .heap sz' cap' bits' a => sz == sz' && cap == cap' && bits == bits' && h == fnv a.toList
  | _, _ => false

def showR (cd : TinyC.Codec) : Rp → String
  | .empty => "E"
  | .stack t => s!"S {TinyC.toWord cd t}"
  | .heap sz cap bits a =>
    if a.size ≤ 40 then s!"H {sz} {cap} {bits} {a.toList}" else s!"X {sz} {cap} {bits} {fnv a.toList}"

def layoutTag (c : Cfg) : Rp → String
  | .empty => "E"
  | .stack _ => "S"
  | .heap _ _ bits _ => if isDense c bits then "D" else if isPlain c bits then "P" else "B"

/-- split the tokens after the fixed arguments into draws (after `D`) and repr (after `R`) -/
def splitDR (l : List String) : List String × List String × List String :=
  let pre := l.takeWhile (fun t => t != "D" && t != "R")
  let rest := l.dropWhile (fun t => t != "D" && t != "R")
  match rest with
  | "D" :: r =>
    let ds := r.takeWhile (· != "R")
    let rr := (r.dropWhile (· != "R")).drop 1
    (pre, ds, rr)
  | "R" :: r => (pre, [], r)
  | _ => (pre, [], [])

/-- the `A` section of a line (the allocator calls the implementation made on the crate's own blocks), if any:
    tokens before it, tokens after it -/
def splitA (pre : List String) : List String × Option (List String) :=
  let before := pre.takeWhile (· != "A")
  match pre.dropWhile (· != "A") with
  | "A" :: r => (before, some r)
  | _ => (before, none)

def showEv (c : Cfg) : Ev → String
  | .alloc b => s!"a{b}.{alignBytes c}"
  | .free b => s!"f{b}.{alignBytes c}"
  | .realloc o n => s!"r{o}:{n}.{alignBytes c}"

structure St where
  c : Cfg := cfg64
  mode : String := "script"
  seed : Nat := 1
  sets : Array Rp := Array.replicate 32 .empty
  line : Nat := 0
  steps : Nat := 0
  bad : Nat := 0
  skip : Bool := false
  hist : String := ""
  hists : Nat := 0
  stats : List (String × Nat) := []

def St.bump (s : St) (k : String) : St :=
  let rec go : List (String × Nat) → List (String × Nat)
    | [] => [(k, 1)]
    | (k', n) :: r => if k' == k then (k', n + 1) :: r else (k', n) :: go r
  { s with stats := go s.stats }

def St.get (s : St) (i : Nat) : Rp := s.sets.getD i .empty
def St.set (s : St) (i : Nat) (r : Rp) : St := { s with sets := s.sets.setIfInBounds i r }

def St.rs (s : St) (draws : List Nat) : RS :=
  if s.mode == "det" then .det else if s.mode == "splitmix" then .sm s.seed else .script draws

/-- after a monadic op: leftover script must be empty; update the SplitMix counter -/
def St.after (s : St) (d : RS) : St × Bool :=
  match d with
  | .script l => (s, l.isEmpty)
  | .over => (s, false)
  | .det => (s, true)
  | .sm seed => ({ s with seed := seed }, true)

def St.fail (s : St) (msg : String) : IO St := do
  IO.println s!"MISMATCH hist={s.hist} line={s.line}: {msg}"
  pure { s with bad := s.bad + 1, skip := true }

def optStr : Option Nat → String
  | none => "none"
  | some v => toString v

/-- run a set-producing monadic op and compare with the implementation's repr -/
def St.runSetE (s : St) (name : String) (dst : Nat) (act : M RS (Rp × List Ev)) (draws : List Nat) (irt : List String)
    (aimpl : Option (List String)) (src : String := "") : IO St := do
  match act (s.rs draws) with
  | .error _ => s.fail s!"{name}: model error (src {src}) impl {irt}"
  | .ok ((r, evs), d) =>
    let (s, okd) := s.after d
    let s := if aimpl.isSome then (s.bump "alloc-events:lines").bump s!"alloc-events:n{min evs.length 3}" else s
    if aimpl.isSome && aimpl != some (evs.map (showEv s.c)) then
      s.fail s!"{name}: allocator calls differ; model {evs.map (showEv s.c)} impl {aimpl.getD []} (src {src})"
    else
    let before := layoutTag s.c (s.get dst)
    let s := (s.bump s!"op:{name}").bump s!"tr:{name}:{before}>{layoutTag s.c r}"
    if !okd then s.fail s!"{name}: model consumed a different number of draws than the implementation"
    else if !(irMatches s.c.codec (parseIR irt) r) then
      s.fail s!"{name}: representation differs; before {src} model {showR s.c.codec r} impl {irt.take 50}"
    else if capacity r ≤ 160 && len r ≤ 300 && !(wfB s.c r && absB s.c r) then
      s.fail s!"{name}: the representation invariant WF does not hold for {showR s.c.codec r}"
    else pure ((s.set dst r).bump (if capacity r ≤ 160 && len r ≤ 300 then "wf:checked" else "wf:skipped-large"))

def St.runSet (s : St) (name : String) (dst : Nat) (act : M RS Rp) (draws : List Nat) (irt : List String)
    (src : String := "") : IO St :=
  s.runSetE name dst (do let r ← act; pure (r, [])) draws irt none src

def St.runRet (s : St) (name : String) (dst : Nat) (act : M RS ((Rp × Bool) × List Ev)) (ret : String) (draws : List Nat)
    (irt : List String) (aimpl : Option (List String)) : IO St := do
  let src := showR s.c.codec (s.get dst)
  match act (s.rs draws) with
  | .error _ =>
    if ret == "P" then pure (s.bump s!"op:{name}:panic")
    else s.fail s!"{name}: model error on {src}, impl returned {ret}"
  | .ok (((r, b), evs), d) =>
    let (s, okd) := s.after d
    let s := if aimpl.isSome then (s.bump "alloc-events:lines").bump s!"alloc-events:n{min evs.length 3}" else s
    if aimpl.isSome && ret != "P" && aimpl != some (evs.map (showEv s.c)) then
      s.fail s!"{name}: allocator calls differ; model {evs.map (showEv s.c)} impl {aimpl.getD []} on {src}"
    else
    let before := layoutTag s.c (s.get dst)
    let s := (s.bump s!"op:{name}").bump s!"tr:{name}:{before}>{layoutTag s.c r}"
    if ret == "P" then s.fail s!"{name}: implementation panicked, model returned {b} on {src}"
    else if !okd then s.fail s!"{name}: model consumed a different number of draws than the implementation ({src})"
    else if (ret == "1") != b then s.fail s!"{name}: return value: model {b} impl {ret} on {src}"
    else if !(irMatches s.c.codec (parseIR irt) r) then
      s.fail s!"{name}: representation differs; before {src} model {showR s.c.codec r} impl {irt.take 50}"
    else if capacity r ≤ 160 && len r ≤ 300 && !(wfB s.c r && absB s.c r) then
      s.fail s!"{name}: the representation invariant WF does not hold for {showR s.c.codec r}"
    else pure ((s.set dst r).bump (if capacity r ≤ 160 && len r ≤ 300 then "wf:checked" else "wf:skipped-large"))

def cmpList (s : St) (name : String) (model : List Nat) (impl : List Nat) : IO St :=
  if model == impl then pure (s.bump s!"op:{name}")
  else s.fail s!"{name}: sequence differs; model {model.take 40} impl {impl.take 40}"

def cmpIter (s : St) (name : String) (res : Except IErr (Option Nat)) (impl : String) : IO St :=
  match res with
  | .error _ => if impl == "P" then pure (s.bump s!"op:{name}:panic") else s.fail s!"{name}: model error, impl {impl}"
  | .ok v => if optStr v == impl then pure (s.bump s!"op:{name}") else s.fail s!"{name}: model {optStr v} impl {impl}"

/-- `Fits64` of the generated model: (to_u64 of the raw pattern, from_u64 of that, as raw pattern) -/
def fitsModel (ty : String) (raw : Nat) : Option (Nat × Option Nat) :=
  match ty with
  | "u8" => let e := Gen.to_u64_u8 (BitVec.ofNat 8 raw); some (e.toNat, some (Gen.from_u64_u8 e).toNat)
  | "u16" => let e := Gen.to_u64_u16 (BitVec.ofNat 16 raw); some (e.toNat, some (Gen.from_u64_u16 e).toNat)
  | "u32" => let e := Gen.to_u64_u32 (BitVec.ofNat 32 raw); some (e.toNat, some (Gen.from_u64_u32 e).toNat)
  | "u64" => let e := Gen.to_u64_u64 (BitVec.ofNat 64 raw); some (e.toNat, some (Gen.from_u64_u64 e).toNat)
  | "usize" => let e := Gen.to_u64_usize (BitVec.ofNat 64 raw); some (e.toNat, some (Gen.from_u64_usize e).toNat)
  | "i8" => let e := Gen.to_u64_i8 (BitVec.ofNat 8 raw); some (e.toNat, some (Gen.from_u64_i8 e).toNat)
  | "i16" => let e := Gen.to_u64_i16 (BitVec.ofNat 16 raw); some (e.toNat, some (Gen.from_u64_i16 e).toNat)
  | "i32" => let e := Gen.to_u64_i32 (BitVec.ofNat 32 raw); some (e.toNat, some (Gen.from_u64_i32 e).toNat)
  | "i64" => let e := Gen.to_u64_i64 (BitVec.ofNat 64 raw); some (e.toNat, some (Gen.from_u64_i64 e).toNat)
  | "isize" => let e := Gen.to_u64_isize (BitVec.ofNat 64 raw); some (e.toNat, some (Gen.from_u64_isize e).toNat)
  | "char" => let e := Gen.to_u64_char (BitVec.ofNat 32 raw); some (e.toNat, (Gen.from_u64_char e).map (·.toNat))
  | _ => none

def step (s : St) (line : String) : IO St := do
  let s := { s with line := s.line + 1 }
  let toks := (line.splitOn " ").filter (· ≠ "")
  match toks with
  | [] => pure s
  | ["cfg", w, mode] =>
    pure { s with c := (if w == "32" then cfg32 else cfg64), mode := mode }
  | ["hist", name] =>
    pure { s with hist := name, hists := s.hists + 1, skip := false, sets := Array.replicate 32 .empty }
  | ["seed", v] => pure { s with seed := v.toNat! }
  | _ =>
  if s.skip then pure s else
  let s := { s with steps := s.steps + 1 }
  let c := s.c
  let N := String.toNat!
  match toks with
  | "plf" :: off :: k :: n :: rest =>
    let ws := (toks2nats (rest.take (N n))).toArray
    let got := match RH.lookfor (N k) ws (N off) with
      | .empty i => ["0", toString i] | .found i => ["1", toString i] | .needInsert => ["2", "0"]
    if got == rest.drop (N n) then pure (s.bump "op:plf") else s.fail s!"p_lookfor {k} off {off} on {ws}: model {got} impl {rest.drop (N n)}"
  | "prm" :: off :: k :: n :: rest =>
    let ws := (toks2nats (rest.take (N n))).toArray
    let (b, a') := RH.premove (N k) ws (N off)
    let want := (if b then "1" else "0") :: a'.toList.map toString
    if want == rest.drop (N n) then pure (s.bump "op:prm") else s.fail s!"p_remove {k} off {off} on {ws}: model {want} impl {rest.drop (N n)}"
  | "pin" :: off :: k :: n :: rest =>
    let ws := (toks2nats (rest.take (N n))).toArray
    match RH.pinsert (N k) ws (N off) with
    | .ok (i, a') =>
      let want := toString i :: a'.toList.map toString
      if want == rest.drop (N n) then pure (s.bump "op:pin") else s.fail s!"p_insert {k} off {off} on {ws}: model {want} impl {rest.drop (N n)}"
    | .error _ => s.fail s!"p_insert {k} off {off} on {ws}: model error"
  | ["cab", x, b] =>
    if c.cab (N x) == N b then pure (s.bump "op:cab") else s.fail s!"compute_array_bits {x}: model {c.cab (N x)} impl {b}"
  | "tnew" :: n :: rest =>
    let v := toks2nats (rest.take (N n))
    let want := match TinyC.newSortedDeduped c.codec v with | some t => toString (TinyC.toWord c.codec t) | none => "none"
    if [want] == rest.drop (N n) then pure (s.bump "op:tnew") else s.fail s!"Tiny::new {v}: model {want} impl {rest.drop (N n)}"
  | ["tcon", w, e, b] =>
    let t := TinyC.ofWord c.codec (N w)
    if (TinyC.contains c.codec t (N e)) == (b == "1") then pure (s.bump "op:tcon") else s.fail s!"Tiny::contains word {w} value {e}: impl {b}"
  | ["tins", w, e, r] =>
    let t := TinyC.ofWord c.codec (N w)
    let want := match TinyC.insert c.codec t (N e) with | some t' => toString (TinyC.toWord c.codec t') | none => "none"
    if want == r then pure (s.bump "op:tins") else s.fail s!"Tiny::insert word {w} value {e}: model {want} impl {r}"
  | ["fits", ty, raw, enc] =>
    match fitsModel ty (N raw) with
    | none => s.fail s!"fits: unknown type {ty}"
    | some (e, back) =>
      if e != N enc then s.fail s!"fits {ty}: to_u64 of bit pattern {raw}: model {e} impl {enc}"
      else if back != some (N raw) then s.fail s!"fits {ty}: model from_u64(to_u64({raw})) = {back}"
      else pure (s.bump s!"op:fits:{ty}")
  | ["new", i] => pure (s.set (N i) .empty)
  | ["drop", i] => pure (s.set (N i) .empty)
  | "drop" :: i :: "A" :: evs =>
    let want := (dropE c (s.get (N i))).map (showEv c)
    if want == evs then pure (((s.set (N i) .empty).bump "alloc-events:lines").bump "op:drop")
    else s.fail s!"drop: allocator calls differ; model {want} impl {evs} on {showR c.codec (s.get (N i))}"
  | "wcb" :: i :: cap :: bits :: rest =>
    let (pre, ds, ir) := splitDR rest
    s.runSetE "wcb" (N i) (do let r ← withCapBits c uRng (N cap) (N bits); pure (r, allocEv c r)) (toks2nats ds) ir (splitA pre).2
  | "wcm" :: i :: cap :: mx :: rest =>
    let (pre, ds, ir) := splitDR rest
    s.runSetE "wcm" (N i) (do let r ← withCapMax c uRng (N cap) (N mx); pure (r, allocEv c r)) (toks2nats ds) ir (splitA pre).2
  | "wco" :: i :: j :: rest =>
    let (pre, _, ir) := splitDR rest
    s.runSetE "wco" (N i) (pure (withCapOfE c (s.get (N j)))) [] ir (splitA pre).2
  | "clone" :: i :: j :: rest =>
    let (pre, _, ir) := splitDR rest
    s.runSetE "clone" (N i) (pure (cloneE c (s.get (N j)))) [] ir (splitA pre).2
  | "clonefrom" :: i :: j :: rest =>
    -- `dst.clone_from(&src)` with `dst` the set slot i holds: `*dst = src.clone()` (the default implementation)
    let (pre, _, ir) := splitDR rest
    let (r, t) := cloneE c (s.get (N j))
    s.runSetE "clonefrom" (N i) (pure (r, t ++ dropE c (s.get (N i)))) [] ir (splitA pre).2
  | "ins" :: i :: v :: ret :: rest =>
    let (pre, ds, ir) := splitDR rest
    s.runRet "ins" (N i) (insertE c (c.W == 64) uRng FUEL (s.get (N i)) (N v)) ret (toks2nats ds) ir (splitA pre).2
  | "flt" :: i :: v :: n :: rest =>
    -- failure states of an insert: what `*self` holds at each zeroed request (Model/Fault.lean)
    let (_, ds, ir) := splitDR rest
    let r0 := s.get (N i)
    match insertT c (c.W == 64) uRng FUEL r0 (N v) (s.rs (toks2nats ds)) with
    | .error _ => s.fail s!"flt: model error on {showR c.codec r0}"
    | .ok ((_, tr), d) =>
      -- the harness restores the generator state after every faulted run: do not advance the model's
      let okd := (s.after d).2
      let groups := (ir.foldl (fun (acc : List (List String)) t =>
        if t == "|" then [] :: acc else match acc with | g :: r => (g ++ [t]) :: r | [] => [[t]]) [[]]).reverse
      let groups := groups.filter (fun g => !g.isEmpty)
      if !okd then s.fail s!"flt: model consumed a different number of draws than the implementation ({showR c.codec r0})"
      else if tr.length != N n then
        s.fail s!"flt: insert({v}) on {showR c.codec r0}: model requests {tr.length} zeroed blocks, implementation {n}"
      else if groups.length != tr.length then s.fail "flt: malformed line"
      else
        match (groups.zip tr).find? (fun (g, r) => !(irMatches c.codec (parseIR g) r)) with
        | some (g, r) => s.fail s!"flt: insert({v}) on {showR c.codec r0}: after a failed request the set is {g.take 50}, model {showR c.codec r}"
        | none => pure ((s.bump "op:flt").bump s!"flt:requests:{tr.length}:{layoutTag c r0}")
  | "flx" :: i :: nv :: rest =>
    -- failure states of an extend (insert loop on `*self`)
    let (pre, ds, ir) := splitDR rest
    let xs := toks2nats (pre.take (N nv))
    let n := (pre.drop (N nv)).headD "0"
    let r0 := s.get (N i)
    match extendT c (c.W == 64) uRng FUEL r0 xs (s.rs (toks2nats ds)) with
    | .error _ => s.fail s!"flx: model error on {showR c.codec r0}"
    | .ok ((_, tr), d) =>
      let okd := (s.after d).2
      let groups := (ir.foldl (fun (acc : List (List String)) t =>
        if t == "|" then [] :: acc else match acc with | g :: r => (g ++ [t]) :: r | [] => [[t]]) [[]]).reverse
      let groups := groups.filter (fun g => !g.isEmpty)
      if !okd then s.fail s!"flx: model consumed a different number of draws than the implementation ({showR c.codec r0})"
      else if tr.length != N n then
        s.fail s!"flx: extend({xs}) on {showR c.codec r0}: model requests {tr.length} zeroed blocks, implementation {n}"
      else if groups.length != tr.length then s.fail "flx: malformed line"
      else
        match (groups.zip tr).find? (fun (g, r) => !(irMatches c.codec (parseIR g) r)) with
        | some (g, r) => s.fail s!"flx: extend({xs}) on {showR c.codec r0}: after a failed request the set is {g.take 50}, model {showR c.codec r}"
        | none => pure ((s.bump "op:flx").bump s!"flx:requests:{tr.length}")
  | "rem" :: i :: v :: ret :: rest =>
    let (pre, ds, ir) := splitDR rest
    s.runRet "rem" (N i) (removeE c (c.W == 64) uRng FUEL (s.get (N i)) (N v)) ret (toks2nats ds) ir (splitA pre).2
  | ["con", i, v, ret] =>
    let b := contains c (s.get (N i)) (N v)
    if b == (ret == "1") then pure (s.bump s!"op:con:{layoutTag c (s.get (N i))}")
    else s.fail s!"con {v}: model {b} impl {ret} on {showR c.codec (s.get (N i))}"
  | ["len", i, n] =>
    if len (s.get (N i)) == N n then pure (s.bump "op:len") else s.fail s!"len: model {len (s.get (N i))} impl {n}"
  | ["cap", i, n] =>
    if capacity (s.get (N i)) == N n then pure (s.bump "op:cap") else s.fail s!"capacity: model {capacity (s.get (N i))} impl {n}"
  | ["mem", i, n] =>
    if memUsed c (s.get (N i)) == N n then pure (s.bump "op:mem") else s.fail s!"mem_used: model {memUsed c (s.get (N i))} impl {n}"
  | "col" :: i :: n :: rest =>
    let (pre, ds, ir) := splitDR rest
    let (pre, aimpl) := splitA pre
    let xs := toks2nats pre
    if xs.length != N n then s.fail "col: malformed line" else
    s.runSetE "col" (N i) (fromIterE c (c.W == 64) uRng FUEL xs) (toks2nats ds) ir aimpl
  | "ext" :: i :: n :: rest =>
    let (pre, ds, ir) := splitDR rest
    let (pre, aimpl) := splitA pre
    let xs := toks2nats pre
    if xs.length != N n then s.fail "ext: malformed line" else
    s.runSetE "ext" (N i) (extendE c (c.W == 64) uRng FUEL (s.get (N i)) xs) (toks2nats ds) ir aimpl (showR c.codec (s.get (N i)))
  | "iter" :: i :: _n :: xs => cmpList s s!"iter:{layoutTag c (s.get (N i))}" (elems c (s.get (N i))) (toks2nats xs)
  | "drain" :: i :: _n :: rest =>
    let (pre, _, ir) := splitDR rest
    let (pre, aimpl) := splitA pre
    let (r', items) := drain c (s.get (N i))
    let want := (dropE c (s.get (N i))).map (showEv c)
    if aimpl.isSome && aimpl != some want then
      s.fail s!"drain: allocator calls differ; model {want} impl {aimpl.getD []} on {showR c.codec (s.get (N i))}"
    else
    if items != toks2nats pre then s.fail s!"drain: items differ; model {items.take 40} impl {pre.take 40}"
    else if !(irMatches c.codec (parseIR ir) r') then s.fail s!"drain: set not empty afterwards: impl {ir.take 10}"
    else pure ((s.set (N i) r').bump "op:drain")
  | "nexts" :: i :: pos :: _n :: xs =>
    -- a cursor advanced `pos` times, then drained by `next` (also one `next` past the end)
    let r := s.get (N i)
    match advance c r (N pos) (cursorOf r) with
    | .error _ => s.fail "nexts: model cursor error"
    | .ok k =>
      match drainFrom c r (len r + 2) k with
      | .error _ => s.fail "nexts: model cursor error"
      | .ok l => cmpList s s!"nexts:{layoutTag c r}" l (toks2nats xs)
  | ["sc", i, pos, kind, res] =>
    let r := s.get (N i)
    match advance c r (N pos) (cursorOf r) with
    | .error _ => s.fail "sc: model cursor error"
    | .ok k =>
      let nm := s!"sc:{kind}:{layoutTag c r}"
      match kind with
      | "min" => cmpIter s nm (SC.min c r k) res
      | "max" => cmpIter s nm (SC.max c r k) res
      | "last" => cmpIter s nm (SC.last c r k) res
      | "count" => cmpIter s nm (.ok (some (count k))) res
      | "hint" => cmpIter s nm (.ok (some (sizeHint k).1)) res
      | _ => s.fail "sc: unknown kind"
  | ["eq", i, j, ret] =>
    let b := eqSet c (s.get (N i)) (s.get (N j))
    if b == (ret == "1") then pure (s.bump "op:eq") else s.fail s!"eq: model {b} impl {ret}"
  | ["eq64", i, j, ret] =>
    let b := eqSet64 c (s.get (N i)) (s.get (N j))
    if b == (ret == "1") then pure (s.bump "op:eq64") else s.fail s!"eq64: model {b} impl {ret}"
  | "uni" :: k :: i :: j :: form :: rest =>
    let (pre, ds, ir) := splitDR rest
    -- the by-value form is called on a clone of the left operand (one more request)
    let act : M RS (Rp × List Ev) :=
      if form == "own" then do
        let (r, t) ← unionOwnE c (c.W == 64) uRng FUEL (s.get (N i)) (s.get (N j))
        pure (r, allocEv c (clone (s.get (N i))) ++ t)
      else if form == "ref64u" then do let r ← unionRef64 c uRng FUEL (s.get (N i)) (s.get (N j)); pure (r, [])
      else unionRefE c (c.W == 64) uRng FUEL (s.get (N i)) (s.get (N j))
    s.runSetE s!"uni:{form}" (N k) act (toks2nats ds) ir (if form == "ref64u" then none else (splitA pre).2)
  | "dif" :: k :: i :: j :: form :: rest =>
    let (pre, ds, ir) := splitDR rest
    let act : M RS (Rp × List Ev) :=
      if form == "own" then do
        let (r, t) ← diffOwnE c (c.W == 64) uRng FUEL (s.get (N i)) (s.get (N j))
        pure (r, allocEv c (clone (s.get (N i))) ++ t)
      else if form == "ref64" then do let r ← diffRef64 c uRng FUEL (s.get (N i)) (s.get (N j)); pure (r, [])
      else diffRefE c (c.W == 64) uRng FUEL (s.get (N i)) (s.get (N j))
    s.runSetE s!"dif:{form}" (N k) act (toks2nats ds) ir (if form == "ref64" then none else (splitA pre).2)
  | "dbg" :: i :: name :: rest =>
    let want := debugStr c name (s.get (N i))
    let got := " ".intercalate (name :: rest)
    if want == got then pure (s.bump "op:dbg") else s.fail s!"Debug: model {want.take 120} impl {got.take 120}"
  | "hash" :: i :: _n :: xs => cmpList s "hash" (hashInput c (s.get (N i))) (toks2nats xs)
  | "toarr" :: i :: _n :: xs => cmpList s s!"toarr:{layoutTag c (s.get (N i))}" (toArray c (s.get (N i))) (toks2nats xs)
  | "fromarr" :: k :: n :: rest =>
    let (pre, ds, ir) := splitDR rest
    let xs := toks2nats pre
    if xs.length != N n then s.fail "fromarr: malformed line" else
    s.runSet "fromarr" (N k) (fromArray c uRng xs) (toks2nats ds) ir
  | _ => s.fail s!"unknown line: {line.take 60}"

partial def loop (h : IO.FS.Stream) (s : St) : IO St := do
  let line ← h.getLine
  if line.isEmpty then return s
  let s ← step s (line.trimAscii.toString)
  loop h s

def main : IO UInt32 := do
  let s ← loop (← IO.getStdin) {}
  for (k, n) in s.stats do IO.println s!"STAT {k} {n}"
  IO.println s!"SUMMARY histories={s.hists} steps={s.steps} lines={s.line} mismatches={s.bad}"
  return (if s.bad == 0 then 0 else 1)
