import TinysetModel.Model.Ops
/-! The allocator calls the crate itself makes, as a third reading of the operations.

The crate obtains memory in exactly four places — `alloc_zeroed(layout_for_capacity(cap))` in
`with_capacity_and_bits`, `dense_with_max`, `Clone::clone` and `with_capacity_of` —, releases it in one —
`Drop::drop`: `dealloc(ptr, layout_for_capacity(header cap))` —, and resizes it in one —
`SetU32::dense_increase_mx`: `realloc(ptr, layout_for_capacity(old cap), bytes_for_capacity(new cap))`.
(`Vec` temporaries of `collect`, of the narrowing rebuild and of the inline `remove` belong to `std` and are
not part of this reading.)  This file says, for every operation, which of those calls are made, with which
byte sizes and in which program order (`Ev`); where the Rust code assigns `*self = new` the old value is
dropped at that point, i.e. its block is released AFTER the new one was obtained and filled.

`Proofs/AllocProj.lean`: forgetting the events gives back `insert`/`remove`/… (the same run);
`Proofs/AllocBalance.lean`: the event sequence of every operation, history and program over several sets is
balanced — every release names a live block with the size it was requested with, the live blocks after the
operation are exactly the blocks of the live sets, nothing is live once every set is dropped.
The harness records the real calls (size, alignment, kind, in order) per operation; the driver compares
them with this reading (`A` section of a trace line). -/
namespace SC
open RH (Tbl get put)

inductive Ev
  | alloc (bytes : Nat)        -- alloc_zeroed(layout_for_capacity(cap))
  | free (bytes : Nat)         -- dealloc(ptr, layout_for_capacity(cap))
  | realloc (old new : Nat)    -- realloc(ptr, layout_for_capacity(oldcap), bytes_for_capacity(cap))
deriving DecidableEq, Repr

abbrev InsE (D : Type) := Rp → Nat → M D ((Rp × Bool) × List Ev)

/-- the functions of `setu64.rs` / `setu32.rs` that call the allocator directly, in source order: the sites
    this reading accounts for (`Proofs/Consts.lean` proves the current source has exactly these) -/
def allocSites (fresh : Bool) : List (String × String) :=
  [("clone", "alloc_zeroed"), ("with_capacity_of", "alloc_zeroed")] ++
  (if fresh then [] else [("dense_increase_mx", "realloc")]) ++
  [("dense_with_max", "alloc_zeroed"), ("with_capacity_and_bits", "alloc_zeroed"), ("drop", "dealloc")]

section
variable (c : Cfg) (fresh : Bool) {D : Type} (g : Rng D)

/-- alignment passed with every request and release (`layout_for_capacity`) -/
def alignBytes : Nat := c.W / 8

/-- the request made when a value that owns a block is created -/
def allocEv : Rp → List Ev
  | .heap _ cap _ _ => [.alloc (bytesFor c cap)]
  | _ => []

/-- the release made when a value is dropped (`Drop::drop` reads the capacity from the header) -/
def freeEv : Rp → List Ev
  | .heap _ cap _ _ => [.free (bytesFor c cap)]
  | _ => []

def insertAllE (rec : InsE D) (r : Rp) (xs : List Nat) : M D (Rp × List Ev) :=
  xs.foldlM (fun (acc : Rp × List Ev) x => do
    let ((r', _), t) ← rec acc.1 x
    pure (r', acc.2 ++ t)) (r, [])

/-- `let mut new = ..; for x in self.iter() { new.insert(x) }; new.insert(e); *self = new`
    (and `*self = new; for x in t { self.insert(x) }; self.insert(e)` when the old value is inline and
    owns nothing): the new block is requested first, the old one released last -/
def rebuildE (rec : InsE D) (new old : Rp) (e : Nat) : M D ((Rp × Bool) × List Ev) := do
  let (new1, t1) ← insertAllE rec new (elems c old)
  let ((new2, _), t2) ← rec new1 e
  pure ((new2, true), allocEv c new ++ (t1 ++ t2) ++ freeEv c old)

def insertDenseE (rec : InsE D) (sz cap : Nat) (a : Tbl) (e : Nat) : M D ((Rp × Bool) × List Ev) :=
  let self : Rp := .heap sz cap c.W a
  let key := e >>> c.dShift
  if key < cap then
    let w := get a key
    let present := w.testBit (e % c.W)
    pure ((.heap (if present then sz else sz + 1) cap c.W (put a key (w ||| (1 <<< (e % c.W)))), !present), [])
  else if e >>> c.capShift > sz then do
    let new ← withCapBits c g (c.sparseCap sz) (c.cab e)
    rebuildE c rec new self e
  else
    let ncap := c.denseGrow e
    let na : Tbl := Array.replicate ncap 0
    let na := (List.range cap).foldl (fun acc i => put acc i (get a i)) na
    pure ((.heap (sz + 1) ncap c.W (put na key (1 <<< (e % c.W))), true),
      if fresh then [.alloc (bytesFor c ncap), .free (bytesFor c cap)]
      else [.realloc (bytesFor c cap) (bytesFor c ncap)])

def insertPlainE (sz cap bits : Nat) (a : Tbl) (e : Nat) : M D ((Rp × Bool) × List Ev) := do
  let (a, bits) ← (if e = bits then do
      let (hadZero, a1) := RH.premove bits a 0
      let r ← drawM c g cap bits
      match scanUp c a1.toList e (a1.size + c.W + 3) r with
      | none => fail .scan
      | some i =>
        if hadZero then do
          let a2 ← placeRaw i a1
          pure (a2, i)
        else pure (a1, i)
    else pure (a, bits) : M D (Tbl × Nat))
  let e' := if e = 0 then bits else e
  match RH.lookfor e' a 0 with
  | .found _ => pure ((.heap sz cap bits a, false), [])
  | _ =>
    match tablePlace c e' e' 0 a with
    | some a' => pure ((.heap (sz + 1) cap bits a', true), [])
    | none => do
      let r ← drawM c g cap bits
      let newcap := cap + 1 + c.growExtra cap + (r % c.bigMod cap)
      let na : Tbl := Array.replicate newcap 0
      let na ← (a.toList.filter (· ≠ 0)).foldlM (fun t v => placeRaw v t) na
      let na ← placeRaw e' na
      pure ((.heap (sz + 1) newcap bits na, true), [.alloc (bytesFor c newcap), .free (bytesFor c cap)])

def insertBitmapE (rec : InsE D) (sz cap bits : Nat) (a : Tbl) (e : Nat) : M D ((Rp × Bool) × List Ev) :=
  let self : Rp := .heap sz cap bits a
  if c.cab e < bits then do
    let newbits := c.cab e
    let r ← drawM c g cap bits
    let keys := sortDedup ((elems c self).map (· / (Max.max newbits 1)))
    let needed := keys.length + 1
    let new ← withCapBits c g (needed + 1 + c.narrowExtra needed + c.narrowMul * (r % needed)) newbits
    rebuildE c rec new self e
  else
    let key := e / bits
    let off := e % bits
    let word := modW c (key <<< bits) ||| (1 <<< off)
    match RH.lookfor key a bits with
    | .found idx =>
      let w := get a idx
      if w.testBit off then pure ((self, false), [])
      else pure ((.heap (sz + 1) cap bits (put a idx (w ||| (1 <<< off))), true), [])
    | _ =>
      match tablePlace c key word bits a with
      | some a' => pure ((.heap (sz + 1) cap bits a', true), [])
      | none =>
        let mx0 := (a.toList.map (fun x => (x >>> bits) * bits + bits)).foldl Max.max 0
        let mx := if e > mx0 then e else mx0
        if cap > mx >>> 6 then
          rebuildE c rec (denseWithMax c mx) self e
        else do
          let r ← drawM c g cap bits
          let new ← withCapBits c g (cap + 1 + c.growExtra cap + (r % cap)) bits
          rebuildE c rec new self e

def insertStepE (rec : InsE D) : InsE D
  | .empty, e =>
    match TinyC.newSortedDeduped c.codec [e] with
    | some t => pure ((.stack t, true), [])
    | none => do
      let r ← withCapMax c g 1 e
      let (res, t) ← rec r e
      pure (res, allocEv c r ++ t)
  | .stack t, e =>
    match TinyC.insert c.codec t e with
    | some t' => pure ((.stack t', t'.sz != t.sz), [])
    | none => do
      let mx0 := (t.members c.codec).getLast?.getD 0
      let mx := if e > mx0 then e else mx0
      let r ← withCapMax c g (t.sz + 1) mx
      rebuildE c rec r (.stack t) e
  | .heap sz cap bits a, e =>
    if isDense c bits then insertDenseE c fresh g rec sz cap a e
    else if isPlain c bits then insertPlainE c g sz cap bits a e
    else insertBitmapE c g rec sz cap bits a e

def insertE : Nat → InsE D
  | 0 => fun _ _ => fail .fuel
  | fuel + 1 => insertStepE c fresh g (insertE fuel)

/-- `extend`: the insert loop on `*self` -/
def extendE (fuel : Nat) (r : Rp) (xs : List Nat) : M D (Rp × List Ev) := insertAllE (insertE c fresh g fuel) r xs

/-- a fresh set `s` (whose request is the first event) filled by an insert loop -/
def fillE (fuel : Nat) (s : Rp) (v : List Nat) : M D (Rp × List Ev) := do
  let (r, t) ← insertAllE (insertE c fresh g fuel) s v
  pure (r, allocEv c s ++ t)

def fromIterSortedE (fuel : Nat) (v : List Nat) : M D (Rp × List Ev) :=
  match v.getLast? with
  | none => pure (.empty, [])
  | some mx =>
    match TinyC.newSortedDeduped c.codec v with
    | some t => pure (.stack t, [])
    | none =>
      if v.length > mx >>> 4 then do
        let s ← withCapMax c g v.length mx
        fillE c fresh g fuel s v
      else
        let bits := c.cab mx
        if bits = 0 then do
          let s ← withCapBits c g v.length bits
          fillE c fresh g fuel s v
        else do
          let keys := (v.map (· / bits)).eraseDups
          let s ← withCapBits c g ((keys.length + 1) * 11 / 10) bits
          fillE c fresh g fuel s v

def fromIterE (fuel : Nat) (v : List Nat) : M D (Rp × List Ev) := fromIterSortedE c fresh g fuel (sortDedup v)

/-- `remove` never resizes a block; an inline set is rebuilt by `collect()` (which stays inline) -/
def removeE (fuel : Nat) : Rp → Nat → M D ((Rp × Bool) × List Ev)
  | .stack t, e =>
    if (t.members c.codec).contains e then
      if t.sz - 1 = 0 then pure ((.empty, true), [])
      else do
        let (r, evs) ← fromIterSortedE c fresh g fuel ((t.members c.codec).filter (· ≠ e))
        pure ((r, true), evs)
    else pure ((.stack t, false), [])
  | r, e => do
    let res ← remove c g fuel r e
    pure (res, [])

def removeAllE (fuel : Nat) (r : Rp) (xs : List Nat) : M D (Rp × List Ev) :=
  xs.foldlM (fun (acc : Rp × List Ev) x => do
    let ((r', _), t) ← removeE c fresh g fuel acc.1 x
    pure (r', acc.2 ++ t)) (r, [])

/-- `Clone::clone`, `with_capacity_of`: one request iff the source owns a block -/
def cloneE (r : Rp) : Rp × List Ev := (clone r, allocEv c (clone r))
def withCapOfE (r : Rp) : Rp × List Ev := (withCapOf r, allocEv c (withCapOf r))
/-- dropping a set, a consuming iterator or a drain iterator (whatever its position) -/
def dropE (r : Rp) : List Ev := freeEv c r

/-- `&a | &b` -/
def unionRefE (fuel : Nat) (a b : Rp) : M D (Rp × List Ev) := do
  let s := if len a > len b then withCapOf a else withCapOf b
  let (s1, t1) ← extendE c fresh g fuel s (elems c a)
  let (s2, t2) ← extendE c fresh g fuel s1 (elems c b)
  pure (s2, allocEv c s ++ (t1 ++ t2))
/-- `a | &b` (consumes `a`, whose block becomes the result's) -/
def unionOwnE (fuel : Nat) (a b : Rp) : M D (Rp × List Ev) := extendE c fresh g fuel a (elems c b)
/-- `&a - &b` -/
def diffRefE (fuel : Nat) (a b : Rp) : M D (Rp × List Ev) := do
  let s := withCapOf a
  let (s1, t1) ← extendE c fresh g fuel s ((elems c a).filter (fun v => !contains c b v))
  pure (s1, allocEv c s ++ t1)
/-- `a - &b` -/
def diffOwnE (fuel : Nat) (a b : Rp) : M D (Rp × List Ev) := removeAllE c fresh g fuel a (elems c b)

end

/-! ### the allocator's side: a ledger of live blocks (their sizes) -/

/-- one allocator call against the ledger of live block sizes; `none`: the call names a block that is not
    live with that size (double free, wrong size, use of a dangling block) -/
def applyEv (L : List Nat) : Ev → Option (List Nat)
  | .alloc b => some (b :: L)
  | .free b => if b ∈ L then some (L.erase b) else none
  | .realloc o n => if o ∈ L then some (n :: L.erase o) else none

def runEv : List Nat → List Ev → Option (List Nat)
  | L, [] => some L
  | L, ev :: evs => match applyEv L ev with
    | some L' => runEv L' evs
    | none => none

/-- the block a value owns -/
def owned (c : Cfg) : Rp → List Nat
  | .heap _ cap _ _ => [bytesFor c cap]
  | _ => []

/-! ### programs over several simultaneously live sets -/

/-- operations of a program over numbered sets (slot `i`); a slot that was never assigned or was dropped holds
    the empty word.  Assigning to a slot drops the value it held (after the new value has been computed). -/
inductive POp
  | ins (i e : Nat) | rem (i e : Nat) | ext (i : Nat) (xs : List Nat) | col (i : Nat) (xs : List Nat)
  | clone (i j : Nat) | wco (i j : Nat) | wcb (i cap bits : Nat) | wcm (i cap mx : Nat)
  | drop (i : Nat)                 -- a set, or the consuming / draining iterator made from it, goes away
  | uniRef (k i j : Nat) | difRef (k i j : Nat)      -- `&a | &b`, `&a - &b` into slot k
  | uniOwn (k i j : Nat) | difOwn (k i j : Nat)      -- `a | &b`, `a - &b`: slot i is consumed, result into slot k

abbrev Slots := List Rp
def Slots.get (s : Slots) (i : Nat) : Rp := s.getD i .empty

section
variable (c : Cfg) (fresh : Bool) {D : Type} (g : Rng D) (fuel : Nat)

/-- assign `r` to slot `k`: the value held there is dropped -/
def assign (s : Slots) (k : Nat) (r : Rp) : Slots × List Ev := (s.set k r, freeEv c (s.get k))

/-- the slots an operation names -/
def POp.idx : POp → List Nat
  | .ins i _ | .rem i _ | .ext i _ | .col i _ | .wcb i _ _ | .wcm i _ _ | .drop i => [i]
  | .clone i j | .wco i j => [i, j]
  | .uniRef k i j | .difRef k i j | .uniOwn k i j | .difOwn k i j => [k, i, j]

def pstepCore (s : Slots) : POp → M D (Slots × List Ev)
  | .ins i e => do
    let ((r, _), t) ← insertE c fresh g fuel (s.get i) e
    pure (s.set i r, t)
  | .rem i e => do
    let ((r, _), t) ← removeE c fresh g fuel (s.get i) e
    pure (s.set i r, t)
  | .ext i xs => do
    let (r, t) ← extendE c fresh g fuel (s.get i) xs
    pure (s.set i r, t)
  | .col i xs => do
    let (r, t) ← fromIterE c fresh g fuel xs
    let (s', t') := assign c s i r
    pure (s', t ++ t')
  | .clone i j =>
    let (r, t) := cloneE c (s.get j)
    let (s', t') := assign c s i r
    pure (s', t ++ t')
  | .wco i j =>
    let (r, t) := withCapOfE c (s.get j)
    let (s', t') := assign c s i r
    pure (s', t ++ t')
  | .wcb i cap bits => do
    let r ← withCapBits c g cap bits
    let (s', t') := assign c s i r
    pure (s', allocEv c r ++ t')
  | .wcm i cap mx => do
    let r ← withCapMax c g cap mx
    let (s', t') := assign c s i r
    pure (s', allocEv c r ++ t')
  | .drop i => pure (s.set i .empty, dropE c (s.get i))
  | .uniRef k i j => do
    let (r, t) ← unionRefE c fresh g fuel (s.get i) (s.get j)
    let (s', t') := assign c s k r
    pure (s', t ++ t')
  | .difRef k i j => do
    let (r, t) ← diffRefE c fresh g fuel (s.get i) (s.get j)
    let (s', t') := assign c s k r
    pure (s', t ++ t')
  | .uniOwn k i j =>
    if i = j then pure (s, []) else do       -- `a | &a` does not borrow-check
    let (r, t) ← unionOwnE c fresh g fuel (s.get i) (s.get j)
    let (s', t') := assign c (s.set i .empty) k r
    pure (s', t ++ t')
  | .difOwn k i j =>
    if i = j then pure (s, []) else do
    let (r, t) ← diffOwnE c fresh g fuel (s.get i) (s.get j)
    let (s', t') := assign c (s.set i .empty) k r
    pure (s', t ++ t')

/-- an operation that names a slot the program does not have is skipped -/
def pstep (s : Slots) (op : POp) : M D (Slots × List Ev) :=
  if op.idx.all (· < s.length) then pstepCore c fresh g fuel s op else pure (s, [])

def prun (s : Slots) : List POp → M D (Slots × List Ev)
  | [] => pure (s, [])
  | op :: ops => do
    let (s1, t1) ← pstep c fresh g fuel s op
    let (s2, t2) ← prun s1 ops
    pure (s2, t1 ++ t2)

/-- every set of the program goes out of scope -/
def dropAll (s : Slots) : List Ev := s.flatMap (dropE c)

def ownedAll (s : Slots) : List Nat := s.flatMap (owned c)

end
end SC
