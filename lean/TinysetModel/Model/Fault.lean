import TinysetModel.Model.Set
/-! What `*self` holds whenever `insert` asks the allocator for a (zeroed) block.

The functional model returns a new value, so it cannot say what the Rust code has already written into
`*self` at the moment an allocation fails and the operation unwinds.  This file adds exactly that: a second
reading of `SetU64::insert` / `SetU32::insert` that returns, next to the result, the list of values `*self`
holds at each request for a block, in program order (`Tr`).  Element k of the list is what a caller finds
after catching the panic of a failed k-th request.  The assignment order is read off the source:

* `Empty`/`Stack` that no longer fit the word: `*self = with_capacity_and_max(..)` is assigned FIRST and then
  refilled through `self.insert(x)` — nested requests would see the partially refilled set (`rebuildSelfT`);
* every other rebuild builds `let mut new = ..; new.insert(x)..; *self = new` — `*self` is untouched until the
  end, whatever `new.insert` requests (`rebuildLocalT`);
* the plain table re-chooses its placeholder IN PLACE before it may have to grow;
* dense growth: a fresh block for SetU64 (`fresh = true`), `realloc` in place for SetU32 (`fresh = false`, no
  zeroed request; failure aborts through the allocation-error handler instead of unwinding).

The harness fails the k-th zeroed request of an insert, catches the panic and sends the representation it
finds; the driver compares it with element k (`flt` lines), and the number of requests with the length. -/
namespace SC
open RH (Tbl get put)

abbrev Tr := List Rp
abbrev InsT (D : Type) := Rp → Nat → M D ((Rp × Bool) × Tr)

section
variable (c : Cfg) (fresh : Bool) {D : Type} (g : Rng D)

/-- `with_capacity_and_bits(cap, _)` requests a block iff `cap > 0` -/
def reqWCB (self : Rp) (cap : Nat) : Tr := if cap > 0 then [self] else []

/-- `with_capacity_and_max(cap, mx)`: `dense_with_max` always requests one -/
def reqWCM (self : Rp) (cap mx : Nat) : Tr := if cap > mx >>> c.capShift then [self] else reqWCB self cap

def insertAllT (rec : InsT D) (r : Rp) (xs : List Nat) : M D (Rp × Tr) :=
  xs.foldlM (fun (acc : Rp × Tr) x => do
    let ((r', _), t) ← rec acc.1 x
    pure (r', acc.2 ++ t)) (r, [])

/-- `let mut new = ..; for x in self.iter() { new.insert(x) }; new.insert(e); *self = new` -/
def rebuildLocalT (rec : InsT D) (new old : Rp) (e : Nat) : M D ((Rp × Bool) × Tr) := do
  let (new, t1) ← insertAllT rec new (elems c old)
  let ((new, _), t2) ← rec new e
  pure ((new, true), (t1 ++ t2).map (fun _ => old))

/-- `*self = new; for x in t { self.insert(x) }; self.insert(e)` -/
def rebuildSelfT (rec : InsT D) (new old : Rp) (e : Nat) : M D ((Rp × Bool) × Tr) := do
  let (new, t1) ← insertAllT rec new (elems c old)
  let ((new, _), t2) ← rec new e
  pure ((new, true), t1 ++ t2)

def insertDenseT (rec : InsT D) (sz cap : Nat) (a : Tbl) (e : Nat) : M D ((Rp × Bool) × Tr) :=
  let self : Rp := .heap sz cap c.W a
  let key := e >>> c.dShift
  if key < cap then
    let w := get a key
    let present := w.testBit (e % c.W)
    pure ((.heap (if present then sz else sz + 1) cap c.W (put a key (w ||| (1 <<< (e % c.W)))), !present), [])
  else if e >>> c.capShift > sz then do
    let new ← withCapBits c g (c.sparseCap sz) (c.cab e)
    let (res, t) ← rebuildLocalT c rec new self e
    pure (res, reqWCB self (c.sparseCap sz) ++ t)
  else
    let ncap := c.denseGrow e
    let na : Tbl := Array.replicate ncap 0
    let na := (List.range cap).foldl (fun acc i => put acc i (get a i)) na
    pure ((.heap (sz + 1) ncap c.W (put na key (1 <<< (e % c.W))), true), if fresh then [self] else [])

def insertPlainT (sz cap bits : Nat) (a : Tbl) (e : Nat) : M D ((Rp × Bool) × Tr) := do
  let (a, bits) ← (if e = bits then do
      let (hadZero, a1) := RH.premove bits a 0
      let r ← drawM c g cap bits
      match scanUp c a1.toList e (a1.size + c.W + 3) r with
      | none => fail .scan
      | some i =>
        if hadZero then do
          let a2 ← placeRaw i a1
          pure (a2, i)
        else pure (a1, i)
    else pure (a, bits) : M D (Tbl × Nat))
  let e' := if e = 0 then bits else e
  match RH.lookfor e' a 0 with
  | .found _ => pure ((.heap sz cap bits a, false), [])
  | _ =>
    match tablePlace c e' e' 0 a with
    | some a' => pure ((.heap (sz + 1) cap bits a', true), [])
    | none => do
      let r ← drawM c g cap bits
      let newcap := cap + 1 + c.growExtra cap + (r % c.bigMod cap)
      let na : Tbl := Array.replicate newcap 0
      let na ← (a.toList.filter (· ≠ 0)).foldlM (fun t v => placeRaw v t) na
      let na ← placeRaw e' na
      -- the request is made with the placeholder already re-chosen in place
      pure ((.heap (sz + 1) newcap bits na, true), reqWCB (.heap sz cap bits a) newcap)

def insertBitmapT (rec : InsT D) (sz cap bits : Nat) (a : Tbl) (e : Nat) : M D ((Rp × Bool) × Tr) :=
  let self : Rp := .heap sz cap bits a
  if c.cab e < bits then do
    let newbits := c.cab e
    let r ← drawM c g cap bits
    let keys := sortDedup ((elems c self).map (· / (max newbits 1)))
    let needed := keys.length + 1
    let ncap := needed + 1 + c.narrowExtra needed + c.narrowMul * (r % needed)
    let new ← withCapBits c g ncap newbits
    let (res, t) ← rebuildLocalT c rec new self e
    pure (res, reqWCB self ncap ++ t)
  else
    let key := e / bits
    let off := e % bits
    let word := modW c (key <<< bits) ||| (1 <<< off)
    match RH.lookfor key a bits with
    | .found idx =>
      let w := get a idx
      if w.testBit off then pure ((self, false), [])
      else pure ((.heap (sz + 1) cap bits (put a idx (w ||| (1 <<< off))), true), [])
    | _ =>
      match tablePlace c key word bits a with
      | some a' => pure ((.heap (sz + 1) cap bits a', true), [])
      | none =>
        let mx0 := (a.toList.map (fun x => (x >>> bits) * bits + bits)).foldl max 0
        let mx := if e > mx0 then e else mx0
        if cap > mx >>> 6 then do
          let (res, t) ← rebuildLocalT c rec (denseWithMax c mx) self e
          pure (res, self :: t)
        else do
          let r ← drawM c g cap bits
          let ncap := cap + 1 + c.growExtra cap + (r % cap)
          let new ← withCapBits c g ncap bits
          let (res, t) ← rebuildLocalT c rec new self e
          pure (res, reqWCB self ncap ++ t)

def insertStepT (rec : InsT D) : InsT D
  | .empty, e =>
    match TinyC.newSortedDeduped c.codec [e] with
    | some t => pure ((.stack t, true), [])
    | none => do
      let r ← withCapMax c g 1 e
      let (res, t) ← rec r e
      pure (res, reqWCM c .empty 1 e ++ t)
  | .stack t, e =>
    match TinyC.insert c.codec t e with
    | some t' => pure ((.stack t', t'.sz != t.sz), [])
    | none => do
      let mx0 := (t.members c.codec).getLast?.getD 0
      let mx := if e > mx0 then e else mx0
      let r ← withCapMax c g (t.sz + 1) mx
      let (res, tr) ← rebuildSelfT c rec r (.stack t) e
      pure (res, reqWCM c (.stack t) (t.sz + 1) mx ++ tr)
  | .heap sz cap bits a, e =>
    if isDense c bits then insertDenseT c fresh g rec sz cap a e
    else if isPlain c bits then insertPlainT c g sz cap bits a e
    else insertBitmapT c g rec sz cap bits a e

def insertT : Nat → InsT D
  | 0 => fun _ _ => fail .fuel
  | fuel + 1 => insertStepT c fresh g (insertT fuel)

/-- `extend` is the insert loop on `*self`: a failed request inside the k-th insert leaves what the first k-1
    inserts built (with that insert's own failure state) -/
def extendT (fuel : Nat) (r : Rp) (xs : List Nat) : M D (Rp × Tr) := insertAllT (insertT c fresh g fuel) r xs

end
end SC
