/-! Inline codec, parametric in the width table (`splits`) and the maximum count. -/
namespace TinyC

def log2 (x : Nat) : Nat := if x = 0 then 1 else Nat.log2 x + 1

def unpack : List Nat → Nat → List Nat
  | [], _ => []
  | w :: ws, bits => (bits % 2 ^ w) :: unpack ws (bits / 2 ^ w)

def pack : List Nat → List Nat → Nat
  | w :: ws, v :: vs => v + 2 ^ w * pack ws vs
  | _, _ => 0

def membersFrom (last : Nat) : List Nat → List Nat
  | [] => []
  | f :: fs => (last + 1 + f) :: membersFrom (last + 1 + f) fs
def members : List Nat → List Nat
  | [] => []
  | f :: fs => f :: membersFrom f fs

def fieldsFrom (last : Nat) : List Nat → List Nat
  | [] => []
  | x :: xs => (x - last - 1) :: fieldsFrom x xs
def fields : List Nat → List Nat
  | [] => []
  | x :: xs => x :: fieldsFrom x xs

structure T where
  sz : Nat
  bits : Nat
deriving DecidableEq, Repr

structure Codec where
  splits : List (List Nat)
  maxN : Nat
  enc : Nat → Nat        -- count ↦ low three bits
  dec : Nat → Nat        -- low three bits ↦ count

def codec64 : Codec :=
  { splits := [[], [61], [40, 21], [31, 15, 15], [25, 12, 12, 12], [21, 10, 10, 10, 10],
               [21, 8, 8, 8, 8, 8], [19, 7, 7, 7, 7, 7, 7]],
    maxN := 7, enc := fun n => n, dec := fun x => x }
def codec32 : Codec :=
  { splits := [[], [31], [31, 30], [31, 15, 15], [25, 12, 12, 12], [21, 10, 10, 10, 10],
               [21, 8, 8, 8, 8, 8]],
    maxN := 6, enc := fun n => if n ≥ 4 then n + 1 else n,
    dec := fun x => (x % 4) + (x / 4) * 3 }

variable (c : Codec)

def widths (n : Nat) : List Nat := c.splits.getD n []
def T.fields (t : T) : List Nat := unpack (widths c t.sz) t.bits
def T.members (t : T) : List Nat := TinyC.members (t.fields c)

def fitAll : List Nat → List Nat → Bool
  | w :: ws, v :: vs => log2 v ≤ w && fitAll ws vs
  | _, _ => true

def newSortedDeduped (v : List Nat) : Option T :=
  if v.length = 0 ∨ v.length > c.maxN then none
  else
    let ws := widths c v.length
    let fs := fields v
    if fitAll ws fs then some ⟨v.length, pack ws fs⟩ else none

def searchRest : List Nat → Nat → Bool
  | [], _ => false
  | n :: fs, e => if n = e then true else if e < n then false else searchRest fs (e - (n + 1))

def shiftRest : List Nat → List Nat → List Nat → Option (List Nat)
  | [], [], acc => some acc
  | newb :: nw, n :: fs, acc => if log2 n > newb then none else shiftRest nw fs (acc ++ [n])
  | _, _, _ => none

inductive Res | same | none | new (fields : List Nat)
deriving DecidableEq, Repr

def go : List Nat → List Nat → Nat → List Nat → Res
  | [newb], [], e, acc => if log2 e > newb then .none else .new (acc ++ [e])
  | newb :: nw, n :: fs, e, acc =>
    if e = n then .same
    else if log2 n > newb then
      (if e < n then .none else if searchRest fs (e - (n + 1)) then .same else .none)
    else if e < n then
      match nw with
      | newb2 :: nw' =>
        if log2 (n - e - 1) > newb2 then .none
        else match shiftRest nw' fs (acc ++ [e, n - e - 1]) with
          | some r => .new r
          | none => .none
      | [] => .none
    else go nw fs (e - (n + 1)) (acc ++ [n])
  | _, _, _, _ => .none

def insert (t : T) (e : Nat) : Option T :=
  if t.sz + 1 ≤ c.maxN then
    let nw := widths c (t.sz + 1)
    match go nw (t.fields c) e [] with
    | .same => some t
    | .none => none
    | .new fs => some ⟨t.sz + 1, pack nw fs⟩
  else if (t.members c).contains e then some t else none

def contains (t : T) (e : Nat) : Bool :=
  let rec loop : List Nat → Nat → Bool
    | [], _ => false
    | n :: fs, e => if e = n then true else if e < n then false else loop fs (e - (n + 1))
  loop (t.fields c) e

def toWord (t : T) : Nat := c.enc t.sz ||| (t.bits <<< 3)
def ofWord (x : Nat) : T := ⟨c.dec (x % 8), x >>> 3⟩

end TinyC
