namespace RH

/-- circular distance from home `h` to index `i` (both < n) -/
def dist (n h i : Nat) : Nat := if h ≤ i then i - h else i + n - h

def pov (k i n : Nat) : Nat := ((i % n) + n - (k % n)) % n

theorem pov_eq_dist {k i n : Nat} (hi : i < n) : pov k i n = dist n (k % n) i := by
  have hn : 0 < n := by omega
  have hk : k % n < n := Nat.mod_lt _ hn
  unfold pov dist
  rw [Nat.mod_eq_of_lt hi]
  split
  · rename_i h
    have : i + n - k % n = (i - k % n) + n := by omega
    rw [this, Nat.add_mod_right, Nat.mod_eq_of_lt]; omega
  · rename_i h
    rw [Nat.mod_eq_of_lt]; omega

def slot (n h p : Nat) : Nat := (h + p) % n
def next (n i : Nat) : Nat := (i + 1) % n
def prev (n i : Nat) : Nat := if i = 0 then n - 1 else i - 1

theorem slot_lt {n h p : Nat} (hn : 0 < n) : slot n h p < n := Nat.mod_lt _ hn

theorem slot_eq {n h p : Nat} (hh : h < n) (hp : p < n) :
    slot n h p = if h + p < n then h + p else h + p - n := by
  unfold slot
  split
  · rw [Nat.mod_eq_of_lt]; assumption
  · rw [Nat.mod_eq_sub_mod (by omega), Nat.mod_eq_of_lt]; omega

theorem next_eq {n i : Nat} (hi : i < n) : next n i = if i + 1 < n then i + 1 else 0 := by
  unfold next
  split
  · rw [Nat.mod_eq_of_lt]; assumption
  · have : i + 1 = n := by omega
    rw [this, Nat.mod_self]

theorem dist_slot {n h p : Nat} (hh : h < n) (hp : p < n) : dist n h (slot n h p) = p := by
  rw [slot_eq hh hp]; unfold dist; split <;> split <;> omega

theorem prev_slot {n h p : Nat} (hh : h < n) (hp : p + 1 < n) :
    prev n (slot n h (p+1)) = slot n h p := by
  rw [slot_eq hh (by omega), slot_eq hh (by omega)]
  unfold prev; split <;> split <;> split <;> omega

theorem slot_dist {n h i : Nat} (hh : h < n) (hi : i < n) : slot n h (dist n h i) = i := by
  have : dist n h i < n := by unfold dist; split <;> omega
  rw [slot_eq hh this]; unfold dist; split <;> split <;> omega

theorem dist_lt {n h i : Nat} (hh : h < n) (hi : i < n) : dist n h i < n := by
  unfold dist; split <;> omega

end RH
