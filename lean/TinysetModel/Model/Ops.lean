import TinysetModel.Model.Iter
/-! The rest of the public surface, written on top of `insert / remove / contains / elems`:
`capacity`, `mem_used`, `clone`, `with_capacity_of`, `drain`, `extend`, `==`, `|`, `-`,
`Hash` input, compactserde `to_array / from_array`. -/
namespace SC

section
variable (c : Cfg) {D : Type} (g : Rng D)

def capacity : Rp → Nat
  | .heap _ cap _ _ => cap
  | _ => 0

/-- bytes of one element / of the header (three header words) -/
def elemBytes : Nat := c.W / 8
def headerBytes : Nat := if c.W = 64 then 24 else 12
/-- `bytes_for_capacity` -/
def bytesFor (cap : Nat) : Nat := cap * elemBytes c + headerBytes c
def wordBytes : Nat := 8     -- size_of::<Self>() on the 64-bit target

/-- bytes of the heap block a representation owns -/
def blockBytes : Rp → Nat
  | .heap _ cap _ _ => bytesFor c cap
  | _ => 0

def memUsed (r : Rp) : Nat := wordBytes + blockBytes c r

/-- `Clone`: a bit-for-bit copy of the block (in the functional model: the same value) -/
def clone (r : Rp) : Rp := r

/-- `with_capacity_of` -/
def withCapOf : Rp → Rp
  | .heap _ cap bits _ => .heap 0 cap bits (Array.replicate cap 0)
  | _ => .empty

/-- `drain`: the set becomes empty at once; the items are what `into_iter` of the old value yields -/
def drain (r : Rp) : Rp × List Nat := (.empty, elems c r)

/-- `extend` / insert loops -/
def extend (fuel : Nat) (r : Rp) (xs : List Nat) : M D Rp := insertAll (insert c g fuel) r xs

def removeAll (fuel : Nat) (r : Rp) (xs : List Nat) : M D Rp :=
  xs.foldlM (fun r x => do let (r', _) ← remove c g fuel r x; pure r') r

/-- `PartialEq::eq` of the untyped sets: lengths, then every member of `a` is in `b` -/
def eqSet (a b : Rp) : Bool := len a == len b && (elems c a).all (contains c b)
/-- `Set64::eq` iterates the other operand -/
def eqSet64 (a b : Rp) : Bool := len a == len b && (elems c b).all (contains c a)

/-- `&a | &b` -/
def unionRef (fuel : Nat) (a b : Rp) : M D Rp := do
  let s := if len a > len b then withCapOf a else withCapOf b
  let s ← extend c g fuel s (elems c a)
  extend c g fuel s (elems c b)
/-- `a | &b` -/
def unionOwn (fuel : Nat) (a b : Rp) : M D Rp := extend c g fuel a (elems c b)
/-- `&a - &b` -/
def diffRef (fuel : Nat) (a b : Rp) : M D Rp :=
  extend c g fuel (withCapOf a) ((elems c a).filter (fun v => !contains c b v))
/-- `a - &b` -/
def diffOwn (fuel : Nat) (a b : Rp) : M D Rp := removeAll c g fuel a (elems c b)
/-- `&a - &b` for `Set64` (starts from `new()`) -/
def diffRef64 (fuel : Nat) (a b : Rp) : M D Rp :=
  extend c g fuel .empty ((elems c a).filter (fun v => !contains c b v))

/-- `&a | &b` for `Set64` (starts from `new()`) -/
def unionRef64 (fuel : Nat) (a b : Rp) : M D Rp := do
  let s ← extend c g fuel .empty (elems c a)
  extend c g fuel s (elems c b)

/-- what `Set64::hash` feeds the hasher: the sorted encoded members -/
def hashInput (r : Rp) : List Nat := ((elems c r).toArray.qsort (· < ·)).toList

/-- `Debug`: the type name and the `Vec` of what `iter()` yields (`write!(f, "SetU64 {:?}", self.iter().collect::<Vec<_>>())`) -/
def debugStr (name : String) (r : Rp) : String := name ++ " " ++ toString (elems c r)

/-- the tagged word of an inline / empty representation -/
def wordOf : Rp → Nat
  | .empty => 0
  | .stack t => TinyC.toWord c.codec t
  | .heap _ _ _ _ => 0

/-- compactserde `to_array` (u64: one word for inline; u32: the 64-bit word as two halves) -/
def toArray (r : Rp) : List Nat :=
  match r with
  | .heap sz _ bits a => sz :: bits :: a.toList
  | _ => if c.W = 64 then [wordOf c r] else [wordOf c r % 2 ^ 32, wordOf c r >>> 32]

def ofWord (w : Nat) : Rp := if w = 0 then .empty else .stack (TinyC.ofWord c.codec w)

/-- compactserde `from_array` -/
def fromArray (v : List Nat) : M D Rp :=
  let inlineLen := if c.W = 64 then 1 else 2
  if v.length > inlineLen then do
    let cap := v.length - 2
    let s ← withCapBits c g cap (v.getD 1 0)
    match s with
    | .heap _ cap' bits' a =>
      let a' := (List.range (Nat.min cap cap')).foldl (fun acc i => RH.put acc i (v.getD (i + 2) 0)) a
      if isDense c bits' then pure (.heap (v.getD 0 0) cap' bits' a')
      else pure (.heap (v.getD 0 0) cap' (v.getD 1 0) a')
    | _ => fail .unreachable
  else
    if c.W = 64 then pure (ofWord c (v.getD 0 0))
    else pure (ofWord c (v.getD 0 0 ||| (v.getD 1 0 <<< 32)))

end

/-- the time-seeded fallback generator (`--no-default-features`): SplitMix64 over a counter.
    State = the counter `SEED`.  A zero counter reseeds from the clock, which the model cannot
    know: it is an explicit error here and the harness keeps the counter non-zero. -/
def splitmix (z : Nat) : Nat :=
  let m := 2 ^ 64
  let z1 := ((z ^^^ (z >>> 30)) * 0xbf58476d1ce4e5b9) % m
  let z2 := ((z1 ^^^ (z1 >>> 27)) * 0x94d049bb133111eb) % m
  z2 ^^^ (z2 >>> 31)

def splitmixRng : Rng Nat :=
  { draw := fun seed _ _ => (splitmix seed, (seed + 0x9e3779b97f4a7c15) % 2 ^ 64) }

/-- scripted draws: the state is the list of values still to be handed out
    (an exhausted script hands out 0; the driver checks the script was long enough) -/
def scriptRng : Rng (List Nat) :=
  { draw := fun s _ _ => match s with | [] => (0, []) | x :: xs => (x, xs) }

end SC
