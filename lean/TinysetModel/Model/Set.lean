import TinysetModel.Model.Tiny
import TinysetModel.Model.RH
/-! One model for `SetU64` and `SetU32` (repaired code), parametric in `Cfg` and in the RNG oracle. -/
namespace SC
open RH (Tbl get put)

structure Cfg where
  W : Nat                    -- element width in bits (64 | 32)
  codec : TinyC.Codec
  capShift : Nat             -- dense at creation iff cap > mx >>> capShift   (7 | 5)
  dShift : Nat               -- dense word index = e >>> dShift               (6 | 5)
  denseCap : Nat → Nat       -- `dense_with_max`
  denseGrow : Nat → Nat      -- dense growth capacity for out-of-range e
  sparseCap : Nat → Nat      -- capacity of the sparse fallback, from sz
  roomShift : Option Nat     -- none: "some bucket empty"; some k: "more than len >>> k empty"
  narrowExtra : Nat → Nat    -- slack added to the narrowed table (from `needed`)
  narrowMul : Nat            -- multiplier of the random part when narrowing (2 | 1)
  bigMod : Nat → Nat         -- modulus of the random part when the plain table grows
  growExtra : Nat → Nat      -- slack added when a full table is regrown (0 | cap / 8)
  cab : Nat → Nat            -- `compute_array_bits`

def log2 := TinyC.log2

def cfg64 : Cfg :=
  { W := 64, codec := TinyC.codec64, capShift := 7, dShift := 6,
    denseCap := fun mx => 1 + mx / 64 + mx / 256,
    denseGrow := fun e => 1 + (e >>> 6) + (e >>> 6) / 4,
    sparseCap := fun sz => 2 * (sz + 1),
    roomShift := none, narrowExtra := fun _ => 0, narrowMul := 2,
    bigMod := fun cap => 2 * cap, growExtra := fun _ => 0,
    cab := fun mx => if log2 mx < 2 then 62 else if log2 mx > 62 then 0 else 64 - log2 mx }

def cfg32 : Cfg :=
  { W := 32, codec := TinyC.codec32, capShift := 5, dShift := 5,
    denseCap := fun mx => 1 + mx / 32 + mx / 128,
    denseGrow := fun e => 1 + e / 32 + e / 128,
    sparseCap := fun sz => 1 + 2 * sz,
    roomShift := some 4, narrowExtra := fun needed => needed / 8, narrowMul := 1,
    bigMod := fun cap => cap, growExtra := fun cap => cap / 8,
    cab := fun mx => if log2 mx < 2 then 62 else if log2 mx > 62 then 0 else 32 - log2 mx }

/-- the library's random source: any state type, any function -/
structure Rng (D : Type) where
  draw : D → Nat → Nat → Nat × D      -- state, cap, bits ↦ value, state'

inductive Rp
  | empty
  | stack (t : TinyC.T)
  | heap (sz cap bits : Nat) (a : Tbl)

inductive Err | fuel | overflow | unreachable | noRoom | scan
deriving DecidableEq

abbrev M (D : Type) := StateT D (Except Err)

section
variable (c : Cfg) {D : Type} (g : Rng D)

def modW (x : Nat) : Nat := x % 2 ^ c.W

def drawM (cap bits : Nat) : M D Nat := fun d =>
  let (v, d') := g.draw d cap bits
  .ok (modW c v, d')

def fail {α : Type} (e : Err) : M D α := fun _ => .error e

def isPlain (bits : Nat) : Bool := bits = 0 ∨ bits > c.W
def isDense (bits : Nat) : Bool := bits = c.W

def withCapBits (cap bits : Nat) : M D Rp := do
  if cap > 0 then
    if bits = 0 then
      let b ← drawM c g cap 0
      pure (.heap 0 cap (if b ≤ c.W then b + c.W + 1 else b) (Array.replicate cap 0))
    else pure (.heap 0 cap bits (Array.replicate cap 0))
  else pure .empty

def denseWithMax (mx : Nat) : Rp :=
  .heap 0 (c.denseCap mx) c.W (Array.replicate (c.denseCap mx) 0)

def withCapMax (cap mx : Nat) : M D Rp :=
  if cap > mx >>> c.capShift then pure (denseWithMax c mx) else withCapBits c g cap (c.cab mx)

def bitsOf (w nbits : Nat) : List Nat := (List.range nbits).filter (fun b => w.testBit b)

/-- iteration order -/
def elems : Rp → List Nat
  | .empty => []
  | .stack t => t.members c.codec
  | .heap _ _ bits a =>
    if isPlain c bits then
      (a.toList.filter (· ≠ 0)).map (fun x => if x = bits then 0 else x)
    else if isDense c bits then
      (a.toList.zipIdx).flatMap (fun (w, i) => (bitsOf w c.W).map (fun b => i * c.W + b))
    else
      a.toList.flatMap (fun w => (bitsOf w bits).map (fun b => (w >>> bits) * bits + b))

def hasRoom (a : Tbl) : Bool :=
  match c.roomShift with
  | none => a.toList.any (· == 0)
  | some k => (a.toList.filter (· == 0)).length > a.size >>> k

/-- place a new word `w` with key `k` when `p_lookfor` did not find the key:
    directly into the `EmptySpot`, or through `p_insert` if the table "has room";
    `none` means the caller has to grow -/
def tablePlace (k w off : Nat) (a : Tbl) : Option Tbl :=
  match RH.lookfor k a off with
  | .found _ => none
  | .empty idx => some (put a idx w)
  | .needInsert =>
    if hasRoom c a then
      match RH.pinsert k a off with
      | .ok (idx, a') => some (put a' idx w)
      | .error _ => none
    else none

abbrev Ins (D : Type) := Rp → Nat → M D (Rp × Bool)

def insertAll (rec : Ins D) (r : Rp) (xs : List Nat) : M D Rp :=
  xs.foldlM (fun r x => do let (r', _) ← rec r x; pure r') r

def rebuild (rec : Ins D) (new old : Rp) (e : Nat) : M D (Rp × Bool) := do
  let new ← insertAll rec new (elems c old)
  let (new, _) ← rec new e
  pure (new, true)

def placeRaw (v : Nat) (t : Tbl) : M D Tbl :=
  match RH.pinsert v t 0 with
  | .ok (idx, t') => pure (put t' idx v)
  | .error _ => fail .noRoom

/-- the repaired re-pick: one draw, then scan upward (wrapping) -/
def scanUp (a : List Nat) (e : Nat) : (fuel i : Nat) → Option Nat
  | 0, _ => none
  | f + 1, i => if i ≤ c.W ∨ i = e ∨ a.contains i then scanUp a e f ((i + 1) % 2 ^ c.W) else some i

def sortDedup (l : List Nat) : List Nat := (l.toArray.qsort (· < ·)).toList.eraseDups

def insertDense (rec : Ins D) (sz cap : Nat) (a : Tbl) (e : Nat) : M D (Rp × Bool) :=
  let key := e >>> c.dShift
  if key < cap then
    let w := get a key
    let present := w.testBit (e % c.W)
    pure (.heap (if present then sz else sz + 1) cap c.W (put a key (w ||| (1 <<< (e % c.W)))), !present)
  else if e >>> c.capShift > sz then do
    let new ← withCapBits c g (c.sparseCap sz) (c.cab e)
    rebuild c rec new (.heap sz cap c.W a) e
  else
    let ncap := c.denseGrow e
    let na : Tbl := Array.replicate ncap 0
    let na := (List.range cap).foldl (fun acc i => put acc i (get a i)) na
    pure (.heap (sz + 1) ncap c.W (put na key (1 <<< (e % c.W))), true)

def insertPlain (sz cap bits : Nat) (a : Tbl) (e : Nat) : M D (Rp × Bool) := do
  let (a, bits) ← (if e = bits then do
      let (hadZero, a1) := RH.premove bits a 0
      let r ← drawM c g cap bits
      match scanUp c a1.toList e (a1.size + c.W + 3) r with
      | none => fail .scan
      | some i =>
        if hadZero then do
          let a2 ← placeRaw i a1
          pure (a2, i)
        else pure (a1, i)
    else pure (a, bits) : M D (Tbl × Nat))
  let e' := if e = 0 then bits else e
  match RH.lookfor e' a 0 with
  | .found _ => pure (.heap sz cap bits a, false)
  | _ =>
    match tablePlace c e' e' 0 a with
    | some a' => pure (.heap (sz + 1) cap bits a', true)
    | none => do
      let r ← drawM c g cap bits
      let newcap := cap + 1 + c.growExtra cap + (r % c.bigMod cap)
      let na : Tbl := Array.replicate newcap 0
      let na ← (a.toList.filter (· ≠ 0)).foldlM (fun t v => placeRaw v t) na
      let na ← placeRaw e' na
      pure (.heap (sz + 1) newcap bits na, true)

def insertBitmap (rec : Ins D) (sz cap bits : Nat) (a : Tbl) (e : Nat) : M D (Rp × Bool) :=
  if c.cab e < bits then do
    let newbits := c.cab e
    let r ← drawM c g cap bits
    let keys := sortDedup ((elems c (.heap sz cap bits a)).map (· / (max newbits 1)))
    let needed := keys.length + 1
    let new ← withCapBits c g (needed + 1 + c.narrowExtra needed + c.narrowMul * (r % needed)) newbits
    rebuild c rec new (.heap sz cap bits a) e
  else
    let key := e / bits
    let off := e % bits
    let word := modW c (key <<< bits) ||| (1 <<< off)
    match RH.lookfor key a bits with
    | .found idx =>
      let w := get a idx
      if w.testBit off then pure (.heap sz cap bits a, false)
      else pure (.heap (sz + 1) cap bits (put a idx (w ||| (1 <<< off))), true)
    | _ =>
      match tablePlace c key word bits a with
      | some a' => pure (.heap (sz + 1) cap bits a', true)
      | none =>
        let mx0 := (a.toList.map (fun x => (x >>> bits) * bits + bits)).foldl max 0
        let mx := if e > mx0 then e else mx0
        if cap > mx >>> 6 then
          rebuild c rec (denseWithMax c mx) (.heap sz cap bits a) e
        else do
          let r ← drawM c g cap bits
          let new ← withCapBits c g (cap + 1 + c.growExtra cap + (r % cap)) bits
          rebuild c rec new (.heap sz cap bits a) e

def insertStep (rec : Ins D) : Ins D
  | .empty, e =>
    match TinyC.newSortedDeduped c.codec [e] with
    | some t => pure (.stack t, true)
    | none => do
      let r ← withCapMax c g 1 e
      rec r e
  | .stack t, e =>
    match TinyC.insert c.codec t e with
    | some t' => pure (.stack t', t'.sz != t.sz)
    | none => do
      let mx0 := (t.members c.codec).getLast?.getD 0
      let mx := if e > mx0 then e else mx0
      let r ← withCapMax c g (t.sz + 1) mx
      rebuild c rec r (.stack t) e
  | .heap sz cap bits a, e =>
    if isDense c bits then insertDense c g rec sz cap a e
    else if isPlain c bits then insertPlain c g sz cap bits a e
    else insertBitmap c g rec sz cap bits a e

def insert : Nat → Ins D
  | 0 => fun _ _ => fail .fuel
  | fuel + 1 => insertStep c g (insert fuel)

def fromIterSorted (fuel : Nat) (v : List Nat) : M D Rp :=   -- v sorted and deduplicated
  match v.getLast? with
  | none => pure .empty
  | some mx =>
    match TinyC.newSortedDeduped c.codec v with
    | some t => pure (.stack t)
    | none =>
      if v.length > mx >>> 4 then do
        let s ← withCapMax c g v.length mx
        insertAll (insert c g fuel) s v
      else
        let bits := c.cab mx
        if bits = 0 then do
          let s ← withCapBits c g v.length bits
          insertAll (insert c g fuel) s v
        else do
          let keys := (v.map (· / bits)).eraseDups
          let s ← withCapBits c g ((keys.length + 1) * 11 / 10) bits
          insertAll (insert c g fuel) s v

def fromIter (fuel : Nat) (v : List Nat) : M D Rp := fromIterSorted c g fuel (sortDedup v)

def clearBit (w off : Nat) : Nat := w &&& (2 ^ c.W - 1 - (1 <<< off))

def remove (fuel : Nat) : Rp → Nat → M D (Rp × Bool)
  | .empty, _ => pure (.empty, false)
  | .stack t, e =>
    if (t.members c.codec).contains e then
      if t.sz - 1 = 0 then pure (.empty, true)
      else do
        let r ← fromIterSorted c g fuel ((t.members c.codec).filter (· ≠ e))
        pure (r, true)
    else pure (.stack t, false)
  | .heap sz cap bits a, e =>
    if isDense c bits then
      let key := e >>> c.dShift
      if key < cap then
        let w := get a key
        let present := w.testBit (e % c.W)
        pure (.heap (if present then sz - 1 else sz) cap bits (put a key (clearBit c w (e % c.W))), present)
      else pure (.heap sz cap bits a, false)
    else if isPlain c bits then
      if e = bits then pure (.heap sz cap bits a, false)
      else
        let e' := if e = 0 then bits else e
        let (had, a') := RH.premove e' a 0
        pure (.heap (if had then sz - 1 else sz) cap bits a', had)
    else
      if c.cab e < bits then pure (.heap sz cap bits a, false)
      else
        let key := e / bits
        let off := e % bits
        match RH.lookfor key a bits with
        | .found idx =>
          let w := get a idx
          if w.testBit off then
            let newa := clearBit c w off
            if newa = modW c (key <<< bits) then
              pure (.heap (sz - 1) cap bits (RH.premove key a bits).2, true)
            else pure (.heap (sz - 1) cap bits (put a idx newa), true)
          else pure (.heap sz cap bits a, false)
        | _ => pure (.heap sz cap bits a, false)

def contains : Rp → Nat → Bool
  | .empty, _ => false
  | .stack t, e => TinyC.contains c.codec t e
  | .heap _ cap bits a, e =>
    if isDense c bits then
      let key := e >>> c.dShift
      if key < cap then (get a key).testBit (e % c.W) else false
    else if isPlain c bits then
      if e = bits then false
      else match RH.lookfor (if e = 0 then bits else e) a 0 with | .found _ => true | _ => false
    else
      if c.cab e < bits then false
      else match RH.lookfor (e / bits) a bits with
        | .found idx => (get a idx).testBit (e % bits)
        | _ => false

def len : Rp → Nat
  | .empty => 0
  | .stack t => t.sz
  | .heap sz _ _ _ => sz

end

/-- `deterministic_iteration`: the generator is a pure function of its arguments -/
def detRng : Rng Unit :=
  { draw := fun _ cap bits =>
      (((cap * 9838956529666160483) % 2 ^ 64) ^^^ ((bits * 17253312864001072049) % 2 ^ 64), ()) }

end SC
