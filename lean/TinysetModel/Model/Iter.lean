import TinysetModel.Model.Set
/-! The iterator cursor (`Inner` in `src/setu64/iter.rs`, `src/setu32/iter.rs`):
`next`, `last`, `min`, `max`, `count`, `size_hint`, for a borrowed or owned set.
The cursor never owns or mutates the set, so it is modelled next to an `Rp`. -/
namespace SC

structure Cursor where
  sz : Nat
  szLeft : Nat
  bits : Nat        -- header `bits` (u64: also the inline payload; kept separately below)
  sbits : Nat       -- inline payload being consumed
  whichbit : Nat
  index : Nat
  last : Nat
deriving DecidableEq, Repr

/-- `inner_iter()` -/
def cursorOf : Rp → Cursor
  | .empty => ⟨0, 0, 0, 0, 0, 0, 0⟩
  | .stack t => ⟨t.sz, t.sz, 0, t.bits, 0, 0, 0⟩
  | .heap sz _ bits _ => ⟨sz, sz, bits, 0, 0, 0, 0⟩

inductive IErr | underflow | oob | unwrapNone
deriving DecidableEq, Repr

/-- first set bit of `w` at a position `b` with `from ≤ b < lim` -/
def findBit (w lim : Nat) : (fuel frm : Nat) → Option Nat
  | 0, _ => none
  | f + 1, b => if b < lim then (if w.testBit b then some b else findBit w lim f (b + 1)) else none

section
variable (c : Cfg)

def decLeft (c : Cursor) : Except IErr Cursor :=
  if c.szLeft = 0 then .error .underflow else .ok { c with szLeft := c.szLeft - 1 }

/-- bitmap table: scan buckets from `(index, whichbit)` -/
def nextHeap (a : RH.Tbl) : (fuel : Nat) → Cursor → Except IErr (Option Nat × Cursor)
  | 0, k => .ok (none, k)
  | f + 1, k =>
    if k.index < a.size then
      let x := RH.get a k.index
      match findBit x k.bits (k.bits - k.whichbit) k.whichbit with
      | some b => do
        let k' ← decLeft { k with whichbit := b + 1 }
        pure (some ((x >>> k.bits) * k.bits + b), k')
      | none => nextHeap a f { k with index := k.index + 1, whichbit := 0 }
    else .ok (none, k)

def nextBig (a : RH.Tbl) : (fuel : Nat) → Cursor → Except IErr (Option Nat × Cursor)
  | 0, k => .ok (none, k)
  | f + 1, k =>
    if k.index < a.size then
      let x := RH.get a k.index
      let k1 := { k with index := k.index + 1 }
      if x ≠ 0 then do
        let k' ← decLeft k1
        pure (some (if x = k.bits then 0 else x), k')
      else nextBig a f k1
    else .ok (none, k)

def nextDense (a : RH.Tbl) : (fuel : Nat) → Cursor → Except IErr (Option Nat × Cursor)
  | 0, k => .ok (none, k)
  | f + 1, k =>
    if k.index < a.size then
      let x := RH.get a k.index
      match findBit x c.W (c.W - k.whichbit) k.whichbit with
      | some b => do
        let k' ← decLeft { k with whichbit := b + 1 }
        pure (some (k.index * 2 ^ c.dShift + b), k')
      | none => nextDense a f { k with index := k.index + 1, whichbit := 0 }
    else .ok (none, k)

/-- `Inner::next` -/
def next (r : Rp) (k : Cursor) : Except IErr (Option Nat × Cursor) :=
  match r with
  | .empty => .ok (none, k)
  | .stack _ =>
    if k.szLeft > 0 then
      match (TinyC.widths c.codec k.sz)[k.sz - k.szLeft]? with
      | none => .error .oob
      | some nbits =>
        let difference := k.sbits % 2 ^ nbits
        let last := if k.szLeft = k.sz then difference else k.last + 1 + difference
        .ok (some last, { k with last := last, sbits := k.sbits >>> nbits, szLeft := k.szLeft - 1 })
    else .ok (none, k)
  | .heap _ _ bits a =>
    if isDense c bits then nextDense c a (a.size - k.index + 1) k
    else if isPlain c bits then nextBig a (a.size - k.index + 1) k
    else
      if k.bits > 0 then nextHeap a (a.size - k.index + 1) k
      else if k.index < a.size then do
        let k' ← decLeft { k with index := k.index + 1 }
        pure (some (RH.get a k.index), k')
      else .ok (none, k)

/-- everything `next` still yields (at most `fuel` items) -/
def drainFrom (r : Rp) : (fuel : Nat) → Cursor → Except IErr (List Nat)
  | 0, _ => .ok []
  | f + 1, k =>
    match next c r k with
    | .error e => .error e
    | .ok (none, _) => .ok []
    | .ok (some x, k') =>
      match drainFrom r f k' with
      | .error e => .error e
      | .ok xs => .ok (x :: xs)

/-- index of the highest set bit of `x` (`W-1 - leading_zeros`); `none` for 0 (underflow in the source) -/
def topBit (x : Nat) : Option Nat := if x = 0 then none else some (Nat.log2 x)
/-- `trailing_zeros` of a non-zero word -/
def lowBit (x lim : Nat) : Nat := (findBit x lim lim 0).getD lim

def lastNonzero (a : RH.Tbl) : Option Nat := (a.toList.reverse.filter (· ≠ 0)).head?
def listMin : List Nat → Option Nat
  | [] => none
  | x :: xs => some (xs.foldl min x)
def listMax : List Nat → Option Nat
  | [] => none
  | x :: xs => some (xs.foldl max x)

/-- `Inner::last` -/
def last (r : Rp) (k : Cursor) : Except IErr (Option Nat) :=
  if k.szLeft = 0 then .ok none else
  match r with
  | .empty => .ok none
  | .stack t => .ok (t.members c.codec).getLast?
  | .heap _ _ bits a =>
    if isDense c bits then
      match lastNonzero a with
      | none => .error .oob            -- `a[a.len() - 1 - zero_words]` out of range
      | some w =>
        let zeroWords := (a.toList.reverse.takeWhile (· = 0)).length
        match topBit w with
        | none => .error .underflow
        | some tb => .ok (some ((a.size - 1 - zeroWords) * c.W + tb))
    else if isPlain c bits then
      .ok ((lastNonzero a).map (fun x => if x = k.bits then 0 else x))
    else
      match lastNonzero a with
      | none => .ok none
      | some x =>
        match topBit (x % 2 ^ k.bits) with
        | none => .error .underflow
        | some tb => .ok (some ((x >>> k.bits) * k.bits + tb))

/-- `Inner::min` -/
def min (r : Rp) (k : Cursor) : Except IErr (Option Nat) :=
  if k.szLeft = 0 then .ok none else
  match r with
  | .empty => .ok none
  | .stack _ => (next c r k).map (·.1)
  | .heap _ _ bits a =>
    if isDense c bits then (next c r k).map (·.1)
    else if isPlain c bits then
      .ok (listMin (((a.toList.drop k.index).filter (· ≠ 0)).map (fun x => if x = k.bits then 0 else x)))
    else
      if k.whichbit = 0 then
        match listMin (a.toList.filter (· ≠ 0)) with
        | none => .error .unwrapNone
        | some x => .ok (some ((x >>> k.bits) * k.bits + lowBit x c.W))
      else
        match drainFrom c r (k.szLeft + 1) k with
        | .error e => .error e
        | .ok [] => .error .unwrapNone
        | .ok (x :: xs) => .ok (some (xs.foldl Nat.min x))

/-- `Inner::max` -/
def max (r : Rp) (k : Cursor) : Except IErr (Option Nat) :=
  if k.szLeft = 0 then .ok none else
  match r with
  | .empty => .ok none
  | .stack t => .ok (t.members c.codec).getLast?
  | .heap _ _ bits a =>
    if isDense c bits then last c r k
    else if isPlain c bits then
      .ok (some ((((a.toList.drop k.index).filter (· ≠ 0)).map (fun x => if x = k.bits then 0 else x)).foldl Nat.max 0))
    else
      if k.whichbit = 0 then
        match listMax (a.toList.filter (· ≠ 0)) with
        | none => .error .unwrapNone
        | some x =>
          match topBit (x % 2 ^ k.bits) with
          | none => .error .underflow
          | some tb => .ok (some ((x >>> k.bits) * k.bits + tb))
      else
        match drainFrom c r (k.szLeft + 1) k with
        | .error e => .error e
        | .ok [] => .error .unwrapNone
        | .ok (x :: xs) => .ok (some (xs.foldl Nat.max x))

def count (k : Cursor) : Nat := k.szLeft
def sizeHint (k : Cursor) : Nat × Option Nat := (k.szLeft, some k.szLeft)

/-- advance `n` times -/
def advance (r : Rp) : (n : Nat) → Cursor → Except IErr Cursor
  | 0, k => .ok k
  | n + 1, k =>
    match next c r k with
    | .error e => .error e
    | .ok (_, k') => advance r n k'

end
end SC
