import TinysetModel.Model.RHBasic
namespace RH

abbrev Tbl := Array Nat
@[inline] def get (a : Tbl) (i : Nat) : Nat := a.getD i 0
@[inline] def put (a : Tbl) (i v : Nat) : Tbl := a.setIfInBounds i v

inductive Looked | empty (i : Nat) | found (i : Nat) | needInsert
deriving DecidableEq, Repr

def lookforAux (k : Nat) (a : Tbl) (off n : Nat) : (fuel p : Nat) → Looked
| 0, _ => .needInsert
| fuel+1, p =>
  let ii := slot n (k % n) p
  let w := get a ii
  if w = 0 then .empty ii
  else
    let ki := w >>> off
    if ki = k then .found ii
    else if pov ki ii n < p then .needInsert
    else lookforAux k a off n fuel (p+1)
def lookfor (k : Nat) (a : Tbl) (off : Nat) : Looked := lookforAux k a off a.size a.size 0

inductive Err | noRoom | unreachable deriving DecidableEq, Repr

def cascade (off n stolen : Nat) : (fuel j : Nat) → Tbl → (d pd : Nat) → Except Err Tbl
| 0, _, _, _, _ => .error .noRoom
| fuel+1, j, a, d, pd =>
  let pd := pd + 1
  let jj := slot n stolen j
  let w := get a jj
  if w = 0 then .ok (put a jj d)
  else
    let pk := pov (w >>> off) jj n
    if pk < pd then cascade off n stolen fuel (j+1) (put a jj d) w pk
    else cascade off n stolen fuel (j+1) a d pd

def pinsertAux (k off n : Nat) : (fuel p : Nat) → Tbl → Except Err (Nat × Tbl)
| 0, _, _ => .error .unreachable
| fuel+1, p, a =>
  let ii := slot n (k % n) p
  let w := get a ii
  let ki := w >>> off
  if w = 0 ∨ ki = k then .ok (ii, a)
  else if pov ki ii n < p then
    (cascade off n ii (n-1) 1 (put a ii 0) w (pov ki ii n)).map (fun a' => (ii, a'))
  else pinsertAux k off n fuel (p+1) a
def pinsert (k : Nat) (a : Tbl) (off : Nat) : Except Err (Nat × Tbl) := pinsertAux k off a.size a.size 0 a

def unshift (off n ii : Nat) : (fuel j prevI : Nat) → Tbl → Tbl
| 0, _, _, a => a
| fuel+1, j, prevI, a =>
  let jj := slot n ii j
  let w := get a jj
  if w = 0 ∨ pov (w >>> off) jj n = 0 then a
  else unshift off n ii fuel (j+1) jj (put (put a prevI w) jj 0)

def premoveAux (k off n : Nat) : (fuel i : Nat) → Tbl → Bool × Tbl
| 0, _, a => (false, a)
| fuel+1, i, a =>
  let ii := slot n (k % n) i
  let w := get a ii
  if w = 0 then (false, a)
  else
    let ki := w >>> off
    let iki := ((ii + n) - (ki % n)) % n
    if i > iki then (false, a)
    else if ki = k then (true, unshift off n ii (n-1) 1 ii (put a ii 0))
    else premoveAux k off n fuel (i+1) a
def premove (k : Nat) (a : Tbl) (off : Nat) : Bool × Tbl := premoveAux k off a.size a.size 0 a

/-! executable invariants -/
def occ (a : Tbl) (i : Nat) : Bool := get a i != 0
def P (a : Tbl) (off i : Nat) : Nat := pov (get a i >>> off) i a.size

def invRH (a : Tbl) (off : Nat) : Bool :=
  (List.range a.size).all fun i =>
    !occ a i || P a off i == 0 ||
      (occ a (prev a.size i) && P a off i ≤ P a off (prev a.size i) + 1)
def invDistinct (a : Tbl) (off : Nat) : Bool :=
  (List.range a.size).all fun i => (List.range a.size).all fun j =>
    !occ a i || !occ a j || i == j || (get a i >>> off) != (get a j >>> off)
def inv (a : Tbl) (off : Nat) : Bool := invRH a off && invDistinct a off
def keys (a : Tbl) (off : Nat) : List Nat := (a.toList.filter (· != 0)).map (· >>> off)
def hasZero (a : Tbl) : Bool := a.toList.any (· == 0)

end RH
