import TinysetModel.Model.Ops
/-! Executable version of the representation invariant `WF` (Proofs/WF.lean), evaluated by the
driver on the states reached in validated traces (for tables of moderate size). -/
namespace SC
open RH

def linB (a : Tbl) (off b : Nat) : Bool :=
  (List.range a.size).all fun x => !occ a x || P a off x ≤ dist a.size b x

def cutB (a : Tbl) (off : Nat) : Bool := (List.range a.size).any fun b => linB a off b

def wfB (c : Cfg) : Rp → Bool
  | .empty => true
  | .stack t => 1 ≤ t.sz && t.sz ≤ c.codec.maxN
  | .heap sz cap bits a =>
    let words := a.toList.all (· < 2 ^ c.W)
    let szc := sz == (elems c (.heap sz cap bits a)).length
    if isDense c bits then cap == a.size && 0 < cap && words && szc
    else if isPlain c bits then
      0 < a.size && inv a 0 && cutB a 0 && sz == (a.toList.filter (· ≠ 0)).length && bits != 0 &&
      cap == a.size && c.W < bits && words && bits < 2 ^ c.W
    else
      cap == a.size && 0 < cap && 0 < bits && bits < c.W && inv a bits && cutB a bits &&
      a.toList.all (fun w => w == 0 || (w % 2 ^ bits != 0)) && words &&
      (elems c (.heap sz cap bits a)).all (fun x => bits ≤ c.cab x) && szc

/-- `AbsOK`, executable -/
def absB (c : Cfg) (r : Rp) : Bool :=
  let l := elems c r
  l.eraseDups.length == l.length && len r == l.length && l.all (· < 2 ^ c.W)

end SC
