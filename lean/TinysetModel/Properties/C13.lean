import TinysetModel.Proofs.IterSpec
import TinysetModel.Proofs.CfgInst
/-! C13 — iterator shortcuts (size_hint/count/min/max/last) agree with plain iteration.
`ck` is the cursor after `j` calls of `next` (any `j`, also past the end); `(elems c r).drop j` is
what plain iteration would still yield from there.  The model functions `SC.last/min/max` follow the
layout-specific shortcuts of the Rust code (whole-table scans for a fresh bitmap cursor, `a[index..]`
for the plain table, top bit of the last non-zero word for the dense set, …). -/
namespace C13
open SC

variable {c : Cfg} {r : Rp} {j : Nat} {ck : Cursor}

theorem count_exact (ok : CfgOK c) (wf : WF c r) (h : advance c r j (cursorOf r) = .ok ck) : count ck = ((elems c r).drop j).length :=
  count_after ok wf h
theorem size_hint_exact (ok : CfgOK c) (wf : WF c r) (h : advance c r j (cursorOf r) = .ok ck) :
    sizeHint ck = (((elems c r).drop j).length, some ((elems c r).drop j).length) := sizeHint_after ok wf h
theorem last_agrees (ok : CfgOK c) (wf : WF c r) (h : advance c r j (cursorOf r) = .ok ck) : last c r ck = .ok ((elems c r).drop j).getLast? :=
  last_after ok wf h
theorem min_agrees (ok : CfgOK c) (wf : WF c r) (h : advance c r j (cursorOf r) = .ok ck) : SC.min c r ck = .ok ((elems c r).drop j).min? :=
  min_after ok wf h
theorem max_agrees (ok : CfgOK c) (wf : WF c r) (h : advance c r j (cursorOf r) = .ok ck) : SC.max c r ck = .ok ((elems c r).drop j).max? :=
  max_after ok wf h

/-- the cursor for every position exists (so the hypotheses above are satisfiable for every `j`) -/
theorem cursor_exists (ok : CfgOK c) (wf : WF c r) (j : Nat) : ∃ ck, advance c r j (cursorOf r) = .ok ck :=
  let ⟨ck, h, _⟩ := advance_drain ok wf j; ⟨ck, h⟩

end C13
