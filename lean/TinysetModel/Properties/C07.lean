import TinysetModel.Proofs.PropsAux
import TinysetModel.Proofs.InlineSpec
import TinysetModel.Proofs.Demo
import TinysetModel.Proofs.AllocProgram
/-! C07 — clone() is a deep, independent copy (sets and consuming iterators).

In the Rust code `Clone` copies the inline word, or copies header + bucket array byte for byte into a fresh
block.  In the functional model a set is a VALUE (`Rp`); a byte-for-byte copy of a value is the same value:
`clone r = r` (`Model/Ops.lean`).  Independence — "no mutation, drain or drop of one ever changes the other" —
is then a property of values, not a theorem: an operation on the clone RETURNS a new value and cannot alter `r`.
What the model can and does say is (a) the clone has the same members and is well formed, (b) the clone
subjected to any history answers exactly like an ideal set that starts with the members of the original,
(c) a cloned cursor yields the same remaining items, (d) `with_capacity_of`.
The precondition under which the real `Clone` (which decides "inline or pointer?" from the low bits of the
word) matches `clone r = r` is tag coherence: `tag_coherent_u64/u32` below (= C06) — the mask used by `clone`
and `with_capacity_of` is among `Gen.tagMasks64/32`.  That the copy is deep at the byte level (fresh block, no
aliasing, independent drops) is checked by the harness under the instrumented allocator; what the model adds
(`Model/Alloc.lean`, section "allocator calls" below) is that `clone` and `with_capacity_of` of a set that owns
a block REQUEST a block of their own with the same size, an inline or empty set requests nothing, and that in
any program the two can be mutated, drained and dropped in either order with every release legal. -/
namespace C07
open SC TinyC

section generic
variable {c : Cfg} {D : Type}

/-- `clone` returns the same value … -/
theorem clone_eq (r : Rp) : clone r = r := rfl

/-- … hence an equal set: same members in the same iteration order, same `len`, same `capacity`, well formed, `==` -/
theorem clone_same (ok : CfgOK c) (g : Rng D) (fuel : Nat) {r : Rp} (wf : WF c r) :
    WF c (clone r) ∧ elems c (clone r) = elems c r ∧ len (clone r) = len r ∧ capacity (clone r) = capacity r ∧
      eqSet c (clone r) r = true ∧ eqSet c r (clone r) = true :=
  ⟨wf, rfl, rfl, rfl, eqSet_refl (coreOK ok g fuel) wf, eqSet_refl (coreOK ok g fuel) wf⟩

/-- the clone lives its own life: under ANY history (any RNG oracle, any fuel) it answers like the ideal set
that starts with the members the original had at the time of the clone.  The original `r` is a value and is
not an output of the run: it is what it was. -/
theorem clone_history (ok : CfgOK c) (g : Rng D) (fuel : Nat) (ops : List Op) (hops : ∀ op ∈ ops, op.InRange c.W)
    {r : Rp} (wf : WF c r) {d d' : D} {r' : Rp} {outs : List Out}
    (h : runOps c g fuel (clone r) ops d = .ok ((r', outs), d')) :
    WF c r' ∧ outs = (specRun (elems c r) ops).2 ∧ (∀ x, x ∈ elems c r' ↔ x ∈ (specRun (elems c r) ops).1) :=
  run_refines_self ok g fuel ops hops wf h

/-- and the original, used after its clone was mutated in any way, still answers from its own members -/
theorem original_after_clone_mutated (ok : CfgOK c) {r : Rp} (wf : WF c r) (e : Nat) (he : e < 2 ^ c.W) :
    contains c r e = true ↔ e ∈ elems c r := contains_refines ok wf e he

/-- a cloned consuming iterator (the clone of the set + the same cursor) resumes at the same position `j` and
yields the same remaining items as the original iterator -/
theorem cloned_iterator (ok : CfgOK c) {r : Rp} (wf : WF c r) (j : Nat) :
    ∃ ck, advance c r j (cursorOf r) = .ok ck ∧
      drainFrom c (clone r) ((elems c r).length + 1) ck = .ok ((elems c r).drop j) ∧
      drainFrom c r ((elems c r).length + 1) ck = .ok ((elems c r).drop j) :=
  cloned_iter_resumes ok wf j

/-- `with_capacity_of(&s)`: a well-formed empty set with the same `capacity()`; `s` is only read -/
theorem with_capacity_of (ok : CfgOK c) {r : Rp} (wf : WF c r) :
    WF c (withCapOf r) ∧ elems c (withCapOf r) = [] ∧ capacity (withCapOf r) = capacity r := withCapOf_ok ok wf

end generic

/-! ### instances -/

theorem clone_history_u64 {D : Type} (g : Rng D) (fuel : Nat) (ops : List Op) (hops : ∀ op ∈ ops, op.InRange 64)
    {r : Rp} (wf : WF cfg64 r) {d d' : D} {r' : Rp} {outs : List Out}
    (h : runOps cfg64 g fuel (clone r) ops d = .ok ((r', outs), d')) :
    WF cfg64 r' ∧ outs = (specRun (elems cfg64 r) ops).2 ∧ (∀ x, x ∈ elems cfg64 r' ↔ x ∈ (specRun (elems cfg64 r) ops).1) :=
  run_refines_self cfg64_ok g fuel ops hops wf h
theorem clone_history_u32 {D : Type} (g : Rng D) (fuel : Nat) (ops : List Op) (hops : ∀ op ∈ ops, op.InRange 32)
    {r : Rp} (wf : WF cfg32 r) {d d' : D} {r' : Rp} {outs : List Out}
    (h : runOps cfg32 g fuel (clone r) ops d = .ok ((r', outs), d')) :
    WF cfg32 r' ∧ outs = (specRun (elems cfg32 r) ops).2 ∧ (∀ x, x ∈ elems cfg32 r' ↔ x ∈ (specRun (elems cfg32 r) ops).1) :=
  run_refines_self cfg32_ok g fuel ops hops wf h

theorem cloned_iterator_u64 {r : Rp} (wf : WF cfg64 r) (j : Nat) :
    ∃ ck, advance cfg64 r j (cursorOf r) = .ok ck ∧
      drainFrom cfg64 (clone r) ((elems cfg64 r).length + 1) ck = .ok ((elems cfg64 r).drop j) ∧
      drainFrom cfg64 r ((elems cfg64 r).length + 1) ck = .ok ((elems cfg64 r).drop j) :=
  cloned_iter_resumes cfg64_ok wf j
theorem cloned_iterator_u32 {r : Rp} (wf : WF cfg32 r) (j : Nat) :
    ∃ ck, advance cfg32 r j (cursorOf r) = .ok ck ∧
      drainFrom cfg32 (clone r) ((elems cfg32 r).length + 1) ck = .ok ((elems cfg32 r).drop j) ∧
      drainFrom cfg32 r ((elems cfg32 r).length + 1) ck = .ok ((elems cfg32 r).drop j) :=
  cloned_iter_resumes cfg32_ok wf j

theorem with_capacity_of_u64 {r : Rp} (wf : WF cfg64 r) :
    WF cfg64 (withCapOf r) ∧ elems cfg64 (withCapOf r) = [] ∧ capacity (withCapOf r) = capacity r := withCapOf_ok cfg64_ok wf
theorem with_capacity_of_u32 {r : Rp} (wf : WF cfg32 r) :
    WF cfg32 (withCapOf r) ∧ elems cfg32 (withCapOf r) = [] ∧ capacity (withCapOf r) = capacity r := withCapOf_ok cfg32_ok wf

/-! ### the precondition that makes the real `Clone` match the model: tag coherence (see C06) -/

/-- `clone` and `with_capacity_of` are among the functions whose inline-vs-pointer test was read from the source -/
theorem clone_sites_listed : ("clone", 7) ∈ Gen.tagMasks64 ∧ ("with_capacity_of", 7) ∈ Gen.tagMasks64 ∧
    ("clone", 3) ∈ Gen.tagMasks32 ∧ ("with_capacity_of", 3) ∈ Gen.tagMasks32 := by decide
/-- for each of them an inline word is never taken for a pointer and an aligned address never for an inline word -/
theorem tag_coherent_u64 (t : T) (h : 1 ≤ t.sz ∧ t.sz ≤ 7) : ∀ p ∈ Gen.tagMasks64,
    toWord codec64 t % (p.2 + 1) ≠ 0 ∧ ∀ k, (k * Gen.layout64.2.2) % (p.2 + 1) = 0 := tag_coherent64_src t h
theorem tag_coherent_u32 (t : T) (h : 1 ≤ t.sz ∧ t.sz ≤ 6) : ∀ p ∈ Gen.tagMasks32,
    toWord codec32 t % (p.2 + 1) ≠ 0 ∧ ∀ k, (k * Gen.layout32.2.2) % (p.2 + 1) = 0 := tag_coherent32_src t h

/-! ### the hypotheses are satisfiable -/

/-- a history on the clone of a reachable heap set returns; `clone_history_u64` gives its answers -/
theorem demo_clone_run : runOps cfg64 detRng 6 (clone Demo.bitmap64) [.ins 7, .rem 1000, .con 7, .len] () =
    .ok ((.heap 2 3 23 #[401016175510691840, 128, 0], [.bool true, .bool true, .bool true, .nat 2]), ()) := by decide +kernel
example : [.bool true, .bool true, .bool true, .nat 2] = (specRun (elems cfg64 Demo.bitmap64) [.ins 7, .rem 1000, .con 7, .len]).2 :=
  (clone_history_u64 detRng 6 _ (by decide) Demo.bitmap64_wf demo_clone_run).2.1
/-- the original still has the member that was removed from the clone -/
example : contains cfg64 Demo.bitmap64 1000 = true := by decide +kernel
example : WF cfg32 (withCapOf Demo.plain32) := (with_capacity_of_u32 Demo.plain32_wf).1

/-! ### allocator calls of `clone` / `with_capacity_of` (compared call by call with the real allocator's record) -/

/-- the clone of a set that owns a block obtains a block of its own, of the same size, from the allocator — by the
allocator's contract a block distinct from every live one, the original's included -/
theorem clone_obtains_its_own_block (c : Cfg) (sz cap bits : Nat) (a : RH.Tbl) :
    cloneE c (.heap sz cap bits a) = (.heap sz cap bits a, [.alloc (bytesFor c cap)]) := rfl
theorem with_capacity_of_obtains_its_own_block (c : Cfg) (sz cap bits : Nat) (a : RH.Tbl) :
    (withCapOfE c (.heap sz cap bits a)).2 = [.alloc (bytesFor c cap)] := rfl
/-- an inline or empty set is copied as a word: no request -/
theorem inline_clone_requests_nothing (c : Cfg) (t : T) :
    (cloneE c (.stack t)).2 = [] ∧ (cloneE c .empty).2 = [] ∧ (withCapOfE c (.stack t)).2 = [] ∧ (withCapOfE c .empty).2 = [] :=
  ⟨rfl, rfl, rfl, rfl⟩
/-- original and clone in one program: whatever is done to either afterwards (any operations, either dropped
first), every allocator call is legal and nothing stays live at the end -/
theorem clone_then_anything {D : Type} (c : Cfg) (fresh : Bool) (g : Rng D) (fuel n : Nat) (before after : List POp) (i j : Nat)
    {s' : Slots} {d d' : D} {evs : List Ev}
    (h : prun c fresh g fuel (List.replicate n .empty) (before ++ [.clone i j] ++ after) d = .ok ((s', evs), d')) :
    runEv [] (evs ++ dropAll c s') = some [] :=
  program_balanced fresh g fuel n _ h

end C07

#print axioms C07.clone_same
#print axioms C07.clone_history
#print axioms C07.cloned_iterator
#print axioms C07.with_capacity_of
