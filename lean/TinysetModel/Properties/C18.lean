import TinysetModel.Proofs.PropsAux
import TinysetModel.Proofs.Demo
/-! C18 — shared-reference operations never modify a set; concurrent readers are safe.

In the model every operation the Rust API offers through `&self` — `contains`, `len`, `is_empty`, `capacity`,
`mem_used`, `iter` and the iterator methods (`cursorOf`, `next`, `advance`, `drainFrom`, `count`, `sizeHint`,
`last`, `min`, `max`), `==` (`eqSet`), `clone`, `Debug`/`Hash` (`elems`, `hashInput`), `with_capacity_of`
(`withCapOf`), and the borrowed operators (`unionRef`, `diffRef`, which take `a b : Rp` and return a NEW `Rp`) —
is a total FUNCTION of the representation `r` whose result type does not contain a new version of `r`.
"Does not modify the set" is therefore true of the model by typing, and "concurrent readers observe the
single-threaded answers" is the statement that a function returns the same value however often and in whatever
order it is evaluated; neither is a theorem one can usefully state.  Whether the RUST code behind `&self` really
performs no write (no lazy repair, no cached cursor, no interior mutability) is a fact about the compiled
crate: the harness compares the raw in-memory representation before and after every such call and runs
concurrent reader threads against single-threaded answers.

The few facts worth recording: the iterator keeps its position in the cursor, not in the set; an iteration
in progress is unaffected by any number of other reads; the readers' answers are the specified ones. -/
namespace C18
open SC

variable {c : Cfg}

/-- `clone` reads: it returns the same value and leaves no trace -/
theorem clone_reads (r : Rp) : clone r = r := rfl

/-- `next` returns an item and a new CURSOR; the set is an input only (this is the type of `next`), and the
`j`-th call returns the `j`-th member whatever else has been read from `r` meanwhile -/
theorem next_reads (ok : CfgOK c) {r : Rp} (wf : WF c r) {j : Nat} {ck : Cursor}
    (h : advance c r j (cursorOf r) = .ok ck) :
    ∃ ck', next c r ck = .ok ((elems c r)[j]?, ck') ∧ advance c r (j + 1) (cursorOf r) = .ok ck' := next_after ok wf h

/-- any number of simultaneous readers: two cursors over the same `r`, at any two positions, each yields exactly
its own remainder of the single-threaded iteration -/
theorem two_readers (ok : CfgOK c) {r : Rp} (wf : WF c r) (j₁ j₂ : Nat) :
    (∃ ck, advance c r j₁ (cursorOf r) = .ok ck ∧ ck.szLeft = (elems c r).length - j₁ ∧
      drainFrom c r ((elems c r).length + 1) ck = .ok ((elems c r).drop j₁)) ∧
    (∃ ck, advance c r j₂ (cursorOf r) = .ok ck ∧ ck.szLeft = (elems c r).length - j₂ ∧
      drainFrom c r ((elems c r).length + 1) ck = .ok ((elems c r).drop j₂)) :=
  ⟨advance_drain ok wf j₁, advance_drain ok wf j₂⟩

/-- the answers every reader gets are the specified ones: membership, the number of members -/
theorem reader_answers (ok : CfgOK c) {r : Rp} (wf : WF c r) (e : Nat) (he : e < 2 ^ c.W) :
    (contains c r e = true ↔ e ∈ elems c r) ∧ len r = (elems c r).length :=
  ⟨contains_refines ok wf e he, (absOK_of_wf ok wf).len⟩

/-- the only operation that hands out the members AND changes the set is `drain`, which takes `&mut self`:
the model returns the new (empty) value explicitly -/
theorem drain_is_the_mutator (r : Rp) : (drain c r).1 = .empty ∧ (drain c r).2 = elems c r := ⟨rfl, rfl⟩

/-- `with_capacity_of(&s)` reads only the capacity -/
theorem with_capacity_of_reads (ok : CfgOK c) {r : Rp} (wf : WF c r) : capacity (withCapOf r) = capacity r :=
  (withCapOf_ok ok wf).2.2

/-! ### the hypotheses are satisfiable -/
example : ∃ ck, advance cfg64 Demo.dense64 5 (cursorOf Demo.dense64) = .ok ck ∧ ck.szLeft = (elems cfg64 Demo.dense64).length - 5 ∧
    drainFrom cfg64 Demo.dense64 ((elems cfg64 Demo.dense64).length + 1) ck = .ok ((elems cfg64 Demo.dense64).drop 5) :=
  (two_readers cfg64_ok Demo.dense64_wf 5 9).1
example : len Demo.plain32 = (elems cfg32 Demo.plain32).length := (reader_answers cfg32_ok Demo.plain32_wf 0 (by decide)).2

end C18

#print axioms C18.next_reads
#print axioms C18.two_readers
#print axioms C18.reader_answers
