import TinysetModel.Proofs.InsertSrc
import TinysetModel.Proofs.TinyInsertSrc
import TinysetModel.Proofs.RemoveSrc
import TinysetModel.Proofs.ContainsSrc
import TinysetModel.Proofs.Loops
import TinysetModel.Proofs.ProgramTotal
import TinysetModel.Proofs.ProgramRefine
import TinysetModel.Proofs.Fns
import TinysetModel.Proofs.Plain
import TinysetModel.Proofs.Consts
import TinysetModel.Proofs.Refine
import TinysetModel.Proofs.CfgInst
import TinysetModel.Proofs.TotalSites
import TinysetModel.Proofs.RemoveTotal
import TinysetModel.Proofs.TotalOpsRun
import TinysetModel.Proofs.WFSoundConv
/-! C01 — SetU64 behaves as an exact mathematical set of u64 under every history.
The theorems below are about the executable model instantiated at `cfg64`. -/
namespace C01
open SC RH

/-- plain table (`bits = 0 ∨ bits > 64`): `contains` is membership, also for the placeholder value -/
theorem contains_plain_u64 {ph sz cap : Nat} {a : Tbl} (wf : PlainWF ph sz a)
    (hpl : isPlain cfg64 ph = true) (hnd : isDense cfg64 ph = false) (e : Nat) :
    contains cfg64 (.heap sz cap ph a) e = true ↔ e ∈ plainElems ph a :=
  contains_plain cfg64 wf hpl hnd e

/-- plain table: `remove` returns "was present", keeps the invariant, removes exactly that member,
    for every RNG oracle `g` and state `d` -/
theorem remove_plain_u64 {D : Type} (g : Rng D) (fuel : Nat) {ph sz cap : Nat} {a : Tbl}
    (wf : PlainWF ph sz a) (hpl : isPlain cfg64 ph = true) (hnd : isDense cfg64 ph = false) (e : Nat) (d : D) :
    ∃ sz' a' b, remove cfg64 g fuel (.heap sz cap ph a) e d = .ok ((.heap sz' cap ph a', b), d) ∧
      PlainWF ph sz' a' ∧ (b = true ↔ e ∈ plainElems ph a) ∧
      (∀ x, x ∈ plainElems ph a' ↔ (x ∈ plainElems ph a ∧ x ≠ e)) :=
  remove_plain cfg64 g fuel wf hpl hnd e d

/-- plain table: `insert` of a value other than the placeholder, when the table has room -/
theorem insert_plain_nogrow_u64 {D : Type} (g : Rng D) {ph sz cap : Nat} {a : Tbl}
    (wf : PlainWF ph sz a) (e : Nat) (he : e ≠ ph) (d : D) :
    (e ∈ plainElems ph a →
        insertPlain cfg64 g sz cap ph a e d = .ok ((.heap sz cap ph a, false), d)) ∧
    (e ∉ plainElems ph a → ∀ a', tablePlace cfg64 (enc ph e) (enc ph e) 0 a = some a' →
        insertPlain cfg64 g sz cap ph a e d = .ok ((.heap (sz + 1) cap ph a', true), d) ∧
        PlainWF ph (sz + 1) a' ∧ (plainElems ph a').Perm (e :: plainElems ph a)) :=
  insert_plain_nogrow cfg64 g wf e he d

/-- Robin Hood layer (shared by the bitmap and plain tables): a present key is found -/
theorem lookfor_complete' {a : Tbl} {off k i : Nat} (inv : Inv a off) (hi : i < a.size)
    (hne : get a i ≠ 0) (hk : K a off i = k) : lookfor k a off = .found i :=
  lookfor_complete inv hi hne hk

/-- Robin Hood layer: placing a fresh word keeps order, cut and distinctness and adds exactly it -/
theorem tablePlace_spec_u64 {a : Tbl} {off k w : Nat} (hn : 0 < a.size) (inv : Inv a off)
    (hw : w ≠ 0) (hk : w >>> off = k)
    (hfresh : ∀ i, i < a.size → get a i ≠ 0 → K a off i ≠ k) :
    match tablePlace cfg64 k w off a with
    | some a' => a'.size = a.size ∧ Inv a' off ∧ (∃ b, b < a'.size ∧ Lin a' off b) ∧
        (nz a').Perm (w :: nz a)
    | none => hasRoom cfg64 a = false :=
  tablePlace_spec cfg64 hn inv hw hk hfresh

/-- Robin Hood layer: backward-shift deletion of a present key -/
theorem premove_present' {a : Tbl} {off k i0 : Nat} (inv : Inv a off) {b : Nat} (hb : b < a.size) (hlin : Lin a off b)
    (hi0 : i0 < a.size) (hne : get a i0 ≠ 0) (hk : K a off i0 = k) :
    ∃ a', premove k a off = (true, a') ∧ Inv a' off ∧ (get a i0 :: nz a').Perm (nz a) ∧
      a'.size = a.size ∧ ∃ h, h < a.size ∧ get a' h = 0 :=
  premove_present inv hb hlin hi0 hne hk

/-- the model's constants are the ones in the current source -/
theorem consts_u64 : TinyC.codec64.splits = Gen.bitsplits64 ∧ (∀ p ∈ Gen.tagMasks64, p.2 = 7) :=
  ⟨bitsplits64_match, tagMasks64_coherent⟩

/-! ### the set-level refinement theorems (`Proofs/Refine.lean`) at `cfg64`

`elems cfg64 r` (the iteration order) is the abstraction of a representation `r`; `WF cfg64 r` is the
representation invariant. All statements are "whenever the model returns": the model's error results
(`Err.fuel`, `Err.scan`, …) are excluded by hypothesis, not claimed impossible. -/

/-- `insert` is set insertion: for every RNG oracle `g`, every fuel, every well-formed `r` and every `e < 2^64`,
    if `insert` returns `(r', b)` then `r'` is well formed, `b` says "`e` was absent", and `r'` has exactly
    the members of `r` plus `e` -/
theorem insert_refines_u64 {D : Type} (g : Rng D) (fuel : Nat) {r : Rp} (wf : WF cfg64 r) (e : Nat) (he : e < 2 ^ 64)
    {d d' : D} {r' : Rp} {b : Bool} (h : insert cfg64 g fuel r e d = .ok ((r', b), d')) : InsOK cfg64 r e r' b :=
  insert_refines cfg64_ok g fuel r e d r' b d' wf he h

/-- `remove` is set removal: if it returns `(r', b)` then `r'` is well formed, `b` says "`e` was present", and `r'`
    has exactly the members of `r` other than `e` -/
theorem remove_refines_u64 {D : Type} (g : Rng D) (fuel : Nat) {r : Rp} (wf : WF cfg64 r) (e : Nat) (he : e < 2 ^ 64)
    {d d' : D} {r' : Rp} {b : Bool} (h : remove cfg64 g fuel r e d = .ok ((r', b), d')) : RemOK cfg64 r e r' b :=
  remove_refines cfg64_ok g fuel wf e he h

/-- `contains` is membership, in all five shapes (empty, inline, dense bitset, plain table, bitmap table) -/
theorem contains_refines_u64 {r : Rp} (wf : WF cfg64 r) (e : Nat) (he : e < 2 ^ 64) :
    contains cfg64 r e = true ↔ e ∈ elems cfg64 r :=
  contains_refines cfg64_ok wf e he

/-- a well-formed value has no duplicate members, `len` is their number, and they are all `< 2^64` -/
theorem absOK_u64 {r : Rp} (wf : WF cfg64 r) : AbsOK cfg64 r :=
  absOK_of_wf cfg64_ok wf

/-- `len` grows by one exactly when `insert` reports "was absent" -/
theorem len_insert_u64 {D : Type} (g : Rng D) (fuel : Nat) {r : Rp} (wf : WF cfg64 r) (e : Nat) (he : e < 2 ^ 64)
    {d d' : D} {r' : Rp} {b : Bool} (h : insert cfg64 g fuel r e d = .ok ((r', b), d')) :
    len r' = if b = true then len r + 1 else len r :=
  len_insert cfg64_ok g fuel wf e he h

/-- `len` shrinks by one exactly when `remove` reports "was present" -/
theorem len_remove_u64 {D : Type} (g : Rng D) (fuel : Nat) {r : Rp} (wf : WF cfg64 r) (e : Nat) (he : e < 2 ^ 64)
    {d d' : D} {r' : Rp} {b : Bool} (h : remove cfg64 g fuel r e d = .ok ((r', b), d')) :
    len r' = if b = true then len r - 1 else len r :=
  len_remove cfg64_ok g fuel wf e he h

/-- **every history**: for every RNG oracle, every fuel and every list of `insert`/`remove`/`contains`/`len`
    calls with arguments `< 2^64`, started on the empty set: if the model run returns, its answers are exactly
    the answers of the ideal set (`specRun []`), the final value is well formed and represents the final ideal set -/
theorem run_refines_u64 {D : Type} (g : Rng D) (fuel : Nat) (ops : List Op) (hops : ∀ op ∈ ops, op.InRange 64)
    {d d' : D} {r' : Rp} {outs : List Out} (h : runOps cfg64 g fuel .empty ops d = .ok ((r', outs), d')) :
    WF cfg64 r' ∧ outs = (specRun [] ops).2 ∧ (∀ x, x ∈ elems cfg64 r' ↔ x ∈ (specRun [] ops).1) :=
  run_refines_empty cfg64_ok g fuel ops hops h

/-- the same from any well-formed start `r` representing the duplicate-free list `s` -/
theorem run_refines_from_u64 {D : Type} (g : Rng D) (fuel : Nat) (ops : List Op) (hops : ∀ op ∈ ops, op.InRange 64)
    {r : Rp} (wf : WF cfg64 r) (s : List Nat) (hs : s.Nodup) (hrs : ∀ x, x ∈ elems cfg64 r ↔ x ∈ s)
    {d d' : D} {r' : Rp} {outs : List Out} (h : runOps cfg64 g fuel r ops d = .ok ((r', outs), d')) :
    WF cfg64 r' ∧ outs = (specRun s ops).2 ∧ (∀ x, x ∈ elems cfg64 r' ↔ x ∈ (specRun s ops).1) :=
  run_refines cfg64_ok g fuel ops hops wf s hs hrs h

/-! ### the hypotheses are satisfiable: a concrete run that leaves the inline representation -/

/-- a small history -/
def demo : List Op := [.ins 5, .ins 1000, .ins (2 ^ 40), .rem 5, .con 1000, .con 5, .ins 1000, .len]

/-- the model (with the crate's deterministic generator, fuel 6) does return on `demo`, in a heap layout -/
theorem demo_runs : runOps cfg64 detRng 6 .empty demo () = .ok ((.heap 2 3 23 #[401016175510691840, 360712192, 0], [.bool true, .bool true, .bool true, .bool true, .bool true, .bool false, .bool false, .nat 2]), ()) := by
  decide +kernel

/-- so this table is a non-trivial well-formed state … -/
theorem demo_wf : WF cfg64 (.heap 2 3 23 #[401016175510691840, 360712192, 0]) :=
  (run_refines_u64 detRng 6 demo (by decide) demo_runs).1

/-- … its answers were the ideal ones … -/
example : [.bool true, .bool true, .bool true, .bool true, .bool true, .bool false, .bool false, .nat 2] = (specRun [] demo).2 :=
  (run_refines_u64 detRng 6 demo (by decide) demo_runs).2.1

/-- … the ideal set at the end is this one … -/
example : (specRun [] demo).1 = [1000, 2 ^ 40] := by decide

/-- … and the single-operation theorems apply to it -/
example : contains cfg64 (.heap 2 3 23 #[401016175510691840, 360712192, 0]) 1000 = true :=
  (contains_refines_u64 demo_wf 1000 (by decide)).2
    (((run_refines_u64 detRng 6 demo (by decide) demo_runs).2.2 1000).2 (by decide))

example : contains cfg64 (.heap 2 3 23 #[401016175510691840, 360712192, 0]) 5 ≠ true := fun h =>
  absurd (((run_refines_u64 detRng 6 demo (by decide) demo_runs).2.2 5).1
    ((contains_refines_u64 demo_wf 5 (by decide)).1 h)) (by decide)

example : len (.heap 2 3 23 #[401016175510691840, 360712192, 0]) = (specRun [] demo).1.length := by
  have ab := absOK_u64 demo_wf
  rw [ab.len]
  exact ((List.perm_ext_iff_of_nodup ab.nodup (specRun_nodup demo List.nodup_nil)).2
    (run_refines_u64 detRng 6 demo (by decide) demo_runs).2.2).length_eq

/-! ### returns normally (total correctness) -/

/-- EVERY insert into a well-formed SetU64 returns normally — no fuel/room/scan error in the model, i.e. no
    `unreachable!`, no "p_insert was called when there was no room", no unbounded recursion in the code it models —
    for every generator and state, with recursion depth at most 2 (fuel 3; fuel 2 already suffices), and the result is
    the ideal set's.  Size hypotheses: capacity and length far below 2^64 (what `layout_for_capacity` enforces anyway). -/
theorem insert_returns_and_is_right_u64 {D : Type} (g : Rng D) {r : Rp} (wf : WF cfg64 r) (e : Nat) (he : e < 2 ^ 64)
    (hsize : capacity r + 64 + 3 ≤ 2 ^ 64 ∧ 3 * len r + 4 + 64 + 3 ≤ 2 ^ 64) (d : D) :
    ∃ r' b d', insert cfg64 g 3 r e d = .ok ((r', b), d') ∧ InsOK cfg64 r e r' b :=
  insert_total_correct_u64 g wf e he hsize d

/-- `remove` and `contains` never fail on a well-formed heap set: `remove` is total in every heap layout -/
theorem remove_returns_heap_u64 {D : Type} (g : Rng D) (fuel : Nat) {sz cap bits : Nat} {a : Tbl}
    (wf : WF cfg64 (.heap sz cap bits a)) (e : Nat) (he : e < 2 ^ 64) (d : D) :
    ∃ r' b, remove cfg64 g fuel (.heap sz cap bits a) e d = .ok ((r', b), d) ∧ RemOK cfg64 (.heap sz cap bits a) e r' b :=
  remove_heap_total cfg64_ok g fuel wf e he d

/-- **C01 in one statement**: for every generator `g` and state `d`, every recursion budget `fuel + 2`, and every history
    of fewer than 2^60 `insert`/`remove`/`contains`/`len` calls with `u64` arguments on a new set, the model run RETURNS
    (no fuel / no-room / scan / unreachable error — every call returns normally), every answer is the ideal
    mathematical set's answer, the final state is well formed and holds exactly the ideal set's members. -/
theorem every_history_u64 {D : Type} (g : Rng D) (fuel : Nat) (ops : List Op) (hops : ∀ op ∈ ops, op.InRange 64)
    (hlen : ops.length < 2 ^ 60) (d : D) :
    ∃ r' outs d', runOps cfg64 g (fuel + 2) .empty ops d = .ok ((r', outs), d') ∧ WF cfg64 r' ∧
      outs = (specRun [] ops).2 ∧ ∀ x, x ∈ elems cfg64 r' ↔ x ∈ (specRun [] ops).1 :=
  run_total_u64 g fuel ops hops hlen d

/-- `remove` always returns (also on inline sets, which are rebuilt through `collect`) with the right answer -/
theorem remove_returns_and_is_right_u64 {D : Type} (g : Rng D) (fuel : Nat) {r : Rp} (wf : WF cfg64 r) (e : Nat)
    (he : e < 2 ^ 64) (d : D) :
    ∃ r' b d', remove cfg64 g (fuel + 2) r e d = .ok ((r', b), d') ∧ RemOK cfg64 r e r' b :=
  remove_total_correct_u64 g fuel wf e he d

/-- **The validator's check on a real representation is the invariant.** `wfB`/`absB` are the executable tests the
    trace validator evaluates on the words it reads from the implementation's memory after every step (tables of
    moderate size); they hold exactly when `WF` does.  So a checked state of the real crate satisfies the hypothesis
    of every theorem of this development, and everything proved from `WF` applies to it. -/
theorem checked_state_is_wellformed_u64 (r : Rp) : WF cfg64 r ↔ (wfB cfg64 r = true ∧ absB cfg64 r = true) :=
  wf_iff_check cfg64 cfg64_ok r

/-- in particular: from a state that passes the check, every history (that returns) answers like the ideal set
    holding that state's members -/
theorem run_refines_from_checked_u64 {D : Type} (g : Rng D) (fuel : Nat) (ops : List Op)
    (hops : ∀ op ∈ ops, op.InRange 64) {r : Rp} (hc : wfB cfg64 r = true ∧ absB cfg64 r = true)
    {d d' : D} {r' : Rp} {outs : List Out} (h : runOps cfg64 g fuel r ops d = .ok ((r', outs), d')) :
    WF cfg64 r' ∧ outs = (specRun (elems cfg64 r) ops).2 ∧
      (∀ x, x ∈ elems cfg64 r' ↔ x ∈ (specRun (elems cfg64 r) ops).1) :=
  have wf := wf_of_check cfg64 r hc.1 hc.2
  run_refines cfg64_ok g fuel ops hops wf (elems cfg64 r) (absOK_of_wf cfg64_ok wf).nodup (fun _ => Iff.rfl) h

/-! ### the helper functions the model transliterates are the ones in the current source
(`Generated/Fns.lean`: translated from `src/setu64.rs` on every run by `tools/gen_fns.py`) -/

/-- `log_2`, `compute_array_bits` (its `while` loop never iterates), `split_u64`, `p_poverty` of the current
`setu64.rs` are the functions the model uses, for every `u64` argument -/
theorem helpers_are_the_source_u64 :
    (∀ x, x < 2 ^ 64 → Gen.log_2_64 x = TinyC.log2 x) ∧
    (∀ mx, mx < 2 ^ 64 → Gen.compute_array_bits_64 mx = cfg64.cab mx) ∧
    (∀ x bits, 0 < bits → Gen.split_64 x bits = (x / bits, x % bits)) ∧
    (∀ k idx n, Gen.p_poverty_64 k idx n = RH.pov k idx n) :=
  ⟨log_2_64_eq, compute_array_bits_64_eq, split_64_eq, p_poverty_64_eq⟩

/-! ### programs over several sets: contents and allocator calls in one statement -/

/-- **SetU64, any number of sets, any program** of insert / remove / extend / collect / clone / with_capacity_of /
hinted constructors / drop / `&a | &b` / `&a - &b` / `a | &b` / `a - &b` with `u64` arguments, every generator
outcome: whenever the run returns, every set is well formed and holds exactly the members the same program over
ideal mathematical sets gives it (`specRunP`), and the allocator calls made on the way, followed by the drop of
every set, are all legal and leave nothing live -/
theorem every_program_u64 {D : Type} (g : Rng D) (fuel n : Nat) (ops : List POp) (hr : ∀ op ∈ ops, op.InRange 64)
    {s' : Slots} {d d' : D} {evs : List Ev}
    (h : prun cfg64 true g fuel (List.replicate n .empty) ops d = .ok ((s', evs), d')) :
    (∀ i, i < n → WF cfg64 (s'.get i) ∧ ∀ x, x ∈ elems cfg64 (s'.get i) ↔ specRunP n (fun _ => none') ops i x) ∧
    runEv [] (evs ++ dropAll cfg64 s') = some [] :=
  program_correct_and_balanced cfg64_ok true g fuel n ops hr h

/-- the ideal program, spelled out on an example: two sets, a clone taken in between stays what it was -/
example : specRunP 3 (fun _ => none') [.ins 0 5, .clone 1 0, .ins 0 7, .rem 1 5, .uniRef 2 0 1] 2 7 ∧
    ¬ specRunP 3 (fun _ => none') [.ins 0 5, .clone 1 0, .ins 0 7, .rem 1 5, .uniRef 2 0 1] 1 7 := by
  simp [specRunP, pspecStep, pspecCore, POp.idx, Ideal.upd, none']

/-- **SetU64: every program returns, and is right.**  Any number of new sets, any hint-free program (insert / remove /
extend / collect / clone / with_capacity_of / drop / `&a | &b` / `&a - &b` / `a | &b` / `a - &b`) with `u64` arguments that
feeds in fewer than 2^59 items in total, every generator outcome: every operation returns normally (no
`unreachable!`, no "no room", no exhausted scan, recursion depth ≤ 2), every set ends well formed with exactly the
members of the same program over ideal sets, and the allocator calls are legal and leave nothing live -/
theorem every_program_returns_u64 {D : Type} (g : Rng D) (fuel n : Nat) (ops : List POp)
    (hops : ∀ op ∈ ops, op.hintFree ∧ op.InRange 64) (hN : 2 * pitems ops < 2 ^ 60) (d : D) :
    ∃ s' evs d', prun cfg64 true g (fuel + 2) (List.replicate n .empty) ops d = .ok ((s', evs), d') ∧
      (∀ i, i < n → WF cfg64 (s'.get i) ∧ ∀ x, x ∈ elems cfg64 (s'.get i) ↔ specRunP n (fun _ => none') ops i x) ∧
      runEv [] (evs ++ dropAll cfg64 s') = some [] :=
  program_total_correct (histTotal_u64 g fuel) true n ops hops hN d
/-- the hypotheses are satisfiable: a concrete program -/
example : (∀ op ∈ [POp.ins 0 (2 ^ 63), .clone 1 0, .ext 1 [5, 6], .uniRef 2 0 1, .drop 0], op.hintFree ∧ op.InRange 64) ∧
    2 * pitems [POp.ins 0 (2 ^ 63), .clone 1 0, .ext 1 [5, 6], .uniRef 2 0 1, .drop 0] < 2 ^ 60 := by
  refine ⟨?_, by decide⟩
  intro op h
  simp only [List.mem_cons, List.not_mem_nil, or_false] at h
  rcases h with rfl | rfl | rfl | rfl | rfl <;> simp [POp.hintFree, POp.InRange]

/-! ### the Robin-Hood primitives of the model are the ones in the current source
(`Generated/Loops.lean`: `p_lookfor`, `p_insert`, `p_remove` of `src/setu64.rs` translated statement by statement —
loops, early returns, element assignments, `mem::swap` — on every run by `tools/gen_loops.py`) -/

/-- for every key, table and offset: the translated `p_lookfor` answers like `RH.lookfor` and leaves the slice alone;
the translated `p_insert` returns the index and leaves the slice `RH.pinsert` does (its two panics are the model's two
errors); the translated `p_remove` returns the answer and leaves the slice `RH.premove` does, and never panics -/
theorem primitives_are_the_source_u64 (k : Nat) (a : Tbl) (off : Nat) :
    Gen.p_lookfor_64 k a off = .ok (convLooked (lookfor k a off), a) ∧
    Gen.p_insert_64 k a off = convErr (pinsert k a off) ∧
    Gen.p_remove_64 k a off = .ok (premove k a off) :=
  ⟨p_lookfor_64_eq k a off, p_insert_64_eq k a off, p_remove_64_eq k a off⟩

/-! ### `contains` of the model is `contains` of the current source, arm by arm -/

/-- the `Dense`, `Heap` and `Big` arms of `SetU64::contains`, translated from the source on every run, compute
`contains` of the model on the corresponding representation — every `u64` element, every table (the `Empty` and
`Stack` arms are `false` and `Tiny::contains`; the translator pins their shape) -/
theorem contains_is_the_source_u64 (e sz cap : Nat) (a : Tbl) (he : e < 2 ^ 64) :
    (cap = a.size → Gen.contains_dense_64 e a = contains cfg64 (.heap sz cap 64 a) e) ∧
    (∀ bits, 0 < bits ∧ bits < 64 → Gen.contains_heap_64 e bits a = contains cfg64 (.heap sz cap bits a) e) ∧
    (∀ bits, bits = 0 ∨ bits > 64 → Gen.contains_big_64 e bits a = contains cfg64 (.heap sz cap bits a) e) :=
  ⟨contains_dense_64_eq e sz cap a, fun bits hb => contains_heap_64_eq e sz cap bits a he hb,
   fun bits hb => contains_big_64_eq e sz cap bits a hb⟩

/-! ### `remove` of the model is `remove` of the current source on the three heap layouts -/

/-- the `Dense`, `Heap` and `Big` arms of `SetU64::remove`, translated from the source on every run, return the answer,
the member count and the slice that the model's `remove` returns — every `u64` element, every table, every generator
state (the `Empty` arm is `false`, the inline arm is `collect()` of the remaining members) -/
theorem remove_is_the_source_u64 {D : Type} (g : Rng D) (fuel e sz cap : Nat) (a : Tbl) (he : e < 2 ^ 64) (d : D) :
    (cap = a.size → remove cfg64 g fuel (.heap sz cap 64 a) e d = armOut cap 64 d (Gen.remove_dense_64 e sz a)) ∧
    (∀ bits, 0 < bits ∧ bits < 64 →
      remove cfg64 g fuel (.heap sz cap bits a) e d = armOut cap bits d (Gen.remove_heap_64 e sz bits a)) ∧
    (∀ bits, bits = 0 ∨ bits > 64 →
      remove cfg64 g fuel (.heap sz cap bits a) e d = armOut cap bits d (Gen.remove_big_64 e sz bits a)) :=
  ⟨fun hc => remove_dense_64_eq g fuel e sz cap a hc d, fun bits hb => remove_heap_64_eq g fuel e sz cap bits a he hb d,
   fun bits hb => remove_big_64_eq g fuel e sz cap bits a hb d⟩

/-! ### the source's `contains`, whole: dispatch on the representation, then the translated arm -/

/-- the layout dispatch at the end of `internal()` and of `internal_mut()` (which of `Big` / `Dense` / `Heap` a heap
block's `bits` word selects), translated on every run, is the model's `isDense` / `isPlain` -/
theorem dispatch_is_the_source_u64 (bits : Nat) :
    Gen.layout_64 bits = (if isDense cfg64 bits then 1 else if isPlain cfg64 bits then 0 else 2) ∧
    Gen.layout_mut_64 bits = Gen.layout_64 bits := layout_64_eq bits

/-- `SetU64::remove` on a heap block as it is in the current source: the dispatch of `internal_mut()` (translated),
then the arm (translated) -/
def srcRemoveHeap64 (e sz bits : Nat) (a : Tbl) : Except String ((Bool × Nat) × Array Nat) :=
  match Gen.layout_mut_64 bits with
  | 0 => Gen.remove_big_64 e sz bits a
  | 1 => Gen.remove_dense_64 e sz a
  | _ => Gen.remove_heap_64 e sz bits a

/-- on every well-formed heap representation the model's `remove` returns what the source's `remove` — dispatch and arm,
both translated on this run — returns: answer, member count, slice (the inline arm is `collect()` of the rest) -/
theorem remove_whole_is_the_source_u64 {D : Type} (g : Rng D) (fuel e sz cap bits : Nat) (a : Tbl) (he : e < 2 ^ 64)
    (wf : WF cfg64 (.heap sz cap bits a)) (d : D) :
    remove cfg64 g fuel (.heap sz cap bits a) e d = armOut cap bits d (srcRemoveHeap64 e sz bits a) := by
  have hl : Gen.layout_mut_64 bits = Gen.layout_64 bits := (layout_64_eq bits).2
  rcases layout_64_cases bits with ⟨hb, h1⟩ | ⟨hb, h1⟩ | ⟨hb, h1⟩ <;> simp only [srcRemoveHeap64, hl, h1]
  · subst hb
    exact remove_dense_64_eq g fuel e sz cap a (heap_cap_of_wf cfg64_ok wf).1 d
  · exact remove_big_64_eq g fuel e sz cap bits a hb d
  · exact remove_heap_64_eq g fuel e sz cap bits a he hb d

/-- `SetU64::contains` as it is in the current source: `internal()` tells the five views apart (the constructors of `Rp` for the
tagged word; for a heap block the dispatch on its `bits` word, `Gen.layout_64`, translated on every run and proved to be
the model's `isDense` / `isPlain`: `layout_64_eq`), then the arm's code as translated on every run -/
def srcContains64 : Rp → Nat → Bool
  | .empty, _ => false
  | .stack t, e => Gen.tiny_contains_64 t.sz t.bits e
  | .heap _ _ bits a, e =>
    match Gen.layout_64 bits with          -- the dispatch at the end of `internal()`, translated: 0 `Big`, 1 `Dense`, 2 `Heap`
    | 0 => Gen.contains_big_64 e bits a
    | 1 => Gen.contains_dense_64 e a
    | _ => Gen.contains_heap_64 e bits a

/-- it is the model's `contains` on every well-formed representation … -/
theorem source_contains_is_model_u64 {r : Rp} (wf : WF cfg64 r) (e : Nat) (he : e < 2 ^ 64) :
    srcContains64 r e = contains cfg64 r e := by
  cases r with
  | empty => rfl
  | stack t => exact tiny_contains_64_eq t e he
  | heap sz cap bits a =>
    rcases layout_64_cases bits with ⟨hb, hl⟩ | ⟨hb, hl⟩ | ⟨hb, hl⟩ <;> simp only [srcContains64, hl]
    · subst hb
      exact contains_dense_64_eq e sz cap a (heap_cap_of_wf cfg64_ok wf).1
    · exact contains_big_64_eq e sz cap bits a hb
    · exact contains_heap_64_eq e sz cap bits a he hb

/-- … hence **membership**: the `contains` of the current source, run on the words of any well-formed set (every
layout), answers true exactly for the members -/
theorem source_contains_is_membership_u64 {r : Rp} (wf : WF cfg64 r) (e : Nat) (he : e < 2 ^ 64) :
    srcContains64 r e = true ↔ e ∈ elems cfg64 r := by
  rw [source_contains_is_model_u64 wf e he]
  exact contains_refines cfg64_ok wf e he

/-! ### the in-place paths of `insert` are those of the current source -/

/-- the `Dense` and `Heap` arms of `SetU64::insert`, translated from the source on every run up to the points where the
set has to grow or change layout: whenever the translated arm returns — the bit was set in the bitmap; the key was
found, an empty bucket was taken, or `p_insert` made room — `insert` of the model returns the same answer, member count
and slice, for every `u64` element, table, generator and recursion fuel -/
theorem insert_in_place_is_the_source_u64 {D : Type} (g : Rng D) (fuel e sz cap : Nat) (a : Tbl) (he : e < 2 ^ 64) (d : D)
    (res : (Bool × Nat) × Array Nat) :
    (cap = a.size → Gen.insert_dense_64 e sz a = .ok res →
      insert cfg64 g (fuel + 1) (.heap sz cap 64 a) e d = armOut cap 64 d (.ok res)) ∧
    (∀ bits, 0 < bits ∧ bits < 64 → Gen.insert_heap_64 e sz bits a = .ok res →
      insert cfg64 g (fuel + 1) (.heap sz cap bits a) e d = armOut cap bits d (.ok res)) :=
  ⟨fun hc h => insert_dense_is_the_source_u64 g fuel e sz cap a hc d h,
   fun bits hb h => insert_heap_is_the_source_u64 g fuel e sz cap bits a he hb d h⟩
/-- … and the plain-table arm for an element other than the placeholder (found / empty bucket / `p_insert` with room) -/
theorem insert_in_place_plain_is_the_source_u64 {D : Type} (g : Rng D) (fuel e sz cap bits : Nat) (a : Tbl)
    (hb : bits = 0 ∨ bits > 64) (d : D) {res : (Bool × Nat × Nat) × Array Nat} (h : Gen.insert_big_64 e sz bits a = .ok res) :
    insert cfg64 g (fuel + 1) (.heap sz cap bits a) e d = armOutB cap d (.ok res) :=
  insert_big_is_the_source_u64 g fuel e sz cap bits a hb d h

/-- **inserting the placeholder value itself** (the path on which D9 and D13 lived): `p_remove` of the stand-in for 0,
one draw, the upward scan to the first usable value (greater than 64, not the old placeholder, not a word of the
table; wrapping), re-insertion of the stand-in, then the in-place paths — the `Big` arm of the source translated in
full up to the growth point, with the generator's draw as a parameter.  Whenever it returns, the model's `insert`
returns the same set (new placeholder included), answer and generator state -/
theorem insert_placeholder_is_the_source_u64 {D : Type} (g : Rng D) (fuel sz cap bits : Nat) (a : Tbl)
    (hb : bits = 0 ∨ bits > 64) (d : D) (hsmall : a.size + 64 + 3 ≤ 2 ^ 64) {res : (Bool × Nat × Nat) × Array Nat}
    (h : Gen.insert_bigfull_64 bits sz bits a (modW cfg64 (g.draw d cap bits).1) = .ok res) :
    insert cfg64 g (fuel + 1) (.heap sz cap bits a) bits d = armOutB cap (g.draw d cap bits).2 (.ok res) :=
  SC.insert_placeholder_is_the_source_u64 g fuel sz cap bits a hb d hsmall h

/-- **`insert` on an empty or inline set is the source's**: the `Empty` and `Stack` arms of `SetU64::insert` up to the
point where the set has to leave the word — `Tiny::from_singleton` / `Tiny::insert` (translated in full:
`inline_insert_is_the_source_u64`, C10) and `to_usize`, with the glue `*self = SetU64(newt.to_usize() as *mut S); return
newt.sz != t.sz` pinned by shape —: whenever the translated arm yields a new tagged word and an answer, the model's
`insert` returns that answer and an inline set whose tagged word is that word, the generator untouched -/
theorem insert_inline_is_the_source_u64 {D : Type} (g : Rng D) (fuel e : Nat) (he : e < 2 ^ 64) (d : D) (w : Nat) (b : Bool) :
    (Gen.insert_empty_64 e = some (w, b) →
      ∃ t', insert cfg64 g (fuel + 1) .empty e d = .ok ((.stack t', b), d) ∧ TinyC.toWord TinyC.codec64 t' = w) ∧
    (∀ t, WF cfg64 (.stack t) → Gen.insert_stack_64 t.sz t.bits e = .ok (some (w, b)) →
      ∃ t', insert cfg64 g (fuel + 1) (.stack t) e d = .ok ((.stack t', b), d) ∧ TinyC.toWord TinyC.codec64 t' = w) :=
  ⟨fun h => insert_empty_64_eq g fuel e he d w b h, fun t wf h => insert_stack_64_eq g fuel t wf e he d w b h⟩

/-- **`remove` on an inline set is the source's**: the `Stack` arm of `SetU64::remove` (shape pinned) — membership by
running the translated inline iterator to its end, then the null word for the last member or `collect()` of what
`t.filter(|&x| x != e)` yields —: the model's `remove` answers and continues exactly so (`collect()` itself is the
model's `fromIterSorted`, tied by runs) -/
theorem remove_inline_is_the_source_u64 {D : Type} (g : Rng D) (fuel : Nat) (t : TinyC.T) (wf : WF cfg64 (.stack t)) (e : Nat) (d : D) :
    remove cfg64 g fuel (.stack t) e d =
      (match Gen.remove_stack_64 t.sz t.bits e with
       | none => .ok ((.stack t, false), d)
       | some none => .ok ((.empty, true), d)
       | some (some v) => (do let r ← fromIterSorted cfg64 g fuel v; pure (r, true) : M D (Rp × Bool)) d) :=
  remove_stack_64_eq g fuel t wf e d

end C01

#print axioms C01.insert_refines_u64
#print axioms C01.remove_refines_u64
#print axioms C01.contains_refines_u64
#print axioms C01.run_refines_u64
#print axioms C01.demo_runs
#print axioms C01.demo_wf
#print axioms C01.checked_state_is_wellformed_u64
#print axioms C01.run_refines_from_checked_u64
