import TinysetModel.Proofs.ProgramTotal
import TinysetModel.Proofs.Repick
import TinysetModel.Proofs.Consts
import TinysetModel.Proofs.Plain2
import TinysetModel.Proofs.CfgInst
import TinysetModel.Proofs.Demo
import TinysetModel.Proofs.TotalSites
import TinysetModel.Proofs.Total32Insert
/-! C20 — every operation terminates.
Every model function is a total Lean function (structural recursion, or fuel bounded by the table
length / an explicit fuel argument), so "the model terminates" is checked by Lean's termination
checker; the theorems here are the fuel-sufficiency statements for the one loop whose length is
not bounded by a table length: the placeholder selection — first for the scan alone, then for the
whole plain-table `insert` that contains it (`insert_plain_returns_*`): it never ends in one of the
model's error results (`Err.scan`, `Err.noRoom`, `Err.fuel`, …), for EVERY RNG oracle — in particular
for a published deterministic one whose outputs the caller can predict and insert. -/
namespace C20
open SC

/-- the placeholder scan returns within `|table| + W + 3` steps for every draw `i`, every table and
    every configuration of the generator, and what it returns is usable (SetU64) -/
theorem placeholder_scan_terminates_u64 (a : List Nat) (e i : Nat) (hi : i < 2 ^ 64)
    (hsmall : a.length + 64 + 3 ≤ 2 ^ 64) :
    ∃ r, scanUp cfg64 a e (a.length + 64 + 3) i = some r ∧ 64 < r ∧ r ≠ e ∧ r ∉ a :=
  scanUp_terminates cfg64 a e i hi hsmall
theorem placeholder_scan_terminates_u32 (a : List Nat) (e i : Nat) (hi : i < 2 ^ 32)
    (hsmall : a.length + 32 + 3 ≤ 2 ^ 32) :
    ∃ r, scanUp cfg32 a e (a.length + 32 + 3) i = some r ∧ 32 < r ∧ r ≠ e ∧ r ∉ a :=
  scanUp_terminates cfg32 a e i hi hsmall

/-- the initial placeholder of `with_capacity_and_bits(cap, 0)` is one draw, no loop (source shape
    read by the translator: `if b <= W { b + W + 1 }`) -/
theorem initial_placeholder_no_loop : Gen.placeholderFloor64 = (64, 65) ∧ Gen.placeholderFloor32 = (32, 33) := by decide

/-- non-vacuity: a table that contains the drawn value, the value after it, and the inserted value -/
example : scanUp cfg64 [100, 101] 102 (2 + 64 + 3) 100 = some 103 := by decide

/-- the whole plain-table `insert` (SetU64) — lookup, placing, growth with a random amount, and, when the value
being inserted IS the current zero placeholder, the selection of a new placeholder and the rewrite of the table —
returns a result for every well-formed table, every value, every RNG oracle `g` and state `d`
(tables below `2^64 - 67` words, i.e. all that fit in memory) -/
theorem insert_plain_returns_u64 {D : Type} (g : Rng D) {sz cap bits : Nat} {a : RH.Tbl}
    (wf : WF cfg64 (.heap sz cap bits a)) (hpl : isPlain cfg64 bits = true) (hnd : isDense cfg64 bits = false)
    (e : Nat) (he : e < 2 ^ 64) (d : D) (hsmall : a.size + 64 + 3 ≤ 2 ^ 64) :
    ∃ r' b d', insertPlain cfg64 g sz cap bits a e d = .ok ((r', b), d') :=
  insertPlain_total cfg64_ok g wf hpl hnd e he d hsmall
/-- the same for SetU32 (tables below `2^32 - 35` words) -/
theorem insert_plain_returns_u32 {D : Type} (g : Rng D) {sz cap bits : Nat} {a : RH.Tbl}
    (wf : WF cfg32 (.heap sz cap bits a)) (hpl : isPlain cfg32 bits = true) (hnd : isDense cfg32 bits = false)
    (e : Nat) (he : e < 2 ^ 32) (d : D) (hsmall : a.size + 32 + 3 ≤ 2 ^ 32) :
    ∃ r' b d', insertPlain cfg32 g sz cap bits a e d = .ok ((r', b), d') :=
  insertPlain_total cfg32_ok g wf hpl hnd e he d hsmall
/-- generic form -/
theorem insert_plain_returns {c : Cfg} (ok : CfgOK c) {D : Type} (g : Rng D) {sz cap bits : Nat} {a : RH.Tbl}
    (wf : WF c (.heap sz cap bits a)) (hpl : isPlain c bits = true) (hnd : isDense c bits = false)
    (e : Nat) (he : e < 2 ^ c.W) (d : D) (hsmall : a.size + c.W + 3 ≤ 2 ^ c.W) :
    ∃ r' b d', insertPlain c g sz cap bits a e d = .ok ((r', b), d') :=
  insertPlain_total ok g wf hpl hnd e he d hsmall

/-- non-vacuity: reachable plain tables of both types; the adversarial call — inserting the current placeholder
itself, which the caller can compute from `detRng` — returns, with a new placeholder -/
example : ∃ r' b d', insertPlain cfg64 detRng 2 4 9838956529666160483
    #[9223372036854775808, 9223373136366403584, 0, 0] 9838956529666160483 () = .ok ((r', b), d') :=
  insert_plain_returns_u64 detRng Demo.plain64_wf (by decide) (by decide) _ (by decide) () (by decide)
example : insertPlain cfg64 detRng 2 4 9838956529666160483 #[9223372036854775808, 9223373136366403584, 0, 0]
    9838956529666160483 () =
    .ok ((.heap 3 4 15245010169345450495 #[9223372036854775808, 9223373136366403584, 0, 9838956529666160483], true), ()) := by
  decide +kernel
example : ∃ r' b d', insertPlain cfg32 detRng 2 4 2940401507 #[2147483648, 2148532224, 0, 0] 2940401507 () = .ok ((r', b), d') :=
  insert_plain_returns_u32 detRng Demo.plain32_wf (by decide) (by decide) _ (by decide) () (by decide)

/-- SetU64: the recursive `insert` needs recursion depth at most 2 for every well-formed set, every value, every
    generator and state — the re-insertion loop of a rebuilt table never enters a growth branch again -/
theorem insert_depth_bounded_u64 {D : Type} (g : Rng D) {r : Rp} (wf : WF cfg64 r) (e : Nat) (he : e < 2 ^ 64)
    (hsize : capacity r + 64 + 3 ≤ 2 ^ 64 ∧ 3 * len r + 4 + 64 + 3 ≤ 2 ^ 64) (d : D) :
    ∃ r' b d', insert cfg64 g 2 r e d = .ok ((r', b), d') := insert_total_u64_fuel2 g wf e he hsize d

/-- SetU32 (repaired growth: a full table of `cap` buckets is regrown to `cap + 1 + cap / 8 + r % cap`): the same
    bound — recursion depth at most 2 for every well-formed set, every value, every generator and state -/
theorem insert_depth_bounded_u32 {D : Type} (g : Rng D) {r : Rp} (wf : WF cfg32 r) (e : Nat) (he : e < 2 ^ 32)
    (hsize : capacity r + 32 + 3 ≤ 2 ^ 32 ∧ 3 * len r + 4 + 32 + 3 ≤ 2 ^ 32) (d : D) :
    ∃ r' b d', insert cfg32 g 2 r e d = .ok ((r', b), d') := insert_total_u32_fuel2 g wf e he hsize d

/-! ### programs over several sets return -/

/-- no hint-free program over any number of sets can make a call run forever or fail, in either set type, for any
generator (in particular the published deterministic one) — as long as it feeds in fewer than 2^59 / 2^27 items -/
theorem every_program_returns {D : Type} (g : Rng D) (fuel n : Nat) (ops : List POp) (d : D) :
    ((∀ op ∈ ops, op.hintFree ∧ op.InRange 64) → 2 * pitems ops < 2 ^ 60 →
      ∃ s' evs d', prun cfg64 true g (fuel + 2) (List.replicate n .empty) ops d = .ok ((s', evs), d')) ∧
    ((∀ op ∈ ops, op.hintFree ∧ op.InRange 32) → 2 * pitems ops < 2 ^ 28 →
      ∃ s' evs d', prun cfg32 false g (fuel + 2) (List.replicate n .empty) ops d = .ok ((s', evs), d')) :=
  ⟨fun h1 h2 => prun_total (histTotal_u64 g fuel) true ops (U := []) d h1 (by simpa using h2) (reach_replicate g n),
   fun h1 h2 => prun_total (histTotal_u32 g fuel) false ops (U := []) d h1 (by simpa using h2) (reach_replicate g n)⟩

end C20

#print axioms C20.placeholder_scan_terminates_u64
#print axioms C20.placeholder_scan_terminates_u32
#print axioms C20.insert_plain_returns_u64
#print axioms C20.insert_plain_returns_u32
#print axioms C20.insert_depth_bounded_u32
