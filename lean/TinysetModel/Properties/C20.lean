import TinysetModel.Proofs.Repick
import TinysetModel.Proofs.Consts
/-! C20 — every operation terminates.
Every model function is a total Lean function (structural recursion, or fuel bounded by the table
length / an explicit fuel argument), so "the model terminates" is checked by Lean's termination
checker; the theorems here are the fuel-sufficiency statements for the one loop whose length is
not bounded by a table length: the placeholder selection. -/
namespace C20
open SC

/-- the placeholder scan returns within `|table| + W + 3` steps for every draw `i`, every table and
    every configuration of the generator, and what it returns is usable (SetU64) -/
theorem placeholder_scan_terminates_u64 (a : List Nat) (e i : Nat) (hi : i < 2 ^ 64)
    (hsmall : a.length + 64 + 3 ≤ 2 ^ 64) :
    ∃ r, scanUp cfg64 a e (a.length + 64 + 3) i = some r ∧ 64 < r ∧ r ≠ e ∧ r ∉ a :=
  scanUp_terminates cfg64 a e i hi hsmall
theorem placeholder_scan_terminates_u32 (a : List Nat) (e i : Nat) (hi : i < 2 ^ 32)
    (hsmall : a.length + 32 + 3 ≤ 2 ^ 32) :
    ∃ r, scanUp cfg32 a e (a.length + 32 + 3) i = some r ∧ 32 < r ∧ r ≠ e ∧ r ∉ a :=
  scanUp_terminates cfg32 a e i hi hsmall

/-- the initial placeholder of `with_capacity_and_bits(cap, 0)` is one draw, no loop (source shape
    read by the translator: `if b <= W { b + W + 1 }`) -/
theorem initial_placeholder_no_loop : Gen.placeholderFloor64 = (64, 65) ∧ Gen.placeholderFloor32 = (32, 33) := by decide

/-- non-vacuity: a table that contains the drawn value, the value after it, and the inserted value -/
example : scanUp cfg64 [100, 101] 102 (2 + 64 + 3) 100 = some 103 := by decide

end C20
