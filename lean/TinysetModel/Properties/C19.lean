import TinysetModel.Proofs.SerdeSpec
import TinysetModel.Proofs.CfgInst
import TinysetModel.Proofs.Demo
/-! C19 — the compactserde round trip reproduces the set within one build.

Model (`Model/Ops.lean`): `toArray c r` is the experimental `to_array` — for a heap set the header fields `sz`,
`bits` followed by the `cap` raw words, for an inline or empty set the tagged word itself (one u64 for
SetU64/SetUsize, two u32 halves for SetU32); `fromArray c g v` is `from_array` — decides inline vs heap from the
LENGTH of the array (`> 1`, resp. `> 2`), allocates `with_capacity_and_bits(len - 2, v[1])`, copies the words.
The theorems say more than "equal set": the round trip returns the IDENTICAL representation (same layout,
capacity, placeholder and word positions), for every layout, every RNG oracle and state, and it does not
advance the RNG state (`with_capacity_and_bits` draws only for `bits = 0`, which no well-formed heap value has).
"Within one build": the raw words include tables positioned by this build's hash arithmetic, so nothing is
claimed across builds or platforms. -/
namespace C19
open SC

/-- SetU64 / SetUsize: `from_array(to_array(s))` is `s`, bit for bit, in every layout -/
theorem compact_roundtrip_u64 {D : Type} (g : Rng D) (r : Rp) (wf : WF cfg64 r) (d : D) :
    fromArray cfg64 g (toArray cfg64 r) d = .ok (r, d) := roundtrip_u64 g r wf d
/-- SetU32 -/
theorem compact_roundtrip_u32 {D : Type} (g : Rng D) (r : Rp) (wf : WF cfg32 r) (d : D) :
    fromArray cfg32 g (toArray cfg32 r) d = .ok (r, d) := roundtrip_u32 g r wf d

/-- generically, from the three facts about the tag codec that the proof needs (`serde64_ok`, `serde32_ok`) -/
theorem compact_roundtrip {c : Cfg} (ok : SerdeOK c) {D : Type} (g : Rng D) (r : Rp) (wf : WF c r) (d : D) :
    fromArray c g (toArray c r) d = .ok (r, d) := roundtrip ok g r wf d

/-- the length of the encoding: `cap + 2` entries for a heap set, one entry otherwise (SetU64) -/
theorem to_array_length_u64 (r : Rp) (wf : WF cfg64 r) :
    (toArray cfg64 r).length = match r with | .heap _ cap _ _ => cap + 2 | _ => 1 := toArray_length_u64 r wf
/-- … two entries otherwise (SetU32) -/
theorem to_array_length_u32 (r : Rp) (wf : WF cfg32 r) :
    (toArray cfg32 r).length = match r with | .heap _ cap _ _ => cap + 2 | _ => 2 := toArray_length_u32 r wf

/-- the length test of `from_array` can never confuse the two cases: a heap set has at least 3 entries
(its capacity is positive), an inline one at most 2 -/
theorem heap_at_least_3_u64 {sz cap bits : Nat} {a : RH.Tbl} (wf : WF cfg64 (.heap sz cap bits a)) :
    3 ≤ (toArray cfg64 (.heap sz cap bits a)).length := toArray_heap_ge3_u64 wf
theorem heap_at_least_3_u32 {sz cap bits : Nat} {a : RH.Tbl} (wf : WF cfg32 (.heap sz cap bits a)) :
    3 ≤ (toArray cfg32 (.heap sz cap bits a)).length := toArray_heap_ge3_u32 wf

/-- SetU32: the two halves written for an inline set are 32-bit values when the inline payload fits the 64-bit
word (`t.bits < 2^61`; this bound is a hypothesis here, it is not part of `WF`: `Nat` shifts do not truncate, so the
round trip itself holds without it) -/
theorem inline_halves_u32 {r : Rp} (wf : WF cfg32 r) (hr : ∀ sz cap bits a, r ≠ .heap sz cap bits a)
    (hinl : ∀ t, r = .stack t → t.bits < 2 ^ 61) : ∀ x ∈ toArray cfg32 r, x < 2 ^ 32 := toArray_u32_halves wf hr hinl

/-! ### the hypotheses are satisfiable: every layout of both types -/

example : fromArray cfg64 detRng (toArray cfg64 Demo.bitmap64) () = .ok (Demo.bitmap64, ()) := compact_roundtrip_u64 _ _ Demo.bitmap64_wf _
example : fromArray cfg64 detRng (toArray cfg64 Demo.plain64) () = .ok (Demo.plain64, ()) := compact_roundtrip_u64 _ _ Demo.plain64_wf _
example : fromArray cfg64 detRng (toArray cfg64 Demo.dense64) () = .ok (Demo.dense64, ()) := compact_roundtrip_u64 _ _ Demo.dense64_wf _
example : fromArray cfg64 detRng (toArray cfg64 Demo.inline) () = .ok (Demo.inline, ()) := compact_roundtrip_u64 _ _ Demo.inline64_wf _
example : fromArray cfg32 detRng (toArray cfg32 Demo.bitmap32) () = .ok (Demo.bitmap32, ()) := compact_roundtrip_u32 _ _ Demo.bitmap32_wf _
example : fromArray cfg32 detRng (toArray cfg32 Demo.plain32) () = .ok (Demo.plain32, ()) := compact_roundtrip_u32 _ _ Demo.plain32_wf _
example : fromArray cfg32 detRng (toArray cfg32 Demo.dense32) () = .ok (Demo.dense32, ()) := compact_roundtrip_u32 _ _ Demo.dense32_wf _
example : fromArray cfg32 detRng (toArray cfg32 Demo.inline) () = .ok (Demo.inline, ()) := compact_roundtrip_u32 _ _ Demo.inline32_wf _
/-- what the encodings look like -/
example : toArray cfg64 Demo.bitmap64 = [2, 23, 401016175510691840, 360712192, 0] ∧
    toArray cfg64 Demo.inline = [559572270880653339] ∧ toArray cfg32 Demo.inline = [27, 130285572] := by decide +kernel

end C19

#print axioms C19.compact_roundtrip_u64
#print axioms C19.compact_roundtrip_u32
#print axioms C19.to_array_length_u64
#print axioms C19.to_array_length_u32
