import TinysetModel.Proofs.AllocFault
import TinysetModel.Proofs.TotalSites
import TinysetModel.Proofs.Total32Insert
import TinysetModel.Proofs.Plain2
import TinysetModel.Proofs.FaultSpec
import TinysetModel.Proofs.FaultExtend
/-! C14 — allocation failure is contained.
What a theorem about the functional model can and cannot say.  In the model an operation returns a new
value, so "the set is unchanged when the operation fails" holds by construction; the question for the
Rust code is whether anything is mutated IN PLACE before an allocation that may fail.  Reading the code,
there are exactly two such places, and the theorems below are the facts that make them harmless:
 1. plain table, inserting the placeholder value: the placeholder is re-chosen in place before the table
    may have to grow.  `replaced_placeholder_keeps_members`: that step keeps the decoded member list
    (up to order) and the invariant — so after a failed growth the set holds exactly its prior contents,
    although its representation (the placeholder word) differs.
 2. inline → heap switch (and every other rebuild): the new block is assigned first and then refilled.
    `refill_never_grows_u64`: for the SetU64 configuration the refill only takes non-growing steps, i.e. it
    requests no further block, so there is no allocation after the assignment.  `refill_never_grows_u32`: the
    same for SetU32, whose rebuild sites (with the repaired regrowth `cap + 1 + cap / 8 + r % cap`) all create
    tables that keep more than 1/16 of their buckets empty throughout the refill (`RefillGoodS`).
The failure-state model (`Model/Fault.lean`) puts these facts together: `insertT` is a second reading of `insert`
that also returns what `*self` holds at each request for a zeroed block (the assignment order read off the source:
`*self = new` first for the inline → heap switch, a local `new` assigned last everywhere else, the placeholder
re-chosen in place).  The harness fails each request of each insert in turn, catches the panic and sends the
representation it finds; the driver compares it bit for bit with the model's state (`flt`/`flx` lines).
`failure_states_u64/u32`: for EVERY well-formed set, value and generator outcome, an insert makes at most one
request, and at that moment `*self` is well-formed, has the same length and holds exactly the prior members; the
traced reading returns what `insert` returns.
What stays outside the theorems: that the code panics rather than continuing, that unwinding frees the locals,
that nothing leaks, and the non-zeroed requests (`Vec` temporaries, `realloc`: they abort, see D11) — decided by
fault injection in the harness. -/
namespace C14
open SC RH

variable {c : Cfg} {D : Type}

/-- the in-place placeholder replacement keeps the members, the invariant, and yields a usable placeholder -/
theorem replaced_placeholder_keeps_members (g : Rng D) {sz cap bits : Nat} {a : Tbl} (pw : PlainWF bits sz a)
    (hwords : ∀ x ∈ nz a, x < 2 ^ c.W) (d : D) {i : Nat}
    (hscan : scanUp c (premove bits a 0).2.toList bits ((premove bits a 0).2.size + c.W + 3)
      (modW c (g.draw d cap bits).1) = some i) :
    ∃ a2, Plain2.repick c g cap bits a bits d = .ok ((a2, i), (g.draw d cap bits).2) ∧ PlainWF i sz a2 ∧
      a2.size = a.size ∧ c.W < i ∧ i < 2 ^ c.W ∧ i ≠ bits ∧ (∀ x ∈ nz a2, x < 2 ^ c.W) ∧
      (plainElems i a2).Perm (plainElems bits a) :=
  Plain2.repick_spec g pw hwords d hscan

/-- SetU64: re-inserting the members into a freshly built table never requests another block: every step
    returns through a non-growing branch (the capacity of the table being refilled is unchanged) -/
theorem refill_never_grows_u64 (g : Rng D) (rec : Ins D) (hrec : RecOK cfg64 rec) {V : List Nat} (xs : List Nat)
    (r : Rp) (d : D) (gd : RefillGood cfg64 V r) (hxs : ∀ x ∈ xs, x ∈ V ∧ x < 2 ^ cfg64.W) :
    ∃ r' d', insertAll (insertStep cfg64 g rec) r xs d = .ok (r', d') ∧ RefillGood cfg64 V r' :=
  insertAll_total cfg64_ok rfl g rec hrec xs r d gd hxs

/-- SetU32: the same, for the refill invariant with the 1/16 room rule (`RefillGoodS`, established by every
    rebuild site of `insert`, see `Proofs/Total32Sites.lean`, `Proofs/Total32Insert.lean`) -/
theorem refill_never_grows_u32 (g : Rng D) (rec : Ins D) (hrec : RecOK cfg32 rec) {V : List Nat} (xs : List Nat)
    (r : Rp) (d : D) (gd : RefillGoodS cfg32 V r) (hxs : ∀ x ∈ xs, x ∈ V ∧ x < 2 ^ cfg32.W) :
    ∃ r' d', insertAll (insertStep cfg32 g rec) r xs d = .ok (r', d') ∧ RefillGoodS cfg32 V r' :=
  insertAll_totalS cfg32_ok g rec hrec xs r d gd hxs

/-- SetU64: an insert always returns a correct result when no allocation fails (the baseline that the
    fault-injection runs perturb) -/
theorem insert_returns_u64 (g : Rng D) {r : Rp} (wf : WF cfg64 r) (e : Nat) (he : e < 2 ^ 64)
    (hsize : capacity r + 64 + 3 ≤ 2 ^ 64 ∧ 3 * len r + 4 + 64 + 3 ≤ 2 ^ 64) (d : D) :
    ∃ r' b d', insert cfg64 g 3 r e d = .ok ((r', b), d') ∧ InsOK cfg64 r e r' b :=
  insert_total_correct_u64 g wf e he hsize d

/-- the traced reading of `insert` computes exactly what `insert` computes (results, errors, generator state) -/
theorem traced_insert_is_insert (c : Cfg) (fresh : Bool) (g : Rng D) (fuel : Nat) (r : Rp) (e : Nat) (d : D) :
    dropTr (insertT c fresh g fuel r e d) = insert c g fuel r e d :=
  insertT_proj c fresh g fuel r e d

/-- **SetU64: allocation failure inside `insert` is contained.** Every insert into a well-formed set makes at
    most one request for a zeroed block; whatever `*self` holds at that moment (what the caller finds after
    catching the panic) is well-formed, has the prior length and exactly the prior members. -/
theorem failure_states_u64 (g : Rng D) {r : Rp} (wf : WF cfg64 r) (e : Nat) (he : e < 2 ^ 64)
    (hsize : capacity r + 64 + 3 ≤ 2 ^ 64 ∧ 3 * len r + 4 + 64 + 3 ≤ 2 ^ 64) (d : D) :
    ∃ r' b tr d', insertT cfg64 true g 3 r e d = .ok (((r', b), tr), d') ∧ insert cfg64 g 3 r e d = .ok ((r', b), d') ∧
      tr.length ≤ 1 ∧ ∀ s ∈ tr, WF cfg64 s ∧ (elems cfg64 s).Perm (elems cfg64 r) ∧ len s = len r :=
  insertT_contained_u64 g wf e he hsize d

/-- **SetU32: the same** (dense growth reallocates in place and makes no zeroed request: `fresh = false`) -/
theorem failure_states_u32 (g : Rng D) {r : Rp} (wf : WF cfg32 r) (e : Nat) (he : e < 2 ^ 32)
    (hsize : capacity r + 32 + 3 ≤ 2 ^ 32 ∧ 3 * len r + 4 + 32 + 3 ≤ 2 ^ 32) (d : D) :
    ∃ r' b tr d', insertT cfg32 false g 3 r e d = .ok (((r', b), tr), d') ∧ insert cfg32 g 3 r e d = .ok ((r', b), d') ∧
      tr.length ≤ 1 ∧ ∀ s ∈ tr, WF cfg32 s ∧ (elems cfg32 s).Perm (elems cfg32 r) ∧ len s = len r :=
  insertT_contained_u32 g wf e he hsize d

/-- **`extend` (SetU64): a failed request inside the insert loop leaves a usable set between the prior and the final
    contents.** Every state `*self` can be found in is well-formed, holds every prior member, and nothing but prior
    members and values of the batch; at most one request per value. `CapOK r M`: `M` bounds the member count the
    set ever had (it bounds the capacity, see C11). -/
theorem extend_failure_states_u64 (g : Rng D) (fuel : Nat) {r : Rp} (wf : WF cfg64 r) (xs : List Nat)
    (hx : ∀ x ∈ xs, x < 2 ^ 64) {M : Nat} (hc : CapOK r M) (hsize : M + xs.length < 2 ^ 60) (d : D) :
    ∃ r' tr d', extendT cfg64 true g (fuel + 2) r xs d = .ok ((r', tr), d') ∧
      extend cfg64 g (fuel + 2) r xs d = .ok (r', d') ∧ tr.length ≤ xs.length ∧
      ∀ s ∈ tr, WF cfg64 s ∧ (∀ y ∈ elems cfg64 r, y ∈ elems cfg64 s) ∧
        (∀ y ∈ elems cfg64 s, y ∈ elems cfg64 r ∨ y ∈ xs) :=
  extendT_contained_u64 g fuel wf xs hx hc hsize d

theorem extend_failure_states_u32 (g : Rng D) (fuel : Nat) {r : Rp} (wf : WF cfg32 r) (xs : List Nat)
    (hx : ∀ x ∈ xs, x < 2 ^ 32) {M : Nat} (hc : CapOK r M) (hsize : M + xs.length < 2 ^ 28) (d : D) :
    ∃ r' tr d', extendT cfg32 false g (fuel + 2) r xs d = .ok ((r', tr), d') ∧
      extend cfg32 g (fuel + 2) r xs d = .ok (r', d') ∧ tr.length ≤ xs.length ∧
      ∀ s ∈ tr, WF cfg32 s ∧ (∀ y ∈ elems cfg32 r, y ∈ elems cfg32 s) ∧
        (∀ y ∈ elems cfg32 s, y ∈ elems cfg32 r ∨ y ∈ xs) :=
  extendT_contained_u32 g fuel wf xs hx hc hsize d

/-- non-vacuity: a full 4-bucket plain table whose placeholder 100 is inserted while 0 is a member: the one request
    is made with the placeholder already replaced by 200 in place — the state differs from the prior one
    (`#[100, 5, 6, 7]` with placeholder 100), the members `0, 5, 6, 7` are kept -/
example : (match insertT cfg64 true (⟨fun d _ _ => (200, d)⟩ : Rng Unit) 3 (.heap 4 4 100 #[100, 5, 6, 7]) 100 () with
    | .ok ((_, tr), _) => tr.map (fun s =>
        ((match s with | .heap sz cap bits a => (sz, cap, bits, a.toList) | _ => (0, 0, 0, [])), elems cfg64 s))
    | .error _ => []) = [((4, 4, 200, [200, 5, 6, 7]), [0, 5, 6, 7])] := by decide +kernel

/-! ### the fault points are the allocator calls -/

/-- the requests the failure-state reading enumerates are exactly the `alloc_zeroed` calls of the allocator-call
reading of the same run (`Model/Alloc.lean`, compared call by call with the real allocator's record): same result,
same generator state, same number — every input, generator and fuel, both set types -/
theorem requests_are_the_alloc_calls {D : Type} (c : Cfg) (fresh : Bool) (g : Rng D) (fuel : Nat) {r : Rp} {e : Nat} {d d1 : D}
    {res : Rp × Bool} {t : Tr} (h : insertT c fresh g fuel r e d = .ok ((res, t), d1)) :
    ∃ evs, insertE c fresh g fuel r e d = .ok ((res, evs), d1) ∧ t.length = nAlloc evs :=
  insertT_insertE c fresh g fuel h

/-- hence: every insert into a well-formed SetU64 calls `alloc_zeroed` at most once (and every such call is a fault
point the failure-state theorem covers) -/
theorem insert_allocates_at_most_once_u64 {D : Type} (g : Rng D) {r : Rp} (wf : WF cfg64 r) (e : Nat) (he : e < 2 ^ 64)
    (hsize : capacity r + 64 + 3 ≤ 2 ^ 64 ∧ 3 * len r + 4 + 64 + 3 ≤ 2 ^ 64) (d : D) :
    ∃ res evs d', insertE cfg64 true g 3 r e d = .ok ((res, evs), d') ∧ nAlloc evs ≤ 1 := by
  obtain ⟨r', b, tr, d', hT, _, hlen, _⟩ := failure_states_u64 g wf e he hsize d
  obtain ⟨evs, hE, hn⟩ := insertT_insertE cfg64 true g 3 hT
  exact ⟨_, evs, d', hE, by omega⟩
theorem insert_allocates_at_most_once_u32 {D : Type} (g : Rng D) {r : Rp} (wf : WF cfg32 r) (e : Nat) (he : e < 2 ^ 32)
    (hsize : capacity r + 32 + 3 ≤ 2 ^ 32 ∧ 3 * len r + 4 + 32 + 3 ≤ 2 ^ 32) (d : D) :
    ∃ res evs d', insertE cfg32 false g 3 r e d = .ok ((res, evs), d') ∧ nAlloc evs ≤ 1 := by
  obtain ⟨r', b, tr, d', hT, _, hlen, _⟩ := failure_states_u32 g wf e he hsize d
  obtain ⟨evs, hE, hn⟩ := insertT_insertE cfg32 false g 3 hT
  exact ⟨_, evs, d', hE, by omega⟩

end C14

#print axioms C14.refill_never_grows_u32
#print axioms C14.failure_states_u64
#print axioms C14.failure_states_u32
#print axioms C14.extend_failure_states_u64
#print axioms C14.extend_failure_states_u32
