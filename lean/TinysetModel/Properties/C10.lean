import TinysetModel.Proofs.Fns
import TinysetModel.Proofs.Tiny.Ascending
import TinysetModel.Proofs.Consts
import TinysetModel.Proofs.InlineSpec
import TinysetModel.Proofs.Demo
import TinysetModel.Proofs.TinySrc
import TinysetModel.Proofs.TinyNextSrc
import TinysetModel.Proofs.TinyInsertSrc
/-! C10 — small sets of small numbers live in one machine word with no heap memory.

First part: the inline codec alone (`TinyC`, `Model/Tiny.lean`).  Second part: the same at the level of whole
sets (`SC.fromIter` = collect(), the `SC.insert` loop, `SC.remove`): the result is `Rp.stack t` — one tagged
machine word, `capacity = 0`, `mem_used = 8`, no block — the RNG state is returned unchanged (nothing is drawn,
nothing is allocated), for every RNG oracle, state and fuel.  `InBudget codec v` is the documented budget:
`v` non-empty, at most 7 (6) values, strictly increasing, first value and gaps within the widths of the table. -/
namespace C10
open TinyC SC

/-- the budget table the theorems are about is the one in the current source (u64) -/
theorem budget_table_u64 : codec64.splits = Gen.bitsplits64 ∧
    Gen.bitsplits64 = [[], [61], [40, 21], [31, 15, 15], [25, 12, 12, 12], [21, 10, 10, 10, 10],
      [21, 8, 8, 8, 8, 8], [19, 7, 7, 7, 7, 7, 7]] := ⟨bitsplits64_match, by decide⟩
/-- … and for u32 -/
theorem budget_table_u32 : codec32.splits = Gen.bitsplits32 ∧
    Gen.bitsplits32 = [[], [31], [31, 30], [31, 15, 15], [25, 12, 12, 12], [21, 10, 10, 10, 10],
      [21, 8, 8, 8, 8, 8]] := ⟨bitsplits32_match, by decide⟩

/-- collect(): a sorted duplicate-free list within the budget is packed inline and decodes to itself -/
theorem collect_inline_u64 (v : List Nat) (h : InBudget codec64 v) :
    ∃ t, newSortedDeduped codec64 v = some t ∧ t.members codec64 = v := collect_inline (c := codec64) codec64_ok v h
theorem collect_inline_u32 (v : List Nat) (h : InBudget codec32 v) :
    ∃ t, newSortedDeduped codec32 v = some t ∧ t.members codec32 = v := collect_inline (c := codec32) codec32_ok v h

/-- ascending insertion: appending a larger member that keeps the set within budget stays inline -/
theorem ascending_insert_u64 (t : T) (v : List Nat) (e : Nat)
    (hsz : t.sz = v.length) (hf : t.fields codec64 = fields v) (hb : InBudget codec64 (v ++ [e])) :
    ∃ t', insert codec64 t e = some t' ∧ t'.sz = v.length + 1 ∧ t'.members codec64 = v ++ [e] :=
  ascending_insert (c := codec64) codec64_ok t v e hsz hf hb
theorem ascending_insert_u32 (t : T) (v : List Nat) (e : Nat)
    (hsz : t.sz = v.length) (hf : t.fields codec32 = fields v) (hb : InBudget codec32 (v ++ [e])) :
    ∃ t', insert codec32 t e = some t' ∧ t'.sz = v.length + 1 ∧ t'.members codec32 = v ++ [e] :=
  ascending_insert (c := codec32) codec32_ok t v e hsz hf hb

/-- the widths never grow with the count, so every prefix of an in-budget set is in budget -/
theorem widths_antitone_u64 : ∀ k, k < 7 → ∀ i, i < k →
    (widths codec64 (k + 1)).getD i 0 ≤ (widths codec64 k).getD i 0 := widths_antitone64
theorem widths_antitone_u32 : ∀ k, k < 6 → ∀ i, i < k →
    (widths codec32 (k + 1)).getD i 0 ≤ (widths codec32 k).getD i 0 := widths_antitone32

/-- an inline set owns no heap block and `mem_used` is one word -/
theorem inline_mem_used (c : Cfg) (t : T) : blockBytes c (.stack t) = 0 ∧ memUsed c (.stack t) = 8 ∧
    capacity (.stack t) = 0 := ⟨rfl, rfl, rfl⟩

/-! ### whole sets: collect(), ascending insertion, removal -/

/-- collect() (SetU64 / Set64 / SetUsize): if the distinct items, sorted, are within the budget, the result is
inline with exactly those members; no heap block, `mem_used` is one word, the RNG state `d` is untouched -/
theorem collect_is_inline_u64 {D : Type} (g : Rng D) (fuel : Nat) (xs : List Nat)
    (hb : InBudget codec64 (sortDedup xs)) (d : D) :
    ∃ t, fromIter cfg64 g fuel xs d = .ok (.stack t, d) ∧ t.members codec64 = sortDedup xs ∧
      t.sz = (sortDedup xs).length ∧
      capacity (.stack t) = 0 ∧ memUsed cfg64 (.stack t) = 8 ∧ blockBytes cfg64 (.stack t) = 0 :=
  collect_inline_rp64 g fuel xs hb d
/-- collect() (SetU32) -/
theorem collect_is_inline_u32 {D : Type} (g : Rng D) (fuel : Nat) (xs : List Nat)
    (hb : InBudget codec32 (sortDedup xs)) (d : D) :
    ∃ t, fromIter cfg32 g fuel xs d = .ok (.stack t, d) ∧ t.members codec32 = sortDedup xs ∧
      t.sz = (sortDedup xs).length ∧
      capacity (.stack t) = 0 ∧ memUsed cfg32 (.stack t) = 8 ∧ blockBytes cfg32 (.stack t) = 0 :=
  collect_inline_rp32 g fuel xs hb d
/-- … and that inline value is well formed and has the items of `xs` as members (any configuration) -/
theorem collect_is_inline_wf {c : Cfg} {D : Type} (ok : CfgOK c) (g : Rng D) (fuel : Nat) (xs : List Nat)
    (hb : InBudget c.codec (sortDedup xs)) (hrange : ∀ x ∈ xs, x < 2 ^ c.W) (d : D) :
    ∃ t, fromIter c g fuel xs d = .ok (.stack t, d) ∧ StackWF c t ∧ ∀ x, x ∈ elems c (.stack t) ↔ x ∈ xs :=
  collect_inline_rp_wf ok g fuel xs hb hrange d
/-- what `sortDedup xs` is: the items of `xs` in strictly increasing order -/
theorem sortDedup_is (xs : List Nat) : (sortDedup xs).Pairwise (· < ·) ∧ ∀ x, x ∈ sortDedup xs ↔ x ∈ xs := sortDedup_spec xs

/-- ascending insertion (SetU64): inserting the members of an in-budget set `v` in ascending order into `new()`
is inline after EVERY step `k` (the first `k` members), and no step draws from the RNG -/
theorem ascending_is_inline_u64 {D : Type} (g : Rng D) (fuel : Nat) (v : List Nat) (hb : InBudget codec64 v) (d : D) :
    ∀ k, k ≤ v.length → ∃ r, insertAll (SC.insert cfg64 g (fuel + 1)) .empty (v.take k) d = .ok (r, d) ∧
      (k = 0 → r = .empty) ∧ (0 < k → ∃ t, r = .stack t ∧ t.sz = k ∧ t.members codec64 = v.take k) :=
  ascending_inline_rp64 g fuel v hb d
/-- ascending insertion (SetU32) -/
theorem ascending_is_inline_u32 {D : Type} (g : Rng D) (fuel : Nat) (v : List Nat) (hb : InBudget codec32 v) (d : D) :
    ∀ k, k ≤ v.length → ∃ r, insertAll (SC.insert cfg32 g (fuel + 1)) .empty (v.take k) d = .ok (r, d) ∧
      (k = 0 → r = .empty) ∧ (0 < k → ∃ t, r = .stack t ∧ t.sz = k ∧ t.members codec32 = v.take k) :=
  ascending_inline_rp32 g fuel v hb d
/-- the final state of the loop: the whole set in one word, `capacity = 0`, `mem_used = 8` -/
theorem ascending_final_u64 {D : Type} (g : Rng D) (fuel : Nat) (v : List Nat) (hb : InBudget codec64 v) (d : D) :
    ∃ t, insertAll (SC.insert cfg64 g (fuel + 1)) .empty v d = .ok (.stack t, d) ∧ t.sz = v.length ∧
      t.members codec64 = v ∧ capacity (.stack t) = 0 ∧ memUsed cfg64 (.stack t) = 8 :=
  ascending_inline_all cfg64_ok widthsAntitone64 g fuel v hb d
theorem ascending_final_u32 {D : Type} (g : Rng D) (fuel : Nat) (v : List Nat) (hb : InBudget codec32 v) (d : D) :
    ∃ t, insertAll (SC.insert cfg32 g (fuel + 1)) .empty v d = .ok (.stack t, d) ∧ t.sz = v.length ∧
      t.members codec32 = v ∧ capacity (.stack t) = 0 ∧ memUsed cfg32 (.stack t) = 8 :=
  ascending_inline_all cfg32_ok widthsAntitone32 g fuel v hb d

/-- removal: removing a member of an inline set, when what remains is within budget, gives an inline set with
exactly the remaining members; nothing is drawn -/
theorem remove_stays_inline_u64 {D : Type} (g : Rng D) (fuel : Nat) {t : T} (wf : StackWF cfg64 t) (e : Nat)
    (hmem : e ∈ t.members codec64) (hb : InBudget codec64 ((t.members codec64).filter (· ≠ e))) (d : D) :
    ∃ t', SC.remove cfg64 g fuel (.stack t) e d = .ok ((.stack t', true), d) ∧
      t'.members codec64 = (t.members codec64).filter (· ≠ e) ∧
      t'.sz = ((t.members codec64).filter (· ≠ e)).length :=
  SC.remove_stays_inline cfg64_ok g fuel wf e hmem hb d
theorem remove_stays_inline_u32 {D : Type} (g : Rng D) (fuel : Nat) {t : T} (wf : StackWF cfg32 t) (e : Nat)
    (hmem : e ∈ t.members codec32) (hb : InBudget codec32 ((t.members codec32).filter (· ≠ e))) (d : D) :
    ∃ t', SC.remove cfg32 g fuel (.stack t) e d = .ok ((.stack t', true), d) ∧
      t'.members codec32 = (t.members codec32).filter (· ≠ e) ∧
      t'.sz = ((t.members codec32).filter (· ≠ e)).length :=
  SC.remove_stays_inline cfg32_ok g fuel wf e hmem hb d
/-- removing the only member gives the empty word -/
theorem remove_only_member_u64 {D : Type} (g : Rng D) (fuel : Nat) {t : T} (wf : StackWF cfg64 t) (e : Nat)
    (hm : t.members codec64 = [e]) (d : D) : SC.remove cfg64 g fuel (.stack t) e d = .ok ((.empty, true), d) :=
  SC.remove_only_member cfg64_ok g fuel wf e hm d
theorem remove_only_member_u32 {D : Type} (g : Rng D) (fuel : Nat) {t : T} (wf : StackWF cfg32 t) (e : Nat)
    (hm : t.members codec32 = [e]) (d : D) : SC.remove cfg32 g fuel (.stack t) e d = .ok ((.empty, true), d) :=
  SC.remove_only_member cfg32_ok g fuel wf e hm d

/-- the empty set and every inline set are one word: `mem_used = 8`, `capacity = 0` -/
theorem one_word (c : Cfg) (t : T) : memUsed c .empty = 8 ∧ capacity .empty = 0 ∧ memUsed c (.stack t) = 8 ∧
    capacity (.stack t) = 0 := ⟨rfl, rfl, rfl, rfl⟩

/-! ### the hypotheses are satisfiable -/

/-- `{5, 1000, 30000}` is within both budgets -/
example : InBudget codec64 [5, 1000, 30000] ∧ InBudget codec32 [5, 1000, 30000] :=
  ⟨⟨by decide, by decide, ⟨by decide, by decide, by decide, trivial⟩, by decide⟩,
   ⟨by decide, by decide, ⟨by decide, by decide, by decide, trivial⟩, by decide⟩⟩
/-- an unsorted input with a duplicate whose distinct items are in budget -/
example : InBudget codec64 (sortDedup [5, 3, 5, 1000]) := by
  rw [Demo.sortDedup_small]; exact ⟨by decide, by decide, ⟨by decide, by decide, by decide, trivial⟩, by decide⟩
/-- a well-formed inline value, a member of it, and an in-budget remainder -/
example : StackWF cfg64 ⟨3, 69946533860081667⟩ ∧ 5 ∈ T.members codec64 ⟨3, 69946533860081667⟩ ∧
    InBudget codec64 ((T.members codec64 ⟨3, 69946533860081667⟩).filter (· ≠ 5)) :=
  ⟨Demo.inline64_wf, by decide, ⟨by decide, by decide, ⟨by decide, by decide, trivial⟩, by decide⟩⟩

/-! ### the word codec of the model is `Tiny::to_usize` / `Tiny::from_usize` of the current source
(`Generated/Fns.lean`, translated on every run) -/

theorem word_codec_is_the_source_u64 (t : T) (x : Nat) :
    Gen.tiny_to_usize_64 t.sz t.bits = toWord codec64 t ∧
    (⟨Gen.tiny_from_usize_sz_64 x, Gen.tiny_from_usize_bits_64 x⟩ : T) = ofWord codec64 x :=
  ⟨tiny_to_usize_64_eq t, tiny_from_usize_64_eq x⟩
/-- SetU32: counts 4, 5, 6 are stored as 5, 6, 7 so that `0b100` stays free for 4-aligned pointers -/
theorem word_codec_is_the_source_u32 (t : T) (h : t.sz ≤ 7) (x : Nat) :
    Gen.tiny_to_usize_32 t.sz t.bits = toWord codec32 t ∧
    (⟨Gen.tiny_from_usize_sz_32 x, Gen.tiny_from_usize_bits_32 x⟩ : T) = ofWord codec32 x :=
  ⟨tiny_to_usize_32_eq t h, tiny_from_usize_32_eq x⟩

/-! ### the constructor of the inline word IS the current source: `Tiny::new_sorted_deduped` (`setu64.rs`) / `Tiny::new`
(`setu32.rs`) translated on every run (`Generated/Loops.lean`: the `zip` loop over values and widths, the `log_2`
width test with its early `return None`, the `|`/`<<` packing) -/

/-- for every vector of `u64` values the source's constructor refuses exactly when the model's does and otherwise
builds the same count and payload — so `collect_is_inline_u64` and the budget table speak about the source's own
packing code -/
theorem inline_constructor_is_the_source_u64 (v : List Nat) (hv : ∀ x ∈ v, x < 2 ^ 64) :
    Gen.tiny_new_64 v = (newSortedDeduped codec64 v).map (fun t => (t.sz, t.bits)) := SC.tiny_new_64_eq v hv
/-- `SetU32` (`std`'s `sort`/`dedup` inside `Tiny::new` are a parameter: they leave the sorted duplicate-free vector
that `from_iter` passes as it is) -/
theorem inline_constructor_is_the_source_u32 (v : List Nat) (sd : List Nat → List Nat) (hsd : sd v = v)
    (hv : ∀ x ∈ v, x < 2 ^ 32) :
    Gen.tiny_new_32 v sd = (newSortedDeduped codec32 v).map (fun t => (t.sz, t.bits)) := SC.tiny_new_32_eq v sd hsd hv
/-- `Tiny::from_singleton` (the first insert into an empty set) as translated is the constructor at a one-element
vector, which is how the model's `insert` writes it -/
theorem inline_singleton_is_the_source (x : Nat) :
    (x < 2 ^ 64 → Gen.tiny_from_singleton_64 x = (newSortedDeduped codec64 [x]).map (fun t => (t.sz, t.bits))) ∧
    (x < 2 ^ 32 → Gen.tiny_from_singleton_32 x = (newSortedDeduped codec32 [x]).map (fun t => (t.sz, t.bits))) :=
  ⟨SC.tiny_from_singleton_64_eq x, SC.tiny_from_singleton_32_eq x⟩
/-- **`Tiny::insert` of the current source is the model's inline `insert`** — the function that decides, on every
`insert` into an inline set, whether the set stays one word: the re-packing with two explicit iterators over the old and
the new row of widths, three loops, `unwrap`s, and the `any` over the word when it is full, translated on every run. On
the word of any well-formed inline set and for every element of the element type it never panics and returns exactly
what `TinyC.insert` returns ("already there" / "does not fit" / the re-packed word) — so `ascending_is_inline` and the
budget theorems speak about the source's own packing code -/
theorem inline_insert_is_the_source_u64 (t : T) (wf : SC.WF SC.cfg64 (.stack t)) (e : Nat) (he : e < 2 ^ 64) :
    Gen.tiny_insert_64 t.sz t.bits e = .ok ((TinyC.insert codec64 t e).map (fun t => (t.sz, t.bits))) :=
  SC.tiny_insert_64_eq t wf e he
theorem inline_insert_is_the_source_u32 (t : T) (wf : SC.WF SC.cfg32 (.stack t)) (e : Nat) (he : e < 2 ^ 32) :
    Gen.tiny_insert_32 t.sz t.bits e = .ok ((TinyC.insert codec32 t e).map (fun t => (t.sz, t.bits))) :=
  SC.tiny_insert_32_eq t wf e he
/-- not vacuous: 5 goes between 3 and 10 (gaps 1 and 4 in the row [31, 15, 15]); 2^40 does not fit next to 3 -/
example : Gen.tiny_insert_64 2 (3 + 2 ^ 40 * 6) 5 = .ok (some (3, 3 + 2 ^ 31 * (1 + 2 ^ 15 * 4))) ∧
    Gen.tiny_insert_64 1 3 (2 ^ 40) = .ok none := by decide

/-- `<Tiny as Iterator>::next` of the current source — what `for x in t` runs when an inline set is converted to a
table, and what the inline `remove`, `max` and the operators iterate — translated on every run: calling it on the word
of any well-formed inline set until it answers `None` yields exactly the members of the word, in order -/
theorem inline_iteration_is_the_source_u64 (t : T) (wf : SC.WF SC.cfg64 (.stack t)) :
    Gen.tiny_drain_64 t.sz (t.sz + 1) 0 t.bits 0 = t.members codec64 := SC.tinyDrain64_eq_members t wf
theorem inline_iteration_is_the_source_u32 (t : T) (wf : SC.WF SC.cfg32 (.stack t)) :
    Gen.tiny_drain_32 t.sz (t.sz + 1) 0 t.bits 0 = t.members codec32 := SC.tinyDrain32_eq_members t wf
/-- not vacuous -/
example : Gen.tiny_drain_64 2 3 0 (3 + 2 ^ 40 * 6) 0 = [3, 10] := by decide
/-- not vacuous: {3, 10} is packed as 3 + 2^40 * 6; a first value of 2^61 is refused -/
example : Gen.tiny_new_64 [3, 10] = some (2, 3 + 2 ^ 40 * 6) ∧ Gen.tiny_new_64 [2 ^ 61] = none := by decide

end C10

#print axioms C10.collect_is_inline_u64
#print axioms C10.collect_is_inline_u32
#print axioms C10.ascending_is_inline_u64
#print axioms C10.ascending_is_inline_u32
#print axioms C10.ascending_final_u64
#print axioms C10.remove_stays_inline_u64
#print axioms C10.remove_only_member_u64
