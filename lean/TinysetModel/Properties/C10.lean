import TinysetModel.Proofs.Tiny.Ascending
import TinysetModel.Proofs.Consts
/-! C10 — small sets of small numbers live in one machine word with no heap memory. -/
namespace C10
open TinyC SC

/-- the budget table the theorems are about is the one in the current source (u64) -/
theorem budget_table_u64 : codec64.splits = Gen.bitsplits64 ∧
    Gen.bitsplits64 = [[], [61], [40, 21], [31, 15, 15], [25, 12, 12, 12], [21, 10, 10, 10, 10],
      [21, 8, 8, 8, 8, 8], [19, 7, 7, 7, 7, 7, 7]] := ⟨bitsplits64_match, by decide⟩
/-- … and for u32 -/
theorem budget_table_u32 : codec32.splits = Gen.bitsplits32 ∧
    Gen.bitsplits32 = [[], [31], [31, 30], [31, 15, 15], [25, 12, 12, 12], [21, 10, 10, 10, 10],
      [21, 8, 8, 8, 8, 8]] := ⟨bitsplits32_match, by decide⟩

/-- collect(): a sorted duplicate-free list within the budget is packed inline and decodes to itself -/
theorem collect_inline_u64 (v : List Nat) (h : InBudget codec64 v) :
    ∃ t, newSortedDeduped codec64 v = some t ∧ t.members codec64 = v := collect_inline (c := codec64) codec64_ok v h
theorem collect_inline_u32 (v : List Nat) (h : InBudget codec32 v) :
    ∃ t, newSortedDeduped codec32 v = some t ∧ t.members codec32 = v := collect_inline (c := codec32) codec32_ok v h

/-- ascending insertion: appending a larger member that keeps the set within budget stays inline -/
theorem ascending_insert_u64 (t : T) (v : List Nat) (e : Nat)
    (hsz : t.sz = v.length) (hf : t.fields codec64 = fields v) (hb : InBudget codec64 (v ++ [e])) :
    ∃ t', insert codec64 t e = some t' ∧ t'.sz = v.length + 1 ∧ t'.members codec64 = v ++ [e] :=
  ascending_insert (c := codec64) codec64_ok t v e hsz hf hb
theorem ascending_insert_u32 (t : T) (v : List Nat) (e : Nat)
    (hsz : t.sz = v.length) (hf : t.fields codec32 = fields v) (hb : InBudget codec32 (v ++ [e])) :
    ∃ t', insert codec32 t e = some t' ∧ t'.sz = v.length + 1 ∧ t'.members codec32 = v ++ [e] :=
  ascending_insert (c := codec32) codec32_ok t v e hsz hf hb

/-- the widths never grow with the count, so every prefix of an in-budget set is in budget -/
theorem widths_antitone_u64 : ∀ k, k < 7 → ∀ i, i < k →
    (widths codec64 (k + 1)).getD i 0 ≤ (widths codec64 k).getD i 0 := widths_antitone64
theorem widths_antitone_u32 : ∀ k, k < 6 → ∀ i, i < k →
    (widths codec32 (k + 1)).getD i 0 ≤ (widths codec32 k).getD i 0 := widths_antitone32

/-- an inline set owns no heap block and `mem_used` is one word -/
theorem inline_mem_used (c : Cfg) (t : T) : blockBytes c (.stack t) = 0 ∧ memUsed c (.stack t) = 8 ∧
    capacity (.stack t) = 0 := ⟨rfl, rfl, rfl⟩

end C10
