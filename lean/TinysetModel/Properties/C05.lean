import TinysetModel.Proofs.PropsAux
import TinysetModel.Proofs.Demo
import TinysetModel.Proofs.Consts
import TinysetModel.Proofs.TotalOpsExtend
/-! C05 — collect()/extend() build exactly the set of distinct items of any sequence.

Model functions: `fromIter` is `SetU64::from_iter` / `SetU32::from_iter` (sort + dedup, inline attempt,
pre-sized dense / table, then an insert loop); `extend` is every `Extend` impl and is also
`Set64::from_iter` / `SetUsize::from_iter` (these ARE the insert loop started from `new()`, so they are
covered by the `extend` theorems with `r = .empty`: `collect_loop`).
`xs.eraseDups.length` is the number of distinct items of `xs` (`distinct_items` below says what `eraseDups` is).
All statements are "whenever the model returns", for every RNG oracle `g`, every state `d` and every fuel. -/
namespace C05
open SC

/-- the model's constants are the ones in the current source -/
theorem consts_match : TinyC.codec64.splits = Gen.bitsplits64 ∧ TinyC.codec32.splits = Gen.bitsplits32 :=
  ⟨bitsplits64_match, bitsplits32_match⟩

/-- what "the distinct items of `xs`" means: `eraseDups` keeps exactly the values occurring in `xs`, once each -/
theorem distinct_items (xs : List Nat) : xs.eraseDups.Nodup ∧ ∀ x, x ∈ xs.eraseDups ↔ x ∈ xs :=
  ⟨nodup_eraseDups xs, fun _ => List.mem_eraseDups⟩

section generic
variable {c : Cfg} {D : Type}

/-- `collect()` of any sequence (any order, any duplicates) of `W`-bit values: the result is well formed, its
members are exactly the items, iteration yields no value twice, and `len` is the number of distinct items -/
theorem collect_spec (ok : CfgOK c) (g : Rng D) (fuel : Nat) {xs : List Nat} (hx : ∀ x ∈ xs, x < 2 ^ c.W)
    {d d' : D} {r : Rp} (h : fromIter c g fuel xs d = .ok (r, d')) :
    WF c r ∧ (∀ x, x ∈ elems c r ↔ x ∈ xs) ∧ (elems c r).Nodup ∧ len r = xs.eraseDups.length :=
  fromIter_spec ok g fuel hx h

/-- `extend()`: the union of the previous contents with the items, no duplicates, `len` = number of distinct
values among old members and items -/
theorem extend_spec (ok : CfgOK c) (g : Rng D) (fuel : Nat) {r r' : Rp} {xs : List Nat} {d d' : D}
    (wf : WF c r) (hx : ∀ x ∈ xs, x < 2 ^ c.W) (h : extend c g fuel r xs d = .ok (r', d')) :
    WF c r' ∧ (∀ x, x ∈ elems c r' ↔ (x ∈ elems c r ∨ x ∈ xs)) ∧ (elems c r').Nodup ∧
      len r' = (elems c r ++ xs).eraseDups.length :=
  SC.extend_spec ok g fuel wf hx h

/-- the insert loop from `new()` — `Set64::from_iter`, `SetUsize::from_iter` — has the same specification as `collect_spec` -/
theorem collect_loop (ok : CfgOK c) (g : Rng D) (fuel : Nat) {xs : List Nat} (hx : ∀ x ∈ xs, x < 2 ^ c.W)
    {d d' : D} {r : Rp} (h : extend c g fuel .empty xs d = .ok (r, d')) :
    WF c r ∧ (∀ x, x ∈ elems c r ↔ x ∈ xs) ∧ (elems c r).Nodup ∧ len r = xs.eraseDups.length :=
  collect_loop_spec ok g fuel hx h

/-- `extend` is literally the loop `for x in xs { self.insert(x) }` -/
theorem extend_is_insert_loop (c : Cfg) (g : Rng D) (fuel : Nat) (r : Rp) (xs : List Nat) :
    extend c g fuel r xs = insertAll (insert c g fuel) r xs := rfl

/-- collecting is indistinguishable from inserting the items one at a time into a new set (also when the two
executions see different RNG states): both results are well formed, have the same members (those of `xs`),
the same `len`, and compare `==` -/
theorem collect_indistinguishable (ok : CfgOK c) (g : Rng D) (fuel : Nat) {xs : List Nat}
    (hx : ∀ x ∈ xs, x < 2 ^ c.W) {d₁ d₁' d₂ d₂' : D} {r₁ r₂ : Rp}
    (h1 : fromIter c g fuel xs d₁ = .ok (r₁, d₁')) (h2 : extend c g fuel .empty xs d₂ = .ok (r₂, d₂')) :
    WF c r₁ ∧ WF c r₂ ∧ (∀ x, x ∈ elems c r₁ ↔ x ∈ elems c r₂) ∧ (∀ x, x ∈ elems c r₁ ↔ x ∈ xs) ∧
      len r₁ = len r₂ ∧ eqSet c r₁ r₂ = true :=
  collect_eq_insert_loop ok (coreOK ok g fuel) hx h1 h2

end generic

/-! ### the two instances: `cfg64` = SetU64 / Set64<T> / SetUsize, `cfg32` = SetU32 -/

theorem collect_spec_u64 {D : Type} (g : Rng D) (fuel : Nat) {xs : List Nat} (hx : ∀ x ∈ xs, x < 2 ^ 64)
    {d d' : D} {r : Rp} (h : fromIter cfg64 g fuel xs d = .ok (r, d')) :
    WF cfg64 r ∧ (∀ x, x ∈ elems cfg64 r ↔ x ∈ xs) ∧ (elems cfg64 r).Nodup ∧ len r = xs.eraseDups.length :=
  fromIter_spec cfg64_ok g fuel hx h
theorem collect_spec_u32 {D : Type} (g : Rng D) (fuel : Nat) {xs : List Nat} (hx : ∀ x ∈ xs, x < 2 ^ 32)
    {d d' : D} {r : Rp} (h : fromIter cfg32 g fuel xs d = .ok (r, d')) :
    WF cfg32 r ∧ (∀ x, x ∈ elems cfg32 r ↔ x ∈ xs) ∧ (elems cfg32 r).Nodup ∧ len r = xs.eraseDups.length :=
  fromIter_spec cfg32_ok g fuel hx h

theorem extend_spec_u64 {D : Type} (g : Rng D) (fuel : Nat) {r r' : Rp} {xs : List Nat} {d d' : D}
    (wf : WF cfg64 r) (hx : ∀ x ∈ xs, x < 2 ^ 64) (h : extend cfg64 g fuel r xs d = .ok (r', d')) :
    WF cfg64 r' ∧ (∀ x, x ∈ elems cfg64 r' ↔ (x ∈ elems cfg64 r ∨ x ∈ xs)) ∧ (elems cfg64 r').Nodup ∧
      len r' = (elems cfg64 r ++ xs).eraseDups.length :=
  SC.extend_spec cfg64_ok g fuel wf hx h
theorem extend_spec_u32 {D : Type} (g : Rng D) (fuel : Nat) {r r' : Rp} {xs : List Nat} {d d' : D}
    (wf : WF cfg32 r) (hx : ∀ x ∈ xs, x < 2 ^ 32) (h : extend cfg32 g fuel r xs d = .ok (r', d')) :
    WF cfg32 r' ∧ (∀ x, x ∈ elems cfg32 r' ↔ (x ∈ elems cfg32 r ∨ x ∈ xs)) ∧ (elems cfg32 r').Nodup ∧
      len r' = (elems cfg32 r ++ xs).eraseDups.length :=
  SC.extend_spec cfg32_ok g fuel wf hx h

/-- `Set64<T>::from_iter`, `SetUsize::from_iter` (the insert loop over the encoded items) -/
theorem collect_loop_u64 {D : Type} (g : Rng D) (fuel : Nat) {xs : List Nat} (hx : ∀ x ∈ xs, x < 2 ^ 64)
    {d d' : D} {r : Rp} (h : extend cfg64 g fuel .empty xs d = .ok (r, d')) :
    WF cfg64 r ∧ (∀ x, x ∈ elems cfg64 r ↔ x ∈ xs) ∧ (elems cfg64 r).Nodup ∧ len r = xs.eraseDups.length :=
  collect_loop_spec cfg64_ok g fuel hx h
theorem collect_loop_u32 {D : Type} (g : Rng D) (fuel : Nat) {xs : List Nat} (hx : ∀ x ∈ xs, x < 2 ^ 32)
    {d d' : D} {r : Rp} (h : extend cfg32 g fuel .empty xs d = .ok (r, d')) :
    WF cfg32 r ∧ (∀ x, x ∈ elems cfg32 r ↔ x ∈ xs) ∧ (elems cfg32 r).Nodup ∧ len r = xs.eraseDups.length :=
  collect_loop_spec cfg32_ok g fuel hx h

theorem collect_indistinguishable_u64 {D : Type} (g : Rng D) (fuel : Nat) {xs : List Nat}
    (hx : ∀ x ∈ xs, x < 2 ^ 64) {d₁ d₁' d₂ d₂' : D} {r₁ r₂ : Rp}
    (h1 : fromIter cfg64 g fuel xs d₁ = .ok (r₁, d₁')) (h2 : extend cfg64 g fuel .empty xs d₂ = .ok (r₂, d₂')) :
    WF cfg64 r₁ ∧ WF cfg64 r₂ ∧ (∀ x, x ∈ elems cfg64 r₁ ↔ x ∈ elems cfg64 r₂) ∧ (∀ x, x ∈ elems cfg64 r₁ ↔ x ∈ xs) ∧
      len r₁ = len r₂ ∧ eqSet cfg64 r₁ r₂ = true :=
  collect_eq_insert_loop cfg64_ok (coreOK cfg64_ok g fuel) hx h1 h2
theorem collect_indistinguishable_u32 {D : Type} (g : Rng D) (fuel : Nat) {xs : List Nat}
    (hx : ∀ x ∈ xs, x < 2 ^ 32) {d₁ d₁' d₂ d₂' : D} {r₁ r₂ : Rp}
    (h1 : fromIter cfg32 g fuel xs d₁ = .ok (r₁, d₁')) (h2 : extend cfg32 g fuel .empty xs d₂ = .ok (r₂, d₂')) :
    WF cfg32 r₁ ∧ WF cfg32 r₂ ∧ (∀ x, x ∈ elems cfg32 r₁ ↔ x ∈ elems cfg32 r₂) ∧ (∀ x, x ∈ elems cfg32 r₁ ↔ x ∈ xs) ∧
      len r₁ = len r₂ ∧ eqSet cfg32 r₁ r₂ = true :=
  collect_eq_insert_loop cfg32_ok (coreOK cfg32_ok g fuel) hx h1 h2

/-! ### the hypotheses are satisfiable: unsorted inputs with a duplicate, inline and heap results -/

/-- `collect` of `[5, 3, 5, 1000]` returns (an inline value), so `collect_spec_u64` applies: `len` is 3 -/
example : len Demo.inline = [5, 3, 5, 1000].eraseDups.length :=
  (collect_spec_u64 detRng 6 (by decide) Demo.collect_small64).2.2.2
/-- a sequence whose collection is a pre-sized heap table (SetU64, SetU32) -/
example : ∀ x, x ∈ elems cfg64 (.heap 5 5 13 #[40, 45056, 709490156681134096, 692861481132040, 0]) ↔
    x ∈ [5, 3, 5, 2 ^ 40, 2 ^ 50, 77, 2 ^ 50] :=
  (collect_spec_u64 detRng 6 (by decide) Demo.collect_big64).2.1
example : len (.heap 5 5 1817105647 #[1073741824, 5, 77, 3, 2147483648]) = 5 :=
  (collect_spec_u32 detRng 6 (by decide) Demo.collect_big32).2.2.2
/-- the insert loop on `[5, 3, 5, 2^40]` returns a heap table of 3 members -/
example : len (.heap 3 3 23 #[40, 401016175510691840, 0]) = [5, 3, 5, 2 ^ 40].eraseDups.length :=
  (collect_loop_u64 detRng 6 (by decide) Demo.loop_small64).2.2.2
example : WF cfg32 (.heap 3 3 1 #[7, 2147483649, 11]) := (collect_loop_u32 detRng 6 (by decide) Demo.loop_small32).1
/-- `extend` of a non-empty heap set: the hypotheses `WF` and "returns" hold together -/
example : extend cfg64 detRng 6 Demo.bitmap64 [1000, 7, 7] () = .ok (.heap 3 3 23 #[401016175510691840, 128, 360712192], ()) := by
  decide +kernel

/-- SetU64: `collect()` always returns (sequences of fewer than 2^60 items) and is the set of distinct items -/
theorem collect_returns_u64 {D : Type} (g : Rng D) (fuel : Nat) (xs : List Nat) (hrange : ∀ x ∈ xs, x < 2 ^ 64)
    (hlen : xs.length < 2 ^ 60) (d : D) :
    ∃ r d', fromIter cfg64 g (fuel + 2) xs d = .ok (r, d') ∧ WF cfg64 r ∧ ∀ x, x ∈ elems cfg64 r ↔ x ∈ xs :=
  fromIter_total_correct_u64 g fuel xs hrange hlen d

/-- SetU64: `extend()` always returns, within the ghost capacity bound of C11 -/
theorem extend_returns_u64 {D : Type} (g : Rng D) (fuel : Nat) {r : Rp} (wf : WF cfg64 r) (xs : List Nat)
    (hx : ∀ x ∈ xs, x < 2 ^ 64) {M : Nat} (hc : CapOK r M) (hsize : M + xs.length < 2 ^ 60) (d : D) :
    ∃ r' d', extend cfg64 g (fuel + 2) r xs d = .ok (r', d') ∧ WF cfg64 r' ∧ CapOK r' (Max.max M (len r')) ∧
      ∀ x, x ∈ elems cfg64 r' ↔ (x ∈ elems cfg64 r ∨ x ∈ xs) :=
  extend_total_u64 g fuel wf xs hx hc hsize d

end C05

#print axioms C05.collect_spec
#print axioms C05.extend_spec
#print axioms C05.collect_loop
#print axioms C05.collect_indistinguishable
