import TinysetModel.Proofs.TotalOpsRun
import TinysetModel.Proofs.PropsAux
import TinysetModel.Proofs.Ctor
import TinysetModel.Proofs.Demo
import TinysetModel.Proofs.Consts
/-! C15 — capacity and layout hints never change what a set contains.

Hint constructors of the model: `withCapBits c g cap bits` = `with_capacity_and_bits(cap, bits)` (for `bits = 0`
it draws the zero placeholder of the plain table from the RNG; any `bits > W` is a caller-chosen placeholder),
`withCapMax c g cap mx` = `with_capacity_and_max(cap, max)`, `denseWithMax`, `withCapOf` = `with_capacity_of(&other)`.
`Set64::with_capacity(n)` is `Set64::new()` in the source (the argument is ignored), i.e. `.empty`: nothing to prove.

Two layers.  (1) every hint constructor, for EVERY argument value (`cap`, `mx` arbitrary, `bits` any `W`-bit
value — the argument type of the Rust function) and every RNG outcome, returns a well-formed set with no
members.  (2) from ANY well-formed set with no members, every history of `insert/remove/contains/len` —
including inserting the placeholder value and 0 — answers exactly like the ideal set started empty, which is
also how `new()` answers (C01/C02): `hinted_history`, and side by side with `new()`: `hinted_like_new`. -/
namespace C15
open SC

/-- the model's constants are the ones in the current source -/
theorem consts_match : TinyC.codec64.splits = Gen.bitsplits64 ∧ TinyC.codec32.splits = Gen.bitsplits32 :=
  ⟨bitsplits64_match, bitsplits32_match⟩

section generic
variable {c : Cfg} {D : Type}

/-! ### 1. the hint constructors return well-formed EMPTY sets -/

/-- `with_capacity_and_bits(cap, bits)`: every `cap`, every `bits < 2^W`, every RNG oracle and state -/
theorem with_capacity_and_bits (ok : CfgOK c) (g : Rng D) (cap bits : Nat) (hbits : bits < 2 ^ c.W) {d d' : D} {r : Rp}
    (h : withCapBits c g cap bits d = .ok (r, d')) : WF c r ∧ elems c r = [] := withCapBits_ok ok g cap bits hbits d d' r h

/-- its shape: `cap = 0` gives `new()`; otherwise a block of exactly `cap` zero words whose `bits` is the
argument, or for `bits = 0` a drawn placeholder above `W` -/
theorem with_capacity_and_bits_shape (g : Rng D) (cap bits : Nat) {d d' : D} {r : Rp}
    (h : withCapBits c g cap bits d = .ok (r, d')) :
    (cap = 0 ∧ r = .empty) ∨ (0 < cap ∧ ∃ bits', r = .heap 0 cap bits' (Array.replicate cap 0) ∧
      (bits ≠ 0 → bits' = bits) ∧ (bits = 0 → c.W < bits')) := withCapBits_shape g cap bits d d' r h

/-- `with_capacity_and_max(cap, max)`: every `cap`, every `max` -/
theorem with_capacity_and_max (ok : CfgOK c) (g : Rng D) (cap mx : Nat) {d d' : D} {r : Rp}
    (h : withCapMax c g cap mx d = .ok (r, d')) : WF c r ∧ elems c r = [] := withCapMax_ok ok g cap mx d d' r h

/-- the dense constructor used by `with_capacity_and_max` and `collect` -/
theorem dense_with_max (ok : CfgOK c) (mx : Nat) : WF c (denseWithMax c mx) ∧ elems c (denseWithMax c mx) = [] :=
  denseWithMax_ok ok mx

/-- `with_capacity_of(&other)`: empty, well formed, same `capacity()` -/
theorem with_capacity_of (ok : CfgOK c) {r : Rp} (wf : WF c r) :
    WF c (withCapOf r) ∧ elems c (withCapOf r) = [] ∧ capacity (withCapOf r) = capacity r := withCapOf_ok ok wf

/-- an empty well-formed set has `len = 0` and contains nothing -/
theorem hinted_is_empty (ok : CfgOK c) {r : Rp} (wf : WF c r) (he : elems c r = []) :
    len r = 0 ∧ ∀ e, e < 2 ^ c.W → contains c r e = false :=
  ⟨by rw [(absOK_of_wf ok wf).len, he]; rfl,
   fun e h => by rw [← Bool.not_eq_true, contains_refines ok wf e h, he]; exact List.not_mem_nil⟩

/-! ### 2. … and thereafter behave exactly like `new()` -/

/-- every history on a hinted (well-formed, memberless) set: the answers are those of the ideal set started
empty, the final value is well formed and represents the final ideal set -/
theorem hinted_history (ok : CfgOK c) (g : Rng D) (fuel : Nat) (ops : List Op) (hops : ∀ op ∈ ops, op.InRange c.W)
    {r : Rp} (wf : WF c r) (he : elems c r = []) {d d' : D} {r' : Rp} {outs : List Out}
    (h : runOps c g fuel r ops d = .ok ((r', outs), d')) :
    WF c r' ∧ outs = (specRun [] ops).2 ∧ (∀ x, x ∈ elems c r' ↔ x ∈ (specRun [] ops).1) :=
  run_refines_of_empty ok g fuel ops hops wf he h

/-- side by side: the same history on a hinted set and on `new()`, with any two RNG oracles, states and fuels:
identical answers, same members, same `len`, and the results compare `==` -/
theorem hinted_like_new (ok : CfgOK c) {D₁ D₂ : Type} (g₁ : Rng D₁) (g₂ : Rng D₂) (fuel₁ fuel₂ : Nat) (ops : List Op)
    (hops : ∀ op ∈ ops, op.InRange c.W) {r : Rp} (wf : WF c r) (he : elems c r = [])
    {d₁ d₁' : D₁} {d₂ d₂' : D₂} {r₁ r₂ : Rp} {o₁ o₂ : List Out}
    (h1 : runOps c g₁ fuel₁ r ops d₁ = .ok ((r₁, o₁), d₁'))
    (h2 : runOps c g₂ fuel₂ .empty ops d₂ = .ok ((r₂, o₂), d₂')) :
    o₁ = o₂ ∧ (∀ x, x ∈ elems c r₁ ↔ x ∈ elems c r₂) ∧ len r₁ = len r₂ ∧ eqSet c r₁ r₂ = true :=
  hinted_eq_new ok g₁ g₂ fuel₁ fuel₂ ops hops wf he h1 h2

end generic

/-! ### instances: constructor followed by a history, SetU64 and SetU32 -/

theorem bits_then_history_u64 {D : Type} (g : Rng D) (fuel cap bits : Nat) (hbits : bits < 2 ^ 64)
    (ops : List Op) (hops : ∀ op ∈ ops, op.InRange 64) {d₀ d d' : D} {r r' : Rp} {outs : List Out}
    (h0 : withCapBits cfg64 g cap bits d₀ = .ok (r, d)) (h : runOps cfg64 g fuel r ops d = .ok ((r', outs), d')) :
    WF cfg64 r' ∧ outs = (specRun [] ops).2 ∧ (∀ x, x ∈ elems cfg64 r' ↔ x ∈ (specRun [] ops).1) :=
  run_refines_of_empty cfg64_ok g fuel ops hops (withCapBits_ok cfg64_ok g cap bits hbits d₀ d r h0).1
    (withCapBits_ok cfg64_ok g cap bits hbits d₀ d r h0).2 h
theorem bits_then_history_u32 {D : Type} (g : Rng D) (fuel cap bits : Nat) (hbits : bits < 2 ^ 32)
    (ops : List Op) (hops : ∀ op ∈ ops, op.InRange 32) {d₀ d d' : D} {r r' : Rp} {outs : List Out}
    (h0 : withCapBits cfg32 g cap bits d₀ = .ok (r, d)) (h : runOps cfg32 g fuel r ops d = .ok ((r', outs), d')) :
    WF cfg32 r' ∧ outs = (specRun [] ops).2 ∧ (∀ x, x ∈ elems cfg32 r' ↔ x ∈ (specRun [] ops).1) :=
  run_refines_of_empty cfg32_ok g fuel ops hops (withCapBits_ok cfg32_ok g cap bits hbits d₀ d r h0).1
    (withCapBits_ok cfg32_ok g cap bits hbits d₀ d r h0).2 h

theorem max_then_history_u64 {D : Type} (g : Rng D) (fuel cap mx : Nat)
    (ops : List Op) (hops : ∀ op ∈ ops, op.InRange 64) {d₀ d d' : D} {r r' : Rp} {outs : List Out}
    (h0 : withCapMax cfg64 g cap mx d₀ = .ok (r, d)) (h : runOps cfg64 g fuel r ops d = .ok ((r', outs), d')) :
    WF cfg64 r' ∧ outs = (specRun [] ops).2 ∧ (∀ x, x ∈ elems cfg64 r' ↔ x ∈ (specRun [] ops).1) :=
  run_refines_of_empty cfg64_ok g fuel ops hops (withCapMax_ok cfg64_ok g cap mx d₀ d r h0).1
    (withCapMax_ok cfg64_ok g cap mx d₀ d r h0).2 h
theorem max_then_history_u32 {D : Type} (g : Rng D) (fuel cap mx : Nat)
    (ops : List Op) (hops : ∀ op ∈ ops, op.InRange 32) {d₀ d d' : D} {r r' : Rp} {outs : List Out}
    (h0 : withCapMax cfg32 g cap mx d₀ = .ok (r, d)) (h : runOps cfg32 g fuel r ops d = .ok ((r', outs), d')) :
    WF cfg32 r' ∧ outs = (specRun [] ops).2 ∧ (∀ x, x ∈ elems cfg32 r' ↔ x ∈ (specRun [] ops).1) :=
  run_refines_of_empty cfg32_ok g fuel ops hops (withCapMax_ok cfg32_ok g cap mx d₀ d r h0).1
    (withCapMax_ok cfg32_ok g cap mx d₀ d r h0).2 h

theorem of_then_history_u64 {D : Type} (g : Rng D) (fuel : Nat) {other : Rp} (wo : WF cfg64 other)
    (ops : List Op) (hops : ∀ op ∈ ops, op.InRange 64) {d d' : D} {r' : Rp} {outs : List Out}
    (h : runOps cfg64 g fuel (withCapOf other) ops d = .ok ((r', outs), d')) :
    WF cfg64 r' ∧ outs = (specRun [] ops).2 ∧ (∀ x, x ∈ elems cfg64 r' ↔ x ∈ (specRun [] ops).1) :=
  run_refines_of_empty cfg64_ok g fuel ops hops (withCapOf_ok cfg64_ok wo).1 (withCapOf_ok cfg64_ok wo).2.1 h
theorem of_then_history_u32 {D : Type} (g : Rng D) (fuel : Nat) {other : Rp} (wo : WF cfg32 other)
    (ops : List Op) (hops : ∀ op ∈ ops, op.InRange 32) {d d' : D} {r' : Rp} {outs : List Out}
    (h : runOps cfg32 g fuel (withCapOf other) ops d = .ok ((r', outs), d')) :
    WF cfg32 r' ∧ outs = (specRun [] ops).2 ∧ (∀ x, x ∈ elems cfg32 r' ↔ x ∈ (specRun [] ops).1) :=
  run_refines_of_empty cfg32_ok g fuel ops hops (withCapOf_ok cfg32_ok wo).1 (withCapOf_ok cfg32_ok wo).2.1 h

/-! ### the hypotheses are satisfiable: a caller-chosen placeholder (`bits = 70`), then a history that inserts
the placeholder value itself and 0 -/

theorem demo_hint : withCapBits cfg64 detRng 10 70 () = .ok (.heap 0 10 70 (Array.replicate 10 0), ()) := by decide +kernel
def demoOps : List Op := [.ins 70, .ins 0, .con 70, .con 0, .rem 70, .con 0, .len]
theorem demo_run : runOps cfg64 detRng 6 (.heap 0 10 70 (Array.replicate 10 0)) demoOps () =
    .ok ((.heap 1 10 3298975782370950072 #[0, 0, 3298975782370950072, 0, 0, 0, 0, 0, 0, 0],
      [.bool true, .bool true, .bool true, .bool true, .bool true, .bool true, .nat 1]), ()) := by decide +kernel
example : [.bool true, .bool true, .bool true, .bool true, .bool true, .bool true, .nat 1] = (specRun [] demoOps).2 :=
  (bits_then_history_u64 detRng 6 10 70 (by decide) demoOps (by decide) demo_hint demo_run).2.1
/-- a drawn placeholder (`bits = 0`) and a dense hint -/
example : withCapBits cfg64 detRng 10 0 () = .ok (.heap 0 10 6155844928113846750 (Array.replicate 10 0), ()) := by decide +kernel
example : withCapMax cfg64 detRng 10 1000 () = .ok (.heap 0 19 64 (Array.replicate 19 0), ()) := by decide +kernel

/-! ### hinted sets: every history RETURNS, with the answers of `new()` -/

/-- `with_capacity_and_bits(cap, bits)` followed by any history (SetU64): every call returns normally and answers
exactly like an ideal set started empty — i.e. like `new()` —, for every `cap`, every `bits` that fits the header
word (also 0, 63, 64, 65 and a caller-chosen placeholder), every generator, as long as `cap` plus the number of
operations stays below 2^60 -/
theorem bits_then_history_returns_u64 {D : Type} (g : Rng D) (fuel cap bits : Nat) (hbits : bits < 2 ^ 64) (ops : List Op)
    (hops : ∀ op ∈ ops, op.InRange 64) {d₀ d : D} {r : Rp} (h0 : withCapBits cfg64 g cap bits d₀ = .ok (r, d))
    (hlen : cap + ops.length < 2 ^ 60) :
    ∃ r' outs d', runOps cfg64 g (fuel + 2) r ops d = .ok ((r', outs), d') ∧ WF cfg64 r' ∧
      outs = (specRun [] ops).2 ∧ ∀ x, x ∈ elems cfg64 r' ↔ x ∈ (specRun [] ops).1 := by
  obtain ⟨wf, he⟩ := withCapBits_ok cfg64_ok g cap bits hbits d₀ d r h0
  have hc : CapOK r cap := by
    rcases withCapBits_shape g cap bits d₀ d r h0 with ⟨_, rfl⟩ | ⟨_, b', rfl, _⟩
    · exact ⟨by simp [capacity], by simp [len]⟩
    · exact ⟨by simp [capacity]; omega, by simp [len]⟩
  have := run_total_from_u64 g fuel ops hops wf hc hlen d
  rw [he] at this
  exact this
theorem bits_then_history_returns_u32 {D : Type} (g : Rng D) (fuel cap bits : Nat) (hbits : bits < 2 ^ 32) (ops : List Op)
    (hops : ∀ op ∈ ops, op.InRange 32) {d₀ d : D} {r : Rp} (h0 : withCapBits cfg32 g cap bits d₀ = .ok (r, d))
    (hlen : cap + ops.length < 2 ^ 28) :
    ∃ r' outs d', runOps cfg32 g (fuel + 2) r ops d = .ok ((r', outs), d') ∧ WF cfg32 r' ∧
      outs = (specRun [] ops).2 ∧ ∀ x, x ∈ elems cfg32 r' ↔ x ∈ (specRun [] ops).1 := by
  obtain ⟨wf, he⟩ := withCapBits_ok cfg32_ok g cap bits hbits d₀ d r h0
  have hc : CapOK r cap := by
    rcases withCapBits_shape g cap bits d₀ d r h0 with ⟨_, rfl⟩ | ⟨_, b', rfl, _⟩
    · exact ⟨by simp [capacity], by simp [len]⟩
    · exact ⟨by simp [capacity]; omega, by simp [len]⟩
  have := run_total_from_u32 g fuel ops hops wf hc hlen d
  rw [he] at this
  exact this
/-- `with_capacity_of(&other)` followed by any history: returns, answers like `new()` -/
theorem of_then_history_returns_u64 {D : Type} (g : Rng D) (fuel : Nat) {other : Rp} (wo : WF cfg64 other) (ops : List Op)
    (hops : ∀ op ∈ ops, op.InRange 64) (d : D) (hlen : capacity other + ops.length < 2 ^ 60) :
    ∃ r' outs d', runOps cfg64 g (fuel + 2) (withCapOf other) ops d = .ok ((r', outs), d') ∧ WF cfg64 r' ∧
      outs = (specRun [] ops).2 ∧ ∀ x, x ∈ elems cfg64 r' ↔ x ∈ (specRun [] ops).1 := by
  obtain ⟨wf, he, hcap⟩ := withCapOf_ok cfg64_ok wo
  have hl : len (withCapOf other) = 0 := by cases other <;> rfl
  have hc : CapOK (withCapOf other) (capacity other) := ⟨by rw [hcap]; omega, by rw [hl]; omega⟩
  have := run_total_from_u64 g fuel ops hops wf hc hlen d
  rw [he] at this
  exact this

end C15

#print axioms C15.with_capacity_and_bits
#print axioms C15.with_capacity_and_max
#print axioms C15.with_capacity_of
#print axioms C15.hinted_history
#print axioms C15.hinted_like_new
