import TinysetModel.Proofs.IterSpec
import TinysetModel.Proofs.CfgInst
import TinysetModel.Model.Ops
import TinysetModel.Proofs.TinySrc
import TinysetModel.Proofs.IterSrc
import TinysetModel.Proofs.IterDrainSrc
/-! C04 — iteration yields every member exactly once and nothing else.
`elems c r` is the abstraction every other theorem speaks about (membership = `∈ elems`); the
theorems here say that the *iterator code* (`Model/Iter.lean`: `cursorOf`, `next`) produces exactly
that list, never errs (`.ok`: the `sz_left` counter never underflows, no index out of range), and
keeps answering `none` once exhausted — for every well-formed representation of every layout. -/
namespace C04
open SC

variable {c : Cfg}

/-- repeatedly calling `next` on a fresh cursor yields exactly `elems`, in order, without error -/
theorem iter_yields_elems (ok : CfgOK c) {r : Rp} (wf : WF c r) :
    drainFrom c r ((elems c r).length + 1) (cursorOf r) = .ok (elems c r) := drain_eq_elems ok wf

/-- from any position `j`: the cursor exists (no error on the way), its counter is exact, and it yields the rest -/
theorem iter_from_position (ok : CfgOK c) {r : Rp} (wf : WF c r) (j : Nat) :
    ∃ ck, advance c r j (cursorOf r) = .ok ck ∧ ck.szLeft = (elems c r).length - j ∧
      drainFrom c r ((elems c r).length + 1) ck = .ok ((elems c r).drop j) := advance_drain ok wf j

/-- one step: the `j`-th call of `next` returns the `j`-th member (or `none` past the end) -/
theorem next_is_jth (ok : CfgOK c) {r : Rp} (wf : WF c r) {j : Nat} {ck : Cursor}
    (h : advance c r j (cursorOf r) = .ok ck) :
    ∃ ck', next c r ck = .ok ((elems c r)[j]?, ck') ∧ advance c r (j + 1) (cursorOf r) = .ok ck' :=
  next_after ok wf h

/-- an exhausted iterator keeps returning `None` -/
theorem exhausted_stays_none (ok : CfgOK c) {r : Rp} (wf : WF c r) {j : Nat} (hj : (elems c r).length ≤ j)
    {ck : Cursor} (h : advance c r j (cursorOf r) = .ok ck) :
    ∃ ck', next c r ck = .ok (none, ck') ∧ ck'.szLeft = 0 ∧
      ∃ ck'', next c r ck' = .ok (none, ck'') ∧ ck''.szLeft = 0 := exhausted ok wf hj h

/-- `drain()` empties the set at once (whatever happens to the iterator) and hands out exactly the members;
    the emptied set is well formed, i.e. usable -/
theorem drain_spec (r : Rp) : (drain c r).1 = .empty ∧ (drain c r).2 = elems c r ∧ WF c (drain c r).1 ∧
    elems c (drain c r).1 = [] := ⟨rfl, rfl, trivial, rfl⟩

/-- both instances -/
theorem iter_yields_elems_u64 {r : Rp} (wf : WF cfg64 r) :
    drainFrom cfg64 r ((elems cfg64 r).length + 1) (cursorOf r) = .ok (elems cfg64 r) := drain_eq_elems cfg64_ok wf
theorem iter_yields_elems_u32 {r : Rp} (wf : WF cfg32 r) :
    drainFrom cfg32 r ((elems cfg32 r).length + 1) (cursorOf r) = .ok (elems cfg32 r) := drain_eq_elems cfg32_ok wf

/-! ### the inline step of the iterator IS the current source (`Generated/Loops.lean`, translated on every run from the
`Stack` arm of `Inner::next` in `setu64/iter.rs` / `setu32/iter.rs`) -/

/-- at every position of a cursor over an inline set of at most 7 members (`sz_left ≤ sz`), the model's `next` — about
which `iter_yields_elems_u64` speaks — returns the value and the cursor fields the translated source returns -/
theorem inline_step_is_the_source_u64 (t : TinyC.T) (k : Cursor) (hsz : k.sz ≤ 7) (hle : k.szLeft ≤ k.sz) :
    next cfg64 (.stack t) k =
      (match Gen.iter_next_stack_64 k.sz k.szLeft k.sbits k.last with
       | (out, szLeft, sbits, last) => .ok (out, { k with szLeft := szLeft, sbits := sbits, last := last })) :=
  iter_next_stack_64_eq t k (fun h => by rw [widths_len_64 _ hsz]; omega)
/-- `SetU32` (at most 6 members inline; the next member is a `u32`) -/
theorem inline_step_is_the_source_u32 (t : TinyC.T) (k : Cursor) (hsz : k.sz ≤ 6) (hle : k.szLeft ≤ k.sz)
    (hlt : (if k.szLeft = k.sz then k.sbits % 2 ^ (TinyC.widths TinyC.codec32 k.sz).getD (k.sz - k.szLeft) 0
            else k.last + 1 + k.sbits % 2 ^ (TinyC.widths TinyC.codec32 k.sz).getD (k.sz - k.szLeft) 0) < 2 ^ 32) :
    next cfg32 (.stack t) k =
      (match Gen.iter_next_stack_32 k.sz k.szLeft k.sbits k.last with
       | (out, szLeft, sbits, last) => .ok (out, { k with szLeft := szLeft, sbits := sbits, last := last })) :=
  iter_next_stack_32_eq t k (fun h => by rw [widths_len_32 _ hsz]; omega) hlt
/-- the walk along a plain table (`Big` arm of `Inner::next`: `while let Some(&x) = a.get(self.index)`, skipping empty
buckets, the placeholder standing for 0): whenever the model's `next` returns — `iter_yields_elems_u64` shows it does
on every well-formed set — the translated source returns the same member and leaves the same cursor -/
theorem plain_step_is_the_source_u64 (sz cap bits : Nat) (a : RH.Tbl) (hb : bits = 0 ∨ bits > 64) (k : Cursor)
    (out : Option Nat) (k' : Cursor) (h : next cfg64 (.heap sz cap bits a) k = .ok (out, k')) :
    Gen.iter_next_big_64 a k.bits k.index k.szLeft = (out, k'.index, k'.szLeft) ∧
      k' = { k with index := k'.index, szLeft := k'.szLeft } :=
  iter_next_big_64_eq sz cap bits a hb k out k' h
theorem plain_step_is_the_source_u32 (sz cap bits : Nat) (a : RH.Tbl) (hb : bits = 0 ∨ bits > 32) (k : Cursor)
    (hkb : k.bits < 2 ^ 32) (out : Option Nat) (k' : Cursor) (h : next cfg32 (.heap sz cap bits a) k = .ok (out, k')) :
    Gen.iter_next_big_32 a k.bits k.index k.szLeft = (out, k'.index, k'.szLeft) ∧
      k' = { k with index := k'.index, szLeft := k'.szLeft } :=
  iter_next_big_32_eq sz cap bits a hb k hkb out k' h
/-- not vacuous: a plain table with placeholder 100 holding {0, 7}: the walk skips the empty bucket and yields 0 -/
example : Gen.iter_next_big_64 #[0, 100, 7] 100 0 2 = (some 0, 2, 1) := by decide
/-- not vacuous: the first step over the inline set {3, 10} -/
example : Gen.iter_next_stack_64 2 2 (3 + 2 ^ 40 * 6) 0 = (some 3, 1, 6, 3) := by decide

/-! ### the whole of `Inner::next`, and iterating it -/

/-- **the iterator step of the model is the iterator step of the source**: `SC.srcNext64` is `Inner::next` of
`setu64/iter.rs` — the dispatch of `internal()` on the representation (as in `srcContains64`), then the arm translated
on every run: `Stack`, `Dense` (`loop` over words around the scan of 64 bits), `Big` (walk along the table), `Heap` (walk
over buckets around the scan of the bitmap, `unsplit_u64`).  On every representation and at every cursor (for an inline
set: `sz_left ≤ sz ≤ 7`), whenever the model's `next` returns, the translated source returns the same item and leaves
the same cursor -/
theorem next_is_the_source_u64 (r : Rp) (k : Cursor) (hst : ∀ t, r = .stack t → k.sz ≤ 7 ∧ k.szLeft ≤ k.sz)
    (out : Option Nat) (k' : Cursor) (h : next cfg64 r k = .ok (out, k')) : srcNext64 r k = (out, k') :=
  srcNext64_eq r k hst out k' h

/-- `SetU32` (`SC.srcNext32`: `setu32/iter.rs`): the cursor's `bits` is a `u32`, a dense bitset has at most 2^27 words
(its members are `u32`), and the item the model yields is a `u32` (`Some(self.last as u32)`) -/
theorem next_is_the_source_u32 (r : Rp) (k : Cursor)
    (hk32 : ∀ sz cap bits a, r = .heap sz cap bits a → k.bits < 2 ^ 32)
    (hst : ∀ t, r = .stack t → k.sz ≤ 6 ∧ k.szLeft ≤ k.sz)
    (hdn : ∀ sz cap a, r = .heap sz cap 32 a → a.size ≤ 2 ^ 27)
    (out : Option Nat) (k' : Cursor) (h : next cfg32 r k = .ok (out, k'))
    (hout : ∀ x, out = some x → x < 2 ^ 32) : srcNext32 r k = (out, k') :=
  srcNext32_eq r k hk32 hst hdn out k' h hout

/-- **the property, about the source's own iterator code**: calling the translated `Inner::next` of `setu64/iter.rs`
on a fresh cursor over ANY well-formed set until it answers `None` (`SC.srcDrain64`; `len + 1` calls suffice) yields
exactly the members — each once, nothing else, in the order of `elems` — and then `None` -/
theorem source_iteration_yields_elems_u64 {r : Rp} (wf : WF cfg64 r) :
    srcDrain64 r ((elems cfg64 r).length + 1) (cursorOf r) = elems cfg64 r := srcDrain64_eq_elems wf
/-- `SetU32` (a dense bitset of at most 2^27 words — what holds `u32` members; `(index as u32) << 5` then shifts
nothing out) -/
theorem source_iteration_yields_elems_u32 {r : Rp} (wf : WF cfg32 r)
    (hdn : ∀ sz cap a, r = .heap sz cap 32 a → a.size ≤ 2 ^ 27) :
    srcDrain32 r ((elems cfg32 r).length + 1) (cursorOf r) = elems cfg32 r := srcDrain32_eq_elems wf hdn
/-- not vacuous: the translated iterator run over the inline set {3, 10} -/
example : srcDrain64 (.stack ⟨2, 3 + 2 ^ 40 * 6⟩) 3 (cursorOf (.stack ⟨2, 3 + 2 ^ 40 * 6⟩)) = [3, 10] := by decide

/-- not vacuous: a bitmap table with 4-bit bitmaps, bucket key 2 holding offsets 1 and 3 (members 9, 11): from
whichbit 2 the scan finds bit 3 -/
example : Gen.iter_next_heap_64 #[0, 2 * 16 + 0b1010] 4 1 2 1 = (some 11, 1, 4, 0) := by decide
example : Gen.iter_next_dense_64 #[0, 0b100] 64 0 0 1 = (some 66, 1, 3, 0) := by decide

end C04
