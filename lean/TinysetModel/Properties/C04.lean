import TinysetModel.Proofs.IterSpec
import TinysetModel.Proofs.CfgInst
import TinysetModel.Model.Ops
/-! C04 — iteration yields every member exactly once and nothing else.
`elems c r` is the abstraction every other theorem speaks about (membership = `∈ elems`); the
theorems here say that the *iterator code* (`Model/Iter.lean`: `cursorOf`, `next`) produces exactly
that list, never errs (`.ok`: the `sz_left` counter never underflows, no index out of range), and
keeps answering `none` once exhausted — for every well-formed representation of every layout. -/
namespace C04
open SC

variable {c : Cfg}

/-- repeatedly calling `next` on a fresh cursor yields exactly `elems`, in order, without error -/
theorem iter_yields_elems (ok : CfgOK c) {r : Rp} (wf : WF c r) :
    drainFrom c r ((elems c r).length + 1) (cursorOf r) = .ok (elems c r) := drain_eq_elems ok wf

/-- from any position `j`: the cursor exists (no error on the way), its counter is exact, and it yields the rest -/
theorem iter_from_position (ok : CfgOK c) {r : Rp} (wf : WF c r) (j : Nat) :
    ∃ ck, advance c r j (cursorOf r) = .ok ck ∧ ck.szLeft = (elems c r).length - j ∧
      drainFrom c r ((elems c r).length + 1) ck = .ok ((elems c r).drop j) := advance_drain ok wf j

/-- one step: the `j`-th call of `next` returns the `j`-th member (or `none` past the end) -/
theorem next_is_jth (ok : CfgOK c) {r : Rp} (wf : WF c r) {j : Nat} {ck : Cursor}
    (h : advance c r j (cursorOf r) = .ok ck) :
    ∃ ck', next c r ck = .ok ((elems c r)[j]?, ck') ∧ advance c r (j + 1) (cursorOf r) = .ok ck' :=
  next_after ok wf h

/-- an exhausted iterator keeps returning `None` -/
theorem exhausted_stays_none (ok : CfgOK c) {r : Rp} (wf : WF c r) {j : Nat} (hj : (elems c r).length ≤ j)
    {ck : Cursor} (h : advance c r j (cursorOf r) = .ok ck) :
    ∃ ck', next c r ck = .ok (none, ck') ∧ ck'.szLeft = 0 ∧
      ∃ ck'', next c r ck' = .ok (none, ck'') ∧ ck''.szLeft = 0 := exhausted ok wf hj h

/-- `drain()` empties the set at once (whatever happens to the iterator) and hands out exactly the members;
    the emptied set is well formed, i.e. usable -/
theorem drain_spec (r : Rp) : (drain c r).1 = .empty ∧ (drain c r).2 = elems c r ∧ WF c (drain c r).1 ∧
    elems c (drain c r).1 = [] := ⟨rfl, rfl, trivial, rfl⟩

/-- both instances -/
theorem iter_yields_elems_u64 {r : Rp} (wf : WF cfg64 r) :
    drainFrom cfg64 r ((elems cfg64 r).length + 1) (cursorOf r) = .ok (elems cfg64 r) := drain_eq_elems cfg64_ok wf
theorem iter_yields_elems_u32 {r : Rp} (wf : WF cfg32 r) :
    drainFrom cfg32 r ((elems cfg32 r).length + 1) (cursorOf r) = .ok (elems cfg32 r) := drain_eq_elems cfg32_ok wf

end C04
