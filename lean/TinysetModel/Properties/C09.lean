import TinysetModel.Generated.Loops
import TinysetModel.Proofs.ProgramRefine
import TinysetModel.Proofs.PropsAux
import TinysetModel.Proofs.Demo
import TinysetModel.Proofs.TotalOpsExtend
/-! C09 — union and difference operators compute exactly the mathematical result.

Model functions (`Model/Ops.lean`, following `src/copyset.rs` and `src/set64.rs`):
`unionRef` = `&a | &b` (starts from `with_capacity_of` the larger operand, two insert loops), `unionOwn` = `a | &b`
(extends the consumed left operand), `diffRef` = `&a - &b` (`with_capacity_of(a)`, inserts the members of `a`
not contained in `b`), `diffOwn` = `a - &b` (remove loop on the consumed left operand), and `unionRef64`,
`diffRef64` = the two borrowed operators of `Set64<T>` (which start from `new()`).
Each theorem: for every RNG oracle, state and fuel, whenever the operator returns, the result is well formed,
has exactly the mathematical members, and its `len` is the number of those members (the length of a
duplicate-free list of them).  The operands `a`, `b` are only hypotheses `WF c a`, `WF c b`: every combination
of layouts, sizes and overlap, including `a` and `b` being the same set (`*_self`).
"Borrowed operands are left unchanged": in the functional model the operands are values and are not among the
outputs of the operator; that the Rust code does not write through `&a`, `&b` is C18 (checked by the harness). -/
namespace C09
open SC

section generic
variable {c : Cfg} {D : Type}

/-- `&a | &b` -/
theorem union_ref (ok : CfgOK c) (g : Rng D) (fuel : Nat) {a b res : Rp} {d d' : D}
    (wa : WF c a) (wb : WF c b) (h : unionRef c g fuel a b d = .ok (res, d')) :
    WF c res ∧ (∀ x, x ∈ elems c res ↔ (x ∈ elems c a ∨ x ∈ elems c b)) ∧
      len res = (elems c a ++ (elems c b).filter (· ∉ elems c a)).length :=
  unionRef_ok ok (coreOK ok g fuel) wa wb h

/-- `a | &b` (left operand consumed and extended in place) -/
theorem union_own (ok : CfgOK c) (g : Rng D) (fuel : Nat) {a b res : Rp} {d d' : D}
    (wa : WF c a) (wb : WF c b) (h : unionOwn c g fuel a b d = .ok (res, d')) :
    WF c res ∧ (∀ x, x ∈ elems c res ↔ (x ∈ elems c a ∨ x ∈ elems c b)) ∧
      len res = (elems c a ++ (elems c b).filter (· ∉ elems c a)).length :=
  unionOwn_ok (coreOK ok g fuel) wa wb h

/-- `&a | &b` of `Set64<T>` -/
theorem union_ref64 (ok : CfgOK c) (g : Rng D) (fuel : Nat) {a b res : Rp} {d d' : D}
    (wa : WF c a) (wb : WF c b) (h : unionRef64 c g fuel a b d = .ok (res, d')) :
    WF c res ∧ (∀ x, x ∈ elems c res ↔ (x ∈ elems c a ∨ x ∈ elems c b)) ∧
      len res = (elems c a ++ (elems c b).filter (· ∉ elems c a)).length :=
  unionRef64_ok (coreOK ok g fuel) wa wb h

/-- `&a - &b` -/
theorem diff_ref (ok : CfgOK c) (g : Rng D) (fuel : Nat) {a b res : Rp} {d d' : D}
    (wa : WF c a) (wb : WF c b) (h : diffRef c g fuel a b d = .ok (res, d')) :
    WF c res ∧ (∀ x, x ∈ elems c res ↔ (x ∈ elems c a ∧ x ∉ elems c b)) ∧
      len res = ((elems c a).filter (· ∉ elems c b)).length :=
  diffRef_ok ok (coreOK ok g fuel) wa wb h

/-- `a - &b` (left operand consumed, members of `b` removed one by one) -/
theorem diff_own (ok : CfgOK c) (g : Rng D) (fuel : Nat) {a b res : Rp} {d d' : D}
    (wa : WF c a) (wb : WF c b) (h : diffOwn c g fuel a b d = .ok (res, d')) :
    WF c res ∧ (∀ x, x ∈ elems c res ↔ (x ∈ elems c a ∧ x ∉ elems c b)) ∧
      len res = ((elems c a).filter (· ∉ elems c b)).length :=
  diffOwn_ok (coreOK ok g fuel) wa wb h

/-- `&a - &b` of `Set64<T>` -/
theorem diff_ref64 (ok : CfgOK c) (g : Rng D) (fuel : Nat) {a b res : Rp} {d d' : D}
    (wa : WF c a) (wb : WF c b) (h : diffRef64 c g fuel a b d = .ok (res, d')) :
    WF c res ∧ (∀ x, x ∈ elems c res ↔ (x ∈ elems c a ∧ x ∉ elems c b)) ∧
      len res = ((elems c a).filter (· ∉ elems c b)).length :=
  diffRef64_ok (coreOK ok g fuel) wa wb h

/-- both operands the same set: `&a | &a` has the members and `len` of `a` -/
theorem union_ref_self (ok : CfgOK c) (g : Rng D) (fuel : Nat) {a res : Rp} {d d' : D}
    (wa : WF c a) (h : unionRef c g fuel a a d = .ok (res, d')) :
    WF c res ∧ (∀ x, x ∈ elems c res ↔ x ∈ elems c a) ∧ len res = len a :=
  unionRef_self ok (coreOK ok g fuel) wa h

/-- `&a - &a` is empty -/
theorem diff_ref_self (ok : CfgOK c) (g : Rng D) (fuel : Nat) {a res : Rp} {d d' : D}
    (wa : WF c a) (h : diffRef c g fuel a a d = .ok (res, d')) :
    WF c res ∧ elems c res = [] ∧ len res = 0 :=
  diffRef_self ok (coreOK ok g fuel) wa h

/-- `a - &a'` with `a'` a clone of `a` (the same value) is empty -/
theorem diff_own_self (ok : CfgOK c) (g : Rng D) (fuel : Nat) {a res : Rp} {d d' : D}
    (wa : WF c a) (h : diffOwn c g fuel a a d = .ok (res, d')) :
    WF c res ∧ elems c res = [] ∧ len res = 0 :=
  diffOwn_self (coreOK ok g fuel) wa h

/-- what the `len` clauses count: duplicate-free lists of exactly the union / the difference -/
theorem len_counts (ok : CfgOK c) {a b : Rp} (wa : WF c a) (wb : WF c b) :
    (elems c a ++ (elems c b).filter (· ∉ elems c a)).Nodup ∧
    (∀ x, x ∈ elems c a ++ (elems c b).filter (· ∉ elems c a) ↔ (x ∈ elems c a ∨ x ∈ elems c b)) ∧
    ((elems c a).filter (· ∉ elems c b)).Nodup ∧
    (∀ x, x ∈ (elems c a).filter (· ∉ elems c b) ↔ (x ∈ elems c a ∧ x ∉ elems c b)) :=
  ⟨Ops.nodup_union (absOK_of_wf ok wa).nodup (absOK_of_wf ok wb).nodup, Ops.mem_union,
   Ops.nodup_diff _ (absOK_of_wf ok wa).nodup, Ops.mem_diff⟩

end generic

/-! ### instances: SetU64 / SetUsize (`cfg64`), SetU32 (`cfg32`), Set64<T> (`*_ref64` at `cfg64`) -/

theorem union_ref_u64 {D : Type} (g : Rng D) (fuel : Nat) {a b res : Rp} {d d' : D}
    (wa : WF cfg64 a) (wb : WF cfg64 b) (h : unionRef cfg64 g fuel a b d = .ok (res, d')) :
    WF cfg64 res ∧ (∀ x, x ∈ elems cfg64 res ↔ (x ∈ elems cfg64 a ∨ x ∈ elems cfg64 b)) ∧
      len res = (elems cfg64 a ++ (elems cfg64 b).filter (· ∉ elems cfg64 a)).length :=
  unionRef_ok cfg64_ok (coreOK cfg64_ok g fuel) wa wb h
theorem union_own_u64 {D : Type} (g : Rng D) (fuel : Nat) {a b res : Rp} {d d' : D}
    (wa : WF cfg64 a) (wb : WF cfg64 b) (h : unionOwn cfg64 g fuel a b d = .ok (res, d')) :
    WF cfg64 res ∧ (∀ x, x ∈ elems cfg64 res ↔ (x ∈ elems cfg64 a ∨ x ∈ elems cfg64 b)) ∧
      len res = (elems cfg64 a ++ (elems cfg64 b).filter (· ∉ elems cfg64 a)).length :=
  unionOwn_ok (coreOK cfg64_ok g fuel) wa wb h
theorem union_ref64_u64 {D : Type} (g : Rng D) (fuel : Nat) {a b res : Rp} {d d' : D}
    (wa : WF cfg64 a) (wb : WF cfg64 b) (h : unionRef64 cfg64 g fuel a b d = .ok (res, d')) :
    WF cfg64 res ∧ (∀ x, x ∈ elems cfg64 res ↔ (x ∈ elems cfg64 a ∨ x ∈ elems cfg64 b)) ∧
      len res = (elems cfg64 a ++ (elems cfg64 b).filter (· ∉ elems cfg64 a)).length :=
  unionRef64_ok (coreOK cfg64_ok g fuel) wa wb h
theorem diff_ref_u64 {D : Type} (g : Rng D) (fuel : Nat) {a b res : Rp} {d d' : D}
    (wa : WF cfg64 a) (wb : WF cfg64 b) (h : diffRef cfg64 g fuel a b d = .ok (res, d')) :
    WF cfg64 res ∧ (∀ x, x ∈ elems cfg64 res ↔ (x ∈ elems cfg64 a ∧ x ∉ elems cfg64 b)) ∧
      len res = ((elems cfg64 a).filter (· ∉ elems cfg64 b)).length :=
  diffRef_ok cfg64_ok (coreOK cfg64_ok g fuel) wa wb h
theorem diff_own_u64 {D : Type} (g : Rng D) (fuel : Nat) {a b res : Rp} {d d' : D}
    (wa : WF cfg64 a) (wb : WF cfg64 b) (h : diffOwn cfg64 g fuel a b d = .ok (res, d')) :
    WF cfg64 res ∧ (∀ x, x ∈ elems cfg64 res ↔ (x ∈ elems cfg64 a ∧ x ∉ elems cfg64 b)) ∧
      len res = ((elems cfg64 a).filter (· ∉ elems cfg64 b)).length :=
  diffOwn_ok (coreOK cfg64_ok g fuel) wa wb h
theorem diff_ref64_u64 {D : Type} (g : Rng D) (fuel : Nat) {a b res : Rp} {d d' : D}
    (wa : WF cfg64 a) (wb : WF cfg64 b) (h : diffRef64 cfg64 g fuel a b d = .ok (res, d')) :
    WF cfg64 res ∧ (∀ x, x ∈ elems cfg64 res ↔ (x ∈ elems cfg64 a ∧ x ∉ elems cfg64 b)) ∧
      len res = ((elems cfg64 a).filter (· ∉ elems cfg64 b)).length :=
  diffRef64_ok (coreOK cfg64_ok g fuel) wa wb h
theorem union_ref_self_u64 {D : Type} (g : Rng D) (fuel : Nat) {a res : Rp} {d d' : D}
    (wa : WF cfg64 a) (h : unionRef cfg64 g fuel a a d = .ok (res, d')) :
    WF cfg64 res ∧ (∀ x, x ∈ elems cfg64 res ↔ x ∈ elems cfg64 a) ∧ len res = len a :=
  unionRef_self cfg64_ok (coreOK cfg64_ok g fuel) wa h
theorem diff_ref_self_u64 {D : Type} (g : Rng D) (fuel : Nat) {a res : Rp} {d d' : D}
    (wa : WF cfg64 a) (h : diffRef cfg64 g fuel a a d = .ok (res, d')) :
    WF cfg64 res ∧ elems cfg64 res = [] ∧ len res = 0 :=
  diffRef_self cfg64_ok (coreOK cfg64_ok g fuel) wa h
theorem diff_own_self_u64 {D : Type} (g : Rng D) (fuel : Nat) {a res : Rp} {d d' : D}
    (wa : WF cfg64 a) (h : diffOwn cfg64 g fuel a a d = .ok (res, d')) :
    WF cfg64 res ∧ elems cfg64 res = [] ∧ len res = 0 :=
  diffOwn_self (coreOK cfg64_ok g fuel) wa h

theorem union_ref_u32 {D : Type} (g : Rng D) (fuel : Nat) {a b res : Rp} {d d' : D}
    (wa : WF cfg32 a) (wb : WF cfg32 b) (h : unionRef cfg32 g fuel a b d = .ok (res, d')) :
    WF cfg32 res ∧ (∀ x, x ∈ elems cfg32 res ↔ (x ∈ elems cfg32 a ∨ x ∈ elems cfg32 b)) ∧
      len res = (elems cfg32 a ++ (elems cfg32 b).filter (· ∉ elems cfg32 a)).length :=
  unionRef_ok cfg32_ok (coreOK cfg32_ok g fuel) wa wb h
theorem union_own_u32 {D : Type} (g : Rng D) (fuel : Nat) {a b res : Rp} {d d' : D}
    (wa : WF cfg32 a) (wb : WF cfg32 b) (h : unionOwn cfg32 g fuel a b d = .ok (res, d')) :
    WF cfg32 res ∧ (∀ x, x ∈ elems cfg32 res ↔ (x ∈ elems cfg32 a ∨ x ∈ elems cfg32 b)) ∧
      len res = (elems cfg32 a ++ (elems cfg32 b).filter (· ∉ elems cfg32 a)).length :=
  unionOwn_ok (coreOK cfg32_ok g fuel) wa wb h
theorem diff_ref_u32 {D : Type} (g : Rng D) (fuel : Nat) {a b res : Rp} {d d' : D}
    (wa : WF cfg32 a) (wb : WF cfg32 b) (h : diffRef cfg32 g fuel a b d = .ok (res, d')) :
    WF cfg32 res ∧ (∀ x, x ∈ elems cfg32 res ↔ (x ∈ elems cfg32 a ∧ x ∉ elems cfg32 b)) ∧
      len res = ((elems cfg32 a).filter (· ∉ elems cfg32 b)).length :=
  diffRef_ok cfg32_ok (coreOK cfg32_ok g fuel) wa wb h
theorem diff_own_u32 {D : Type} (g : Rng D) (fuel : Nat) {a b res : Rp} {d d' : D}
    (wa : WF cfg32 a) (wb : WF cfg32 b) (h : diffOwn cfg32 g fuel a b d = .ok (res, d')) :
    WF cfg32 res ∧ (∀ x, x ∈ elems cfg32 res ↔ (x ∈ elems cfg32 a ∧ x ∉ elems cfg32 b)) ∧
      len res = ((elems cfg32 a).filter (· ∉ elems cfg32 b)).length :=
  diffOwn_ok (coreOK cfg32_ok g fuel) wa wb h
theorem union_ref_self_u32 {D : Type} (g : Rng D) (fuel : Nat) {a res : Rp} {d d' : D}
    (wa : WF cfg32 a) (h : unionRef cfg32 g fuel a a d = .ok (res, d')) :
    WF cfg32 res ∧ (∀ x, x ∈ elems cfg32 res ↔ x ∈ elems cfg32 a) ∧ len res = len a :=
  unionRef_self cfg32_ok (coreOK cfg32_ok g fuel) wa h
theorem diff_ref_self_u32 {D : Type} (g : Rng D) (fuel : Nat) {a res : Rp} {d d' : D}
    (wa : WF cfg32 a) (h : diffRef cfg32 g fuel a a d = .ok (res, d')) :
    WF cfg32 res ∧ elems cfg32 res = [] ∧ len res = 0 :=
  diffRef_self cfg32_ok (coreOK cfg32_ok g fuel) wa h
theorem diff_own_self_u32 {D : Type} (g : Rng D) (fuel : Nat) {a res : Rp} {d d' : D}
    (wa : WF cfg32 a) (h : diffOwn cfg32 g fuel a a d = .ok (res, d')) :
    WF cfg32 res ∧ elems cfg32 res = [] ∧ len res = 0 :=
  diffOwn_self (coreOK cfg32_ok g fuel) wa h

/-! ### the hypotheses are satisfiable: mixed layouts (a heap table and an inline set), overlapping operands -/

/-- `{1000, 2^40} | {3, 5, 1000}` and `{1000, 2^40} - {3, 5, 1000}` return -/
theorem demo_union : unionRef cfg64 detRng 6 Demo.bitmap64 Demo.inline () =
    .ok (.heap 4 4 23 #[40, 401016175510691840, 0, 360712192], ()) := by decide +kernel
theorem demo_diff : diffRef cfg64 detRng 6 Demo.bitmap64 Demo.inline () =
    .ok (.heap 1 3 23 #[401016175510691840, 0, 0], ()) := by decide +kernel
example : len (.heap 4 4 23 #[40, 401016175510691840, 0, 360712192]) =
    (elems cfg64 Demo.bitmap64 ++ (elems cfg64 Demo.inline).filter (· ∉ elems cfg64 Demo.bitmap64)).length :=
  (union_ref_u64 detRng 6 Demo.bitmap64_wf Demo.inline64_wf demo_union).2.2
example : ∀ x, x ∈ elems cfg64 (.heap 1 3 23 #[401016175510691840, 0, 0]) ↔
    (x ∈ elems cfg64 Demo.bitmap64 ∧ x ∉ elems cfg64 Demo.inline) :=
  (diff_ref_u64 detRng 6 Demo.bitmap64_wf Demo.inline64_wf demo_diff).2.1

/-- SetU64: `&a | &b` always returns, with exactly the union (operands within the ghost capacity bound of C11) -/
theorem union_ref_returns_u64 {D : Type} (g : Rng D) (fuel : Nat) {a b : Rp} (wa : WF cfg64 a) (wb : WF cfg64 b) {Ma Mb : Nat}
    (ha : CapOK a Ma) (hb : CapOK b Mb) (hsize : Ma + Mb < 2 ^ 60) (d : D) :
    ∃ r d', unionRef cfg64 g (fuel + 2) a b d = .ok (r, d') ∧ WF cfg64 r ∧
      (∀ x, x ∈ elems cfg64 r ↔ (x ∈ elems cfg64 a ∨ x ∈ elems cfg64 b)) :=
  unionRef_total_u64 g fuel wa wb ha hb hsize d

/-- SetU64: `&a - &b` always returns, with exactly the difference -/
theorem diff_ref_returns_u64 {D : Type} (g : Rng D) (fuel : Nat) {a b : Rp} (wa : WF cfg64 a) (wb : WF cfg64 b) {Ma : Nat}
    (ha : CapOK a Ma) (hsize : Ma < 2 ^ 60) (d : D) :
    ∃ r d', diffRef cfg64 g (fuel + 2) a b d = .ok (r, d') ∧ WF cfg64 r ∧
      (∀ x, x ∈ elems cfg64 r ↔ (x ∈ elems cfg64 a ∧ x ∉ elems cfg64 b)) :=
  diffRef_total_u64 g fuel wa wb ha hsize d

/-! ### the operators inside programs over several sets -/

/-- any program in which the four operator forms are interleaved with every other operation, over any number of
sets (operands in any layout, any relative size, also `&a | &a`, `&a - &a`), every generator outcome: each result
holds exactly the union / difference of what its operands held at that moment, the borrowed operands keep their
members, and the allocator calls of the whole run are legal and leave nothing live (generic in the set type) -/
theorem operators_in_programs {c : Cfg} {D : Type} (ok : CfgOK c) (fresh : Bool) (g : Rng D) (fuel n : Nat) (ops : List POp)
    (hr : ∀ op ∈ ops, op.InRange c.W) {s' : Slots} {d d' : D} {evs : List Ev}
    (h : prun c fresh g fuel (List.replicate n .empty) ops d = .ok ((s', evs), d')) :
    (∀ i, i < n → WF c (s'.get i) ∧ ∀ x, x ∈ elems c (s'.get i) ↔ specRunP n (fun _ => none') ops i x) ∧
    runEv [] (evs ++ dropAll c s') = some [] :=
  program_correct_and_balanced ok fresh g fuel n ops hr h
/-- what the ideal program says about the operator steps -/
theorem ideal_union (m : Ideal) (k i j x : Nat) : pspecCore m (.uniRef k i j) k x ↔ (m i x ∨ m j x) := by
  simp [pspecCore, Ideal.upd]
theorem ideal_difference (m : Ideal) (k i j x : Nat) : pspecCore m (.difRef k i j) k x ↔ (m i x ∧ ¬ m j x) := by
  simp [pspecCore, Ideal.upd]
/-- a borrowed operand (a slot other than the result's) is unchanged -/
theorem ideal_operand_unchanged (m : Ideal) (k i j l : Nat) (h : l ≠ k) :
    pspecCore m (.uniRef k i j) l = m l ∧ pspecCore m (.difRef k i j) l = m l := by
  simp [pspecCore, Ideal.upd, h]

/-! ### the operators of the model are the operator bodies of the current source: `Generated/Loops.lean` holds the four
bodies of the `impl_set_methods!` macro (`copyset.rs`) translated on every run into the SCRIPT each runs on the set it
returns — where that set starts (0 `self` itself, 1 `with_capacity_of(&self)`, 2 `with_capacity_of(&rhs)`, 3 `new()`) and the
`insert` (1) / `remove` (0) calls in order; the operands' `len()`, iteration and `contains` are parameters -/

/-- running a script with the model's `insert` / `remove` -/
def runScript (c : Cfg) (g : Rng D) (fuel : Nat) (a b : Rp) (s : Nat × List (Nat × Nat)) : M D Rp :=
  s.2.foldlM (fun r (op : Nat × Nat) =>
      if op.1 = 1 then (do let (r', _) ← insert c g fuel r op.2; pure r')
      else (do let (r', _) ← remove c g fuel r op.2; pure r'))
    (if s.1 = 0 then a else if s.1 = 1 then withCapOf a else if s.1 = 2 then withCapOf b else .empty)

theorem foldlM_append_ops (f : Rp → Nat × Nat → M D Rp) (l1 l2 : List (Nat × Nat)) (r : Rp) :
    (l1 ++ l2).foldlM f r = (do let r' ← l1.foldlM f r; l2.foldlM f r') := by
  simp [List.foldlM_append]

theorem sub_ref_loop_eq (sl rl st : Nat) (pr : List Nat) (f : Nat → Bool) : ∀ (xs : List Nat) (ops : List (Nat × Nat)),
    Gen.sub_ref_loop1 sl rl pr f st xs ops = (st, ops ++ (xs.filter (fun v => !f v)).map (fun v => (1, v))) := by
  intro xs
  induction xs with
  | nil => intro ops; simp [Gen.sub_ref_loop1]
  | cons x xs ih =>
    intro ops
    cases hx : f x <;> simp [Gen.sub_ref_loop1, hx, ih, List.filter_cons]
theorem sub_own_loop_eq (sl rl st : Nat) (pl : List Nat) (f : Nat → Bool) : ∀ (xs : List Nat) (ops : List (Nat × Nat)),
    Gen.sub_own_loop1 sl rl pl f st xs ops = (st, ops ++ xs.map (fun v => (0, v))) := by
  intro xs
  induction xs with
  | nil => intro ops; simp [Gen.sub_own_loop1]
  | cons x xs ih => intro ops; simp [Gen.sub_own_loop1, ih]
theorem bitor_own_loop_eq (sl rl st : Nat) (pl : List Nat) (f : Nat → Bool) : ∀ (xs : List Nat) (ops : List (Nat × Nat)),
    Gen.bitor_own_loop1 sl rl pl f st xs ops = (st, ops ++ xs.map (fun v => (1, v))) := by
  intro xs
  induction xs with
  | nil => intro ops; simp [Gen.bitor_own_loop1]
  | cons x xs ih => intro ops; simp [Gen.bitor_own_loop1, ih]
theorem bitor_ref_loop2_eq (sl rl st : Nat) (pl : List Nat) (f : Nat → Bool) : ∀ (xs : List Nat) (ops : List (Nat × Nat)),
    Gen.bitor_ref_loop2 sl rl pl f st xs ops = (st, ops ++ xs.map (fun v => (1, v))) := by
  intro xs
  induction xs with
  | nil => intro ops; simp [Gen.bitor_ref_loop2]
  | cons x xs ih => intro ops; simp [Gen.bitor_ref_loop2, ih]
theorem bitor_ref_loop1_eq (sl rl st : Nat) (pl pr : List Nat) (f : Nat → Bool) : ∀ (xs : List Nat) (ops : List (Nat × Nat)),
    Gen.bitor_ref_loop1 sl rl pl pr f st xs ops = (st, ops ++ xs.map (fun v => (1, v)) ++ pr.map (fun v => (1, v))) := by
  intro xs
  induction xs with
  | nil => intro ops; simp [Gen.bitor_ref_loop1, bitor_ref_loop2_eq]
  | cons x xs ih => intro ops; simp [Gen.bitor_ref_loop1, ih]

theorem foldlM_ins_map (c : Cfg) (g : Rng D) (fuel : Nat) : ∀ (xs : List Nat) (r : Rp),
    (xs.map (fun v => ((1 : Nat), v))).foldlM (fun r (op : Nat × Nat) =>
      if op.1 = 1 then (do let (r', _) ← insert c g fuel r op.2; pure r')
      else (do let (r', _) ← remove c g fuel r op.2; pure r')) r = extend c g fuel r xs := by
  intro xs
  induction xs with
  | nil => intro r; rfl
  | cons x xs ih =>
    intro r
    simp only [List.map_cons, List.foldlM_cons, extend, insertAll, if_true]
    congr 1
    funext r'
    exact ih r'
theorem foldlM_rem_map (c : Cfg) (g : Rng D) (fuel : Nat) : ∀ (xs : List Nat) (r : Rp),
    (xs.map (fun v => ((0 : Nat), v))).foldlM (fun r (op : Nat × Nat) =>
      if op.1 = 1 then (do let (r', _) ← insert c g fuel r op.2; pure r')
      else (do let (r', _) ← remove c g fuel r op.2; pure r')) r = removeAll c g fuel r xs := by
  intro xs
  induction xs with
  | nil => intro r; rfl
  | cons x xs ih =>
    intro r
    simp only [List.map_cons, List.foldlM_cons, removeAll, show ¬ ((0 : Nat) = 1) from by decide, if_false]
    congr 1
    funext r'
    exact ih r'

/-- **the four operator forms of the model are the operator bodies of the source**: the script each translated body
produces — fed with the model's `len`, members and `contains` of the operands — run with the model's `insert` /
`remove` IS `diffRef` / `diffOwn` / `unionRef` / `unionOwn`, about which the theorems above speak -/
theorem operators_are_the_source (c : Cfg) (g : Rng D) (fuel : Nat) (a b : Rp) :
    runScript c g fuel a b (Gen.sub_ref (len a) (len b) (elems c a) (elems c b) (contains c b)) = diffRef c g fuel a b ∧
    runScript c g fuel a b (Gen.sub_own (len a) (len b) (elems c a) (elems c b) (contains c b)) = diffOwn c g fuel a b ∧
    runScript c g fuel a b (Gen.bitor_ref (len a) (len b) (elems c a) (elems c b) (contains c b)) = unionRef c g fuel a b ∧
    runScript c g fuel a b (Gen.bitor_own (len a) (len b) (elems c a) (elems c b) (contains c b)) = unionOwn c g fuel a b := by
  refine ⟨?_, ?_, ?_, ?_⟩
  · simp only [runScript, Gen.sub_ref, sub_ref_loop_eq, List.nil_append, diffRef]
    exact foldlM_ins_map c g fuel _ _
  · simp only [runScript, Gen.sub_own, sub_own_loop_eq, List.nil_append, diffOwn]
    exact foldlM_rem_map c g fuel _ _
  · simp only [runScript, Gen.bitor_ref, bitor_ref_loop1_eq, List.nil_append, unionRef]
    rw [← List.map_append, foldlM_ins_map]
    simp only [extend, insertAll, List.foldlM_append]
    by_cases h : len a > len b <;> simp [h]
  · simp only [runScript, Gen.bitor_own, bitor_own_loop_eq, List.nil_append, unionOwn]
    exact foldlM_ins_map c g fuel _ _

theorem set64_sub_loop_eq (sl rl st : Nat) (pr : List Nat) (f : Nat → Bool) : ∀ (xs : List Nat) (ops : List (Nat × Nat)),
    Gen.set64_sub_loop1 sl rl pr f st xs ops = (st, ops ++ (xs.filter (fun v => !f v)).map (fun v => (1, v))) := by
  intro xs
  induction xs with
  | nil => intro ops; simp [Gen.set64_sub_loop1]
  | cons x xs ih =>
    intro ops
    cases hx : f x <;> simp [Gen.set64_sub_loop1, hx, ih, List.filter_cons]
theorem set64_bitor_loop2_eq (sl rl st : Nat) (pl : List Nat) (f : Nat → Bool) : ∀ (xs : List Nat) (ops : List (Nat × Nat)),
    Gen.set64_bitor_loop2 sl rl pl f st xs ops = (st, ops ++ xs.map (fun v => (1, v))) := by
  intro xs
  induction xs with
  | nil => intro ops; simp [Gen.set64_bitor_loop2]
  | cons x xs ih => intro ops; simp [Gen.set64_bitor_loop2, ih]
theorem set64_bitor_loop1_eq (sl rl st : Nat) (pl pr : List Nat) (f : Nat → Bool) : ∀ (xs : List Nat) (ops : List (Nat × Nat)),
    Gen.set64_bitor_loop1 sl rl pl pr f st xs ops = (st, ops ++ xs.map (fun v => (1, v)) ++ pr.map (fun v => (1, v))) := by
  intro xs
  induction xs with
  | nil => intro ops; simp [Gen.set64_bitor_loop1, set64_bitor_loop2_eq]
  | cons x xs ih => intro ops; simp [Gen.set64_bitor_loop1, ih]

/-- `Set64<T>` (`set64.rs`; its `with_capacity` is `new()`, pinned): `&a - &b` and `&a | &b` -/
theorem operators64_are_the_source (c : Cfg) (g : Rng D) (fuel : Nat) (a b : Rp) :
    runScript c g fuel a b (Gen.set64_sub (len a) (len b) (elems c a) (elems c b) (contains c b)) = diffRef64 c g fuel a b ∧
    runScript c g fuel a b (Gen.set64_bitor (len a) (len b) (elems c a) (elems c b) (contains c b)) = unionRef64 c g fuel a b := by
  refine ⟨?_, ?_⟩
  · simp only [runScript, Gen.set64_sub, set64_sub_loop_eq, List.nil_append, diffRef64]
    exact foldlM_ins_map c g fuel _ _
  · simp only [runScript, Gen.set64_bitor, set64_bitor_loop1_eq, List.nil_append, unionRef64]
    rw [← List.map_append, foldlM_ins_map]
    simp only [extend, insertAll, List.foldlM_append]
    rfl

/-- not vacuous: the scripts of `&{1,2,3} - &{2}` and of `&{1} | &{2,3}` (the longer operand sizes the result) -/
example : Gen.sub_ref 3 1 [1, 2, 3] [2] (fun v => v == 2) = (1, [(1, 1), (1, 3)]) ∧
    Gen.bitor_ref 1 2 [1] [2, 3] (fun _ => false) = (2, [(1, 1), (1, 2), (1, 3)]) ∧
    Gen.sub_own 3 1 [1, 2, 3] [2] (fun _ => false) = (0, [(0, 2)]) := by decide

end C09

#print axioms C09.union_ref
#print axioms C09.union_own
#print axioms C09.union_ref64
#print axioms C09.diff_ref
#print axioms C09.diff_own
#print axioms C09.diff_ref64
#print axioms C09.union_ref_self
#print axioms C09.diff_ref_self
#print axioms C09.diff_own_self
#print axioms C09.operators_are_the_source
