import TinysetModel.Proofs.PropsAux
import TinysetModel.Proofs.Demo
import TinysetModel.Properties.C01
import TinysetModel.Properties.C02
import TinysetModel.Properties.C04
/-! C08 — `==` means same members whatever the history/layout; equal Set64s hash equally.

`eqSet` is `PartialEq::eq` of SetU64/SetU32/SetUsize (`impl_set_methods!`: compare `len`, then every member of
`self` is contained in `other`); `eqSet64` is `Set64::eq` (iterates the OTHER operand).  `hashInput` is the
sequence `Set64::hash` feeds to the hasher (the encoded members, sorted).  The hypotheses are only `WF` of the
operands: nothing is assumed about how they were built, their layouts or capacities.
`Debug` of the untyped sets prints the type name followed by the list produced by `iter()`, i.e. `elems`
(C04: exactly the members, once each): `debug_lists_members`; the text itself is compared with the
implementation's on every audited state (`dbg` lines). -/
namespace C08
open SC

section generic
variable {c : Cfg}

/-- `Debug` of an untyped set is its type name followed by a list that holds exactly the members, each once,
`len()` of them — for every well-formed representation of every layout -/
theorem debug_lists_members (ok : CfgOK c) (name : String) {r : Rp} (wf : WF c r) :
    ∃ l : List Nat, debugStr c name r = name ++ " " ++ toString l ∧ l.Nodup ∧ l.length = len r ∧
      ∀ x, x ∈ l ↔ contains c r x = true ∧ x < 2 ^ c.W := by
  have a := absOK_of_wf ok wf
  refine ⟨elems c r, rfl, a.nodup, a.len.symm, fun x => ⟨fun h => ?_, fun h => ?_⟩⟩
  · exact ⟨(contains_refines ok wf x (a.range x h)).mpr h, a.range x h⟩
  · exact (contains_refines ok wf x h.2).mp h.1

/-- `a == b` exactly when `a` and `b` have the same members (any two well-formed representations) -/
theorem eq_iff_same_members (ok : CfgOK c) {a b : Rp} (wa : WF c a) (wb : WF c b) :
    eqSet c a b = true ↔ ∀ x, x ∈ elems c a ↔ x ∈ elems c b := eqSet_iff (coreOK ok detRng 0) wa wb
/-- the same for `Set64::eq` -/
theorem eq64_iff_same_members (ok : CfgOK c) {a b : Rp} (wa : WF c a) (wb : WF c b) :
    eqSet64 c a b = true ↔ ∀ x, x ∈ elems c a ↔ x ∈ elems c b := eqSet64_iff (coreOK ok detRng 0) wa wb

/-- `!=` exactly when some value is a member of one and not of the other (e.g. sets differing in one member) -/
theorem ne_iff_differ (ok : CfgOK c) {a b : Rp} (wa : WF c a) (wb : WF c b) :
    eqSet c a b = false ↔ ¬ ∀ x, x ∈ elems c a ↔ x ∈ elems c b := by
  rw [← eqSet_iff (coreOK ok detRng 0) wa wb, Bool.not_eq_true]

theorem eq_refl (ok : CfgOK c) {a : Rp} (wa : WF c a) : eqSet c a a = true := eqSet_refl (coreOK ok detRng 0) wa
theorem eq_symm (ok : CfgOK c) {a b : Rp} (wa : WF c a) (wb : WF c b) (h : eqSet c a b = true) : eqSet c b a = true :=
  eqSet_symm (coreOK ok detRng 0) wa wb h
theorem eq_trans (ok : CfgOK c) {a b e : Rp} (wa : WF c a) (wb : WF c b) (we : WF c e)
    (h1 : eqSet c a b = true) (h2 : eqSet c b e = true) : eqSet c a e = true :=
  eqSet_trans (coreOK ok detRng 0) wa wb we h1 h2
theorem eq64_refl (ok : CfgOK c) {a : Rp} (wa : WF c a) : eqSet64 c a a = true := eqSet64_refl (coreOK ok detRng 0) wa
theorem eq64_symm (ok : CfgOK c) {a b : Rp} (wa : WF c a) (wb : WF c b) (h : eqSet64 c a b = true) : eqSet64 c b a = true :=
  eqSet64_symm (coreOK ok detRng 0) wa wb h
theorem eq64_trans (ok : CfgOK c) {a b e : Rp} (wa : WF c a) (wb : WF c b) (we : WF c e)
    (h1 : eqSet64 c a b = true) (h2 : eqSet64 c b e = true) : eqSet64 c a e = true :=
  eqSet64_trans (coreOK ok detRng 0) wa wb we h1 h2

/-- equal sets have equal `len` -/
theorem eq_len {a b : Rp} (h : eqSet c a b = true) : len a = len b := len_eq_of_eqSet h

/-- what is hashed: the members in strictly increasing order, each once -/
theorem hash_input (ok : CfgOK c) {a : Rp} (wa : WF c a) :
    (hashInput c a).Pairwise (· < ·) ∧ (hashInput c a).Perm (elems c a) := hashInput_spec (coreOK ok detRng 0) wa
/-- sets with the same members feed the hasher the identical sequence, whatever their representations -/
theorem hash_congr (ok : CfgOK c) {a b : Rp} (wa : WF c a) (wb : WF c b)
    (h : ∀ x, x ∈ elems c a ↔ x ∈ elems c b) : hashInput c a = hashInput c b := hashInput_congr (coreOK ok detRng 0) wa wb h
/-- `a == b → hash(a) == hash(b)`, for either `==` -/
theorem hash_of_eq (ok : CfgOK c) {a b : Rp} (wa : WF c a) (wb : WF c b) (h : eqSet c a b = true) :
    hashInput c a = hashInput c b := hashInput_of_eqSet (coreOK ok detRng 0) wa wb h
theorem hash_of_eq64 (ok : CfgOK c) {a b : Rp} (wa : WF c a) (wb : WF c b) (h : eqSet64 c a b = true) :
    hashInput c a = hashInput c b :=
  hashInput_congr (coreOK ok detRng 0) wa wb ((eqSet64_iff (coreOK ok detRng 0) wa wb).1 h)

end generic

/-! ### instances -/

theorem eq_iff_same_members_u64 {a b : Rp} (wa : WF cfg64 a) (wb : WF cfg64 b) :
    eqSet cfg64 a b = true ↔ ∀ x, x ∈ elems cfg64 a ↔ x ∈ elems cfg64 b := eqSet_iff (coreOK cfg64_ok detRng 0) wa wb
theorem eq_iff_same_members_u32 {a b : Rp} (wa : WF cfg32 a) (wb : WF cfg32 b) :
    eqSet cfg32 a b = true ↔ ∀ x, x ∈ elems cfg32 a ↔ x ∈ elems cfg32 b := eqSet_iff (coreOK cfg32_ok detRng 0) wa wb
/-- `Set64<T>` (members are the `to_u64` encodings, C03) -/
theorem eq64_iff_same_members_u64 {a b : Rp} (wa : WF cfg64 a) (wb : WF cfg64 b) :
    eqSet64 cfg64 a b = true ↔ ∀ x, x ∈ elems cfg64 a ↔ x ∈ elems cfg64 b := eqSet64_iff (coreOK cfg64_ok detRng 0) wa wb
theorem hash_of_eq64_u64 {a b : Rp} (wa : WF cfg64 a) (wb : WF cfg64 b) (h : eqSet64 cfg64 a b = true) :
    hashInput cfg64 a = hashInput cfg64 b := hash_of_eq64 cfg64_ok wa wb h
theorem hash_input_u64 {a : Rp} (wa : WF cfg64 a) :
    (hashInput cfg64 a).Pairwise (· < ·) ∧ (hashInput cfg64 a).Perm (elems cfg64 a) := hashInput_spec (coreOK cfg64_ok detRng 0) wa

/-! ### the hypotheses are satisfiable: the same members in two different layouts -/

/-- `{3, 5, 1000}` as an inline word and as a heap table -/
theorem demo_table : extend cfg64 detRng 6 (withCapOf Demo.plain64) [1000, 5, 3] () =
    .ok (.heap 3 4 9838956529666160483 #[1000, 5, 0, 3], ()) := by decide +kernel
theorem demo_table_wf : WF cfg64 (.heap 3 4 9838956529666160483 #[1000, 5, 0, 3]) :=
  (extend_spec cfg64_ok detRng 6 (withCapOf_ok cfg64_ok Demo.plain64_wf).1 (by decide) demo_table).1
example : eqSet cfg64 Demo.inline (.heap 3 4 9838956529666160483 #[1000, 5, 0, 3]) = true := by decide +kernel
/-- … so by the theorems (not by evaluation) they have the same members and the same hash input -/
example : hashInput cfg64 Demo.inline = hashInput cfg64 (.heap 3 4 9838956529666160483 #[1000, 5, 0, 3]) :=
  hash_of_eq cfg64_ok Demo.inline64_wf demo_table_wf (by decide +kernel)
example : eqSet cfg64 Demo.inline Demo.bitmap64 = false := by decide +kernel

/-! ### `==` of the model is `PartialEq::eq` of the current source: `Generated/Loops.lean` holds the body of `eq` from the
`impl_set_methods!` macro of `copyset.rs` (SetU64, SetU32, SetUsize) and from `set64.rs` (`Set64<T>`), translated on
every run — the `len()` test, the `for` loop over one operand with the early `return false`; the two `len()`s, the
iterated operand and the other operand's `contains` are its parameters -/

theorem set_eq_loop (sl ol : Nat) (f : Nat → Bool) : ∀ xs : List Nat, Gen.set_eq_loop1 sl ol f xs = xs.all f := by
  intro xs
  induction xs with
  | nil => rfl
  | cons x xs ih => cases hx : f x <;> simp [Gen.set_eq_loop1, hx, ih]
theorem set64_eq_loop (sl ol : Nat) (f : Nat → Bool) : ∀ xs : List Nat, Gen.set64_eq_loop1 sl ol f xs = xs.all f := by
  intro xs
  induction xs with
  | nil => rfl
  | cons x xs ih => cases hx : f x <;> simp [Gen.set64_eq_loop1, hx, ih]

theorem all_congr_mem {f g : Nat → Bool} : ∀ (l : List Nat), (∀ x ∈ l, f x = g x) → l.all f = l.all g := by
  intro l
  induction l with
  | nil => intro _; rfl
  | cons x xs ih =>
    intro h
    simp only [List.all_cons, h x (by simp), ih (fun y hy => h y (by simp [hy]))]

/-- fed with the model's `len`, members and `contains`, the translated `eq` is the model's `==` (both forms) -/
theorem eq_is_the_source (c : Cfg) (a b : Rp) :
    Gen.set_eq (len a) (len b) (elems c a) (contains c b) = eqSet c a b ∧
    Gen.set64_eq (len a) (len b) (elems c b) (contains c a) = eqSet64 c a b := by
  constructor
  · simp only [Gen.set_eq, set_eq_loop, eqSet]
    by_cases h : len a = len b <;> simp [h]
  · simp only [Gen.set64_eq, set64_eq_loop, eqSet64]
    by_cases h : len a = len b <;> simp [h]

/-- **`==` through the source's own code, end to end** (`SetU64`): the translated `eq`, fed with what the translated
`Inner::next` yields on `a` (`source_iteration_yields_elems_u64`) and with the translated `contains` run on `b`
(`source_contains_is_model_u64`), answers `true` exactly when the two well-formed sets have the same members -/
theorem source_eq_is_equality_u64 {a b : Rp} (wa : WF cfg64 a) (wb : WF cfg64 b) :
    Gen.set_eq (len a) (len b) (srcDrain64 a ((elems cfg64 a).length + 1) (cursorOf a)) (C01.srcContains64 b) = true ↔
      ∀ x, x ∈ elems cfg64 a ↔ x ∈ elems cfg64 b := by
  rw [C04.source_iteration_yields_elems_u64 wa, ← eq_iff_same_members_u64 wa wb, ← (eq_is_the_source cfg64 a b).1]
  simp only [Gen.set_eq, set_eq_loop]
  have hall : (elems cfg64 a).all (C01.srcContains64 b) = (elems cfg64 a).all (contains cfg64 b) := by
    apply all_congr_mem
    intro x hx
    exact C01.source_contains_is_model_u64 wb x ((absOK_of_wf cfg64_ok wa).range x hx)
  rw [hall]

/-- `SetU32` (a dense bitset of at most 2^27 words in `a`; `b`'s capacity a `u32`) -/
theorem source_eq_is_equality_u32 {a b : Rp} (wa : WF cfg32 a) (wb : WF cfg32 b)
    (hda : ∀ sz cap t, a = .heap sz cap 32 t → t.size ≤ 2 ^ 27) (hnb : capacity b < 2 ^ 32) :
    Gen.set_eq (len a) (len b) (srcDrain32 a ((elems cfg32 a).length + 1) (cursorOf a)) (C02.srcContains32 b) = true ↔
      ∀ x, x ∈ elems cfg32 a ↔ x ∈ elems cfg32 b := by
  rw [C04.source_iteration_yields_elems_u32 wa hda, ← eq_iff_same_members_u32 wa wb, ← (eq_is_the_source cfg32 a b).1]
  simp only [Gen.set_eq, set_eq_loop]
  have hall : (elems cfg32 a).all (C02.srcContains32 b) = (elems cfg32 a).all (contains cfg32 b) := by
    apply all_congr_mem
    intro x hx
    exact C02.source_contains_is_model_u32 wb x ((absOK_of_wf cfg32_ok wa).range x hx) hnb
  rw [hall]

/-- not vacuous -/
example : Gen.set_eq 2 2 [1, 2] (fun v => v == 1 || v == 2) = true ∧ Gen.set_eq 2 2 [1, 3] (fun v => v == 1 || v == 2) = false ∧
    Gen.set_eq 2 3 [1, 2] (fun _ => true) = false := by decide

end C08

#print axioms C08.eq_iff_same_members
#print axioms C08.eq64_iff_same_members
#print axioms C08.hash_congr
#print axioms C08.hash_of_eq
