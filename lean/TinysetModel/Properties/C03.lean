import TinysetModel.Proofs.Fits
import TinysetModel.Proofs.Consts
/-! C03 — the public 64-bit encoding `Fits64` is lossless, injective and small, for every supported type.
The definitions `Gen.to_u64_<ty>` / `Gen.from_u64_<ty>` are regenerated from `src/set64.rs` on every run
(tools/gen_fits.py), so these theorems are about the macro bodies as they are in the source now.
`Set64<T>` forwards every operation to `SetU64` through `to_u64` (the harness validates typed histories against the
`SetU64` model under exactly this encoding), so with injectivity a `Set64<T>` history is a `SetU64` history on distinct codes. -/
namespace C03

/-- `u64`: `from_u64(to_u64(x)) = x` for every value -/
theorem roundtrip_u64 (x : BitVec 64) : Gen.from_u64_u64 (Gen.to_u64_u64 x) = x := from_to_u64 x
theorem injective_u64 (x y : BitVec 64) (h : Gen.to_u64_u64 x = Gen.to_u64_u64 y) : x = y := to_injective_u64 x y h
/-- `usize`: `from_u64(to_u64(x)) = x` for every value -/
theorem roundtrip_usize (x : BitVec 64) : Gen.from_u64_usize (Gen.to_u64_usize x) = x := from_to_usize x
theorem injective_usize (x y : BitVec 64) (h : Gen.to_u64_usize x = Gen.to_u64_usize y) : x = y := to_injective_usize x y h
/-- `u32`: `from_u64(to_u64(x)) = x` for every value -/
theorem roundtrip_u32 (x : BitVec 32) : Gen.from_u64_u32 (Gen.to_u64_u32 x) = x := from_to_u32 x
theorem injective_u32 (x y : BitVec 32) (h : Gen.to_u64_u32 x = Gen.to_u64_u32 y) : x = y := to_injective_u32 x y h
/-- `u16`: `from_u64(to_u64(x)) = x` for every value -/
theorem roundtrip_u16 (x : BitVec 16) : Gen.from_u64_u16 (Gen.to_u64_u16 x) = x := from_to_u16 x
theorem injective_u16 (x y : BitVec 16) (h : Gen.to_u64_u16 x = Gen.to_u64_u16 y) : x = y := to_injective_u16 x y h
/-- `u8`: `from_u64(to_u64(x)) = x` for every value -/
theorem roundtrip_u8 (x : BitVec 8) : Gen.from_u64_u8 (Gen.to_u64_u8 x) = x := from_to_u8 x
theorem injective_u8 (x y : BitVec 8) (h : Gen.to_u64_u8 x = Gen.to_u64_u8 y) : x = y := to_injective_u8 x y h
/-- `i8`: `from_u64(to_u64(x)) = x` for every value -/
theorem roundtrip_i8 (x : BitVec 8) : Gen.from_u64_i8 (Gen.to_u64_i8 x) = x := from_to_i8 x
theorem injective_i8 (x y : BitVec 8) (h : Gen.to_u64_i8 x = Gen.to_u64_i8 y) : x = y := to_injective_i8 x y h
/-- `i16`: `from_u64(to_u64(x)) = x` for every value -/
theorem roundtrip_i16 (x : BitVec 16) : Gen.from_u64_i16 (Gen.to_u64_i16 x) = x := from_to_i16 x
theorem injective_i16 (x y : BitVec 16) (h : Gen.to_u64_i16 x = Gen.to_u64_i16 y) : x = y := to_injective_i16 x y h
/-- `i32`: `from_u64(to_u64(x)) = x` for every value -/
theorem roundtrip_i32 (x : BitVec 32) : Gen.from_u64_i32 (Gen.to_u64_i32 x) = x := from_to_i32 x
theorem injective_i32 (x y : BitVec 32) (h : Gen.to_u64_i32 x = Gen.to_u64_i32 y) : x = y := to_injective_i32 x y h
/-- `i64`: `from_u64(to_u64(x)) = x` for every value -/
theorem roundtrip_i64 (x : BitVec 64) : Gen.from_u64_i64 (Gen.to_u64_i64 x) = x := from_to_i64 x
theorem injective_i64 (x y : BitVec 64) (h : Gen.to_u64_i64 x = Gen.to_u64_i64 y) : x = y := to_injective_i64 x y h
/-- `isize`: `from_u64(to_u64(x)) = x` for every value -/
theorem roundtrip_isize (x : BitVec 64) : Gen.from_u64_isize (Gen.to_u64_isize x) = x := from_to_isize x
theorem injective_isize (x y : BitVec 64) (h : Gen.to_u64_isize x = Gen.to_u64_isize y) : x = y := to_injective_isize x y h
/-- `u64` encodes to itself -/
theorem small_u64 (x : BitVec 64) : (Gen.to_u64_u64 x).toNat = x.toNat := to_small_u64 x
/-- `usize` encodes to itself -/
theorem small_usize (x : BitVec 64) : (Gen.to_u64_usize x).toNat = x.toNat := to_small_usize x
/-- `u32` encodes to itself -/
theorem small_u32 (x : BitVec 32) : (Gen.to_u64_u32 x).toNat = x.toNat := to_small_u32 x
/-- `u16` encodes to itself -/
theorem small_u16 (x : BitVec 16) : (Gen.to_u64_u16 x).toNat = x.toNat := to_small_u16 x
/-- `u8` encodes to itself -/
theorem small_u8 (x : BitVec 8) : (Gen.to_u64_u8 x).toNat = x.toNat := to_small_u8 x
/-- `i8`: the code is at most `2|x| + 1` (exactly `2x` for `x ≥ 0`, `2|x| - 1` for `x < 0`) -/
theorem small_i8 (x : BitVec 8) : (Gen.to_u64_i8 x).toNat ≤ 2 * x.toInt.natAbs + 1 := to_small_i8 x
theorem exact_nonneg_i8 (x : BitVec 8) (h : 0 ≤ x.toInt) : (Gen.to_u64_i8 x).toNat = 2 * x.toInt.toNat := to_exact_nonneg_i8 x h
theorem exact_neg_i8 (x : BitVec 8) (h : x.toInt < 0) : (Gen.to_u64_i8 x).toNat = 2 * x.toInt.natAbs - 1 := to_exact_neg_i8 x h
/-- `i16`: the code is at most `2|x| + 1` (exactly `2x` for `x ≥ 0`, `2|x| - 1` for `x < 0`) -/
theorem small_i16 (x : BitVec 16) : (Gen.to_u64_i16 x).toNat ≤ 2 * x.toInt.natAbs + 1 := to_small_i16 x
theorem exact_nonneg_i16 (x : BitVec 16) (h : 0 ≤ x.toInt) : (Gen.to_u64_i16 x).toNat = 2 * x.toInt.toNat := to_exact_nonneg_i16 x h
theorem exact_neg_i16 (x : BitVec 16) (h : x.toInt < 0) : (Gen.to_u64_i16 x).toNat = 2 * x.toInt.natAbs - 1 := to_exact_neg_i16 x h
/-- `i32`: the code is at most `2|x| + 1` (exactly `2x` for `x ≥ 0`, `2|x| - 1` for `x < 0`) -/
theorem small_i32 (x : BitVec 32) : (Gen.to_u64_i32 x).toNat ≤ 2 * x.toInt.natAbs + 1 := to_small_i32 x
theorem exact_nonneg_i32 (x : BitVec 32) (h : 0 ≤ x.toInt) : (Gen.to_u64_i32 x).toNat = 2 * x.toInt.toNat := to_exact_nonneg_i32 x h
theorem exact_neg_i32 (x : BitVec 32) (h : x.toInt < 0) : (Gen.to_u64_i32 x).toNat = 2 * x.toInt.natAbs - 1 := to_exact_neg_i32 x h
/-- `i64`: the code is at most `2|x| + 1` (exactly `2x` for `x ≥ 0`, `2|x| - 1` for `x < 0`) -/
theorem small_i64 (x : BitVec 64) : (Gen.to_u64_i64 x).toNat ≤ 2 * x.toInt.natAbs + 1 := to_small_i64 x
theorem exact_nonneg_i64 (x : BitVec 64) (h : 0 ≤ x.toInt) : (Gen.to_u64_i64 x).toNat = 2 * x.toInt.toNat := to_exact_nonneg_i64 x h
theorem exact_neg_i64 (x : BitVec 64) (h : x.toInt < 0) : (Gen.to_u64_i64 x).toNat = 2 * x.toInt.natAbs - 1 := to_exact_neg_i64 x h
/-- `isize`: the code is at most `2|x| + 1` (exactly `2x` for `x ≥ 0`, `2|x| - 1` for `x < 0`) -/
theorem small_isize (x : BitVec 64) : (Gen.to_u64_isize x).toNat ≤ 2 * x.toInt.natAbs + 1 := to_small_isize x
theorem exact_nonneg_isize (x : BitVec 64) (h : 0 ≤ x.toInt) : (Gen.to_u64_isize x).toNat = 2 * x.toInt.toNat := to_exact_nonneg_isize x h
theorem exact_neg_isize (x : BitVec 64) (h : x.toInt < 0) : (Gen.to_u64_isize x).toNat = 2 * x.toInt.natAbs - 1 := to_exact_neg_isize x h
/-- `char` (as its scalar value): the round trip never hits the `unwrap` on `None` -/
theorem roundtrip_char (c : BitVec 32) (h : Gen.isScalar c = true) : Gen.from_u64_char (Gen.to_u64_char c) = some c := from_to_char c h
theorem injective_char (x y : BitVec 32) (h : Gen.to_u64_char x = Gen.to_u64_char y) : x = y := to_injective_char x y h
theorem small_char (c : BitVec 32) : (Gen.to_u64_char c).toNat = c.toNat := to_small_char c
/-- every integer implementation in the source is covered above -/
theorem all_types_covered : Gen.fitsTypes.map (·.1) = ["u64", "u32", "u16", "u8", "usize", "i8", "i16", "i32", "i64", "isize"] := by decide
/-- non-vacuity: `-1i8 ↦ 1`, `i8::MIN ↦ 255`, `127i8 ↦ 254` -/
example : (Gen.to_u64_i8 0xFF#8).toNat = 1 ∧ (Gen.to_u64_i8 0x80#8).toNat = 255 ∧ (Gen.to_u64_i8 0x7F#8).toNat = 254 := by decide

end C03
