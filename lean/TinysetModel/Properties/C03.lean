import TinysetModel.Proofs.Fits
import TinysetModel.Proofs.Consts
import TinysetModel.Proofs.Typed
/-! C03 — the public 64-bit encoding `Fits64` is lossless, injective and small, for every supported type.
The definitions `Gen.to_u64_<ty>` / `Gen.from_u64_<ty>` are regenerated from `src/set64.rs` on every run
(tools/gen_fits.py), so these theorems are about the macro bodies as they are in the source now.
`Set64<T>` forwards every operation to `SetU64` through `to_u64` (the harness validates typed histories against the
`SetU64` model under exactly this encoding), so with injectivity a `Set64<T>` history is a `SetU64` history on distinct codes. -/
namespace C03

/-- `u64`: `from_u64(to_u64(x)) = x` for every value -/
theorem roundtrip_u64 (x : BitVec 64) : Gen.from_u64_u64 (Gen.to_u64_u64 x) = x := from_to_u64 x
theorem injective_u64 (x y : BitVec 64) (h : Gen.to_u64_u64 x = Gen.to_u64_u64 y) : x = y := to_injective_u64 x y h
/-- `usize`: `from_u64(to_u64(x)) = x` for every value -/
theorem roundtrip_usize (x : BitVec 64) : Gen.from_u64_usize (Gen.to_u64_usize x) = x := from_to_usize x
theorem injective_usize (x y : BitVec 64) (h : Gen.to_u64_usize x = Gen.to_u64_usize y) : x = y := to_injective_usize x y h
/-- `u32`: `from_u64(to_u64(x)) = x` for every value -/
theorem roundtrip_u32 (x : BitVec 32) : Gen.from_u64_u32 (Gen.to_u64_u32 x) = x := from_to_u32 x
theorem injective_u32 (x y : BitVec 32) (h : Gen.to_u64_u32 x = Gen.to_u64_u32 y) : x = y := to_injective_u32 x y h
/-- `u16`: `from_u64(to_u64(x)) = x` for every value -/
theorem roundtrip_u16 (x : BitVec 16) : Gen.from_u64_u16 (Gen.to_u64_u16 x) = x := from_to_u16 x
theorem injective_u16 (x y : BitVec 16) (h : Gen.to_u64_u16 x = Gen.to_u64_u16 y) : x = y := to_injective_u16 x y h
/-- `u8`: `from_u64(to_u64(x)) = x` for every value -/
theorem roundtrip_u8 (x : BitVec 8) : Gen.from_u64_u8 (Gen.to_u64_u8 x) = x := from_to_u8 x
theorem injective_u8 (x y : BitVec 8) (h : Gen.to_u64_u8 x = Gen.to_u64_u8 y) : x = y := to_injective_u8 x y h
/-- `i8`: `from_u64(to_u64(x)) = x` for every value -/
theorem roundtrip_i8 (x : BitVec 8) : Gen.from_u64_i8 (Gen.to_u64_i8 x) = x := from_to_i8 x
theorem injective_i8 (x y : BitVec 8) (h : Gen.to_u64_i8 x = Gen.to_u64_i8 y) : x = y := to_injective_i8 x y h
/-- `i16`: `from_u64(to_u64(x)) = x` for every value -/
theorem roundtrip_i16 (x : BitVec 16) : Gen.from_u64_i16 (Gen.to_u64_i16 x) = x := from_to_i16 x
theorem injective_i16 (x y : BitVec 16) (h : Gen.to_u64_i16 x = Gen.to_u64_i16 y) : x = y := to_injective_i16 x y h
/-- `i32`: `from_u64(to_u64(x)) = x` for every value -/
theorem roundtrip_i32 (x : BitVec 32) : Gen.from_u64_i32 (Gen.to_u64_i32 x) = x := from_to_i32 x
theorem injective_i32 (x y : BitVec 32) (h : Gen.to_u64_i32 x = Gen.to_u64_i32 y) : x = y := to_injective_i32 x y h
/-- `i64`: `from_u64(to_u64(x)) = x` for every value -/
theorem roundtrip_i64 (x : BitVec 64) : Gen.from_u64_i64 (Gen.to_u64_i64 x) = x := from_to_i64 x
theorem injective_i64 (x y : BitVec 64) (h : Gen.to_u64_i64 x = Gen.to_u64_i64 y) : x = y := to_injective_i64 x y h
/-- `isize`: `from_u64(to_u64(x)) = x` for every value -/
theorem roundtrip_isize (x : BitVec 64) : Gen.from_u64_isize (Gen.to_u64_isize x) = x := from_to_isize x
theorem injective_isize (x y : BitVec 64) (h : Gen.to_u64_isize x = Gen.to_u64_isize y) : x = y := to_injective_isize x y h
/-- `u64` encodes to itself -/
theorem small_u64 (x : BitVec 64) : (Gen.to_u64_u64 x).toNat = x.toNat := to_small_u64 x
/-- `usize` encodes to itself -/
theorem small_usize (x : BitVec 64) : (Gen.to_u64_usize x).toNat = x.toNat := to_small_usize x
/-- `u32` encodes to itself -/
theorem small_u32 (x : BitVec 32) : (Gen.to_u64_u32 x).toNat = x.toNat := to_small_u32 x
/-- `u16` encodes to itself -/
theorem small_u16 (x : BitVec 16) : (Gen.to_u64_u16 x).toNat = x.toNat := to_small_u16 x
/-- `u8` encodes to itself -/
theorem small_u8 (x : BitVec 8) : (Gen.to_u64_u8 x).toNat = x.toNat := to_small_u8 x
/-- `i8`: the code is at most `2|x| + 1` (exactly `2x` for `x ≥ 0`, `2|x| - 1` for `x < 0`) -/
theorem small_i8 (x : BitVec 8) : (Gen.to_u64_i8 x).toNat ≤ 2 * x.toInt.natAbs + 1 := to_small_i8 x
theorem exact_nonneg_i8 (x : BitVec 8) (h : 0 ≤ x.toInt) : (Gen.to_u64_i8 x).toNat = 2 * x.toInt.toNat := to_exact_nonneg_i8 x h
theorem exact_neg_i8 (x : BitVec 8) (h : x.toInt < 0) : (Gen.to_u64_i8 x).toNat = 2 * x.toInt.natAbs - 1 := to_exact_neg_i8 x h
/-- `i16`: the code is at most `2|x| + 1` (exactly `2x` for `x ≥ 0`, `2|x| - 1` for `x < 0`) -/
theorem small_i16 (x : BitVec 16) : (Gen.to_u64_i16 x).toNat ≤ 2 * x.toInt.natAbs + 1 := to_small_i16 x
theorem exact_nonneg_i16 (x : BitVec 16) (h : 0 ≤ x.toInt) : (Gen.to_u64_i16 x).toNat = 2 * x.toInt.toNat := to_exact_nonneg_i16 x h
theorem exact_neg_i16 (x : BitVec 16) (h : x.toInt < 0) : (Gen.to_u64_i16 x).toNat = 2 * x.toInt.natAbs - 1 := to_exact_neg_i16 x h
/-- `i32`: the code is at most `2|x| + 1` (exactly `2x` for `x ≥ 0`, `2|x| - 1` for `x < 0`) -/
theorem small_i32 (x : BitVec 32) : (Gen.to_u64_i32 x).toNat ≤ 2 * x.toInt.natAbs + 1 := to_small_i32 x
theorem exact_nonneg_i32 (x : BitVec 32) (h : 0 ≤ x.toInt) : (Gen.to_u64_i32 x).toNat = 2 * x.toInt.toNat := to_exact_nonneg_i32 x h
theorem exact_neg_i32 (x : BitVec 32) (h : x.toInt < 0) : (Gen.to_u64_i32 x).toNat = 2 * x.toInt.natAbs - 1 := to_exact_neg_i32 x h
/-- `i64`: the code is at most `2|x| + 1` (exactly `2x` for `x ≥ 0`, `2|x| - 1` for `x < 0`) -/
theorem small_i64 (x : BitVec 64) : (Gen.to_u64_i64 x).toNat ≤ 2 * x.toInt.natAbs + 1 := to_small_i64 x
theorem exact_nonneg_i64 (x : BitVec 64) (h : 0 ≤ x.toInt) : (Gen.to_u64_i64 x).toNat = 2 * x.toInt.toNat := to_exact_nonneg_i64 x h
theorem exact_neg_i64 (x : BitVec 64) (h : x.toInt < 0) : (Gen.to_u64_i64 x).toNat = 2 * x.toInt.natAbs - 1 := to_exact_neg_i64 x h
/-- `isize`: the code is at most `2|x| + 1` (exactly `2x` for `x ≥ 0`, `2|x| - 1` for `x < 0`) -/
theorem small_isize (x : BitVec 64) : (Gen.to_u64_isize x).toNat ≤ 2 * x.toInt.natAbs + 1 := to_small_isize x
theorem exact_nonneg_isize (x : BitVec 64) (h : 0 ≤ x.toInt) : (Gen.to_u64_isize x).toNat = 2 * x.toInt.toNat := to_exact_nonneg_isize x h
theorem exact_neg_isize (x : BitVec 64) (h : x.toInt < 0) : (Gen.to_u64_isize x).toNat = 2 * x.toInt.natAbs - 1 := to_exact_neg_isize x h
/-- `char` (as its scalar value): the round trip never hits the `unwrap` on `None` -/
theorem roundtrip_char (c : BitVec 32) (h : Gen.isScalar c = true) : Gen.from_u64_char (Gen.to_u64_char c) = some c := from_to_char c h
theorem injective_char (x y : BitVec 32) (h : Gen.to_u64_char x = Gen.to_u64_char y) : x = y := to_injective_char x y h
theorem small_char (c : BitVec 32) : (Gen.to_u64_char c).toNat = c.toNat := to_small_char c
/-- every integer implementation in the source is covered above -/
theorem all_types_covered : Gen.fitsTypes.map (·.1) = ["u64", "u32", "u16", "u8", "usize", "i8", "i16", "i32", "i64", "isize"] := by decide
/-- non-vacuity: `-1i8 ↦ 1`, `i8::MIN ↦ 255`, `127i8 ↦ 254` -/
example : (Gen.to_u64_i8 0xFF#8).toNat = 1 ∧ (Gen.to_u64_i8 0x80#8).toNat = 255 ∧ (Gen.to_u64_i8 0x7F#8).toNat = 254 := by decide

/-! ## typed wrappers

`Set64<T>` wraps a `SetU64` and forwards `insert/remove/contains(x)` as `…(x.to_u64())`, `len()` unchanged, and
`iter()/drain()/into_iter()` as `self.0.iter().map(T::from_u64)`.  `SC.Faithful enc dec` (Proofs/Typed.lean) says, for
typed histories (`SC.TOp T`: `ins x | rem x | con x | len`) from `new()`, every RNG and every generator state:
(1) whenever the run of the wrapped `SetU64` on the encoded history returns, every answer is the answer of an ideal
set of `T` (`SC.tspecRun`), decoding the iteration of the final `SetU64` gives exactly the members of the final ideal
set, each once (a permutation of it), and `len` is its size; (2) with fuel `≥ 2`, every history of fewer than `2^60`
operations does return.  The generic theorems are `SC.spec_enc_commutes`, `SC.typed_run_refines`,
`SC.typed_run_total`, `SC.faithful_of`; the instances below use the generated `to_u64`/`from_u64` bodies. -/

/-- `Set64<u64>` is a faithful set of `u64` (all `2^64` values): answers of an ideal set, iteration returns exactly the
inserted values, each once, and every history of `< 2^60` operations returns -/
theorem set64_u64_faithful :
    SC.Faithful (fun x : BitVec 64 => (Gen.to_u64_u64 x).toNat) (fun n => Gen.from_u64_u64 (BitVec.ofNat 64 n)) :=
  SC.faithful_of_bv Gen.to_u64_u64 Gen.from_u64_u64 to_injective_u64 from_to_u64
/-- `Set64<u32>` is a faithful set of `u32` (all `2^32` values): answers of an ideal set, iteration returns exactly the
inserted values, each once, and every history of `< 2^60` operations returns -/
theorem set64_u32_faithful :
    SC.Faithful (fun x : BitVec 32 => (Gen.to_u64_u32 x).toNat) (fun n => Gen.from_u64_u32 (BitVec.ofNat 64 n)) :=
  SC.faithful_of_bv Gen.to_u64_u32 Gen.from_u64_u32 to_injective_u32 from_to_u32
/-- `Set64<u16>` is a faithful set of `u16` (all `2^16` values): answers of an ideal set, iteration returns exactly the
inserted values, each once, and every history of `< 2^60` operations returns -/
theorem set64_u16_faithful :
    SC.Faithful (fun x : BitVec 16 => (Gen.to_u64_u16 x).toNat) (fun n => Gen.from_u64_u16 (BitVec.ofNat 64 n)) :=
  SC.faithful_of_bv Gen.to_u64_u16 Gen.from_u64_u16 to_injective_u16 from_to_u16
/-- `Set64<u8>` is a faithful set of `u8` (all `2^8` values): answers of an ideal set, iteration returns exactly the
inserted values, each once, and every history of `< 2^60` operations returns -/
theorem set64_u8_faithful :
    SC.Faithful (fun x : BitVec 8 => (Gen.to_u64_u8 x).toNat) (fun n => Gen.from_u64_u8 (BitVec.ofNat 64 n)) :=
  SC.faithful_of_bv Gen.to_u64_u8 Gen.from_u64_u8 to_injective_u8 from_to_u8
/-- `Set64<usize>` is a faithful set of `usize` (all `2^64` values): answers of an ideal set, iteration returns exactly the
inserted values, each once, and every history of `< 2^60` operations returns -/
theorem set64_usize_faithful :
    SC.Faithful (fun x : BitVec 64 => (Gen.to_u64_usize x).toNat) (fun n => Gen.from_u64_usize (BitVec.ofNat 64 n)) :=
  SC.faithful_of_bv Gen.to_u64_usize Gen.from_u64_usize to_injective_usize from_to_usize
/-- `Set64<i8>` is a faithful set of `i8` (all `2^8` values): answers of an ideal set, iteration returns exactly the
inserted values, each once, and every history of `< 2^60` operations returns -/
theorem set64_i8_faithful :
    SC.Faithful (fun x : BitVec 8 => (Gen.to_u64_i8 x).toNat) (fun n => Gen.from_u64_i8 (BitVec.ofNat 64 n)) :=
  SC.faithful_of_bv Gen.to_u64_i8 Gen.from_u64_i8 to_injective_i8 from_to_i8
/-- `Set64<i16>` is a faithful set of `i16` (all `2^16` values): answers of an ideal set, iteration returns exactly the
inserted values, each once, and every history of `< 2^60` operations returns -/
theorem set64_i16_faithful :
    SC.Faithful (fun x : BitVec 16 => (Gen.to_u64_i16 x).toNat) (fun n => Gen.from_u64_i16 (BitVec.ofNat 64 n)) :=
  SC.faithful_of_bv Gen.to_u64_i16 Gen.from_u64_i16 to_injective_i16 from_to_i16
/-- `Set64<i32>` is a faithful set of `i32` (all `2^32` values): answers of an ideal set, iteration returns exactly the
inserted values, each once, and every history of `< 2^60` operations returns -/
theorem set64_i32_faithful :
    SC.Faithful (fun x : BitVec 32 => (Gen.to_u64_i32 x).toNat) (fun n => Gen.from_u64_i32 (BitVec.ofNat 64 n)) :=
  SC.faithful_of_bv Gen.to_u64_i32 Gen.from_u64_i32 to_injective_i32 from_to_i32
/-- `Set64<i64>` is a faithful set of `i64` (all `2^64` values): answers of an ideal set, iteration returns exactly the
inserted values, each once, and every history of `< 2^60` operations returns -/
theorem set64_i64_faithful :
    SC.Faithful (fun x : BitVec 64 => (Gen.to_u64_i64 x).toNat) (fun n => Gen.from_u64_i64 (BitVec.ofNat 64 n)) :=
  SC.faithful_of_bv Gen.to_u64_i64 Gen.from_u64_i64 to_injective_i64 from_to_i64
/-- `Set64<isize>` is a faithful set of `isize` (all `2^64` values): answers of an ideal set, iteration returns exactly the
inserted values, each once, and every history of `< 2^60` operations returns -/
theorem set64_isize_faithful :
    SC.Faithful (fun x : BitVec 64 => (Gen.to_u64_isize x).toNat) (fun n => Gen.from_u64_isize (BitVec.ofNat 64 n)) :=
  SC.faithful_of_bv Gen.to_u64_isize Gen.from_u64_isize to_injective_isize from_to_isize

/-- `SetUsize` (the identity encoding of a 64-bit `usize`) is a faithful set of `usize` -/
theorem setusize_faithful : SC.Faithful (fun x : BitVec 64 => x.toNat) (fun n => BitVec.ofNat 64 n) :=
  SC.faithful_of_bv (fun x => x) (fun x => x) (fun _ _ h => h) (fun _ => rfl)

/-- the same with the elements as natural numbers below `2^64` -/
theorem setusize_faithful_nat :
    SC.Faithful (fun x : {n : Nat // n < 2 ^ 64} => x.1) (fun n => ⟨n % 2 ^ 64, Nat.mod_lt _ (by decide)⟩) :=
  SC.faithful_of _ _ (fun _ _ h => Subtype.ext h) (fun a => a.2) (fun a => Subtype.ext (Nat.mod_eq_of_lt a.2))

/-- a Rust `char`: a 32-bit scalar value -/
abbrev Char32 := {c : BitVec 32 // Gen.isScalar c = true}

/-- `char::from_u64`: `std::char::from_u32(x as u32).unwrap()`; the `None` branch (a panic in Rust) gets a dummy
value here — `set64_char_no_unwrap_panic` shows it is never taken on what the set holds -/
def decChar (n : Nat) : Char32 :=
  match h : Gen.from_u64_char (BitVec.ofNat 64 n) with
  | some c => ⟨c, from_char_scalar _ c h⟩
  | none => ⟨0#32, by decide⟩

theorem decChar_enc (a : Char32) : decChar (Gen.to_u64_char a.1).toNat = a := by
  have h := from_to_char a.1 a.2
  unfold decChar
  split
  · rename_i c hc
    rw [BitVec.ofNat_toNat, BitVec.setWidth_eq, h] at hc
    exact Subtype.ext (Option.some.inj hc).symm
  · rename_i hc
    rw [BitVec.ofNat_toNat, BitVec.setWidth_eq, h] at hc
    cases hc

/-- `Set64<char>` is a faithful set of `char` (all scalar values) -/
theorem set64_char_faithful : SC.Faithful (fun c : Char32 => (Gen.to_u64_char c.1).toNat) decChar :=
  SC.faithful_of _ _ (fun a b h => Subtype.ext (to_injective_char a.1 b.1 (BitVec.eq_of_toNat_eq h)))
    (fun a => (Gen.to_u64_char a.1).isLt) decChar_enc

/-- iterating a `Set64<char>` never hits the `unwrap` on `None`: every code held by the wrapped `SetU64` decodes
to a scalar value -/
theorem set64_char_no_unwrap_panic {D : Type} (g : SC.Rng D) (fuel : Nat) (ops : List (SC.TOp Char32))
    {d d' : D} {r' : SC.Rp} {outs : List SC.Out}
    (h : SC.runOps SC.cfg64 g fuel .empty (ops.map (SC.TOp.enc (fun c : Char32 => (Gen.to_u64_char c.1).toNat))) d
      = .ok ((r', outs), d')) :
    ∀ x ∈ SC.elems SC.cfg64 r', ∃ c, Gen.from_u64_char (BitVec.ofNat 64 x) = some c := by
  intro x hx
  obtain ⟨a, _, e⟩ := SC.typed_elems_encoded _
    (fun a b h => Subtype.ext (to_injective_char a.1 b.1 (BitVec.eq_of_toNat_eq h)))
    (fun a => (Gen.to_u64_char a.1).isLt) g fuel ops h x hx
  refine ⟨a.1, ?_⟩
  rw [← e, BitVec.ofNat_toNat, BitVec.setWidth_eq]
  exact from_to_char a.1 a.2

/-- non-vacuity: a typed `i8` history through the encoding, on the ideal sets: `-1 ↦ 1`, `127 ↦ 254` -/
example : SC.specRun [] ([SC.TOp.ins 0xFF#8, .ins 0x7F#8, .ins 0xFF#8, .len].map
      (SC.TOp.enc (fun x : BitVec 8 => (Gen.to_u64_i8 x).toNat))) =
    ([1, 254], [.bool true, .bool true, .bool false, .nat 2]) := by decide

#print axioms set64_u64_faithful
#print axioms set64_u32_faithful
#print axioms set64_u16_faithful
#print axioms set64_u8_faithful
#print axioms set64_usize_faithful
#print axioms set64_i8_faithful
#print axioms set64_i16_faithful
#print axioms set64_i32_faithful
#print axioms set64_i64_faithful
#print axioms set64_isize_faithful
#print axioms setusize_faithful
#print axioms setusize_faithful_nat
#print axioms set64_char_faithful
#print axioms set64_char_no_unwrap_panic

end C03
