import TinysetModel.Proofs.PropsAux
import TinysetModel.Proofs.Demo
import TinysetModel.Proofs.Consts
/-! C17 — deterministic_iteration: the order depends only on the set's own history.

With the `deterministic_iteration` feature every random choice of the library (growth amounts, zero
placeholders) is the value `detRng.draw () cap bits`: a pure function of the `cap` and `bits` of the set at hand,
with no seed, counter, clock or thread-local state.  In the model this is visible in the TYPE: `detRng : Rng Unit`
— the generator's state type has exactly one value, so there is nothing a run could depend on besides its start
value and its history.  The theorems: (1) the draw is the function of `(cap, bits)` with the multipliers read from
the current source; (2) two executions of the same history return the SAME representation — hence the same
iteration sequence `elems` and the same `capacity()` — and the same answers; (3) those answers are the ideal ones.
That the compiled crate in that configuration has no other source of variation across threads, processes and
time (e.g. no address-dependent behaviour) is not a statement about the model: the harness replays histories in
several threads and separate processes and compares the iteration sequences. -/
namespace C17
open SC

/-- (1) the deterministic generator is `(cap * M1 mod 2^64) xor (bits * M2 mod 2^64)` with `M1`, `M2` the
constants found in the source, for every state argument -/
theorem det_draw_is_source (cap bits : Nat) :
    (detRng.draw () cap bits).1 = ((cap * Gen.detMul1) % 2 ^ 64) ^^^ ((bits * Gen.detMul2) % 2 ^ 64) := detRng_match cap bits

/-- its state carries no information: any two states are equal, so a draw cannot depend on the state -/
theorem det_state_trivial (d d' : Unit) (cap bits : Nat) : d = d' ∧ detRng.draw d cap bits = detRng.draw d' cap bits := ⟨rfl, rfl⟩

section generic
variable {c : Cfg}

/-- (2) a run with a `Unit`-state generator is a function of the start value and the history alone -/
theorem run_is_function_of_history (fuel : Nat) (r : Rp) (ops : List Op) (d₁ d₂ : Unit) :
    runOps c detRng fuel r ops d₁ = runOps c detRng fuel r ops d₂ := unit_replay detRng fuel r ops d₁ d₂

/-- replaying the same history on a fresh set gives the identical representation, so the identical iteration
sequence and `capacity()`, and identical answers — whatever happened to other sets in between (other sets are
other values; they are not inputs of this run) -/
theorem replay_identical (fuel : Nat) (ops : List Op) {d₁ d₁' d₂ d₂' : Unit} {r₁ r₂ : Rp} {o₁ o₂ : List Out}
    (h1 : runOps c detRng fuel .empty ops d₁ = .ok ((r₁, o₁), d₁'))
    (h2 : runOps c detRng fuel .empty ops d₂ = .ok ((r₂, o₂), d₂')) :
    r₁ = r₂ ∧ o₁ = o₂ ∧ elems c r₁ = elems c r₂ ∧ capacity r₁ = capacity r₂ := unit_replay_ok detRng fuel .empty ops h1 h2

/-- the same for collect() and for the operators: all are functions of their arguments -/
theorem collect_is_function (fuel : Nat) (xs : List Nat) (d₁ d₂ : Unit) :
    fromIter c detRng fuel xs d₁ = fromIter c detRng fuel xs d₂ := rfl
theorem union_is_function (fuel : Nat) (a b : Rp) (d₁ d₂ : Unit) :
    unionRef c detRng fuel a b d₁ = unionRef c detRng fuel a b d₂ := rfl

/-- (3) and the deterministic run answers like the ideal set -/
theorem det_history (ok : CfgOK c) (fuel : Nat) (ops : List Op) (hops : ∀ op ∈ ops, op.InRange c.W)
    {d d' : Unit} {r' : Rp} {outs : List Out} (h : runOps c detRng fuel .empty ops d = .ok ((r', outs), d')) :
    WF c r' ∧ outs = (specRun [] ops).2 ∧ (∀ x, x ∈ elems c r' ↔ x ∈ (specRun [] ops).1) :=
  run_refines_empty ok detRng fuel ops hops h

end generic

/-! ### instances -/

theorem replay_identical_u64 (fuel : Nat) (ops : List Op) {d₁ d₁' d₂ d₂' : Unit} {r₁ r₂ : Rp} {o₁ o₂ : List Out}
    (h1 : runOps cfg64 detRng fuel .empty ops d₁ = .ok ((r₁, o₁), d₁'))
    (h2 : runOps cfg64 detRng fuel .empty ops d₂ = .ok ((r₂, o₂), d₂')) :
    r₁ = r₂ ∧ o₁ = o₂ ∧ elems cfg64 r₁ = elems cfg64 r₂ ∧ capacity r₁ = capacity r₂ := unit_replay_ok detRng fuel .empty ops h1 h2
theorem replay_identical_u32 (fuel : Nat) (ops : List Op) {d₁ d₁' d₂ d₂' : Unit} {r₁ r₂ : Rp} {o₁ o₂ : List Out}
    (h1 : runOps cfg32 detRng fuel .empty ops d₁ = .ok ((r₁, o₁), d₁'))
    (h2 : runOps cfg32 detRng fuel .empty ops d₂ = .ok ((r₂, o₂), d₂')) :
    r₁ = r₂ ∧ o₁ = o₂ ∧ elems cfg32 r₁ = elems cfg32 r₂ ∧ capacity r₁ = capacity r₂ := unit_replay_ok detRng fuel .empty ops h1 h2
theorem det_history_u64 (fuel : Nat) (ops : List Op) (hops : ∀ op ∈ ops, op.InRange 64)
    {d d' : Unit} {r' : Rp} {outs : List Out} (h : runOps cfg64 detRng fuel .empty ops d = .ok ((r', outs), d')) :
    WF cfg64 r' ∧ outs = (specRun [] ops).2 ∧ (∀ x, x ∈ elems cfg64 r' ↔ x ∈ (specRun [] ops).1) :=
  run_refines_empty cfg64_ok detRng fuel ops hops h
theorem det_history_u32 (fuel : Nat) (ops : List Op) (hops : ∀ op ∈ ops, op.InRange 32)
    {d d' : Unit} {r' : Rp} {outs : List Out} (h : runOps cfg32 detRng fuel .empty ops d = .ok ((r', outs), d')) :
    WF cfg32 r' ∧ outs = (specRun [] ops).2 ∧ (∀ x, x ∈ elems cfg32 r' ↔ x ∈ (specRun [] ops).1) :=
  run_refines_empty cfg32_ok detRng fuel ops hops h

/-! ### the hypotheses are satisfiable, and the statement is not empty: with a generator that HAS state the
representation (not the contents) does depend on that state -/

/-- deterministic runs that return, with growth and a drawn placeholder on the way -/
example : elems cfg64 Demo.plain64 = elems cfg64 Demo.plain64 ∧ capacity Demo.plain64 = capacity Demo.plain64 :=
  (replay_identical_u64 6 Demo.opsPlain64 Demo.plain64_run Demo.plain64_run).2.2
/-- the scripted generator (`scriptRng`, state = the draws still to hand out): two different scripts give two
different placeholders for the same history -/
example : runOps cfg64 scriptRng 6 .empty [.ins (2 ^ 63)] [1000] ≠ runOps cfg64 scriptRng 6 .empty [.ins (2 ^ 63)] [2000] := by
  decide +kernel

end C17

#print axioms C17.det_draw_is_source
#print axioms C17.run_is_function_of_history
#print axioms C17.replay_identical
#print axioms C17.det_history
