import TinysetModel.Proofs.Plain
import TinysetModel.Proofs.Consts
/-! C02 — SetU32 behaves as an exact mathematical set of u32 under every history.
The theorems below are about the executable model instantiated at `cfg32`. -/
namespace C02
open SC RH

/-- plain table (`bits = 0 ∨ bits > 32`): `contains` is membership, also for the placeholder value -/
theorem contains_plain_u32 {ph sz cap : Nat} {a : Tbl} (wf : PlainWF ph sz a)
    (hpl : isPlain cfg32 ph = true) (hnd : isDense cfg32 ph = false) (e : Nat) :
    contains cfg32 (.heap sz cap ph a) e = true ↔ e ∈ plainElems ph a :=
  contains_plain cfg32 wf hpl hnd e

/-- plain table: `remove` returns "was present", keeps the invariant, removes exactly that member,
    for every RNG oracle `g` and state `d` -/
theorem remove_plain_u32 {D : Type} (g : Rng D) (fuel : Nat) {ph sz cap : Nat} {a : Tbl}
    (wf : PlainWF ph sz a) (hpl : isPlain cfg32 ph = true) (hnd : isDense cfg32 ph = false) (e : Nat) (d : D) :
    ∃ sz' a' b, remove cfg32 g fuel (.heap sz cap ph a) e d = .ok ((.heap sz' cap ph a', b), d) ∧
      PlainWF ph sz' a' ∧ (b = true ↔ e ∈ plainElems ph a) ∧
      (∀ x, x ∈ plainElems ph a' ↔ (x ∈ plainElems ph a ∧ x ≠ e)) :=
  remove_plain cfg32 g fuel wf hpl hnd e d

/-- plain table: `insert` of a value other than the placeholder, when the table has room -/
theorem insert_plain_nogrow_u32 {D : Type} (g : Rng D) {ph sz cap : Nat} {a : Tbl}
    (wf : PlainWF ph sz a) (e : Nat) (he : e ≠ ph) (d : D) :
    (e ∈ plainElems ph a →
        insertPlain cfg32 g sz cap ph a e d = .ok ((.heap sz cap ph a, false), d)) ∧
    (e ∉ plainElems ph a → ∀ a', tablePlace cfg32 (enc ph e) (enc ph e) 0 a = some a' →
        insertPlain cfg32 g sz cap ph a e d = .ok ((.heap (sz + 1) cap ph a', true), d) ∧
        PlainWF ph (sz + 1) a' ∧ (plainElems ph a').Perm (e :: plainElems ph a)) :=
  insert_plain_nogrow cfg32 g wf e he d

/-- Robin Hood layer (shared by the bitmap and plain tables): a present key is found -/
theorem lookfor_complete' {a : Tbl} {off k i : Nat} (inv : Inv a off) (hi : i < a.size)
    (hne : get a i ≠ 0) (hk : K a off i = k) : lookfor k a off = .found i :=
  lookfor_complete inv hi hne hk

/-- Robin Hood layer: placing a fresh word keeps order, cut and distinctness and adds exactly it -/
theorem tablePlace_spec_u32 {a : Tbl} {off k w : Nat} (hn : 0 < a.size) (inv : Inv a off)
    (hw : w ≠ 0) (hk : w >>> off = k)
    (hfresh : ∀ i, i < a.size → get a i ≠ 0 → K a off i ≠ k) :
    match tablePlace cfg32 k w off a with
    | some a' => a'.size = a.size ∧ Inv a' off ∧ (∃ b, b < a'.size ∧ Lin a' off b) ∧
        (nz a').Perm (w :: nz a)
    | none => hasRoom cfg32 a = false :=
  tablePlace_spec cfg32 hn inv hw hk hfresh

/-- Robin Hood layer: backward-shift deletion of a present key -/
theorem premove_present' {a : Tbl} {off k i0 : Nat} (inv : Inv a off) {b : Nat} (hb : b < a.size) (hlin : Lin a off b)
    (hi0 : i0 < a.size) (hne : get a i0 ≠ 0) (hk : K a off i0 = k) :
    ∃ a', premove k a off = (true, a') ∧ Inv a' off ∧ (get a i0 :: nz a').Perm (nz a) ∧
      a'.size = a.size ∧ ∃ h, h < a.size ∧ get a' h = 0 :=
  premove_present inv hb hlin hi0 hne hk

/-- the model's constants are the ones in the current source -/
theorem consts_u32 : TinyC.codec32.splits = Gen.bitsplits32 ∧ (∀ p ∈ Gen.tagMasks32, p.2 = 3) :=
  ⟨bitsplits32_match, tagMasks32_coherent⟩

end C02
