import TinysetModel.Proofs.InsertSrc
import TinysetModel.Proofs.TinyInsertSrc
import TinysetModel.Proofs.RemoveSrc
import TinysetModel.Proofs.ContainsSrc
import TinysetModel.Proofs.Loops
import TinysetModel.Proofs.ProgramTotal
import TinysetModel.Proofs.ProgramRefine
import TinysetModel.Proofs.Fns
import TinysetModel.Proofs.Plain
import TinysetModel.Proofs.Consts
import TinysetModel.Proofs.Refine
import TinysetModel.Proofs.CfgInst
import TinysetModel.Proofs.Total32Insert
import TinysetModel.Proofs.TotalOpsRun
import TinysetModel.Proofs.RemoveTotal
import TinysetModel.Proofs.WFSoundConv
/-! C02 — SetU32 behaves as an exact mathematical set of u32 under every history.
The theorems below are about the executable model instantiated at `cfg32`. -/
namespace C02
open SC RH

/-- plain table (`bits = 0 ∨ bits > 32`): `contains` is membership, also for the placeholder value -/
theorem contains_plain_u32 {ph sz cap : Nat} {a : Tbl} (wf : PlainWF ph sz a)
    (hpl : isPlain cfg32 ph = true) (hnd : isDense cfg32 ph = false) (e : Nat) :
    contains cfg32 (.heap sz cap ph a) e = true ↔ e ∈ plainElems ph a :=
  contains_plain cfg32 wf hpl hnd e

/-- plain table: `remove` returns "was present", keeps the invariant, removes exactly that member,
    for every RNG oracle `g` and state `d` -/
theorem remove_plain_u32 {D : Type} (g : Rng D) (fuel : Nat) {ph sz cap : Nat} {a : Tbl}
    (wf : PlainWF ph sz a) (hpl : isPlain cfg32 ph = true) (hnd : isDense cfg32 ph = false) (e : Nat) (d : D) :
    ∃ sz' a' b, remove cfg32 g fuel (.heap sz cap ph a) e d = .ok ((.heap sz' cap ph a', b), d) ∧
      PlainWF ph sz' a' ∧ (b = true ↔ e ∈ plainElems ph a) ∧
      (∀ x, x ∈ plainElems ph a' ↔ (x ∈ plainElems ph a ∧ x ≠ e)) :=
  remove_plain cfg32 g fuel wf hpl hnd e d

/-- plain table: `insert` of a value other than the placeholder, when the table has room -/
theorem insert_plain_nogrow_u32 {D : Type} (g : Rng D) {ph sz cap : Nat} {a : Tbl}
    (wf : PlainWF ph sz a) (e : Nat) (he : e ≠ ph) (d : D) :
    (e ∈ plainElems ph a →
        insertPlain cfg32 g sz cap ph a e d = .ok ((.heap sz cap ph a, false), d)) ∧
    (e ∉ plainElems ph a → ∀ a', tablePlace cfg32 (enc ph e) (enc ph e) 0 a = some a' →
        insertPlain cfg32 g sz cap ph a e d = .ok ((.heap (sz + 1) cap ph a', true), d) ∧
        PlainWF ph (sz + 1) a' ∧ (plainElems ph a').Perm (e :: plainElems ph a)) :=
  insert_plain_nogrow cfg32 g wf e he d

/-- Robin Hood layer (shared by the bitmap and plain tables): a present key is found -/
theorem lookfor_complete' {a : Tbl} {off k i : Nat} (inv : Inv a off) (hi : i < a.size)
    (hne : get a i ≠ 0) (hk : K a off i = k) : lookfor k a off = .found i :=
  lookfor_complete inv hi hne hk

/-- Robin Hood layer: placing a fresh word keeps order, cut and distinctness and adds exactly it -/
theorem tablePlace_spec_u32 {a : Tbl} {off k w : Nat} (hn : 0 < a.size) (inv : Inv a off)
    (hw : w ≠ 0) (hk : w >>> off = k)
    (hfresh : ∀ i, i < a.size → get a i ≠ 0 → K a off i ≠ k) :
    match tablePlace cfg32 k w off a with
    | some a' => a'.size = a.size ∧ Inv a' off ∧ (∃ b, b < a'.size ∧ Lin a' off b) ∧
        (nz a').Perm (w :: nz a)
    | none => hasRoom cfg32 a = false :=
  tablePlace_spec cfg32 hn inv hw hk hfresh

/-- Robin Hood layer: backward-shift deletion of a present key -/
theorem premove_present' {a : Tbl} {off k i0 : Nat} (inv : Inv a off) {b : Nat} (hb : b < a.size) (hlin : Lin a off b)
    (hi0 : i0 < a.size) (hne : get a i0 ≠ 0) (hk : K a off i0 = k) :
    ∃ a', premove k a off = (true, a') ∧ Inv a' off ∧ (get a i0 :: nz a').Perm (nz a) ∧
      a'.size = a.size ∧ ∃ h, h < a.size ∧ get a' h = 0 :=
  premove_present inv hb hlin hi0 hne hk

/-- the model's constants are the ones in the current source -/
theorem consts_u32 : TinyC.codec32.splits = Gen.bitsplits32 ∧ (∀ p ∈ Gen.tagMasks32, p.2 = 3) :=
  ⟨bitsplits32_match, tagMasks32_coherent⟩

/-! ### the set-level refinement theorems (`Proofs/Refine.lean`) at `cfg32`

`elems cfg32 r` (the iteration order) is the abstraction of a representation `r`; `WF cfg32 r` is the
representation invariant. All statements are "whenever the model returns": the model's error results
(`Err.fuel`, `Err.scan`, …) are excluded by hypothesis, not claimed impossible. -/

/-- `insert` is set insertion: for every RNG oracle `g`, every fuel, every well-formed `r` and every `e < 2^32`,
    if `insert` returns `(r', b)` then `r'` is well formed, `b` says "`e` was absent", and `r'` has exactly
    the members of `r` plus `e` -/
theorem insert_refines_u32 {D : Type} (g : Rng D) (fuel : Nat) {r : Rp} (wf : WF cfg32 r) (e : Nat) (he : e < 2 ^ 32)
    {d d' : D} {r' : Rp} {b : Bool} (h : insert cfg32 g fuel r e d = .ok ((r', b), d')) : InsOK cfg32 r e r' b :=
  insert_refines cfg32_ok g fuel r e d r' b d' wf he h

/-- `remove` is set removal: if it returns `(r', b)` then `r'` is well formed, `b` says "`e` was present", and `r'`
    has exactly the members of `r` other than `e` -/
theorem remove_refines_u32 {D : Type} (g : Rng D) (fuel : Nat) {r : Rp} (wf : WF cfg32 r) (e : Nat) (he : e < 2 ^ 32)
    {d d' : D} {r' : Rp} {b : Bool} (h : remove cfg32 g fuel r e d = .ok ((r', b), d')) : RemOK cfg32 r e r' b :=
  remove_refines cfg32_ok g fuel wf e he h

/-- `contains` is membership, in all five shapes (empty, inline, dense bitset, plain table, bitmap table) -/
theorem contains_refines_u32 {r : Rp} (wf : WF cfg32 r) (e : Nat) (he : e < 2 ^ 32) :
    contains cfg32 r e = true ↔ e ∈ elems cfg32 r :=
  contains_refines cfg32_ok wf e he

/-- a well-formed value has no duplicate members, `len` is their number, and they are all `< 2^32` -/
theorem absOK_u32 {r : Rp} (wf : WF cfg32 r) : AbsOK cfg32 r :=
  absOK_of_wf cfg32_ok wf

/-- `len` grows by one exactly when `insert` reports "was absent" -/
theorem len_insert_u32 {D : Type} (g : Rng D) (fuel : Nat) {r : Rp} (wf : WF cfg32 r) (e : Nat) (he : e < 2 ^ 32)
    {d d' : D} {r' : Rp} {b : Bool} (h : insert cfg32 g fuel r e d = .ok ((r', b), d')) :
    len r' = if b = true then len r + 1 else len r :=
  len_insert cfg32_ok g fuel wf e he h

/-- `len` shrinks by one exactly when `remove` reports "was present" -/
theorem len_remove_u32 {D : Type} (g : Rng D) (fuel : Nat) {r : Rp} (wf : WF cfg32 r) (e : Nat) (he : e < 2 ^ 32)
    {d d' : D} {r' : Rp} {b : Bool} (h : remove cfg32 g fuel r e d = .ok ((r', b), d')) :
    len r' = if b = true then len r - 1 else len r :=
  len_remove cfg32_ok g fuel wf e he h

/-- **every history**: for every RNG oracle, every fuel and every list of `insert`/`remove`/`contains`/`len`
    calls with arguments `< 2^32`, started on the empty set: if the model run returns, its answers are exactly
    the answers of the ideal set (`specRun []`), the final value is well formed and represents the final ideal set -/
theorem run_refines_u32 {D : Type} (g : Rng D) (fuel : Nat) (ops : List Op) (hops : ∀ op ∈ ops, op.InRange 32)
    {d d' : D} {r' : Rp} {outs : List Out} (h : runOps cfg32 g fuel .empty ops d = .ok ((r', outs), d')) :
    WF cfg32 r' ∧ outs = (specRun [] ops).2 ∧ (∀ x, x ∈ elems cfg32 r' ↔ x ∈ (specRun [] ops).1) :=
  run_refines_empty cfg32_ok g fuel ops hops h

/-- the same from any well-formed start `r` representing the duplicate-free list `s` -/
theorem run_refines_from_u32 {D : Type} (g : Rng D) (fuel : Nat) (ops : List Op) (hops : ∀ op ∈ ops, op.InRange 32)
    {r : Rp} (wf : WF cfg32 r) (s : List Nat) (hs : s.Nodup) (hrs : ∀ x, x ∈ elems cfg32 r ↔ x ∈ s)
    {d d' : D} {r' : Rp} {outs : List Out} (h : runOps cfg32 g fuel r ops d = .ok ((r', outs), d')) :
    WF cfg32 r' ∧ outs = (specRun s ops).2 ∧ (∀ x, x ∈ elems cfg32 r' ↔ x ∈ (specRun s ops).1) :=
  run_refines cfg32_ok g fuel ops hops wf s hs hrs h

/-! ### the hypotheses are satisfiable: a concrete run that leaves the inline representation -/

/-- a small history -/
def demo : List Op := [.ins 2147483648, .ins 2148532224, .ins 2149580800, .ins 2150629376, .ins 2151677952, .len,
  .rem 2147483648, .con 2147483648, .con 2148532224, .ins 2148532224, .len]

/-- the model (with the crate's deterministic generator, fuel 6) does return on `demo`, in a heap layout -/
theorem demo_runs : runOps cfg32 detRng 6 .empty demo () = .ok ((.heap 4 8 2940401507 #[2148532224, 2149580800, 2150629376, 2151677952, 0, 0, 0, 0], [.bool true, .bool true, .bool true, .bool true, .bool true, .nat 5, .bool true, .bool false, .bool true,
      .bool false, .nat 4]), ()) := by
  decide +kernel

/-- so this table is a non-trivial well-formed state … -/
theorem demo_wf : WF cfg32 (.heap 4 8 2940401507 #[2148532224, 2149580800, 2150629376, 2151677952, 0, 0, 0, 0]) :=
  (run_refines_u32 detRng 6 demo (by decide) demo_runs).1

/-- … its answers were the ideal ones … -/
example : [.bool true, .bool true, .bool true, .bool true, .bool true, .nat 5, .bool true, .bool false, .bool true,
      .bool false, .nat 4] = (specRun [] demo).2 :=
  (run_refines_u32 detRng 6 demo (by decide) demo_runs).2.1

/-- … the ideal set at the end is this one … -/
example : (specRun [] demo).1 = [2148532224, 2149580800, 2150629376, 2151677952] := by decide

/-- … and the single-operation theorems apply to it -/
example : contains cfg32 (.heap 4 8 2940401507 #[2148532224, 2149580800, 2150629376, 2151677952, 0, 0, 0, 0]) 2149580800 = true :=
  (contains_refines_u32 demo_wf 2149580800 (by decide)).2
    (((run_refines_u32 detRng 6 demo (by decide) demo_runs).2.2 2149580800).2 (by decide))

example : contains cfg32 (.heap 4 8 2940401507 #[2148532224, 2149580800, 2150629376, 2151677952, 0, 0, 0, 0]) 2147483648 ≠ true := fun h =>
  absurd (((run_refines_u32 detRng 6 demo (by decide) demo_runs).2.2 2147483648).1
    ((contains_refines_u32 demo_wf 2147483648 (by decide)).1 h)) (by decide)

example : len (.heap 4 8 2940401507 #[2148532224, 2149580800, 2150629376, 2151677952, 0, 0, 0, 0]) = (specRun [] demo).1.length := by
  have ab := absOK_u32 demo_wf
  rw [ab.len]
  exact ((List.perm_ext_iff_of_nodup ab.nodup (specRun_nodup demo List.nodup_nil)).2
    (run_refines_u32 detRng 6 demo (by decide) demo_runs).2.2).length_eq

/-! ### returns normally (total correctness) -/

/-- `remove` never fails on a well-formed heap SetU32 -/
theorem remove_returns_heap_u32 {D : Type} (g : Rng D) (fuel : Nat) {sz cap bits : Nat} {a : Tbl}
    (wf : WF cfg32 (.heap sz cap bits a)) (e : Nat) (he : e < 2 ^ 32) (d : D) :
    ∃ r' b, remove cfg32 g fuel (.heap sz cap bits a) e d = .ok ((r', b), d) ∧ RemOK cfg32 (.heap sz cap bits a) e r' b :=
  remove_heap_total cfg32_ok g fuel wf e he d

/-- EVERY insert into a well-formed SetU32 returns normally — no fuel/room/scan error in the model — for every
    generator and state, with recursion depth at most 2 (fuel 3; fuel 2 already suffices), and the result is the ideal
    set's.  This rests on the repaired growth rule: a full table of `cap` buckets is regrown to
    `cap + 1 + cap / 8 + r % cap` buckets, which leaves more than 1/16 of the new table empty after the refill, so the
    refill never grows again.  Size hypotheses: capacity and length far below 2^32. -/
theorem insert_returns_and_is_right_u32 {D : Type} (g : Rng D) {r : Rp} (wf : WF cfg32 r) (e : Nat) (he : e < 2 ^ 32)
    (hsize : capacity r + 32 + 3 ≤ 2 ^ 32 ∧ 3 * len r + 4 + 32 + 3 ≤ 2 ^ 32) (d : D) :
    ∃ r' b d', insert cfg32 g 3 r e d = .ok ((r', b), d') ∧ InsOK cfg32 r e r' b :=
  insert_total_correct_u32 g wf e he hsize d

/-- **C02 in one statement**: for every generator `g` and state `d`, every recursion budget `fuel + 2`, and every history
    of fewer than 2^28 `insert`/`remove`/`contains`/`len` calls with `u32` arguments on a new set, the model run RETURNS
    (no fuel / no-room / scan / unreachable error — every call returns normally), every answer is the ideal
    mathematical set's answer, the final state is well formed and holds exactly the ideal set's members. -/
theorem every_history_u32 {D : Type} (g : Rng D) (fuel : Nat) (ops : List Op) (hops : ∀ op ∈ ops, op.InRange 32)
    (hlen : ops.length < 2 ^ 28) (d : D) :
    ∃ r' outs d', runOps cfg32 g (fuel + 2) .empty ops d = .ok ((r', outs), d') ∧ WF cfg32 r' ∧
      outs = (specRun [] ops).2 ∧ ∀ x, x ∈ elems cfg32 r' ↔ x ∈ (specRun [] ops).1 :=
  run_total_u32 g fuel ops hops hlen d

/-- `remove` always returns (also on inline sets, which are rebuilt through `collect`) with the right answer -/
theorem remove_returns_and_is_right_u32 {D : Type} (g : Rng D) (fuel : Nat) {r : Rp} (wf : WF cfg32 r) (e : Nat)
    (he : e < 2 ^ 32) (d : D) :
    ∃ r' b d', remove cfg32 g (fuel + 2) r e d = .ok ((r', b), d') ∧ RemOK cfg32 r e r' b :=
  remove_total_correct_u32 g fuel wf e he d

/-- **The validator's check on a real representation is the invariant.** `wfB`/`absB` are the executable tests the
    trace validator evaluates on the words it reads from the implementation's memory after every step (tables of
    moderate size); they hold exactly when `WF` does.  So a checked state of the real crate satisfies the hypothesis
    of every theorem of this development, and everything proved from `WF` applies to it. -/
theorem checked_state_is_wellformed_u32 (r : Rp) : WF cfg32 r ↔ (wfB cfg32 r = true ∧ absB cfg32 r = true) :=
  wf_iff_check cfg32 cfg32_ok r

/-- in particular: from a state that passes the check, every history (that returns) answers like the ideal set
    holding that state's members -/
theorem run_refines_from_checked_u32 {D : Type} (g : Rng D) (fuel : Nat) (ops : List Op)
    (hops : ∀ op ∈ ops, op.InRange 32) {r : Rp} (hc : wfB cfg32 r = true ∧ absB cfg32 r = true)
    {d d' : D} {r' : Rp} {outs : List Out} (h : runOps cfg32 g fuel r ops d = .ok ((r', outs), d')) :
    WF cfg32 r' ∧ outs = (specRun (elems cfg32 r) ops).2 ∧
      (∀ x, x ∈ elems cfg32 r' ↔ x ∈ (specRun (elems cfg32 r) ops).1) :=
  have wf := wf_of_check cfg32 r hc.1 hc.2
  run_refines cfg32_ok g fuel ops hops wf (elems cfg32 r) (absOK_of_wf cfg32_ok wf).nodup (fun _ => Iff.rfl) h

/-! ### the helper functions the model transliterates are the ones in the current source
(`Generated/Fns.lean`: translated from `src/setu32.rs` on every run by `tools/gen_fns.py`) -/

/-- `log_2`, `compute_array_bits` (the `62` for arguments below 2 included), `split_u32`, `p_poverty` (which
narrows the table length to `u32`: equal below 2^32 buckets) of the current `setu32.rs` are the functions the
model uses, for every `u32` argument -/
theorem helpers_are_the_source_u32 :
    (∀ x, x < 2 ^ 32 → Gen.log_2_32 x = TinyC.log2 x) ∧
    (∀ mx, mx < 2 ^ 32 → Gen.compute_array_bits_32 mx = cfg32.cab mx) ∧
    (∀ x bits, 0 < bits → Gen.split_32 x bits = (x / bits, x % bits)) ∧
    (∀ k idx n, n < 2 ^ 32 → Gen.p_poverty_32 k idx n = RH.pov k idx n) :=
  ⟨log_2_32_eq, compute_array_bits_32_eq, split_32_eq, p_poverty_32_eq⟩

/-! ### programs over several sets: contents and allocator calls in one statement -/

/-- **SetU32, any number of sets, any program** of insert / remove / extend / collect / clone / with_capacity_of /
hinted constructors / drop / `&a | &b` / `&a - &b` / `a | &b` / `a - &b` with `u32` arguments, every generator
outcome: whenever the run returns, every set is well formed and holds exactly the members the same program over
ideal mathematical sets gives it (`specRunP`), and the allocator calls made on the way, followed by the drop of
every set, are all legal and leave nothing live -/
theorem every_program_u32 {D : Type} (g : Rng D) (fuel n : Nat) (ops : List POp) (hr : ∀ op ∈ ops, op.InRange 32)
    {s' : Slots} {d d' : D} {evs : List Ev}
    (h : prun cfg32 false g fuel (List.replicate n .empty) ops d = .ok ((s', evs), d')) :
    (∀ i, i < n → WF cfg32 (s'.get i) ∧ ∀ x, x ∈ elems cfg32 (s'.get i) ↔ specRunP n (fun _ => none') ops i x) ∧
    runEv [] (evs ++ dropAll cfg32 s') = some [] :=
  program_correct_and_balanced cfg32_ok false g fuel n ops hr h


/-- **SetU32: every program returns, and is right.**  Any number of new sets, any hint-free program (insert / remove /
extend / collect / clone / with_capacity_of / drop / `&a | &b` / `&a - &b` / `a | &b` / `a - &b`) with `u32` arguments that
feeds in fewer than 2^27 items in total, every generator outcome: every operation returns normally (no
`unreachable!`, no "no room", no exhausted scan, recursion depth ≤ 2), every set ends well formed with exactly the
members of the same program over ideal sets, and the allocator calls are legal and leave nothing live -/
theorem every_program_returns_u32 {D : Type} (g : Rng D) (fuel n : Nat) (ops : List POp)
    (hops : ∀ op ∈ ops, op.hintFree ∧ op.InRange 32) (hN : 2 * pitems ops < 2 ^ 28) (d : D) :
    ∃ s' evs d', prun cfg32 false g (fuel + 2) (List.replicate n .empty) ops d = .ok ((s', evs), d') ∧
      (∀ i, i < n → WF cfg32 (s'.get i) ∧ ∀ x, x ∈ elems cfg32 (s'.get i) ↔ specRunP n (fun _ => none') ops i x) ∧
      runEv [] (evs ++ dropAll cfg32 s') = some [] :=
  program_total_correct (histTotal_u32 g fuel) false n ops hops hN d

/-! ### the Robin-Hood primitives of the model are the ones in the current source
(`Generated/Loops.lean`: `p_lookfor`, `p_insert`, `p_remove` of `src/setu32.rs` translated statement by statement on
every run by `tools/gen_loops.py`) -/

/-- as for SetU64; `setu32.rs` computes the probe index in `u64` but narrows the table length to `u32` in `p_poverty`
and computes `(ii + n) as u32` in `p_remove`: equal to the model on tables below 2^32 / of at most 2^31 buckets -/
theorem primitives_are_the_source_u32 (k : Nat) (a : Tbl) (off : Nat) (hn : a.size ≤ 2 ^ 31) :
    Gen.p_lookfor_32 k a off = .ok (convLooked (lookfor k a off), a) ∧
    Gen.p_insert_32 k a off = convErr (pinsert k a off) ∧
    Gen.p_remove_32 k a off = .ok (premove k a off) :=
  ⟨p_lookfor_32_eq k a off (by omega), p_insert_32_eq k a off (by omega), p_remove_32_eq k a off hn⟩

/-! ### `contains` of the model is `contains` of the current source, arm by arm -/

/-- as for SetU64 (tables below 2^32 buckets) -/
theorem contains_is_the_source_u32 (e sz cap : Nat) (a : Tbl) (he : e < 2 ^ 32) (hn : a.size < 2 ^ 32) :
    (cap = a.size → Gen.contains_dense_32 e a = contains cfg32 (.heap sz cap 32 a) e) ∧
    (∀ bits, 0 < bits ∧ bits < 32 → Gen.contains_heap_32 e bits a = contains cfg32 (.heap sz cap bits a) e) ∧
    (∀ bits, bits = 0 ∨ bits > 32 → Gen.contains_big_32 e bits a = contains cfg32 (.heap sz cap bits a) e) :=
  ⟨contains_dense_32_eq e sz cap a, fun bits hb => contains_heap_32_eq e sz cap bits a he hb hn,
   fun bits hb => contains_big_32_eq e sz cap bits a hb hn⟩

/-! ### `remove` of the model is `remove` of the current source on the three heap layouts -/

/-- as for SetU64, on tables of at most 2^31 buckets -/
theorem remove_is_the_source_u32 {D : Type} (g : Rng D) (fuel e sz cap : Nat) (a : Tbl) (he : e < 2 ^ 32)
    (hn : a.size ≤ 2 ^ 31) (d : D) :
    (cap = a.size → remove cfg32 g fuel (.heap sz cap 32 a) e d = armOut cap 32 d (Gen.remove_dense_32 e sz a)) ∧
    (∀ bits, 0 < bits ∧ bits < 32 →
      remove cfg32 g fuel (.heap sz cap bits a) e d = armOut cap bits d (Gen.remove_heap_32 e sz bits a)) ∧
    (∀ bits, bits = 0 ∨ bits > 32 →
      remove cfg32 g fuel (.heap sz cap bits a) e d = armOut cap bits d (Gen.remove_big_32 e sz bits a)) :=
  ⟨fun hc => remove_dense_32_eq g fuel e sz cap a hc d, fun bits hb => remove_heap_32_eq g fuel e sz cap bits a he hb hn d,
   fun bits hb => remove_big_32_eq g fuel e sz cap bits a hb hn d⟩

/-! ### the source's `contains`, whole: dispatch on the representation, then the translated arm -/

/-- the layout dispatch at the end of `internal()` and of `internal_mut()` (which of `Big` / `Dense` / `Heap` a heap
block's `bits` word selects), translated on every run, is the model's `isDense` / `isPlain` -/
theorem dispatch_is_the_source_u32 (bits : Nat) :
    Gen.layout_32 bits = (if isDense cfg32 bits then 1 else if isPlain cfg32 bits then 0 else 2) ∧
    Gen.layout_mut_32 bits = Gen.layout_32 bits := layout_32_eq bits

/-- `SetU32::remove` on a heap block as it is in the current source: the dispatch of `internal_mut()` (translated),
then the arm (translated) -/
def srcRemoveHeap32 (e sz bits : Nat) (a : Tbl) : Except String ((Bool × Nat) × Array Nat) :=
  match Gen.layout_mut_32 bits with
  | 0 => Gen.remove_big_32 e sz bits a
  | 1 => Gen.remove_dense_32 e sz a
  | _ => Gen.remove_heap_32 e sz bits a

/-- on every well-formed heap representation the model's `remove` returns what the source's `remove` — dispatch and arm,
both translated on this run — returns: answer, member count, slice (the inline arm is `collect()` of the rest) -/
theorem remove_whole_is_the_source_u32 {D : Type} (g : Rng D) (fuel e sz cap bits : Nat) (a : Tbl) (he : e < 2 ^ 32) (hn : a.size ≤ 2 ^ 31)
    (wf : WF cfg32 (.heap sz cap bits a)) (d : D) :
    remove cfg32 g fuel (.heap sz cap bits a) e d = armOut cap bits d (srcRemoveHeap32 e sz bits a) := by
  have hl : Gen.layout_mut_32 bits = Gen.layout_32 bits := (layout_32_eq bits).2
  rcases layout_32_cases bits with ⟨hb, h1⟩ | ⟨hb, h1⟩ | ⟨hb, h1⟩ <;> simp only [srcRemoveHeap32, hl, h1]
  · subst hb
    exact remove_dense_32_eq g fuel e sz cap a (heap_cap_of_wf cfg32_ok wf).1 d
  · exact remove_big_32_eq g fuel e sz cap bits a hb hn d
  · exact remove_heap_32_eq g fuel e sz cap bits a he hb hn d

/-- `SetU32::contains` as it is in the current source: `internal()` tells the five views apart (modelled by the
constructors of `Rp` and the `bits` word: 32 dense, 1..31 bitmap table, otherwise plain table), then the arm's code
as translated on every run -/
def srcContains32 : Rp → Nat → Bool
  | .empty, _ => false
  | .stack t, e => Gen.tiny_contains_32 t.sz t.bits e
  | .heap _ _ bits a, e =>
    match Gen.layout_32 bits with          -- the dispatch at the end of `internal()`, translated: 0 `Big`, 1 `Dense`, 2 `Heap`
    | 0 => Gen.contains_big_32 e bits a
    | 1 => Gen.contains_dense_32 e a
    | _ => Gen.contains_heap_32 e bits a

/-- it is the model's `contains` on every well-formed representation … -/
theorem source_contains_is_model_u32 {r : Rp} (wf : WF cfg32 r) (e : Nat) (he : e < 2 ^ 32)
    (hn : capacity r < 2 ^ 32) : srcContains32 r e = contains cfg32 r e := by
  cases r with
  | empty => rfl
  | stack t => exact tiny_contains_32_eq t e he
  | heap sz cap bits a =>
    rcases layout_32_cases bits with ⟨hb, hl⟩ | ⟨hb, hl⟩ | ⟨hb, hl⟩ <;> simp only [srcContains32, hl]
    · subst hb
      exact contains_dense_32_eq e sz cap a (heap_cap_of_wf cfg32_ok wf).1
    · exact contains_big_32_eq e sz cap bits a hb (by have := (heap_cap_of_wf cfg32_ok wf).1; simp [capacity] at hn; omega)
    · exact contains_heap_32_eq e sz cap bits a he hb (by have := (heap_cap_of_wf cfg32_ok wf).1; simp [capacity] at hn; omega)

/-- … hence **membership**: the `contains` of the current source, run on the words of any well-formed set (every
layout), answers true exactly for the members -/
theorem source_contains_is_membership_u32 {r : Rp} (wf : WF cfg32 r) (e : Nat) (he : e < 2 ^ 32)
    (hn : capacity r < 2 ^ 32) : srcContains32 r e = true ↔ e ∈ elems cfg32 r := by
  rw [source_contains_is_model_u32 wf e he hn]
  exact contains_refines cfg32_ok wf e he

/-! ### the in-place paths of `insert` are those of the current source -/

/-- as for SetU64 (tables below 2^32 buckets); the room rule of `SetU32` — more than 1/16 of the buckets empty — is
the translated iterator chain of the source -/
theorem insert_in_place_is_the_source_u32 {D : Type} (g : Rng D) (fuel e sz cap : Nat) (a : Tbl) (he : e < 2 ^ 32)
    (hn : a.size < 2 ^ 32) (d : D) (res : (Bool × Nat) × Array Nat) :
    (cap = a.size → Gen.insert_dense_32 e sz a = .ok res →
      insert cfg32 g (fuel + 1) (.heap sz cap 32 a) e d = armOut cap 32 d (.ok res)) ∧
    (∀ bits, 0 < bits ∧ bits < 32 → Gen.insert_heap_32 e sz bits a = .ok res →
      insert cfg32 g (fuel + 1) (.heap sz cap bits a) e d = armOut cap bits d (.ok res)) :=
  ⟨fun hc h => insert_dense_is_the_source_u32 g fuel e sz cap a hc d h,
   fun bits hb h => insert_heap_is_the_source_u32 g fuel e sz cap bits a he hb hn d h⟩
theorem insert_in_place_plain_is_the_source_u32 {D : Type} (g : Rng D) (fuel e sz cap bits : Nat) (a : Tbl)
    (hb : bits = 0 ∨ bits > 32) (hn : a.size < 2 ^ 32) (d : D) {res : (Bool × Nat × Nat) × Array Nat}
    (h : Gen.insert_big_32 e sz bits a = .ok res) :
    insert cfg32 g (fuel + 1) (.heap sz cap bits a) e d = armOutB cap d (.ok res) :=
  insert_big_is_the_source_u32 g fuel e sz cap bits a hb hn d h

/-- **inserting the placeholder value itself** (the path on which D9 and D13 lived): `p_remove` of the stand-in for 0,
one draw, the upward scan to the first usable value (greater than 32, not the old placeholder, not a word of the
table; wrapping), re-insertion of the stand-in, then the in-place paths — the `Big` arm of the source translated in
full up to the growth point, with the generator's draw as a parameter.  Whenever it returns, the model's `insert`
returns the same set (new placeholder included), answer and generator state -/
theorem insert_placeholder_is_the_source_u32 {D : Type} (g : Rng D) (fuel sz cap bits : Nat) (a : Tbl)
    (hb : bits = 0 ∨ bits > 32) (d : D) (hsmall : a.size + 32 + 3 ≤ 2 ^ 31) {res : (Bool × Nat × Nat) × Array Nat}
    (h : Gen.insert_bigfull_32 bits sz bits a (modW cfg32 (g.draw d cap bits).1) = .ok res) :
    insert cfg32 g (fuel + 1) (.heap sz cap bits a) bits d = armOutB cap (g.draw d cap bits).2 (.ok res) :=
  SC.insert_placeholder_is_the_source_u32 g fuel sz cap bits a hb d hsmall h

/-- **`insert` on an empty or inline set is the source's**: the `Empty` and `Stack` arms of `SetU32::insert` up to the
point where the set has to leave the word — `Tiny::from_singleton` / `Tiny::insert` (translated in full:
`inline_insert_is_the_source_u32`, C10) and `to_usize`, with the glue `*self = SetU32(newt.to_usize() as *mut S); return
newt.sz != t.sz` pinned by shape —: whenever the translated arm yields a new tagged word and an answer, the model's
`insert` returns that answer and an inline set whose tagged word is that word, the generator untouched -/
theorem insert_inline_is_the_source_u32 {D : Type} (g : Rng D) (fuel e : Nat) (he : e < 2 ^ 32) (d : D) (w : Nat) (b : Bool) :
    (Gen.insert_empty_32 e = some (w, b) →
      ∃ t', insert cfg32 g (fuel + 1) .empty e d = .ok ((.stack t', b), d) ∧ TinyC.toWord TinyC.codec32 t' = w) ∧
    (∀ t, WF cfg32 (.stack t) → Gen.insert_stack_32 t.sz t.bits e = .ok (some (w, b)) →
      ∃ t', insert cfg32 g (fuel + 1) (.stack t) e d = .ok ((.stack t', b), d) ∧ TinyC.toWord TinyC.codec32 t' = w) :=
  ⟨fun h => insert_empty_32_eq g fuel e he d w b h, fun t wf h => insert_stack_32_eq g fuel t wf e he d w b h⟩

/-- **`remove` on an inline set is the source's**: the `Stack` arm of `SetU32::remove` (shape pinned) — membership by
running the translated inline iterator to its end, then the null word for the last member or `collect()` of what
`t.filter(|&x| x != e)` yields —: the model's `remove` answers and continues exactly so (`collect()` itself is the
model's `fromIterSorted`, tied by runs) -/
theorem remove_inline_is_the_source_u32 {D : Type} (g : Rng D) (fuel : Nat) (t : TinyC.T) (wf : WF cfg32 (.stack t)) (e : Nat) (d : D) :
    remove cfg32 g fuel (.stack t) e d =
      (match Gen.remove_stack_32 t.sz t.bits e with
       | none => .ok ((.stack t, false), d)
       | some none => .ok ((.empty, true), d)
       | some (some v) => (do let r ← fromIterSorted cfg32 g fuel v; pure (r, true) : M D (Rp × Bool)) d) :=
  remove_stack_32_eq g fuel t wf e d

end C02

#print axioms C02.insert_refines_u32
#print axioms C02.remove_refines_u32
#print axioms C02.contains_refines_u32
#print axioms C02.run_refines_u32
#print axioms C02.demo_runs
#print axioms C02.demo_wf
#print axioms C02.insert_returns_and_is_right_u32
#print axioms C02.every_history_u32
#print axioms C02.remove_returns_and_is_right_u32
#print axioms C02.checked_state_is_wellformed_u32
#print axioms C02.run_refines_from_checked_u32
