import TinysetModel.Proofs.CapSpec
import TinysetModel.Proofs.CoreInst
import TinysetModel.Proofs.AllocProgram
/-! C11 — heap footprint stays linear in the member count and is truthfully reported.
`Hist c g r M` (Proofs/CapSpec.lean) is "`r` was reached by some history of new / collect / insert / remove /
extend / clone / with_capacity_of / drain / the six operators, and `M` is the largest `len` the set or
any set it was derived from has had" — with an ARBITRARY generator state at every step, so every outcome
of the random growth amounts is covered (also always-maximal growth).  Capacity hints are not part of
`Hist` (the property excludes them).  The ghost bound `CapOK r M : capacity r ≤ 3 M + 5 ∧ len r ≤ M` is
inductive over every branch of `insert`, including the re-insertion loops of growth and conversion. -/
namespace C11
open SC

variable {D : Type}

/-- every history: the set is well formed and `capacity ≤ 3 M + 5` — generic in the configuration -/
theorem history_capacity {c : Cfg} (ok : CfgOK c) (cc : CapCfg c) (g : Rng D) {r : Rp} {M : Nat}
    (h : Hist c g r M) : WF c r ∧ capacity r ≤ 3 * M + 5 ∧ len r ≤ M :=
  let ⟨wf, hc⟩ := hist_ok ok cc g (fun fuel => coreOK ok g fuel) h; ⟨wf, hc.1, hc.2⟩

/-- SetU64 / Set64 / SetUsize: at most `8 M + 8` words of 8 bytes, plus the 8-byte set value itself:
    `mem_used ≤ 64 M + 72` for every history and every outcome of the random choices -/
theorem footprint_u64 (g : Rng D) {r : Rp} {M : Nat} (h : Hist cfg64 g r M) : memUsed cfg64 r ≤ 64 * M + 72 :=
  hist_footprint64 g (fun fuel => coreOK cfg64_ok g fuel) h

/-- SetU32: at most `8 M + 8` words of 4 bytes plus the set value: `mem_used ≤ 32 M + 40` -/
theorem footprint_u32 (g : Rng D) {r : Rp} {M : Nat} (h : Hist cfg32 g r M) : memUsed cfg32 r ≤ 32 * M + 40 :=
  hist_footprint32 g (fun fuel => coreOK cfg32_ok g fuel) h

/-- in element words: the owned block is at most `(8 M + 8)` elements -/
theorem block_words {c : Cfg} (ok : CfgOK c) (cc : CapCfg c) (hW : c.W = 64 ∨ c.W = 32) (g : Rng D) {r : Rp} {M : Nat}
    (h : Hist c g r M) : blockBytes c r ≤ (8 * M + 8) * elemBytes c ∧ len r ≤ M :=
  hist_footprint ok cc hW g (fun fuel => coreOK ok g fuel) h

/-- `mem_used()` is the inline word plus the bytes of the block actually owned (`bytes_for_capacity(cap)`, header included) -/
theorem mem_used_truthful (c : Cfg) (r : Rp) : memUsed c r = 8 + blockBytes c r := rfl
theorem block_bytes_heap (c : Cfg) (sz cap bits : Nat) (a : RH.Tbl) :
    blockBytes c (.heap sz cap bits a) = cap * elemBytes c + headerBytes c := rfl

/-- "the bytes of the heap block actually owned" in terms of the allocator: what `mem_used()` reports beyond the
inline word is exactly what the allocator's ledger holds for this set (`owned`: the size that was passed to
`alloc_zeroed` / `realloc` for the block the set now has — `Model/Alloc.lean`, compared call by call with the real
allocator's record on every run) -/
theorem mem_used_is_ledger (c : Cfg) (r : Rp) : memUsed c r = 8 + (owned c r).sum := by
  cases r <;> simp [memUsed, wordBytes, blockBytes, owned]
/-- … and after any `insert` the ledger holds exactly that block for the set: whatever the operation requested
and released on the way (rebuilds, nested rebuilds, in-place growth), what remains allocated is `mem_used() - 8` -/
theorem mem_used_after_insert {c : Cfg} (fresh : Bool) (g : Rng D) (fuel : Nat) {r : Rp} {e : Nat} {d d' : D}
    {res : Rp × Bool} {evs : List Ev} (h : insertE c fresh g fuel r e d = .ok ((res, evs), d')) :
    ∃ L', runEv (owned c r) evs = some L' ∧ memUsed c res.1 = 8 + L'.sum := by
  have := (insertE_balanced fresh g fuel).ok h []
  simp only [List.append_nil] at this
  exact ⟨_, this, mem_used_is_ledger c res.1⟩

/-- one insert never multiplies the capacity: the step form of the bound (every fuel, every generator) -/
theorem insert_step_bound {c : Cfg} (ok : CfgOK c) (cc : CapCfg c) (g : Rng D) (fuel : Nat) :
    RecCap c (insert c g fuel) := insert_capOK ok cc g (fun f => coreOK ok g f) fuel

/-- the arithmetic facts about both configurations that the bound rests on -/
theorem cap_cfg_u64 : CapCfg cfg64 := capCfg64
theorem cap_cfg_u32 : CapCfg cfg32 := capCfg32

/-- non-vacuity: the empty set is a history, and so is any successful insert into it -/
example : Hist cfg64 detRng .empty 0 := Hist.new

end C11
