import TinysetModel.Proofs.DenseRange
import TinysetModel.Proofs.CapSpec
import TinysetModel.Proofs.CoreInst
import TinysetModel.Proofs.AnyOrderU
import TinysetModel.Proofs.Ascend
import TinysetModel.Proofs.CollectAny
/-! C12 — dense sets of small integers cost about a bit per member.
Proved: (a) `collect()` of `0..n` ends in the dense bitset whose block is `denseCap (n-1)` words — at most
`n/4 + 64` bytes (2 bits per member + 64 bytes) — for every `64 ≤ n ≤ 2^31`, consuming no random draw.
(b) Members below `n ≤ 2^22` inserted one at a time in ANY order (duplicates allowed, not even required to be all of
`0..n`), for EVERY outcome of the random growth and every fuel: whenever the run returns, the block is at most
`2 n + 256` bytes (`any_order_u64/u32`; sharper: `4n/7 + 88` resp. `6n/5 + 44`).  The proof is a ghost-bound
induction through every branch of `insert` with the invariant "dense with a capacity bounded by `n`, or a bitmap
table of width ≥ 42 (10) with at most `3·keys + 5` buckets, never the plain table".
(a') Ascending one-at-a-time insertion of `0..n` (64 ≤ n ≤ 2^31): always returns, consumes no draw, ends in the dense
layout with `cap ≤ 1 + K + K/4`, `K = (n-1)/64` (u32: `1 + (n-1)/32 + (n-1)/128`), block ≤ n/4 + 64 bytes.
So every clause of the property is a theorem; the harness additionally measures allocator-observed footprints. -/
namespace C12
open SC

variable {D : Type}

/-- SetU64 / Set64<u*> / SetUsize: `collect(0..n)` is dense with the closed-form block size, ≤ n/4 + 64 bytes -/
theorem collect_range_u64 (g : Rng D) (fuel : Nat) {n : Nat} (hn : 64 ≤ n) (hn' : n ≤ 2 ^ 31) (d : D) :
    ∃ r, fromIter cfg64 g (fuel + 1) (List.range n) d = .ok (r, d) ∧ len r = n ∧
      blockBytes cfg64 r = 8 * (1 + (n - 1) / 64 + (n - 1) / 256) + 24 ∧ blockBytes cfg64 r ≤ n / 4 + 64 :=
  collect_range_bytes64 g fuel hn hn' d

/-- SetU32 -/
theorem collect_range_u32 (g : Rng D) (fuel : Nat) {n : Nat} (hn : 64 ≤ n) (hn' : n ≤ 2 ^ 31) (d : D) :
    ∃ r, fromIter cfg32 g (fuel + 1) (List.range n) d = .ok (r, d) ∧ len r = n ∧
      blockBytes cfg32 r = 4 * (1 + (n - 1) / 32 + (n - 1) / 128) + 12 ∧ blockBytes cfg32 r ≤ n / 4 + 64 :=
  collect_range_bytes32 g fuel hn hn' d

/-- ascending insertion `0, 1, …, n-1`, one at a time: returns, no draw, exactly the members `< n`, ≤ n/4 + 64 bytes -/
theorem ascending_u64 (g : Rng D) (fuel : Nat) (n : Nat) (hn : 64 ≤ n) (hn' : n ≤ 2 ^ 31) (d : D) :
    ∃ r, insertAll (insert cfg64 g (fuel + 2)) .empty (List.range n) d = .ok (r, d) ∧ len r = n ∧
      (∀ x, x ∈ elems cfg64 r ↔ x < n) ∧ blockBytes cfg64 r ≤ n / 4 + 64 :=
  ascending_range_bytes64 g fuel n hn hn' d
theorem ascending_u32 (g : Rng D) (fuel : Nat) (n : Nat) (hn : 64 ≤ n) (hn' : n ≤ 2 ^ 31) (d : D) :
    ∃ r, insertAll (insert cfg32 g (fuel + 2)) .empty (List.range n) d = .ok (r, d) ∧ len r = n ∧
      (∀ x, x ∈ elems cfg32 r ↔ x < n) ∧ blockBytes cfg32 r ≤ n / 4 + 64 :=
  ascending_range_bytes32 g fuel n hn hn' d

/-- **`collect()` of any sequence whose distinct items are exactly `0..n`** — any order, any repetitions — is the
    same computation as `collect()` of `0..n`: same dense layout, same closed form, ≤ n/4 + 64 bytes, no draw -/
theorem collect_any_sequence_u64 (g : Rng D) (fuel : Nat) {n : Nat} (hn : 64 ≤ n) (hn' : n ≤ 2 ^ 31)
    {l : List Nat} (hm : ∀ x, x ∈ l ↔ x < n) (d : D) :
    ∃ r, fromIter cfg64 g (fuel + 1) l d = .ok (r, d) ∧ len r = n ∧
      blockBytes cfg64 r = 8 * (1 + (n - 1) / 64 + (n - 1) / 256) + 24 ∧ blockBytes cfg64 r ≤ n / 4 + 64 :=
  collect_any_bytes64 g fuel hn hn' hm d
theorem collect_any_sequence_u32 (g : Rng D) (fuel : Nat) {n : Nat} (hn : 64 ≤ n) (hn' : n ≤ 2 ^ 31)
    {l : List Nat} (hm : ∀ x, x ∈ l ↔ x < n) (d : D) :
    ∃ r, fromIter cfg32 g (fuel + 1) l d = .ok (r, d) ∧ len r = n ∧
      blockBytes cfg32 r = 4 * (1 + (n - 1) / 32 + (n - 1) / 128) + 12 ∧ blockBytes cfg32 r ≤ n / 4 + 64 :=
  collect_any_bytes32 g fuel hn hn' hm d

/-- the layout is the dense one (`bits = W`), with `n` members -/
theorem collect_range_layout_u64 (g : Rng D) (fuel : Nat) {n : Nat} (hn : 64 ≤ n) (hn' : n ≤ 2 ^ 31) (d : D) :
    ∃ a, fromIter cfg64 g (fuel + 1) (List.range n) d = .ok (.heap n (cfg64.denseCap (n - 1)) cfg64.W a, d) :=
  collect_range_dense64 g fuel hn hn' d
theorem collect_range_layout_u32 (g : Rng D) (fuel : Nat) {n : Nat} (hn : 64 ≤ n) (hn' : n ≤ 2 ^ 31) (d : D) :
    ∃ a, fromIter cfg32 g (fuel + 1) (List.range n) d = .ok (.heap n (cfg32.denseCap (n - 1)) cfg32.W a, d) :=
  collect_range_dense32 g fuel hn hn' d

/-- **any order, any growth outcome**: SetU64 / Set64<u*> / SetUsize -/
theorem any_order_u64 (g : Rng D) (fuel : Nat) (n : Nat) (hn : 64 ≤ n) (hn' : n ≤ 2 ^ 22) (xs : List Nat)
    (hx : ∀ x ∈ xs, x < n) (d d' : D) (r : Rp)
    (h : insertAll (insert cfg64 g fuel) .empty xs d = .ok (r, d')) : blockBytes cfg64 r ≤ 2 * n + 256 :=
  SC.any_order_u64 g fuel n hn hn' xs hx d d' r h
/-- SetU32 -/
theorem any_order_u32 (g : Rng D) (fuel : Nat) (n : Nat) (hn : 64 ≤ n) (hn' : n ≤ 2 ^ 22) (xs : List Nat)
    (hx : ∀ x ∈ xs, x < n) (d d' : D) (r : Rp)
    (h : insertAll (insert cfg32 g fuel) .empty xs d = .ok (r, d')) : blockBytes cfg32 r ≤ 2 * n + 256 :=
  SC.any_order_u32 g fuel n hn hn' xs hx d d' r h
/-- the sharper forms, with well-formedness and exact contents -/
theorem any_order_sharp_u64 (g : Rng D) (fuel : Nat) (n : Nat) (hn' : n ≤ 2 ^ 22) (xs : List Nat)
    (hx : ∀ x ∈ xs, x < n) (d d' : D) (r : Rp)
    (h : insertAll (insert cfg64 g fuel) .empty xs d = .ok (r, d')) :
    blockBytes cfg64 r ≤ 4 * n / 7 + 88 ∧ WF cfg64 r ∧ ∀ x, x ∈ elems cfg64 r ↔ x ∈ xs :=
  SC.any_order_u64_sharp g fuel n hn' xs hx d d' r h
theorem any_order_sharp_u32 (g : Rng D) (fuel : Nat) (n : Nat) (hn' : n ≤ 2 ^ 22) (xs : List Nat)
    (hx : ∀ x ∈ xs, x < n) (d d' : D) (r : Rp)
    (h : insertAll (insert cfg32 g fuel) .empty xs d = .ok (r, d')) :
    blockBytes cfg32 r ≤ 6 * n / 5 + 44 ∧ WF cfg32 r ∧ ∀ x, x ∈ elems cfg32 r ↔ x ∈ xs :=
  SC.any_order_u32_sharp g fuel n hn' xs hx d d' r h

/-- every history (not only insertions), the general linear bound: at most `8 n + 8` element words
    (C11 applied to a history whose high-water mark is `n`) -/
theorem any_order_partial_u64 (g : Rng D) {r : Rp} {n : Nat} (h : Hist cfg64 g r n) : memUsed cfg64 r ≤ 64 * n + 72 :=
  hist_footprint64 g (fun fuel => coreOK cfg64_ok g fuel) h
theorem any_order_partial_u32 (g : Rng D) {r : Rp} {n : Nat} (h : Hist cfg32 g r n) : memUsed cfg32 r ≤ 32 * n + 40 :=
  hist_footprint32 g (fun fuel => coreOK cfg32_ok g fuel) h

/-- non-vacuity of the closed form: n = 1000 gives 24 + 8·19 = 176 bytes -/
example : 8 * (1 + (1000 - 1) / 64 + (1000 - 1) / 256) + 24 = 176 ∧ 176 ≤ 1000 / 4 + 64 := by decide

end C12
#print axioms C12.collect_any_sequence_u64
#print axioms C12.collect_any_sequence_u32
