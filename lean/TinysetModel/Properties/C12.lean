import TinysetModel.Proofs.DenseRange
import TinysetModel.Proofs.CapSpec
import TinysetModel.Proofs.CoreInst
/-! C12 — dense sets of small integers cost about a bit per member.
Proved: (a) `collect()` of `0..n` ends in the dense bitset whose block is `denseCap (n-1)` words — at most
`n/4 + 64` bytes (2 bits per member + 64 bytes) — for every `64 ≤ n ≤ 2^31`, consuming no random draw.
(b) For members inserted in ANY order and any outcome of the random growth, the theorem available is the
general linear bound of C11 (`8 n + 8` words); the sharper "2 bytes per member + 256 bytes" of the property is
NOT a theorem here: it is decided by the allocator-observed footprint in the harness (orders: descending,
random, strided, outside-in, inside-out, prefix-maximum-rest; growth scripts minimal / maximal / random).
Ascending insertion one at a time is likewise checked by the harness, not proved. -/
namespace C12
open SC

variable {D : Type}

/-- SetU64 / Set64<u*> / SetUsize: `collect(0..n)` is dense with the closed-form block size, ≤ n/4 + 64 bytes -/
theorem collect_range_u64 (g : Rng D) (fuel : Nat) {n : Nat} (hn : 64 ≤ n) (hn' : n ≤ 2 ^ 31) (d : D) :
    ∃ r, fromIter cfg64 g (fuel + 1) (List.range n) d = .ok (r, d) ∧ len r = n ∧
      blockBytes cfg64 r = 8 * (1 + (n - 1) / 64 + (n - 1) / 256) + 24 ∧ blockBytes cfg64 r ≤ n / 4 + 64 :=
  collect_range_bytes64 g fuel hn hn' d

/-- SetU32 -/
theorem collect_range_u32 (g : Rng D) (fuel : Nat) {n : Nat} (hn : 64 ≤ n) (hn' : n ≤ 2 ^ 31) (d : D) :
    ∃ r, fromIter cfg32 g (fuel + 1) (List.range n) d = .ok (r, d) ∧ len r = n ∧
      blockBytes cfg32 r = 4 * (1 + (n - 1) / 32 + (n - 1) / 128) + 12 ∧ blockBytes cfg32 r ≤ n / 4 + 64 :=
  collect_range_bytes32 g fuel hn hn' d

/-- the layout is the dense one (`bits = W`), with `n` members -/
theorem collect_range_layout_u64 (g : Rng D) (fuel : Nat) {n : Nat} (hn : 64 ≤ n) (hn' : n ≤ 2 ^ 31) (d : D) :
    ∃ a, fromIter cfg64 g (fuel + 1) (List.range n) d = .ok (.heap n (cfg64.denseCap (n - 1)) cfg64.W a, d) :=
  collect_range_dense64 g fuel hn hn' d
theorem collect_range_layout_u32 (g : Rng D) (fuel : Nat) {n : Nat} (hn : 64 ≤ n) (hn' : n ≤ 2 ^ 31) (d : D) :
    ∃ a, fromIter cfg32 g (fuel + 1) (List.range n) d = .ok (.heap n (cfg32.denseCap (n - 1)) cfg32.W a, d) :=
  collect_range_dense32 g fuel hn hn' d

/-- any order, any growth outcome — the proved (weaker) bound: at most `8 n + 8` element words
    (C11 applied to a history whose high-water mark is `n`) -/
theorem any_order_partial_u64 (g : Rng D) {r : Rp} {n : Nat} (h : Hist cfg64 g r n) : memUsed cfg64 r ≤ 64 * n + 72 :=
  hist_footprint64 g (fun fuel => coreOK cfg64_ok g fuel) h
theorem any_order_partial_u32 (g : Rng D) {r : Rp} {n : Nat} (h : Hist cfg32 g r n) : memUsed cfg32 r ≤ 32 * n + 40 :=
  hist_footprint32 g (fun fuel => coreOK cfg32_ok g fuel) h

/-- non-vacuity of the closed form: n = 1000 gives 24 + 8·19 = 176 bytes -/
example : 8 * (1 + (1000 - 1) / 64 + (1000 - 1) / 256) + 24 = 176 ∧ 176 ≤ 1000 / 4 + 64 := by decide

end C12
