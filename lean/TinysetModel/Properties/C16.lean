import TinysetModel.Proofs.PropsAux
import TinysetModel.Proofs.Demo
/-! C16 — serde round trip returns an equal set; the encoding is the plain member sequence.

Model (`Proofs/OpsSpec.lean`): `ser c r = elems c r` — the default `Serialize` impl writes a sequence of `len()`
items produced by `iter()`; `de c g fuel xs = extend c g fuel .empty xs` — the `Deserialize` visitor inserts the
items one by one into `new()`.  The byte format of a sequence of integers belongs to the serde data format, not
to this crate.  For `Set64<T>` the items are the `to_u64` encodings; their losslessness is C03.
All statements: for every RNG oracle, state and fuel, whenever deserialisation returns. -/
namespace C16
open SC

section generic
variable {c : Cfg} {D : Type}

/-- the encoding is the member sequence: `len()` items, no value twice -/
theorem ser_is_members (ok : CfgOK c) {r : Rp} (wf : WF c r) :
    ser c r = elems c r ∧ (ser c r).length = len r ∧ (ser c r).Nodup :=
  ⟨rfl, ser_length (coreOK ok detRng 0) wf, ser_nodup (coreOK ok detRng 0) wf⟩

/-- deserialising ANY sequence of valid elements (any order, with duplicates) yields a well-formed set of
exactly its distinct items -/
theorem de_any_sequence (ok : CfgOK c) (g : Rng D) (fuel : Nat) {xs : List Nat} (hx : ∀ x ∈ xs, x < 2 ^ c.W)
    {d d' : D} {r : Rp} (h : de c g fuel xs d = .ok (r, d')) :
    WF c r ∧ (∀ x, x ∈ elems c r ↔ x ∈ xs) ∧ (elems c r).Nodup ∧ len r = xs.eraseDups.length :=
  collect_loop_spec ok g fuel hx h

/-- order and multiplicity of the serialised items do not matter: two sequences with the same items
deserialise to `==` sets -/
theorem de_order_irrelevant (ok : CfgOK c) (g : Rng D) (fuel : Nat) {xs ys : List Nat} (hx : ∀ x ∈ xs, x < 2 ^ c.W)
    (hxy : ∀ x, x ∈ xs ↔ x ∈ ys) {d₁ d₁' d₂ d₂' : D} {r₁ r₂ : Rp}
    (h1 : de c g fuel xs d₁ = .ok (r₁, d₁')) (h2 : de c g fuel ys d₂ = .ok (r₂, d₂')) : eqSet c r₁ r₂ = true :=
  de_congr (coreOK ok g fuel) hx hxy h1 h2

/-- the round trip: deserialising what was serialised gives a well-formed set that is `==` to the original
(both ways round, and for `Set64::eq`), with the same `len`, and which serialises to a permutation of the
original sequence -/
theorem roundtrip (ok : CfgOK c) (g : Rng D) (fuel : Nat) {r r' : Rp} (wf : WF c r) {d d' : D}
    (h : de c g fuel (ser c r) d = .ok (r', d')) :
    WF c r' ∧ eqSet c r' r = true ∧ eqSet c r r' = true ∧ eqSet64 c r' r = true ∧ len r' = len r ∧
      (ser c r').Perm (ser c r) :=
  de_ser (coreOK ok g fuel) wf h

end generic

/-! ### instances -/

theorem roundtrip_u64 {D : Type} (g : Rng D) (fuel : Nat) {r r' : Rp} (wf : WF cfg64 r) {d d' : D}
    (h : de cfg64 g fuel (ser cfg64 r) d = .ok (r', d')) :
    WF cfg64 r' ∧ eqSet cfg64 r' r = true ∧ eqSet cfg64 r r' = true ∧ eqSet64 cfg64 r' r = true ∧ len r' = len r ∧
      (ser cfg64 r').Perm (ser cfg64 r) :=
  de_ser (coreOK cfg64_ok g fuel) wf h
theorem roundtrip_u32 {D : Type} (g : Rng D) (fuel : Nat) {r r' : Rp} (wf : WF cfg32 r) {d d' : D}
    (h : de cfg32 g fuel (ser cfg32 r) d = .ok (r', d')) :
    WF cfg32 r' ∧ eqSet cfg32 r' r = true ∧ eqSet cfg32 r r' = true ∧ eqSet64 cfg32 r' r = true ∧ len r' = len r ∧
      (ser cfg32 r').Perm (ser cfg32 r) :=
  de_ser (coreOK cfg32_ok g fuel) wf h

theorem de_any_sequence_u64 {D : Type} (g : Rng D) (fuel : Nat) {xs : List Nat} (hx : ∀ x ∈ xs, x < 2 ^ 64)
    {d d' : D} {r : Rp} (h : de cfg64 g fuel xs d = .ok (r, d')) :
    WF cfg64 r ∧ (∀ x, x ∈ elems cfg64 r ↔ x ∈ xs) ∧ (elems cfg64 r).Nodup ∧ len r = xs.eraseDups.length :=
  collect_loop_spec cfg64_ok g fuel hx h
theorem de_any_sequence_u32 {D : Type} (g : Rng D) (fuel : Nat) {xs : List Nat} (hx : ∀ x ∈ xs, x < 2 ^ 32)
    {d d' : D} {r : Rp} (h : de cfg32 g fuel xs d = .ok (r, d')) :
    WF cfg32 r ∧ (∀ x, x ∈ elems cfg32 r ↔ x ∈ xs) ∧ (elems cfg32 r).Nodup ∧ len r = xs.eraseDups.length :=
  collect_loop_spec cfg32_ok g fuel hx h

theorem de_order_irrelevant_u64 {D : Type} (g : Rng D) (fuel : Nat) {xs ys : List Nat} (hx : ∀ x ∈ xs, x < 2 ^ 64)
    (hxy : ∀ x, x ∈ xs ↔ x ∈ ys) {d₁ d₁' d₂ d₂' : D} {r₁ r₂ : Rp}
    (h1 : de cfg64 g fuel xs d₁ = .ok (r₁, d₁')) (h2 : de cfg64 g fuel ys d₂ = .ok (r₂, d₂')) : eqSet cfg64 r₁ r₂ = true :=
  de_congr (coreOK cfg64_ok g fuel) hx hxy h1 h2
theorem de_order_irrelevant_u32 {D : Type} (g : Rng D) (fuel : Nat) {xs ys : List Nat} (hx : ∀ x ∈ xs, x < 2 ^ 32)
    (hxy : ∀ x, x ∈ xs ↔ x ∈ ys) {d₁ d₁' d₂ d₂' : D} {r₁ r₂ : Rp}
    (h1 : de cfg32 g fuel xs d₁ = .ok (r₁, d₁')) (h2 : de cfg32 g fuel ys d₂ = .ok (r₂, d₂')) : eqSet cfg32 r₁ r₂ = true :=
  de_congr (coreOK cfg32_ok g fuel) hx hxy h1 h2

/-! ### the hypotheses are satisfiable -/

/-- the round trip of a reachable bitmap table returns (here in a different capacity than the original's) -/
theorem demo_rt : de cfg64 detRng 6 (ser cfg64 Demo.bitmap64) () = .ok (.heap 2 2 23 #[360712192, 401016175510691840], ()) := by
  decide +kernel
example : eqSet cfg64 (.heap 2 2 23 #[360712192, 401016175510691840]) Demo.bitmap64 = true :=
  (roundtrip_u64 detRng 6 Demo.bitmap64_wf demo_rt).2.1
/-- a sequence with a duplicate, out of order (`Demo.loop_small32` is `de` of it) -/
example : len (.heap 3 3 1 #[7, 2147483649, 11]) = [5, 3, 5, 2 ^ 30].eraseDups.length :=
  (de_any_sequence_u32 detRng 6 (by decide) Demo.loop_small32).2.2.2

end C16

#print axioms C16.ser_is_members
#print axioms C16.de_any_sequence
#print axioms C16.de_order_irrelevant
#print axioms C16.roundtrip
