import TinysetModel.Proofs.Consts
/-! C06 — see /verif/properties.jsonl.  Theorems for this property are being added; the ones
below are the obligations checked so far. -/
namespace C06
open SC

/-- the model's constants are the ones in the current source -/
theorem consts_match : TinyC.codec64.splits = Gen.bitsplits64 ∧ TinyC.codec32.splits = Gen.bitsplits32 :=
  ⟨bitsplits64_match, bitsplits32_match⟩

end C06
