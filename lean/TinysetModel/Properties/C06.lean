import TinysetModel.Proofs.PropsAux
import TinysetModel.Proofs.InlineSpec
import TinysetModel.Proofs.Demo
import TinysetModel.Proofs.Consts
import TinysetModel.Proofs.AllocProj
import TinysetModel.Proofs.AllocProgram
/-! C06 — memory safety under any conforming allocator: the LOGIC part.

SCOPE.  The model is functional: a heap block is an `Array Nat` inside `Rp.heap sz cap bits a`; there are no
addresses and no bytes.  What the model DOES contain since `Model/Alloc.lean` is the crate's own allocator
traffic: for every operation, the `alloc_zeroed` / `dealloc` / `realloc` calls it makes, with byte sizes, in
program order (section 3 below: every program over any number of sets makes only legal calls — each release or
resize names a live block with the size it was requested with —, the live blocks are at every point exactly the
blocks of the live sets, and nothing is live once every set and iterator is dropped).  The harness records the
real calls of every operation and the driver compares them with this reading, call by call.
Still OUTSIDE the model and checked by the harness's instrumented `#[global_allocator]` only (guard bytes,
quarantine, minimal alignment): addresses (that the block released is the very block obtained, not another of
the same size), and accesses outside a live block.

Also proved are the two facts of the set logic on which the byte-level behaviour rests:
1. *tag coherence*: every inline-vs-pointer test in the current source (`Gen.tagMasks64/32`, read off the
   source by the translator) uses a mask that is below the alignment the block layout requests, an inline
   word is never 0 modulo `mask + 1` (never mistaken for a pointer), and an address that is a multiple of the
   requested alignment is always 0 modulo `mask + 1` (never mistaken for an inline word) — also under an
   allocator that aligns no more strictly than requested;
2. *the header capacity is the allocated capacity*: in every well-formed heap value of every layout
   `cap = a.size` and `0 < cap`, so the layout that `Drop`, `Clone`, `with_capacity_of` and the slice
   constructors recompute from the header is the layout of the words actually held; and every operation
   returns a well-formed value again. -/
namespace C06
open SC TinyC

/-- the model's constants are the ones in the current source -/
theorem consts_match : TinyC.codec64.splits = Gen.bitsplits64 ∧ TinyC.codec32.splits = Gen.bitsplits32 :=
  ⟨bitsplits64_match, bitsplits32_match⟩

/-! ### 1. tag coherence -/

/-- SetU64: for EVERY inline-vs-pointer test found in the source (`to_array`, `clone`, `with_capacity_of`,
`internal`, `internal_mut`), with its mask `p.2`: an inline word (1..7 elements) is non-zero modulo `mask+1`,
and every multiple of the block alignment is zero modulo `mask+1` -/
theorem tag_coherent_u64 (t : T) (h : 1 ≤ t.sz ∧ t.sz ≤ 7) : ∀ p ∈ Gen.tagMasks64,
    toWord codec64 t % (p.2 + 1) ≠ 0 ∧ ∀ k, (k * Gen.layout64.2.2) % (p.2 + 1) = 0 :=
  tag_coherent64_src t h
/-- SetU32 (1..6 elements; blocks are only 4-aligned, the count is encoded so that the low TWO bits are never both 0) -/
theorem tag_coherent_u32 (t : T) (h : 1 ≤ t.sz ∧ t.sz ≤ 6) : ∀ p ∈ Gen.tagMasks32,
    toWord codec32 t % (p.2 + 1) ≠ 0 ∧ ∀ k, (k * Gen.layout32.2.2) % (p.2 + 1) = 0 :=
  tag_coherent32_src t h

/-- … in particular for the word of every well-formed inline value -/
theorem inline_word_tagged_u64 {t : T} (wf : WF cfg64 (.stack t)) : toWord codec64 t % 8 ≠ 0 := stackWF_tag64 wf
theorem inline_word_tagged_u32 {t : T} (wf : WF cfg32 (.stack t)) : toWord codec32 t % 4 ≠ 0 := stackWF_tag32 wf

/-- no test uses a mask that needs more alignment than the layout passed to the allocator requests -/
theorem tag_mask_le_align_u64 : ∀ p ∈ Gen.tagMasks64, p.2 + 1 ≤ Gen.layout64.2.2 := tagMask_le_align64
theorem tag_mask_le_align_u32 : ∀ p ∈ Gen.tagMasks32, p.2 + 1 ≤ Gen.layout32.2.2 := tagMask_le_align32
/-- all tests of one type use the same mask (7 for SetU64, 3 for SetU32) -/
theorem tag_masks_uniform : (∀ p ∈ Gen.tagMasks64, p.2 = 7) ∧ (∀ p ∈ Gen.tagMasks32, p.2 = 3) :=
  ⟨tagMasks64_coherent, tagMasks32_coherent⟩

/-- the model's header size and element size are the ones in the source's `Layout` computation -/
theorem layout_u64 : (headerBytes cfg64, elemBytes cfg64) = (Gen.layout64.1, Gen.layout64.2.1) := layout64_match
theorem layout_u32 : (headerBytes cfg32, elemBytes cfg32) = (Gen.layout32.1, Gen.layout32.2.1) := layout32_match

/-! ### 2. the header capacity is the allocated capacity -/

section generic
variable {c : Cfg} {D : Type}

/-- every well-formed heap value, in each of the three heap layouts: the header `cap` is the number of words
of the block's array, and it is positive (no zero-sized allocation) -/
theorem header_cap_is_allocated (ok : CfgOK c) {sz cap bits : Nat} {a : RH.Tbl} (wf : WF c (.heap sz cap bits a)) :
    cap = a.size ∧ 0 < cap := heap_cap_of_wf ok wf

/-- so the byte size recomputed from the header (`bytes_for_capacity(cap)`) is header + the words held -/
theorem block_bytes_from_header (ok : CfgOK c) {sz cap bits : Nat} {a : RH.Tbl} (wf : WF c (.heap sz cap bits a)) :
    blockBytes c (.heap sz cap bits a) = a.size * elemBytes c + headerBytes c := blockBytes_of_wf ok wf

/-- values without a block claim no bytes -/
theorem no_block_no_bytes (c : Cfg) (t : T) : blockBytes c .empty = 0 ∧ blockBytes c (.stack t) = 0 := ⟨rfl, rfl⟩

/-- preserved by `insert` (including growth, layout conversion and placeholder re-selection): whatever it
returns is well formed … -/
theorem insert_preserves_wf (ok : CfgOK c) (g : Rng D) (fuel : Nat) {r : Rp} (wf : WF c r) (e : Nat) (he : e < 2 ^ c.W)
    {d d' : D} {r' : Rp} {b : Bool} (h : insert c g fuel r e d = .ok ((r', b), d')) : WF c r' :=
  (insert_refines ok g fuel r e d r' b d' wf he h).wf
/-- … so a returned heap value has `cap = a.size`, `0 < cap` -/
theorem insert_header_cap (ok : CfgOK c) (g : Rng D) (fuel : Nat) {r : Rp} (wf : WF c r) (e : Nat) (he : e < 2 ^ c.W)
    {d d' : D} {sz cap bits : Nat} {a : RH.Tbl} {b : Bool}
    (h : insert c g fuel r e d = .ok ((.heap sz cap bits a, b), d')) : cap = a.size ∧ 0 < cap :=
  insert_heap_cap ok g fuel wf e he h

/-- preserved by `remove` -/
theorem remove_preserves_wf (ok : CfgOK c) (g : Rng D) (fuel : Nat) {r : Rp} (wf : WF c r) (e : Nat) (he : e < 2 ^ c.W)
    {d d' : D} {r' : Rp} {b : Bool} (h : remove c g fuel r e d = .ok ((r', b), d')) : WF c r' :=
  (remove_refines ok g fuel wf e he h).wf
theorem remove_header_cap (ok : CfgOK c) (g : Rng D) (fuel : Nat) {r : Rp} (wf : WF c r) (e : Nat) (he : e < 2 ^ c.W)
    {d d' : D} {sz cap bits : Nat} {a : RH.Tbl} {b : Bool}
    (h : remove c g fuel r e d = .ok ((.heap sz cap bits a, b), d')) : cap = a.size ∧ 0 < cap :=
  remove_heap_cap ok g fuel wf e he h

/-- at the end of every history of `insert`/`remove`/`contains`/`len` from any well-formed start -/
theorem history_header_cap (ok : CfgOK c) (g : Rng D) (fuel : Nat) (ops : List Op) (hops : ∀ op ∈ ops, op.InRange c.W)
    {r : Rp} (wf : WF c r) {d d' : D} {sz cap bits : Nat} {a : RH.Tbl} {outs : List Out}
    (h : runOps c g fuel r ops d = .ok ((.heap sz cap bits a, outs), d')) : cap = a.size ∧ 0 < cap :=
  run_heap_cap ok g fuel ops hops wf h

/-- the blocks made by the constructors, `clone`, `with_capacity_of` and `drain` -/
theorem ctor_wf (ok : CfgOK c) (g : Rng D) (cap bits : Nat) (hbits : bits < 2 ^ c.W) {d d' : D} {r : Rp}
    (h : withCapBits c g cap bits d = .ok (r, d')) : WF c r := (withCapBits_ok ok g cap bits hbits d d' r h).1
theorem ctor_max_wf (ok : CfgOK c) (g : Rng D) (cap mx : Nat) {d d' : D} {r : Rp}
    (h : withCapMax c g cap mx d = .ok (r, d')) : WF c r := (withCapMax_ok ok g cap mx d d' r h).1
theorem with_capacity_of_wf (ok : CfgOK c) {r : Rp} (wf : WF c r) : WF c (withCapOf r) ∧ capacity (withCapOf r) = capacity r :=
  ⟨(withCapOf_ok ok wf).1, (withCapOf_ok ok wf).2.2⟩
theorem clone_wf {r : Rp} (wf : WF c r) : WF c (clone r) ∧ capacity (clone r) = capacity r := ⟨wf, rfl⟩

end generic

/-! ### 3. the allocator calls of every operation, history and program -/

section calls
variable {c : Cfg} {D : Type}

/-- the reading with events is the operation itself: forgetting the events of `insertE` gives `insert`, for every
input, generator state and fuel, errors included (likewise `remove`, `collect`, `extend`, the operators) -/
theorem events_of_the_same_run (c : Cfg) (fresh : Bool) (g : Rng D) (fuel : Nat) (r : Rp) (e : Nat) (d : D) :
    dropEv2 (insertE c fresh g fuel r e d) = insert c g fuel r e d ∧
    dropEv2 (removeE c fresh g fuel r e d) = remove c g fuel r e d :=
  ⟨insertE_proj c fresh g fuel r e d, removeE_proj c fresh g fuel r e d⟩
theorem events_of_the_same_run_bulk (c : Cfg) (fresh : Bool) (g : Rng D) (fuel : Nat) (r : Rp) (xs : List Nat) (d : D) :
    dropEv1 (fromIterE c fresh g fuel xs d) = fromIter c g fuel xs d ∧
    dropEv1 (extendE c fresh g fuel r xs d) = extend c g fuel r xs d :=
  ⟨fromIterE_proj c fresh g fuel xs d, extendE_proj c fresh g fuel r xs d⟩
theorem events_of_the_same_run_operators (c : Cfg) (fresh : Bool) (g : Rng D) (fuel : Nat) (a b : Rp) (d : D) :
    dropEv1 (unionRefE c fresh g fuel a b d) = unionRef c g fuel a b d ∧
    dropEv1 (unionOwnE c fresh g fuel a b d) = unionOwn c g fuel a b d ∧
    dropEv1 (diffRefE c fresh g fuel a b d) = diffRef c g fuel a b d ∧
    dropEv1 (diffOwnE c fresh g fuel a b d) = diffOwn c g fuel a b d :=
  ⟨unionRefE_proj c fresh g fuel a b d, unionOwnE_proj c fresh g fuel a b d, diffRefE_proj c fresh g fuel a b d,
   diffOwnE_proj c fresh g fuel a b d⟩

/-- every `insert` (every layout, every growth / conversion / placeholder branch, any nesting of rebuilds, every
generator outcome): run against an allocator ledger that holds the set's block — and anything else `L` —, every
call is legal and the ledger ends holding exactly the resulting set's block and `L`.  In particular the old block
is released exactly once, with the size recomputed from its header, after the new one was obtained. -/
theorem insert_calls_balanced (fresh : Bool) (g : Rng D) (fuel : Nat) {r : Rp} {e : Nat} {d d' : D} {res : Rp × Bool}
    {evs : List Ev} (h : insertE c fresh g fuel r e d = .ok ((res, evs), d')) (L : List Nat) :
    runEv (owned c r ++ L) evs = some (owned c res.1 ++ L) :=
  (insertE_balanced fresh g fuel).ok h L
/-- `remove` (an inline set is rebuilt by `collect`; a table or bitmap keeps its block) -/
theorem remove_calls_balanced (fresh : Bool) (g : Rng D) (fuel : Nat) {r : Rp} {e : Nat} {d d' : D} {res : Rp × Bool}
    {evs : List Ev} (h : removeE c fresh g fuel r e d = .ok ((res, evs), d')) (L : List Nat) :
    runEv (owned c r ++ L) evs = some (owned c res.1 ++ L) :=
  removeE_balanced_ok fresh g fuel h L
/-- `collect()` starts with nothing and ends owning exactly the result's block -/
theorem collect_calls_balanced (fresh : Bool) (g : Rng D) (fuel : Nat) {xs : List Nat} {d d' : D} {r : Rp}
    {evs : List Ev} (h : fromIterE c fresh g fuel xs d = .ok ((r, evs), d')) (L : List Nat) :
    runEv L evs = some (owned c r ++ L) :=
  fromIterE_balanced fresh g fuel h L

/-- **programs**: any sequence of insert / remove / extend / collect / clone / with_capacity_of / hinted
constructors / drop (of a set, or of the consuming or draining iterator made from it) / the four operator forms
over any number of simultaneously live sets, for every generator: whenever the ledger holds exactly the live
sets' blocks before an operation, every call of the operation is legal and the ledger holds exactly the live
sets' blocks afterwards -/
theorem step_keeps_ledger (fresh : Bool) (g : Rng D) (fuel : Nat) {s s' : Slots} {op : POp} {d d' : D} {evs : List Ev}
    (h : pstep c fresh g fuel s op d = .ok ((s', evs), d')) {L : List Nat} (hL : L.Perm (ownedAll c s)) :
    ∃ L', runEv L evs = some L' ∧ L'.Perm (ownedAll c s') :=
  pstep_ledger fresh g fuel h hL
theorem program_keeps_ledger (fresh : Bool) (g : Rng D) (fuel : Nat) (ops : List POp) {s s' : Slots} {d d' : D}
    {evs : List Ev} (h : prun c fresh g fuel s ops d = .ok ((s', evs), d')) {L : List Nat} (hL : L.Perm (ownedAll c s)) :
    ∃ L', runEv L evs = some L' ∧ L'.Perm (ownedAll c s') :=
  prun_ledger fresh g fuel ops h hL
/-- … and from an empty heap, after the program and the drop of every set, nothing is live: every block obtained
was released exactly once, with its size -/
theorem program_releases_everything (fresh : Bool) (g : Rng D) (fuel n : Nat) (ops : List POp) {s' : Slots} {d d' : D}
    {evs : List Ev} (h : prun c fresh g fuel (List.replicate n .empty) ops d = .ok ((s', evs), d')) :
    runEv [] (evs ++ dropAll c s') = some [] :=
  program_balanced fresh g fuel n ops h

/-- the ledger rejects what the property forbids: a second release of the same block, a release with another
size, a release of something never obtained -/
example : runEv [] [.alloc 40, .free 40, .free 40] = none := by decide
example : runEv [] [.alloc 40, .free 48] = none := by decide
example : runEv [] [.alloc 40, .realloc 48 64] = none := by decide
example : runEv [] [.alloc 40] = some [40] := by decide      -- a leak is visible as a non-empty ledger

end calls

/-- the allocator is called directly in exactly the functions the event reading accounts for (read off the current
source by the translator), with the alignment of the model -/
theorem alloc_sites_match : Gen.allocSites64 = allocSites true ∧ Gen.allocSites32 = allocSites false ∧
    Gen.allocSitesOther = [] ∧ (alignBytes cfg64, alignBytes cfg32) = (Gen.layout64.2.2, Gen.layout32.2.2) :=
  ⟨allocSites64_match, allocSites32_match, allocSitesOther_none, align_match⟩

theorem program_releases_everything_u64 {D : Type} (g : Rng D) (fuel n : Nat) (ops : List POp) {s' : Slots} {d d' : D}
    {evs : List Ev} (h : prun cfg64 true g fuel (List.replicate n .empty) ops d = .ok ((s', evs), d')) :
    runEv [] (evs ++ dropAll cfg64 s') = some [] := program_balanced true g fuel n ops h
theorem program_releases_everything_u32 {D : Type} (g : Rng D) (fuel n : Nat) (ops : List POp) {s' : Slots} {d d' : D}
    {evs : List Ev} (h : prun cfg32 false g fuel (List.replicate n .empty) ops d = .ok ((s', evs), d')) :
    runEv [] (evs ++ dropAll cfg32 s') = some [] := program_balanced false g fuel n ops h

/-- a concrete program (SetU64, scripted draws): an insert that leaves the word, a clone, growth of the clone,
a borrowed union, drops — its calls, in order -/
example : (match prun cfg64 true scriptRng 6 (List.replicate 3 .empty)
      [.ins 0 (2 ^ 63), .clone 1 0, .ins 1 5, .ins 1 (2 ^ 62 + 1), .uniRef 2 0 1, .drop 0] [7, 7, 7, 7, 7, 7] with
    | .ok ((_, evs), _) => evs
    | .error _ => []) =
    [.alloc 32, .alloc 32, .alloc 48, .free 32, .alloc 48, .free 32] := by decide +kernel
/-- SetU32: an inline set that leaves the word for a bitmap, grown in place (`realloc`), cloned, the clone converted, a by-value difference -/
example : (match prun cfg32 false scriptRng 6 (List.replicate 2 .empty)
      [.ins 0 0, .ins 0 1, .ins 0 2, .ins 0 3, .ins 0 4, .ins 0 5, .ins 0 6, .ins 0 200, .clone 1 0, .ins 1 (2 ^ 31),
       .difOwn 0 1 0, .drop 0] [7, 7, 7, 7, 7, 7] with
    | .ok ((_, evs), _) => evs
    | .error _ => []) =
    [.alloc 16, .realloc 16 44, .alloc 44, .alloc 80, .free 44, .free 44, .free 80] := by decide +kernel

/-! ### instances -/

theorem header_cap_is_allocated_u64 {sz cap bits : Nat} {a : RH.Tbl} (wf : WF cfg64 (.heap sz cap bits a)) :
    cap = a.size ∧ 0 < cap := heap_cap_of_wf cfg64_ok wf
theorem header_cap_is_allocated_u32 {sz cap bits : Nat} {a : RH.Tbl} (wf : WF cfg32 (.heap sz cap bits a)) :
    cap = a.size ∧ 0 < cap := heap_cap_of_wf cfg32_ok wf

/-- SetU64: 24 header bytes + 8 per word -/
theorem block_bytes_u64 {sz cap bits : Nat} {a : RH.Tbl} (wf : WF cfg64 (.heap sz cap bits a)) :
    blockBytes cfg64 (.heap sz cap bits a) = a.size * 8 + 24 := blockBytes_of_wf cfg64_ok wf
/-- SetU32: 12 header bytes + 4 per word -/
theorem block_bytes_u32 {sz cap bits : Nat} {a : RH.Tbl} (wf : WF cfg32 (.heap sz cap bits a)) :
    blockBytes cfg32 (.heap sz cap bits a) = a.size * 4 + 12 := blockBytes_of_wf cfg32_ok wf

theorem history_header_cap_u64 {D : Type} (g : Rng D) (fuel : Nat) (ops : List Op) (hops : ∀ op ∈ ops, op.InRange 64)
    {r : Rp} (wf : WF cfg64 r) {d d' : D} {sz cap bits : Nat} {a : RH.Tbl} {outs : List Out}
    (h : runOps cfg64 g fuel r ops d = .ok ((.heap sz cap bits a, outs), d')) : cap = a.size ∧ 0 < cap :=
  run_heap_cap cfg64_ok g fuel ops hops wf h
theorem history_header_cap_u32 {D : Type} (g : Rng D) (fuel : Nat) (ops : List Op) (hops : ∀ op ∈ ops, op.InRange 32)
    {r : Rp} (wf : WF cfg32 r) {d d' : D} {sz cap bits : Nat} {a : RH.Tbl} {outs : List Out}
    (h : runOps cfg32 g fuel r ops d = .ok ((.heap sz cap bits a, outs), d')) : cap = a.size ∧ 0 < cap :=
  run_heap_cap cfg32_ok g fuel ops hops wf h

/-! ### the hypotheses are satisfiable: reachable states in each heap layout of both types -/

example : (3 : Nat) = (#[401016175510691840, 360712192, 0] : RH.Tbl).size ∧ 0 < 3 := header_cap_is_allocated_u64 Demo.bitmap64_wf
example : blockBytes cfg64 Demo.plain64 = 4 * 8 + 24 := block_bytes_u64 Demo.plain64_wf
example : blockBytes cfg64 Demo.dense64 = 1 * 8 + 24 := block_bytes_u64 Demo.dense64_wf
example : blockBytes cfg32 Demo.bitmap32 = 3 * 4 + 12 := block_bytes_u32 Demo.bitmap32_wf
example : blockBytes cfg32 Demo.plain32 = 4 * 4 + 12 := block_bytes_u32 Demo.plain32_wf
example : blockBytes cfg32 Demo.dense32 = 2 * 4 + 12 := block_bytes_u32 Demo.dense32_wf
example : toWord codec64 ⟨3, 69946533860081667⟩ % 8 ≠ 0 := inline_word_tagged_u64 Demo.inline64_wf
example : toWord codec32 ⟨3, 69946533860081667⟩ % 4 ≠ 0 := inline_word_tagged_u32 Demo.inline32_wf

end C06

#print axioms C06.tag_coherent_u64
#print axioms C06.tag_coherent_u32
#print axioms C06.header_cap_is_allocated
#print axioms C06.history_header_cap
