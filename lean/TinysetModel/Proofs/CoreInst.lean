import TinysetModel.Proofs.Refine
import TinysetModel.Proofs.CoreOK
/-! The core refinement interface `CoreOK` is inhabited for every configuration satisfying `CfgOK`,
every RNG oracle and every fuel: it is exactly the four assembled theorems of `Proofs/Refine.lean`. -/
namespace SC

variable {c : Cfg} {D : Type}

theorem coreOK (ok : CfgOK c) (g : Rng D) (fuel : Nat) : CoreOK c g fuel where
  ins := insert_refines ok g fuel
  rem := fun _ e _ _ _ _ wf he h => remove_refines ok g fuel wf e he h
  con := fun _ e wf he => contains_refines ok wf e he
  abs := fun _ wf => absOK_of_wf ok wf

end SC
#print axioms SC.coreOK
