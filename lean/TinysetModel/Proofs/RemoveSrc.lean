import TinysetModel.Proofs.ContainsSrc
import TinysetModel.Proofs.CfgInst
/-! `remove` of the model IS `remove` of the current source on the three heap layouts: `Generated/Loops.lean` holds the
bodies of the `Dense`, `Heap` and `Big` arms of `SetU64::remove` / `SetU32::remove` translated on every run
(references into the slice, `*sz = *sz - 1`, `s.sz -= 1`, the nested `p_lookfor` / `p_remove` calls); here: for every
element of the element type they return the answer, member count and slice that `SC.remove` returns on the
corresponding representation (the `Empty` and inline arms are pinned by shape; the inline arm is `collect()`). -/
namespace SC
open RH (Tbl get put)

variable {D : Type}

/-- what an arm (answer, new member count, slice afterwards) means for the set -/
def armOut (cap bits : Nat) (d : D) : Except String ((Bool × Nat) × Array Nat) → Except Err ((Rp × Bool) × D)
  | .ok ((b, sz), a) => .ok ((.heap sz cap bits a, b), d)
  | .error _ => .error .unreachable

theorem clearBit_eq (c : Cfg) (w off : Nat) : w &&& Gen.RI.notW c.W (1 <<< off) = clearBit c w off := rfl

/-! ### `setu64.rs` -/

theorem remove_dense_64_eq (g : Rng D) (fuel e sz cap : Nat) (a : Tbl) (hc : cap = a.size) (d : D) :
    remove cfg64 g fuel (.heap sz cap 64 a) e d = armOut cap 64 d (Gen.remove_dense_64 e sz a) := by
  subst hc
  have hd : isDense cfg64 64 = true := by simp [isDense, cfg64]
  simp only [Gen.remove_dense_64, remove, hd, if_true, Gen.RI.idx, Gen.RI.set, RH.get.eq_1, RH.put.eq_1, and_bit_ne_zero, and_63]
  show _ = armOut _ _ _ _
  by_cases hk : e >>> 6 < a.size
  · simp only [show cfg64.dShift = 6 from rfl, show cfg64.W = 64 from rfl, hk, if_true]
    cases hp : (a.getD (e >>> 6) 0).testBit (e % 64) <;>
      simp [armOut, pure, StateT.pure, Except.pure, clearBit, Gen.RI.notW, show cfg64.W = 64 from rfl]
  · simp only [show cfg64.dShift = 6 from rfl, hk, if_false]
    rfl

theorem remove_heap_64_eq (g : Rng D) (fuel e sz cap bits : Nat) (a : Tbl) (he : e < 2 ^ 64) (hb : 0 < bits ∧ bits < 64)
    (d : D) : remove cfg64 g fuel (.heap sz cap bits a) e d = armOut cap bits d (Gen.remove_heap_64 e sz bits a) := by
  have h1 : isDense cfg64 bits = false := by simp [isDense, cfg64]; omega
  have h2 : isPlain cfg64 bits = false := by simp [isPlain, cfg64]; omega
  simp only [Gen.remove_heap_64, remove, h1, h2, compute_array_bits_64_eq e he, split_64_eq e bits hb.1,
    RH.p_lookfor_64_eq, foundIdx_conv, Gen.RI.idx, Gen.RI.set, RH.get.eq_1, RH.put.eq_1, Bool.false_eq_true, if_false,
    RH.p_remove_64_eq]
  by_cases hcab : cfg64.cab e < bits
  · simp only [hcab, if_true]; rfl
  · simp only [hcab, if_false]
    have hlt : e / bits < 2 ^ (64 - bits) := by
      have h := cfg64_ok.cab_bound e bits he hb.1 hb.2 (by omega)
      have h64 : cfg64.W = 64 := rfl
      rw [h64] at h
      exact Nat.lt_of_le_of_lt (Nat.div_le_self e bits) h
    have hmod : modW cfg64 ((e / bits) <<< bits) = (e / bits) <<< bits :=
      shiftLeft_mod_of_lt (W := 64) (by omega) hlt
    cases RH.lookfor (e / bits) a bits with
    | found idx =>
      simp only []
      have hbit : (decide ((a.getD idx 0 &&& (1 <<< (e % bits))) ≠ 0)) = (a.getD idx 0).testBit (e % bits) :=
        and_bit_ne_zero _ _
      by_cases ht : (a.getD idx 0).testBit (e % bits) = true
      · have hne : (a.getD idx 0 &&& (1 <<< (e % bits))) ≠ 0 := by
          have := hbit; rw [ht] at this; exact of_decide_eq_true this
        simp only [ht, hne, if_true, ne_eq, not_false_eq_true, clearBit_eq cfg64, hmod,
          show Gen.RI.notW 64 = Gen.RI.notW cfg64.W from rfl]
        split <;> rfl
      · have hf : (a.getD idx 0).testBit (e % bits) = false := by simpa using ht
        have heq : (a.getD idx 0 &&& (1 <<< (e % bits))) = 0 := by
          have := hbit; rw [hf] at this; simpa using this
        simp only [hf, heq, Bool.false_eq_true, if_false, ne_eq, not_true_eq_false]
        rfl
    | empty i => rfl
    | needInsert => rfl

theorem remove_big_64_eq (g : Rng D) (fuel e sz cap bits : Nat) (a : Tbl) (hb : bits = 0 ∨ bits > 64) (d : D) :
    remove cfg64 g fuel (.heap sz cap bits a) e d = armOut cap bits d (Gen.remove_big_64 e sz bits a) := by
  have h1 : isDense cfg64 bits = false := by simp [isDense, cfg64]; omega
  have h2 : isPlain cfg64 bits = true := by simp [isPlain, cfg64]; omega
  simp only [Gen.remove_big_64, remove, h1, h2, RH.p_remove_64_eq, Bool.false_eq_true, if_false, if_true]
  by_cases hp : e = bits
  · simp only [hp, if_true]; rfl
  · simp only [hp, if_false]
    cases hr : (RH.premove (if e = 0 then bits else e) a 0).1 <;>
      simp [armOut, pure, StateT.pure, Except.pure, hr]

/-! ### `setu32.rs` (tables of at most 2^31 buckets) -/

theorem remove_dense_32_eq (g : Rng D) (fuel e sz cap : Nat) (a : Tbl) (hc : cap = a.size) (d : D) :
    remove cfg32 g fuel (.heap sz cap 32 a) e d = armOut cap 32 d (Gen.remove_dense_32 e sz a) := by
  subst hc
  have hd : isDense cfg32 32 = true := by simp [isDense, cfg32]
  simp only [Gen.remove_dense_32, remove, hd, if_true, Gen.RI.idx, Gen.RI.set, RH.get.eq_1, RH.put.eq_1, and_bit_ne_zero, and_31]
  show _ = armOut _ _ _ _
  by_cases hk : e >>> 5 < a.size
  · simp only [show cfg32.dShift = 5 from rfl, show cfg32.W = 32 from rfl, hk, if_true]
    cases hp : (a.getD (e >>> 5) 0).testBit (e % 32) <;>
      simp [armOut, pure, StateT.pure, Except.pure, clearBit, Gen.RI.notW, show cfg32.W = 32 from rfl]
  · simp only [show cfg32.dShift = 5 from rfl, hk, if_false]
    rfl

theorem remove_heap_32_eq (g : Rng D) (fuel e sz cap bits : Nat) (a : Tbl) (he : e < 2 ^ 32) (hb : 0 < bits ∧ bits < 32)
    (hn : a.size ≤ 2 ^ 31) (d : D) : remove cfg32 g fuel (.heap sz cap bits a) e d = armOut cap bits d (Gen.remove_heap_32 e sz bits a) := by
  have h1 : isDense cfg32 bits = false := by simp [isDense, cfg32]; omega
  have h2 : isPlain cfg32 bits = false := by simp [isPlain, cfg32]; omega
  simp only [Gen.remove_heap_32, remove, h1, h2, compute_array_bits_32_eq e he, split_32_eq e bits hb.1,
    RH.p_lookfor_32_eq _ a _ (by omega), foundIdx_conv, Gen.RI.idx, Gen.RI.set, RH.get.eq_1, RH.put.eq_1, Bool.false_eq_true, if_false,
    RH.p_remove_32_eq _ a _ hn]
  by_cases hcab : cfg32.cab e < bits
  · simp only [hcab, if_true]; rfl
  · simp only [hcab, if_false]
    have hlt : e / bits < 2 ^ (32 - bits) := by
      have h := cfg32_ok.cab_bound e bits he hb.1 hb.2 (by omega)
      have h32w : cfg32.W = 32 := rfl
      rw [h32w] at h
      exact Nat.lt_of_le_of_lt (Nat.div_le_self e bits) h
    have hmod : modW cfg32 ((e / bits) <<< bits) = (e / bits) <<< bits :=
      shiftLeft_mod_of_lt (W := 32) (by omega) hlt
    cases RH.lookfor (e / bits) a bits with
    | found idx =>
      simp only []
      have hbit : (decide ((a.getD idx 0 &&& (1 <<< (e % bits))) ≠ 0)) = (a.getD idx 0).testBit (e % bits) :=
        and_bit_ne_zero _ _
      by_cases ht : (a.getD idx 0).testBit (e % bits) = true
      · have hne : (a.getD idx 0 &&& (1 <<< (e % bits))) ≠ 0 := by
          have := hbit; rw [ht] at this; exact of_decide_eq_true this
        simp only [ht, hne, if_true, ne_eq, not_false_eq_true, clearBit_eq cfg32, hmod,
          show Gen.RI.notW 32 = Gen.RI.notW cfg32.W from rfl]
        split <;> rfl
      · have hf : (a.getD idx 0).testBit (e % bits) = false := by simpa using ht
        have heq : (a.getD idx 0 &&& (1 <<< (e % bits))) = 0 := by
          have := hbit; rw [hf] at this; simpa using this
        simp only [hf, heq, Bool.false_eq_true, if_false, ne_eq, not_true_eq_false]
        rfl
    | empty i => rfl
    | needInsert => rfl

theorem remove_big_32_eq (g : Rng D) (fuel e sz cap bits : Nat) (a : Tbl) (hb : bits = 0 ∨ bits > 32)
    (hn : a.size ≤ 2 ^ 31) (d : D) :
    remove cfg32 g fuel (.heap sz cap bits a) e d = armOut cap bits d (Gen.remove_big_32 e sz bits a) := by
  have h1 : isDense cfg32 bits = false := by simp [isDense, cfg32]; omega
  have h2 : isPlain cfg32 bits = true := by simp [isPlain, cfg32]; omega
  simp only [Gen.remove_big_32, remove, h1, h2, RH.p_remove_32_eq _ a _ hn, Bool.false_eq_true, if_false, if_true]
  by_cases hp : e = bits
  · simp only [hp, if_true]; rfl
  · simp only [hp, if_false]
    cases hr : (RH.premove (if e = 0 then bits else e) a 0).1 <;>
      simp [armOut, pure, StateT.pure, Except.pure, hr]

end SC

#print axioms SC.remove_heap_64_eq
#print axioms SC.remove_heap_32_eq
