import TinysetModel.Model.Iter
import TinysetModel.Proofs.WF
/-! Generic part of the iterator proofs: set bits of a word from a position (`seg`), `findBit`,
the generic "bitmap rows" scan `nextGen` (of which `nextDense` and `nextHeap` are instances). -/
namespace SC
open RH

/-! ### set bits of `w` in `[frm, L)` -/

def seg (w L frm : Nat) : List Nat := (List.range' frm (L - frm)).filter (fun b => w.testBit b)

theorem bitsOf_eq_seg (w L : Nat) : bitsOf w L = seg w L 0 := by
  unfold bitsOf seg; rw [List.range_eq_range', Nat.sub_zero]

theorem mem_seg {w L frm j : Nat} : j ∈ seg w L frm ↔ frm ≤ j ∧ j < L ∧ w.testBit j = true := by
  unfold seg
  rw [List.mem_filter, List.mem_range'_1]
  constructor
  · rintro ⟨⟨h1, h2⟩, h3⟩; exact ⟨h1, by omega, h3⟩
  · rintro ⟨h1, h2, h3⟩; exact ⟨⟨h1, by omega⟩, h3⟩

theorem seg_nil {w L frm : Nat} (h : L ≤ frm) : seg w L frm = [] := by
  unfold seg
  have : L - frm = 0 := by omega
  rw [this]; rfl

theorem seg_step {w L frm : Nat} (h : frm < L) :
    seg w L frm = (if w.testBit frm then [frm] else []) ++ seg w L (frm + 1) := by
  unfold seg
  have : L - frm = (L - (frm + 1)) + 1 := by omega
  rw [this, List.range'_succ, List.filter_cons]
  split <;> rfl

theorem seg_zero (L frm : Nat) : seg 0 L frm = [] := by
  unfold seg
  rw [List.filter_eq_nil_iff]
  intro b _
  simp

theorem findBit_seg (w L : Nat) : ∀ (fuel frm : Nat), L - frm ≤ fuel →
    match findBit w L fuel frm with
    | some b => seg w L frm = b :: seg w L (b + 1) ∧ frm ≤ b ∧ b < L
    | none => seg w L frm = []
  | 0, frm, h => by
    unfold findBit
    exact seg_nil (by omega)
  | f + 1, frm, h => by
    unfold findBit
    by_cases h1 : frm < L
    · rw [if_pos h1]
      by_cases h2 : w.testBit frm = true
      · rw [if_pos h2]
        refine ⟨?_, Nat.le_refl _, h1⟩
        rw [seg_step h1, if_pos h2]; rfl
      · rw [if_neg h2]
        have ih := findBit_seg w L f (frm + 1) (by omega)
        have e : seg w L frm = seg w L (frm + 1) := by
          rw [seg_step h1, if_neg h2]; rfl
        rw [e]
        cases hfb : findBit w L f (frm + 1) with
        | none => rw [hfb] at ih; exact ih
        | some b =>
          rw [hfb] at ih
          exact ⟨ih.1, by omega, ih.2.2⟩
    · rw [if_neg h1]
      exact seg_nil (by omega)

/-- positional reading of `findBit` -/
theorem findBit_some {w L fuel frm b : Nat} (hf : L - frm ≤ fuel) (h : findBit w L fuel frm = some b) :
    frm ≤ b ∧ b < L ∧ w.testBit b = true ∧ ∀ j, frm ≤ j → j < b → w.testBit j = false := by
  have := findBit_seg w L fuel frm hf
  rw [h] at this
  obtain ⟨e, h1, h2⟩ := this
  have hb : b ∈ seg w L frm := by rw [e]; exact List.mem_cons_self
  refine ⟨h1, h2, (mem_seg.1 hb).2.2, ?_⟩
  intro j hj1 hj2
  cases ht : w.testBit j with
  | false => rfl
  | true =>
    have hj : j ∈ seg w L frm := mem_seg.2 ⟨hj1, by omega, ht⟩
    rw [e, List.mem_cons] at hj
    rcases hj with hj | hj
    · omega
    · have := (mem_seg.1 hj).1; omega

theorem findBit_none {w L fuel frm : Nat} (hf : L - frm ≤ fuel) (h : findBit w L fuel frm = none) :
    ∀ j, frm ≤ j → j < L → w.testBit j = false := by
  have := findBit_seg w L fuel frm hf
  rw [h] at this
  intro j h1 h2
  cases ht : w.testBit j with
  | false => rfl
  | true =>
    have hj : j ∈ seg w L frm := mem_seg.2 ⟨h1, h2, ht⟩
    rw [this] at hj; cases hj

/-! ### rows -/

def row (L : Nat) (f : Nat → Nat → Nat) (a : Tbl) (j : Nat) : List Nat := (bitsOf (get a j) L).map (f j)

def rows (L : Nat) (f : Nat → Nat → Nat) (a : Tbl) (i n : Nat) : List Nat :=
  (List.range' i n).flatMap (row L f a)

/-- what is left to yield from position `(i, wb)` -/
def restAt (L : Nat) (f : Nat → Nat → Nat) (a : Tbl) (i wb : Nat) : List Nat :=
  (seg (get a i) L wb).map (f i) ++ rows L f a (i + 1) (a.size - (i + 1))

theorem row_oob {L : Nat} {f : Nat → Nat → Nat} {a : Tbl} {j : Nat} (h : a.size ≤ j) : row L f a j = [] := by
  unfold row; rw [get_oob h, bitsOf_eq_seg, seg_zero]; rfl

theorem rows_eq_restAt (L : Nat) (f : Nat → Nat → Nat) (a : Tbl) (i : Nat) :
    rows L f a i (a.size - i) = restAt L f a i 0 := by
  unfold restAt
  by_cases h : i < a.size
  · have : a.size - i = (a.size - (i + 1)) + 1 := by omega
    unfold rows
    rw [this, List.range'_succ, List.flatMap_cons]
    unfold row
    rw [bitsOf_eq_seg]
  · have e1 : a.size - i = 0 := by omega
    have e2 : a.size - (i + 1) = 0 := by omega
    rw [e1, e2, get_oob (by omega), seg_zero]
    rfl

theorem restAt_oob {L : Nat} {f : Nat → Nat → Nat} {a : Tbl} {i wb : Nat} (h : a.size ≤ i) :
    restAt L f a i wb = [] := by
  unfold restAt
  have e2 : a.size - (i + 1) = 0 := by omega
  rw [e2, get_oob h, seg_zero]; rfl

/-! ### the generic scan -/

def nextGen (L : Nat) (f : Nat → Nat → Nat) (a : Tbl) : (fuel : Nat) → Cursor → Except IErr (Option Nat × Cursor)
  | 0, k => .ok (none, k)
  | fu + 1, k =>
    if k.index < a.size then
      match findBit (get a k.index) L (L - k.whichbit) k.whichbit with
      | some b => do
        let k' ← decLeft { k with whichbit := b + 1 }
        pure (some (f k.index b), k')
      | none => nextGen L f a fu { k with index := k.index + 1, whichbit := 0 }
    else .ok (none, k)

theorem nextGen_spec (L : Nat) (f : Nat → Nat → Nat) (a : Tbl) : ∀ (fuel : Nat) (k : Cursor),
    a.size - k.index + 1 ≤ fuel →
    k.szLeft = (restAt L f a k.index k.whichbit).length →
    ∃ i' wb', nextGen L f a fuel k =
        .ok ((restAt L f a k.index k.whichbit).head?,
             { k with index := i', whichbit := wb', szLeft := k.szLeft - 1 }) ∧
      restAt L f a i' wb' = (restAt L f a k.index k.whichbit).tail ∧
      (restAt L f a k.index k.whichbit ≠ [] → 1 ≤ wb')
  | 0, k, hf, _ => by omega
  | fu + 1, k, hf, hsz => by
    unfold nextGen
    by_cases hi : k.index < a.size
    · rw [if_pos hi]
      have hfb := findBit_seg (get a k.index) L (L - k.whichbit) k.whichbit (Nat.le_refl _)
      cases hfind : findBit (get a k.index) L (L - k.whichbit) k.whichbit with
      | some b =>
        rw [hfind] at hfb
        obtain ⟨hseg, hb1, hb2⟩ := hfb
        have hR : restAt L f a k.index k.whichbit = f k.index b :: restAt L f a k.index (b + 1) := by
          unfold restAt; rw [hseg]; rfl
        have hpos : k.szLeft ≠ 0 := by rw [hsz, hR]; simp
        refine ⟨k.index, b + 1, ?_, ?_, fun _ => by omega⟩
        · rw [hR]
          simp only [decLeft, hpos, if_false, bind, Except.bind, pure, Except.pure, List.head?_cons]
        · rw [hR]; rfl
      | none =>
        rw [hfind] at hfb
        have hR : restAt L f a k.index k.whichbit = restAt L f a (k.index + 1) 0 := by
          rw [← rows_eq_restAt]
          unfold restAt; rw [hfb]; rfl
        have ih := nextGen_spec L f a fu { k with index := k.index + 1, whichbit := 0 }
          (by show a.size - (k.index + 1) + 1 ≤ fu; omega)
          (by show k.szLeft = _; rw [hsz, hR])
        obtain ⟨i', wb', h1, h2, h3⟩ := ih
        refine ⟨i', wb', ?_, ?_, ?_⟩
        · rw [hR]; exact h1
        · rw [hR]; exact h2
        · rw [hR]; exact h3
    · rw [if_neg hi]
      have hR : restAt L f a k.index k.whichbit = [] := restAt_oob (by omega)
      rw [hR] at hsz ⊢
      refine ⟨k.index, k.whichbit, ?_, hR, fun h => absurd rfl h⟩
      have : k.szLeft - 1 = k.szLeft := by rw [hsz]; rfl
      rw [this]; rfl

/-- `nextDense` is the generic scan -/
theorem nextDense_eq (c : Cfg) (a : Tbl) : ∀ (fuel : Nat) (k : Cursor),
    nextDense c a fuel k = nextGen c.W (fun i b => i * 2 ^ c.dShift + b) a fuel k
  | 0, _ => rfl
  | fu + 1, k => by
    unfold nextDense nextGen
    dsimp only
    by_cases hi : k.index < a.size
    · rw [if_pos hi, if_pos hi]
      cases findBit (get a k.index) c.W (c.W - k.whichbit) k.whichbit with
      | some b => rfl
      | none => exact nextDense_eq c a fu _
    · rw [if_neg hi, if_neg hi]

/-- `nextHeap` is the generic scan (the cursor's `bits` never changes) -/
theorem nextHeap_eq (a : Tbl) (B : Nat) : ∀ (fuel : Nat) (k : Cursor), k.bits = B →
    nextHeap a fuel k = nextGen B (fun i b => (get a i >>> B) * B + b) a fuel k
  | 0, _, _ => rfl
  | fu + 1, k, hB => by
    unfold nextHeap nextGen
    subst hB
    dsimp only
    by_cases hi : k.index < a.size
    · rw [if_pos hi, if_pos hi]
      cases findBit (get a k.index) k.bits (k.bits - k.whichbit) k.whichbit with
      | some b => rfl
      | none => exact nextHeap_eq a k.bits fu _ rfl
    · rw [if_neg hi, if_neg hi]

end SC
