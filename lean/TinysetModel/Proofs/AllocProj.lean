import TinysetModel.Model.Alloc
import TinysetModel.Proofs.Rebuild
/-! The event reading of the operations (`Model/Alloc.lean`) computes the same results as the operations
themselves: forgetting the events of `insertE`, `removeE`, `extendE`, `fromIterE`, the operator forms gives
`insert`, `remove`, `extend`, `fromIter`, … for every input and generator state, failures included. -/
namespace SC
open RH (Tbl get put)

variable {D : Type}

/-- forget the events -/
def dropEv2 {D : Type} : Except Err (((Rp × Bool) × List Ev) × D) → Except Err ((Rp × Bool) × D)
  | .ok ((res, _), d) => .ok (res, d)
  | .error e => .error e

def dropEv1 {D : Type} : Except Err ((Rp × List Ev) × D) → Except Err (Rp × D)
  | .ok ((res, _), d) => .ok (res, d)
  | .error e => .error e

def ProjE {D : Type} (recE : InsE D) (rec : Ins D) : Prop := ∀ r e d, dropEv2 (recE r e d) = rec r e d

theorem ProjE.ok {recE : InsE D} {rec : Ins D} (h : ProjE recE rec) {r : Rp} {e : Nat} {d d1 : D}
    {res : Rp × Bool} {t : List Ev} (hr : recE r e d = .ok ((res, t), d1)) : rec r e d = .ok (res, d1) := by
  have := h r e d
  rw [hr] at this
  exact this.symm

theorem ProjE.err {recE : InsE D} {rec : Ins D} (h : ProjE recE rec) {r : Rp} {e : Nat} {d : D}
    {x : Err} (hr : recE r e d = .error x) : rec r e d = .error x := by
  have := h r e d
  rw [hr] at this
  exact this.symm

theorem dropEv2_bind {α : Type} (m : M D α) (f : α → M D ((Rp × Bool) × List Ev)) (f' : α → M D (Rp × Bool))
    (h : ∀ x d, dropEv2 (f x d) = f' x d) (d : D) : dropEv2 ((m >>= f) d) = (m >>= f') d := by
  simp only [bind, StateT.bind, Except.bind]
  cases m d with
  | error e => rfl
  | ok p => exact h p.1 p.2

theorem dropEv1_bind {α : Type} (m : M D α) (f : α → M D (Rp × List Ev)) (f' : α → M D Rp)
    (h : ∀ x d, dropEv1 (f x d) = f' x d) (d : D) : dropEv1 ((m >>= f) d) = (m >>= f') d := by
  simp only [bind, StateT.bind, Except.bind]
  cases m d with
  | error e => rfl
  | ok p => exact h p.1 p.2

theorem insertAllE_proj_aux {recE : InsE D} {rec : Ins D} (h : ProjE recE rec) (xs : List Nat) :
    ∀ (r : Rp) (t0 : List Ev) (d : D),
      dropEv1 (xs.foldlM (fun (acc : Rp × List Ev) x => (do
          let ((r', _), t) ← recE acc.1 x
          pure (r', acc.2 ++ t) : M D (Rp × List Ev))) (r, t0) d)
        = insertAll rec r xs d := by
  induction xs with
  | nil => intro r t0 d; rfl
  | cons x xs ih =>
    intro r t0 d
    simp only [insertAll, List.foldlM_cons, bind, StateT.bind, Except.bind]
    cases hr : recE r x d with
    | error y => rw [h.err hr]; rfl
    | ok p =>
      obtain ⟨⟨⟨r1, b⟩, t⟩, d1⟩ := p
      rw [h.ok hr]
      exact ih r1 (t0 ++ t) d1

theorem insertAllE_proj {recE : InsE D} {rec : Ins D} (h : ProjE recE rec) (r : Rp) (xs : List Nat) (d : D) :
    dropEv1 (insertAllE recE r xs d) = insertAll rec r xs d :=
  insertAllE_proj_aux h xs r [] d

theorem rebuildE_proj (c : Cfg) {recE : InsE D} {rec : Ins D} (h : ProjE recE rec) (new old : Rp) (e : Nat)
    (d : D) : dropEv2 (rebuildE c recE new old e d) = rebuild c rec new old e d := by
  have h1 := insertAllE_proj h new (elems c old) d
  simp only [rebuildE, rebuild, bind, StateT.bind, Except.bind]
  cases ha : insertAllE recE new (elems c old) d with
  | error y => rw [ha] at h1; rw [← h1]; rfl
  | ok p =>
    obtain ⟨⟨r1, t1⟩, d1⟩ := p
    rw [ha] at h1; rw [← h1]
    simp only [dropEv1]
    cases hr : recE r1 e d1 with
    | error y => rw [h.err hr]; rfl
    | ok q =>
      obtain ⟨⟨⟨r2, b⟩, t2⟩, d2⟩ := q
      rw [h.ok hr]; rfl

theorem insertDenseE_proj (c : Cfg) (fresh : Bool) (g : Rng D) {recE : InsE D} {rec : Ins D} (h : ProjE recE rec)
    (sz cap : Nat) (a : Tbl) (e : Nat) (d : D) :
    dropEv2 (insertDenseE c fresh g recE sz cap a e d) = insertDense c g rec sz cap a e d := by
  unfold insertDenseE insertDense
  dsimp only
  split
  · rfl
  · split
    · exact dropEv2_bind _ _ _ (fun new d1 => rebuildE_proj c h new _ e d1) d
    · rfl

theorem insertPlainE_proj (c : Cfg) (g : Rng D) (sz cap bits : Nat) (a : Tbl) (e : Nat) (d : D) :
    dropEv2 (insertPlainE c g sz cap bits a e d) = insertPlain c g sz cap bits a e d := by
  unfold insertPlainE insertPlain
  refine dropEv2_bind _ _ _ (fun ab d1 => ?_) d
  obtain ⟨a1, bits1⟩ := ab
  dsimp only
  generalize (if e = 0 then bits1 else e) = e'
  have key : dropEv2 ((match tablePlace c e' e' 0 a1 with
        | some a' => (pure ((Rp.heap (sz + 1) cap bits1 a', true), []) : M D ((Rp × Bool) × List Ev))
        | none => do
          let r ← drawM c g cap bits1
          let na ← (a1.toList.filter (· ≠ 0)).foldlM (fun t v => placeRaw v t)
            (Array.replicate (cap + 1 + c.growExtra cap + r % c.bigMod cap) 0)
          let na ← placeRaw e' na
          pure ((Rp.heap (sz + 1) (cap + 1 + c.growExtra cap + r % c.bigMod cap) bits1 na, true),
            [.alloc (bytesFor c (cap + 1 + c.growExtra cap + r % c.bigMod cap)), .free (bytesFor c cap)])) d1)
      = (match tablePlace c e' e' 0 a1 with
        | some a' => (pure (Rp.heap (sz + 1) cap bits1 a', true) : M D (Rp × Bool))
        | none => do
          let r ← drawM c g cap bits1
          let na ← (a1.toList.filter (· ≠ 0)).foldlM (fun t v => placeRaw v t)
            (Array.replicate (cap + 1 + c.growExtra cap + r % c.bigMod cap) 0)
          let na ← placeRaw e' na
          pure (Rp.heap (sz + 1) (cap + 1 + c.growExtra cap + r % c.bigMod cap) bits1 na, true)) d1 := by
    cases tablePlace c e' e' 0 a1 with
    | some a' => rfl
    | none =>
      refine dropEv2_bind _ _ _ (fun r d2 => ?_) d1
      refine dropEv2_bind _ _ _ (fun na d3 => ?_) d2
      refine dropEv2_bind _ _ _ (fun na2 d4 => ?_) d3
      rfl
  cases RH.lookfor e' a1 0 with
  | found i => rfl
  | empty i => exact key
  | needInsert => exact key

theorem insertBitmapE_proj (c : Cfg) (g : Rng D) {recE : InsE D} {rec : Ins D} (h : ProjE recE rec)
    (sz cap bits : Nat) (a : Tbl) (e : Nat) (d : D) :
    dropEv2 (insertBitmapE c g recE sz cap bits a e d) = insertBitmap c g rec sz cap bits a e d := by
  unfold insertBitmapE insertBitmap
  dsimp only
  split
  · refine dropEv2_bind _ _ _ (fun r d1 => ?_) d
    exact dropEv2_bind _ _ _ (fun new d2 => rebuildE_proj c h new _ e d2) d1
  · cases RH.lookfor (e / bits) a bits with
    | found idx =>
      dsimp only
      split <;> rfl
    | empty i =>
      dsimp only
      cases tablePlace c (e / bits) (modW c ((e / bits) <<< bits) ||| 1 <<< (e % bits)) bits a with
      | some a' => rfl
      | none =>
        dsimp only
        generalize (if e > (a.toList.map (fun x => (x >>> bits) * bits + bits)).foldl Max.max 0 then e
          else (a.toList.map (fun x => (x >>> bits) * bits + bits)).foldl Max.max 0) = mx
        split
        · exact rebuildE_proj c h _ _ e d
        · refine dropEv2_bind _ _ _ (fun r d1 => ?_) d
          exact dropEv2_bind _ _ _ (fun new d2 => rebuildE_proj c h new _ e d2) d1
    | needInsert =>
      dsimp only
      cases tablePlace c (e / bits) (modW c ((e / bits) <<< bits) ||| 1 <<< (e % bits)) bits a with
      | some a' => rfl
      | none =>
        dsimp only
        generalize (if e > (a.toList.map (fun x => (x >>> bits) * bits + bits)).foldl Max.max 0 then e
          else (a.toList.map (fun x => (x >>> bits) * bits + bits)).foldl Max.max 0) = mx
        split
        · exact rebuildE_proj c h _ _ e d
        · refine dropEv2_bind _ _ _ (fun r d1 => ?_) d
          exact dropEv2_bind _ _ _ (fun new d2 => rebuildE_proj c h new _ e d2) d1

theorem dropEv2_rec {recE : InsE D} {rec : Ins D} (h : ProjE recE rec) (r : Rp) (e : Nat) (k : List Ev → List Ev) (d : D) :
    dropEv2 ((recE r e >>= fun p => pure (p.1, k p.2)) d) = rec r e d := by
  simp only [bind, StateT.bind, Except.bind]
  cases hr : recE r e d with
  | error x => rw [h.err hr]; rfl
  | ok p =>
    obtain ⟨⟨res, t⟩, d1⟩ := p
    rw [h.ok hr]; rfl

theorem insertStepE_proj (c : Cfg) (fresh : Bool) (g : Rng D) {recE : InsE D} {rec : Ins D} (h : ProjE recE rec) :
    ProjE (insertStepE c fresh g recE) (insertStep c g rec) := by
  intro r e d
  cases r with
  | empty =>
    unfold insertStepE insertStep
    dsimp only
    cases TinyC.newSortedDeduped c.codec [e] with
    | some t => rfl
    | none =>
      refine dropEv2_bind _ _ _ (fun r d1 => ?_) d
      exact dropEv2_rec h r e (fun t => allocEv c r ++ t) d1
  | stack t =>
    unfold insertStepE insertStep
    dsimp only
    cases TinyC.insert c.codec t e with
    | some t' => rfl
    | none => exact dropEv2_bind _ _ _ (fun r d1 => rebuildE_proj c h r _ e d1) d
  | heap sz cap bits a =>
    unfold insertStepE insertStep
    dsimp only
    split
    · exact insertDenseE_proj c fresh g h sz cap a e d
    · split
      · exact insertPlainE_proj c g sz cap bits a e d
      · exact insertBitmapE_proj c g h sz cap bits a e d

/-- forgetting the events of `insertE` gives `insert` -/
theorem insertE_proj (c : Cfg) (fresh : Bool) (g : Rng D) (fuel : Nat) :
    ProjE (insertE c fresh g fuel) (insert c g fuel) := by
  induction fuel with
  | zero => intro r e d; rfl
  | succ n ih => exact insertStepE_proj c fresh g ih

theorem extendE_proj (c : Cfg) (fresh : Bool) (g : Rng D) (fuel : Nat) (r : Rp) (xs : List Nat) (d : D) :
    dropEv1 (extendE c fresh g fuel r xs d) = extend c g fuel r xs d :=
  insertAllE_proj (insertE_proj c fresh g fuel) r xs d

theorem fillE_proj (c : Cfg) (fresh : Bool) (g : Rng D) (fuel : Nat) (s : Rp) (v : List Nat) (d : D) :
    dropEv1 (fillE c fresh g fuel s v d) = insertAll (insert c g fuel) s v d := by
  have h1 := insertAllE_proj (insertE_proj c fresh g fuel) s v d
  simp only [fillE, bind, StateT.bind, Except.bind]
  cases ha : insertAllE (insertE c fresh g fuel) s v d with
  | error y => rw [ha] at h1; rw [← h1]
  | ok p => rw [ha] at h1; rw [← h1]; rfl

theorem fromIterSortedE_proj (c : Cfg) (fresh : Bool) (g : Rng D) (fuel : Nat) (v : List Nat) (d : D) :
    dropEv1 (fromIterSortedE c fresh g fuel v d) = fromIterSorted c g fuel v d := by
  unfold fromIterSortedE fromIterSorted
  cases v.getLast? with
  | none => rfl
  | some mx =>
    dsimp only
    cases TinyC.newSortedDeduped c.codec v with
    | some t => rfl
    | none =>
      dsimp only
      split
      · exact dropEv1_bind _ _ _ (fun s d1 => fillE_proj c fresh g fuel s v d1) d
      · split
        · exact dropEv1_bind _ _ _ (fun s d1 => fillE_proj c fresh g fuel s v d1) d
        · exact dropEv1_bind _ _ _ (fun s d1 => fillE_proj c fresh g fuel s v d1) d

/-- forgetting the events of `collect()` gives `fromIter` -/
theorem fromIterE_proj (c : Cfg) (fresh : Bool) (g : Rng D) (fuel : Nat) (v : List Nat) (d : D) :
    dropEv1 (fromIterE c fresh g fuel v d) = fromIter c g fuel v d :=
  fromIterSortedE_proj c fresh g fuel (sortDedup v) d

/-- forgetting the events of `removeE` gives `remove` -/
theorem removeE_proj (c : Cfg) (fresh : Bool) (g : Rng D) (fuel : Nat) (r : Rp) (e : Nat) (d : D) :
    dropEv2 (removeE c fresh g fuel r e d) = remove c g fuel r e d := by
  cases r with
  | empty =>
    simp only [removeE, bind, StateT.bind, Except.bind]
    cases remove c g fuel .empty e d with
    | error y => rfl
    | ok p => rfl
  | heap sz cap bits a =>
    simp only [removeE, bind, StateT.bind, Except.bind]
    cases remove c g fuel (.heap sz cap bits a) e d with
    | error y => rfl
    | ok p => rfl
  | stack t =>
    unfold removeE remove
    dsimp only
    split
    · split
      · rfl
      · have h1 := fromIterSortedE_proj c fresh g fuel ((t.members c.codec).filter (· ≠ e)) d
        simp only [bind, StateT.bind, Except.bind]
        cases ha : fromIterSortedE c fresh g fuel ((t.members c.codec).filter (· ≠ e)) d with
        | error y => rw [ha] at h1; rw [← h1]; rfl
        | ok p => rw [ha] at h1; rw [← h1]; rfl
    · rfl

theorem removeAllE_proj_aux (c : Cfg) (fresh : Bool) (g : Rng D) (fuel : Nat) (xs : List Nat) :
    ∀ (r : Rp) (t0 : List Ev) (d : D),
      dropEv1 (xs.foldlM (fun (acc : Rp × List Ev) x => (do
          let ((r', _), t) ← removeE c fresh g fuel acc.1 x
          pure (r', acc.2 ++ t) : M D (Rp × List Ev))) (r, t0) d)
        = removeAll c g fuel r xs d := by
  induction xs with
  | nil => intro r t0 d; rfl
  | cons x xs ih =>
    intro r t0 d
    have h1 := removeE_proj c fresh g fuel r x d
    simp only [removeAll, List.foldlM_cons, bind, StateT.bind, Except.bind]
    cases hr : removeE c fresh g fuel r x d with
    | error y => rw [hr] at h1; rw [← h1]; rfl
    | ok p =>
      obtain ⟨⟨⟨r1, b⟩, t⟩, d1⟩ := p
      rw [hr] at h1; rw [← h1]
      exact ih r1 (t0 ++ t) d1

theorem removeAllE_proj (c : Cfg) (fresh : Bool) (g : Rng D) (fuel : Nat) (r : Rp) (xs : List Nat) (d : D) :
    dropEv1 (removeAllE c fresh g fuel r xs d) = removeAll c g fuel r xs d :=
  removeAllE_proj_aux c fresh g fuel xs r [] d

theorem unionOwnE_proj (c : Cfg) (fresh : Bool) (g : Rng D) (fuel : Nat) (a b : Rp) (d : D) :
    dropEv1 (unionOwnE c fresh g fuel a b d) = unionOwn c g fuel a b d := extendE_proj c fresh g fuel a _ d

theorem diffOwnE_proj (c : Cfg) (fresh : Bool) (g : Rng D) (fuel : Nat) (a b : Rp) (d : D) :
    dropEv1 (diffOwnE c fresh g fuel a b d) = diffOwn c g fuel a b d := removeAllE_proj c fresh g fuel a _ d

theorem diffRefE_proj (c : Cfg) (fresh : Bool) (g : Rng D) (fuel : Nat) (a b : Rp) (d : D) :
    dropEv1 (diffRefE c fresh g fuel a b d) = diffRef c g fuel a b d := by
  have h1 := extendE_proj c fresh g fuel (withCapOf a) ((elems c a).filter (fun v => !contains c b v)) d
  simp only [diffRefE, diffRef, bind, StateT.bind, Except.bind]
  cases ha : extendE c fresh g fuel (withCapOf a) ((elems c a).filter (fun v => !contains c b v)) d with
  | error y => rw [ha] at h1; rw [← h1]
  | ok p => rw [ha] at h1; rw [← h1]; rfl

theorem unionRefE_proj (c : Cfg) (fresh : Bool) (g : Rng D) (fuel : Nat) (a b : Rp) (d : D) :
    dropEv1 (unionRefE c fresh g fuel a b d) = unionRef c g fuel a b d := by
  simp only [unionRefE, unionRef]
  generalize (if len a > len b then withCapOf a else withCapOf b) = s
  have h1 := extendE_proj c fresh g fuel s (elems c a) d
  simp only [bind, StateT.bind, Except.bind]
  cases ha : extendE c fresh g fuel s (elems c a) d with
  | error y => rw [ha] at h1; rw [← h1]; rfl
  | ok p =>
    obtain ⟨⟨s1, t1⟩, d1⟩ := p
    rw [ha] at h1; rw [← h1]
    simp only [dropEv1]
    have h2 := extendE_proj c fresh g fuel s1 (elems c b) d1
    cases hb : extendE c fresh g fuel s1 (elems c b) d1 with
    | error y => rw [hb] at h2; rw [← h2]; rfl
    | ok q => rw [hb] at h2; rw [← h2]; rfl

end SC

#print axioms SC.insertE_proj
#print axioms SC.removeE_proj
#print axioms SC.fromIterE_proj
#print axioms SC.unionRefE_proj
