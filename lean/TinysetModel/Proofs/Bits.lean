import TinysetModel.Model.Set
namespace SC

theorem shiftLeft_mod_of_lt {k b W : Nat} (hb : b ≤ W) (hk : k < 2 ^ (W - b)) :
    (k <<< b) % 2 ^ W = k <<< b := by
  apply Nat.mod_eq_of_lt
  rw [Nat.shiftLeft_eq]
  calc k * 2 ^ b < 2 ^ (W - b) * 2 ^ b := Nat.mul_lt_mul_of_pos_right hk (Nat.two_pow_pos b)
    _ = 2 ^ W := by rw [← Nat.pow_add]; congr 1; omega

/-- L1: the key is recovered from a bucket word -/
theorem key_of_word {k b bm : Nat} (hbm : bm < 2 ^ b) : ((k <<< b) ||| bm) >>> b = k := by
  rw [Nat.shiftRight_or_distrib, Nat.shiftLeft_shiftRight]
  have : bm >>> b = 0 := by rw [Nat.shiftRight_eq_div_pow]; exact Nat.div_eq_of_lt hbm
  rw [this, Nat.or_zero]

/-- L2: setting a bitmap bit keeps the key -/
theorem key_or_bit {w b off : Nat} (h : off < b) : (w ||| (1 <<< off)) >>> b = w >>> b := by
  rw [Nat.shiftRight_or_distrib]
  have : (1 <<< off) >>> b = 0 := by
    rw [Nat.shiftRight_eq_div_pow, Nat.shiftLeft_eq, Nat.one_mul]
    exact Nat.div_eq_of_lt (Nat.pow_lt_pow_right (by omega) h)
  rw [this, Nat.or_zero]

/-- L4: membership bit after setting -/
theorem testBit_or_bit (w off i : Nat) : (w ||| (1 <<< off)).testBit i = (w.testBit i || decide (i = off)) := by
  rw [Nat.testBit_or, Nat.shiftLeft_eq, Nat.one_mul, Nat.testBit_two_pow]
  congr 1
  by_cases h : off = i <;> simp [h, eq_comm]

/-- L7: (key, offset) split is a bijection -/
theorem split_unique {e b k off : Nat} (hb : 0 < b) (ho : off < b) :
    e = k * b + off ↔ (k = e / b ∧ off = e % b) := by
  constructor
  · intro h; subst h
    constructor
    · rw [Nat.mul_comm, Nat.mul_add_div hb, Nat.div_eq_of_lt ho, Nat.add_zero]
    · rw [Nat.mul_comm, Nat.mul_add_mod, Nat.mod_eq_of_lt ho]
  · rintro ⟨h1, h2⟩; subst h1; subst h2
    rw [Nat.mul_comm]; exact (Nat.div_add_mod e b).symm


theorem mem_bitsOf {w n i : Nat} : i ∈ bitsOf w n ↔ i < n ∧ w.testBit i = true := by
  simp [bitsOf]

theorem bitsOf_nodup (w n : Nat) : (bitsOf w n).Nodup :=
  (List.nodup_range).filter _

/-- L6: setting a fresh bit below `n` adds exactly one position -/
theorem bitsOf_or_bit_length {w n off : Nat} (ho : off < n) (hfresh : w.testBit off = false) :
    (bitsOf (w ||| (1 <<< off)) n).length = (bitsOf w n).length + 1 := by
  unfold bitsOf
  induction n with
  | zero => omega
  | succ n ih =>
    rw [List.range_succ, List.filter_append, List.filter_append, List.length_append, List.length_append]
    by_cases h : off = n
    · subst h
      -- below off nothing changes
      have hsame : (List.range off).filter (fun b => (w ||| (1 <<< off)).testBit b) =
          (List.range off).filter (fun b => w.testBit b) := by
        apply List.filter_congr
        intro x hx
        rw [testBit_or_bit]
        have : x ≠ off := by have := List.mem_range.1 hx; omega
        simp [this]
      rw [hsame]
      have hb : (w ||| (1 <<< off)).testBit off = true := by rw [testBit_or_bit]; simp
      simp only [List.filter_cons, List.filter_nil, hb, hfresh]; simp
    · have ho' : off < n := by omega
      rw [ih ho']
      have : (w ||| (1 <<< off)).testBit n = w.testBit n := by
        rw [testBit_or_bit]; have : n ≠ off := fun x => h x.symm; simp [this]
      simp only [List.filter_cons, List.filter_nil, this]; omega

end SC
