import TinysetModel.Model.Alloc
import TinysetModel.Proofs.Rebuild
/-! The allocator calls of every operation are balanced (`Model/Alloc.lean`): run against a ledger of live
block sizes that holds the operand's block, every `dealloc`/`realloc` names a block that is live with exactly
that size, and afterwards the ledger holds exactly the result's block — whatever else (`L`) is live.
Purely structural: no well-formedness hypothesis, every generator outcome, every fuel. -/
namespace SC
open RH (Tbl get put)

variable {c : Cfg} {D : Type}

theorem runEv_append (L : List Nat) (e1 e2 : List Ev) :
    runEv L (e1 ++ e2) = (runEv L e1).bind (fun L' => runEv L' e2) := by
  induction e1 generalizing L with
  | nil => rfl
  | cons ev evs ih =>
    simp only [List.cons_append, runEv]
    cases applyEv L ev with
    | none => rfl
    | some L' => exact ih L'

theorem runEv_append_some {L L1 : List Nat} {e1 e2 : List Ev} (h : runEv L e1 = some L1) :
    runEv L (e1 ++ e2) = runEv L1 e2 := by
  rw [runEv_append, h]; rfl

/-- `evs` takes a ledger holding `r`'s block to one holding `r'`'s block, whatever else is live -/
def Balanced (c : Cfg) (r r' : Rp) (evs : List Ev) : Prop :=
  ∀ L, runEv (owned c r ++ L) evs = some (owned c r' ++ L)

theorem Balanced.nil {r r' : Rp} (h : owned c r = owned c r') : Balanced c r r' [] := by
  intro L; rw [h]; rfl

theorem Balanced.refl (r : Rp) : Balanced c r r [] := Balanced.nil rfl

theorem Balanced.trans {r r1 r2 : Rp} {e1 e2 : List Ev} (h1 : Balanced c r r1 e1) (h2 : Balanced c r1 r2 e2) :
    Balanced c r r2 (e1 ++ e2) := by
  intro L
  rw [runEv_append_some (h1 L)]
  exact h2 L

/-- creating a value: its block (if it owns one) joins the ledger -/
theorem runEv_allocEv (new : Rp) (L : List Nat) : runEv L (allocEv c new) = some (owned c new ++ L) := by
  cases new <;> rfl

theorem erase_second (n o : Nat) (L : List Nat) : (n :: o :: L).erase o = n :: L := by
  by_cases h : n = o
  · subst h; simp
  · rw [List.erase_cons_tail (by simpa using h)]; simp

/-- dropping `old` while `new2` is live: `old`'s block leaves the ledger, `new2`'s stays -/
theorem runEv_freeEv (new2 old : Rp) (L : List Nat) :
    runEv (owned c new2 ++ (owned c old ++ L)) (freeEv c old) = some (owned c new2 ++ L) := by
  cases old with
  | empty => rfl
  | stack t => rfl
  | heap sz cap bits a =>
    cases new2 with
    | empty => simp [owned, freeEv, runEv, applyEv]
    | stack t => simp [owned, freeEv, runEv, applyEv]
    | heap sz' cap' bits' a' =>
      simp only [owned, freeEv, runEv, applyEv, List.cons_append, List.nil_append]
      rw [if_pos (by simp), erase_second]

/-- an outcome is fine if it is an error (no result to speak of) or a balanced run from `r` -/
def BalOut (c : Cfg) (r : Rp) : Except Err (((Rp × Bool) × List Ev) × D) → Prop
  | .ok ((res, evs), _) => Balanced c r res.1 evs
  | .error _ => True

def BalOut1 (c : Cfg) (r : Rp) : Except Err ((Rp × List Ev) × D) → Prop
  | .ok ((r', evs), _) => Balanced c r r' evs
  | .error _ => True

/-- every call of the recursive `insert` is balanced -/
def BalRec (c : Cfg) (recE : InsE D) : Prop := ∀ r e d, BalOut c r (recE r e d)

theorem BalRec.ok {recE : InsE D} (h : BalRec c recE) {r : Rp} {e : Nat} {d d' : D} {res : Rp × Bool} {evs : List Ev}
    (hr : recE r e d = .ok ((res, evs), d')) : Balanced c r res.1 evs := by
  have := h r e d
  rw [hr] at this
  exact this

theorem BalOut_bind {α : Type} {r : Rp} (m : M D α) (f : α → M D ((Rp × Bool) × List Ev)) (d : D)
    (h : ∀ x d1, m d = .ok (x, d1) → BalOut c r (f x d1)) : BalOut c r ((m >>= f) d) := by
  simp only [bind, StateT.bind, Except.bind]
  cases hm : m d with
  | error e => trivial
  | ok p => exact h p.1 p.2 hm

theorem BalOut1_bind {α : Type} {r : Rp} (m : M D α) (f : α → M D (Rp × List Ev)) (d : D)
    (h : ∀ x d1, m d = .ok (x, d1) → BalOut1 c r (f x d1)) : BalOut1 c r ((m >>= f) d) := by
  simp only [bind, StateT.bind, Except.bind]
  cases hm : m d with
  | error e => trivial
  | ok p => exact h p.1 p.2 hm

theorem insertAllE_balanced_aux {recE : InsE D} (h : BalRec c recE) (xs : List Nat) :
    ∀ (r0 r : Rp) (t0 : List Ev) (d : D), Balanced c r0 r t0 →
      BalOut1 c r0 (xs.foldlM (fun (acc : Rp × List Ev) x => (do
          let ((r', _), t) ← recE acc.1 x
          pure (r', acc.2 ++ t) : M D (Rp × List Ev))) (r, t0) d) := by
  induction xs with
  | nil => intro r0 r t0 d hb; exact hb
  | cons x xs ih =>
    intro r0 r t0 d hb
    simp only [List.foldlM_cons]
    refine BalOut1_bind _ _ d (fun acc1 d1 h1 => ?_)
    obtain ⟨p, d2, h3, h4⟩ := bind_ok h1
    obtain ⟨⟨r1, b⟩, t⟩ := p
    simp only [pure, StateT.pure, Except.pure] at h4
    cases h4
    exact ih r0 r1 (t0 ++ t) _ (hb.trans (h.ok h3))

theorem insertAllE_balanced {recE : InsE D} (h : BalRec c recE) (r : Rp) (xs : List Nat) (d : D) :
    BalOut1 c r (insertAllE recE r xs d) :=
  insertAllE_balanced_aux h xs r r [] d (Balanced.refl r)

theorem insertAllE_balanced_ok {recE : InsE D} (h : BalRec c recE) {r : Rp} {xs : List Nat} {d d' : D} {r' : Rp}
    {evs : List Ev} (hr : insertAllE recE r xs d = .ok ((r', evs), d')) : Balanced c r r' evs := by
  have := insertAllE_balanced h r xs d
  rw [hr] at this
  exact this

/-- the rebuild of every growth and conversion branch: request, fill, release the old block -/
theorem rebuildE_balanced {recE : InsE D} (h : BalRec c recE) (new old : Rp) (e : Nat) (d : D) :
    BalOut c old (rebuildE c recE new old e d) := by
  unfold rebuildE
  refine BalOut_bind _ _ d (fun p1 d1 h1 => ?_)
  obtain ⟨new1, t1⟩ := p1
  refine BalOut_bind _ _ d1 (fun p2 d2 h3 => ?_)
  obtain ⟨⟨new2, b⟩, t2⟩ := p2
  have b12 := (insertAllE_balanced_ok h h1).trans (h.ok h3)
  show Balanced c old new2 _
  intro L
  rw [List.append_assoc, runEv_append_some (runEv_allocEv new (owned c old ++ L)),
    runEv_append_some (b12 (owned c old ++ L))]
  exact runEv_freeEv new2 old L

theorem runEv_swap (n o : Nat) (L : List Nat) : runEv (o :: L) [.alloc n, .free o] = some (n :: L) := by
  simp only [runEv, applyEv]
  rw [if_pos (by simp), erase_second]

theorem runEv_realloc (n o : Nat) (L : List Nat) : runEv (o :: L) [.realloc o n] = some (n :: L) := by
  simp [runEv, applyEv]

section step
variable (fresh : Bool) (g : Rng D)

theorem insertDenseE_balanced {recE : InsE D} (h : BalRec c recE) (sz cap : Nat) (a : Tbl) (e : Nat) (d : D) :
    BalOut c (.heap sz cap c.W a) (insertDenseE c fresh g recE sz cap a e d) := by
  unfold insertDenseE
  dsimp only
  split
  · exact Balanced.nil rfl
  · split
    · exact BalOut_bind _ _ d (fun new d1 _ => rebuildE_balanced h new _ e d1)
    · show Balanced c _ _ _
      intro L
      cases fresh
      · exact runEv_realloc _ _ L
      · exact runEv_swap _ _ L

theorem insertPlainE_balanced (sz cap bits : Nat) (a : Tbl) (e : Nat) (d : D) :
    BalOut c (.heap sz cap bits a) (insertPlainE c g sz cap bits a e d) := by
  unfold insertPlainE
  refine BalOut_bind _ _ d (fun ab d1 _ => ?_)
  obtain ⟨a1, bits1⟩ := ab
  dsimp only
  generalize (if e = 0 then bits1 else e) = e'
  have key : BalOut c (.heap sz cap bits a) ((match tablePlace c e' e' 0 a1 with
        | some a' => (pure ((Rp.heap (sz + 1) cap bits1 a', true), []) : M D ((Rp × Bool) × List Ev))
        | none => do
          let r ← drawM c g cap bits1
          let na ← (a1.toList.filter (· ≠ 0)).foldlM (fun t v => placeRaw v t)
            (Array.replicate (cap + 1 + c.growExtra cap + r % c.bigMod cap) 0)
          let na ← placeRaw e' na
          pure ((Rp.heap (sz + 1) (cap + 1 + c.growExtra cap + r % c.bigMod cap) bits1 na, true),
            [.alloc (bytesFor c (cap + 1 + c.growExtra cap + r % c.bigMod cap)), .free (bytesFor c cap)])) d1) := by
    cases tablePlace c e' e' 0 a1 with
    | some a' => exact Balanced.nil rfl
    | none =>
      refine BalOut_bind _ _ d1 (fun r d2 _ => ?_)
      refine BalOut_bind _ _ d2 (fun na d3 _ => ?_)
      refine BalOut_bind _ _ d3 (fun na2 d4 _ => ?_)
      show Balanced c _ _ _
      intro L
      exact runEv_swap _ _ L
  cases RH.lookfor e' a1 0 with
  | found i => exact Balanced.nil rfl
  | empty i => exact key
  | needInsert => exact key

theorem insertBitmapE_balanced {recE : InsE D} (h : BalRec c recE) (sz cap bits : Nat) (a : Tbl) (e : Nat) (d : D) :
    BalOut c (.heap sz cap bits a) (insertBitmapE c g recE sz cap bits a e d) := by
  unfold insertBitmapE
  dsimp only
  split
  · refine BalOut_bind _ _ d (fun r d1 _ => ?_)
    exact BalOut_bind _ _ d1 (fun new d2 _ => rebuildE_balanced h new _ e d2)
  · have key : BalOut c (.heap sz cap bits a) ((match tablePlace c (e / bits) (modW c ((e / bits) <<< bits) ||| 1 <<< (e % bits)) bits a with
        | some a' => (pure ((Rp.heap (sz + 1) cap bits a', true), []) : M D ((Rp × Bool) × List Ev))
        | none =>
          let mx0 := (a.toList.map (fun x => (x >>> bits) * bits + bits)).foldl Max.max 0
          let mx := if e > mx0 then e else mx0
          if cap > mx >>> 6 then
            rebuildE c recE (denseWithMax c mx) (.heap sz cap bits a) e
          else do
            let r ← drawM c g cap bits
            let new ← withCapBits c g (cap + 1 + c.growExtra cap + (r % cap)) bits
            rebuildE c recE new (.heap sz cap bits a) e) d) := by
      cases tablePlace c (e / bits) (modW c ((e / bits) <<< bits) ||| 1 <<< (e % bits)) bits a with
      | some a' => exact Balanced.nil rfl
      | none =>
        dsimp only
        generalize (if e > (a.toList.map (fun x => (x >>> bits) * bits + bits)).foldl Max.max 0 then e
          else (a.toList.map (fun x => (x >>> bits) * bits + bits)).foldl Max.max 0) = mx
        split
        · exact rebuildE_balanced h _ _ e d
        · refine BalOut_bind _ _ d (fun r d1 _ => ?_)
          exact BalOut_bind _ _ d1 (fun new d2 _ => rebuildE_balanced h new _ e d2)
    cases RH.lookfor (e / bits) a bits with
    | found idx =>
      dsimp only
      split <;> exact Balanced.nil rfl
    | empty i => exact key
    | needInsert => exact key

theorem insertStepE_balanced {recE : InsE D} (h : BalRec c recE) : BalRec c (insertStepE c fresh g recE) := by
  intro r e d
  cases r with
  | empty =>
    unfold insertStepE
    dsimp only
    cases TinyC.newSortedDeduped c.codec [e] with
    | some t => exact Balanced.nil rfl
    | none =>
      refine BalOut_bind _ _ d (fun r1 d1 _ => ?_)
      refine BalOut_bind _ _ d1 (fun p d2 h3 => ?_)
      obtain ⟨res1, t⟩ := p
      show Balanced c _ _ _
      intro L
      rw [runEv_append_some (runEv_allocEv r1 (owned c Rp.empty ++ L))]
      exact h.ok h3 L
  | stack t =>
    unfold insertStepE
    dsimp only
    cases TinyC.insert c.codec t e with
    | some t' => exact Balanced.nil rfl
    | none => exact BalOut_bind _ _ d (fun r1 d1 _ => rebuildE_balanced h r1 _ e d1)
  | heap sz cap bits a =>
    unfold insertStepE
    dsimp only
    split
    · rename_i hd
      have : bits = c.W := by simpa [isDense] using hd
      subst this
      exact insertDenseE_balanced fresh g h sz cap a e d
    · split
      · exact insertPlainE_balanced g sz cap bits a e d
      · exact insertBitmapE_balanced g h sz cap bits a e d

theorem insertE_balanced (fuel : Nat) : BalRec c (insertE c fresh g fuel) := by
  induction fuel with
  | zero => intro r e d; trivial
  | succ n ih => exact insertStepE_balanced fresh g ih

end step
end SC
