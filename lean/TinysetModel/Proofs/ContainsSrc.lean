import TinysetModel.Proofs.Loops
import TinysetModel.Proofs.Fns
import TinysetModel.Proofs.Consts
/-! `contains` of the model IS `contains` of the current source, arm by arm: `Generated/Loops.lean` holds the bodies
of the `Dense`, `Heap` and `Big` arms of `SetU64::contains` / `SetU32::contains` translated on every run (the `Empty`
and `Stack` arms are `false` and `Tiny::contains`, whose shape the translator pins); here: for every element of the
element type and every table they compute exactly `SC.contains` on the corresponding representation. -/
namespace SC
open RH (Tbl get put)

theorem foundIdx_conv (l : RH.Looked) (a : Tbl) :
    Gen.RI.foundIdx (.ok (RH.convLooked l, a)) = (match l with | .found i => some i | _ => none) := by
  cases l <;> rfl

/-- `w & (1 << off) != 0` is `testBit` -/
theorem and_two_pow_eq (w off : Nat) : w &&& 2 ^ off = if w.testBit off then 2 ^ off else 0 := by
  apply Nat.eq_of_testBit_eq
  intro i
  rw [Nat.testBit_and, Nat.testBit_two_pow]
  by_cases h : off = i
  · subst h
    cases hw : w.testBit off <;> simp [Nat.testBit_two_pow]
  · cases hw : w.testBit off <;> simp [Nat.testBit_two_pow, h]

theorem and_bit_ne_zero (w off : Nat) : (decide ((w &&& (1 <<< off)) ≠ 0)) = w.testBit off := by
  rw [Nat.one_shiftLeft, and_two_pow_eq]
  cases h : w.testBit off
  · simp
  · have : 2 ^ off ≠ 0 := Nat.pos_iff_ne_zero.mp (Nat.two_pow_pos off)
    simp [this]

theorem and_63 (e : Nat) : e &&& 63 = e % 64 := by
  have : (63 : Nat) = 2 ^ 6 - 1 := rfl
  rw [this, Nat.and_two_pow_sub_one_eq_mod]
theorem and_31 (e : Nat) : e &&& 31 = e % 32 := by
  have : (31 : Nat) = 2 ^ 5 - 1 := rfl
  rw [this, Nat.and_two_pow_sub_one_eq_mod]

/-! ### `setu64.rs` -/

/-- the `Dense` arm -/
theorem contains_dense_64_eq (e sz cap : Nat) (a : Tbl) (hc : cap = a.size) :
    Gen.contains_dense_64 e a = contains cfg64 (.heap sz cap 64 a) e := by
  subst hc
  simp only [Gen.contains_dense_64, contains, isDense, cfg64, decide_true, if_true, Gen.RI.idx, RH.get.eq_1, and_bit_ne_zero, and_63]

/-- the `Heap` (bitmap table) arm, for `u64` elements and the bitmap widths of that layout -/
theorem contains_heap_64_eq (e sz cap bits : Nat) (a : Tbl) (he : e < 2 ^ 64) (hb : 0 < bits ∧ bits < 64) :
    Gen.contains_heap_64 e bits a = contains cfg64 (.heap sz cap bits a) e := by
  have h1 : isDense cfg64 bits = false := by simp [isDense, cfg64]; omega
  have h2 : isPlain cfg64 bits = false := by simp [isPlain, cfg64]; omega
  simp only [Gen.contains_heap_64, contains, h1, h2, compute_array_bits_64_eq e he, split_64_eq e bits hb.1,
    RH.p_lookfor_64_eq, foundIdx_conv, Gen.RI.idx, RH.get.eq_1, and_bit_ne_zero, Bool.false_eq_true, if_false]
  split
  · rfl
  · cases RH.lookfor (e / bits) a bits <;> rfl

/-- the `Big` (plain table) arm -/
theorem contains_big_64_eq (e sz cap bits : Nat) (a : Tbl) (hb : bits = 0 ∨ bits > 64) :
    Gen.contains_big_64 e bits a = contains cfg64 (.heap sz cap bits a) e := by
  have h1 : isDense cfg64 bits = false := by simp [isDense, cfg64]; omega
  have h2 : isPlain cfg64 bits = true := by simp [isPlain, cfg64]; omega
  simp only [Gen.contains_big_64, contains, h1, h2, RH.p_lookfor_64_eq, Gen.RI.keyFound, foundIdx_conv,
    Bool.false_eq_true, if_false, if_true]
  split
  · rfl
  · cases RH.lookfor (if e = 0 then bits else e) a 0 <;> rfl

/-! ### `setu32.rs` -/

theorem contains_dense_32_eq (e sz cap : Nat) (a : Tbl) (hc : cap = a.size) :
    Gen.contains_dense_32 e a = contains cfg32 (.heap sz cap 32 a) e := by
  subst hc
  simp only [Gen.contains_dense_32, contains, isDense, cfg32, decide_true, if_true, Gen.RI.idx, RH.get.eq_1, and_bit_ne_zero, and_31]

theorem contains_heap_32_eq (e sz cap bits : Nat) (a : Tbl) (he : e < 2 ^ 32) (hb : 0 < bits ∧ bits < 32)
    (hn : a.size < 2 ^ 32) : Gen.contains_heap_32 e bits a = contains cfg32 (.heap sz cap bits a) e := by
  have h1 : isDense cfg32 bits = false := by simp [isDense, cfg32]; omega
  have h2 : isPlain cfg32 bits = false := by simp [isPlain, cfg32]; omega
  simp only [Gen.contains_heap_32, contains, h1, h2, compute_array_bits_32_eq e he, split_32_eq e bits hb.1,
    RH.p_lookfor_32_eq _ a _ hn, foundIdx_conv, Gen.RI.idx, RH.get.eq_1, and_bit_ne_zero, Bool.false_eq_true, if_false]
  split
  · rfl
  · cases RH.lookfor (e / bits) a bits <;> rfl

theorem contains_big_32_eq (e sz cap bits : Nat) (a : Tbl) (hb : bits = 0 ∨ bits > 32) (hn : a.size < 2 ^ 32) :
    Gen.contains_big_32 e bits a = contains cfg32 (.heap sz cap bits a) e := by
  have h1 : isDense cfg32 bits = false := by simp [isDense, cfg32]; omega
  have h2 : isPlain cfg32 bits = true := by simp [isPlain, cfg32]; omega
  simp only [Gen.contains_big_32, contains, h1, h2, RH.p_lookfor_32_eq _ a _ hn, Gen.RI.keyFound, foundIdx_conv,
    Bool.false_eq_true, if_false, if_true]
  split
  · rfl
  · cases RH.lookfor (if e = 0 then bits else e) a 0 <;> rfl

/-! ### the layout dispatch of `internal()` / `internal_mut()` (`Generated/Loops.lean`: 0 `Big`, 1 `Dense`, 2 `Heap`) is
the model's `isDense` / `isPlain` -/

theorem layout_64_eq (bits : Nat) :
    Gen.layout_64 bits = (if isDense cfg64 bits then 1 else if isPlain cfg64 bits then 0 else 2) ∧
    Gen.layout_mut_64 bits = Gen.layout_64 bits := by
  refine ⟨?_, rfl⟩
  simp only [Gen.layout_64, isDense, isPlain, cfg64, decide_eq_true_eq, Bool.or_eq_true]
  by_cases h1 : bits = 64
  · subst h1; simp
  · by_cases h2 : bits = 0 ∨ bits > 64
    · simp [h1, h2]
    · simp [h1, h2]
theorem layout_32_eq (bits : Nat) :
    Gen.layout_32 bits = (if isDense cfg32 bits then 1 else if isPlain cfg32 bits then 0 else 2) ∧
    Gen.layout_mut_32 bits = Gen.layout_32 bits := by
  refine ⟨?_, rfl⟩
  simp only [Gen.layout_32, isDense, isPlain, cfg32, decide_eq_true_eq, Bool.or_eq_true]
  by_cases h1 : bits = 32
  · subst h1; simp
  · by_cases h2 : bits = 0 ∨ bits > 32
    · simp [h1, h2]
    · simp [h1, h2]
/-- the three cases, as used by the dispatching definitions -/
theorem layout_64_cases (bits : Nat) :
    (bits = 64 ∧ Gen.layout_64 bits = 1) ∨ ((bits = 0 ∨ bits > 64) ∧ Gen.layout_64 bits = 0) ∨
    ((0 < bits ∧ bits < 64) ∧ Gen.layout_64 bits = 2) := by
  simp only [Gen.layout_64]
  by_cases h1 : bits = 64
  · subst h1; simp
  · by_cases h2 : bits = 0 ∨ bits > 64
    · simp [h2]
    · right; right; simp [h1, h2]; omega
theorem layout_32_cases (bits : Nat) :
    (bits = 32 ∧ Gen.layout_32 bits = 1) ∨ ((bits = 0 ∨ bits > 32) ∧ Gen.layout_32 bits = 0) ∨
    ((0 < bits ∧ bits < 32) ∧ Gen.layout_32 bits = 2) := by
  simp only [Gen.layout_32]
  by_cases h1 : bits = 32
  · subst h1; simp
  · by_cases h2 : bits = 0 ∨ bits > 32
    · simp [h2]
    · right; right; simp [h1, h2]; omega

end SC

#print axioms SC.contains_heap_64_eq
#print axioms SC.contains_big_32_eq

/-! ### the inline arm: `Tiny::contains` (a loop over the row of BITSPLITS, peeling one field per iteration) -/
namespace SC
open TinyC

theorem mask_64_eq (b : Nat) : Gen.mask_64 b = 2 ^ b - 1 := by simp [Gen.mask_64, Nat.one_shiftLeft]
theorem mask_32_eq (b : Nat) : Gen.mask_32 b = 2 ^ b - 1 := by simp [Gen.mask_32, Nat.one_shiftLeft]

theorem tiny_loop_64 (sz : Nat) : ∀ (ws : List Nat) (bits e : Nat),
    Gen.tiny_contains_64_loop1 sz ws bits e = TinyC.contains.loop (unpack ws bits) e := by
  intro ws
  induction ws with
  | nil => intro bits e; rfl
  | cons w ws ih =>
    intro bits e
    simp only [Gen.tiny_contains_64_loop1, unpack, TinyC.contains.loop, mask_64_eq, Nat.and_two_pow_sub_one_eq_mod,
      Nat.shiftRight_eq_div_pow]
    split
    · rfl
    · split
      · rfl
      · exact ih _ _

theorem tiny_loop_32 (sz : Nat) : ∀ (ws : List Nat) (bits e : Nat),
    Gen.tiny_contains_32_loop1 sz ws bits e = TinyC.contains.loop (unpack ws bits) e := by
  intro ws
  induction ws with
  | nil => intro bits e; rfl
  | cons w ws ih =>
    intro bits e
    simp only [Gen.tiny_contains_32_loop1, unpack, TinyC.contains.loop, mask_32_eq, Nat.and_two_pow_sub_one_eq_mod,
      Nat.shiftRight_eq_div_pow]
    split
    · rfl
    · split
      · rfl
      · exact ih _ _

/-- `Tiny::contains` of `setu64.rs` is the model's inline `contains` -/
theorem tiny_contains_64_eq (t : T) (e : Nat) (he : e < 2 ^ 64) :
    Gen.tiny_contains_64 t.sz t.bits e = TinyC.contains codec64 t e := by
  have hgt : ¬ e > 18446744073709551615 := by omega
  simp only [Gen.tiny_contains_64, hgt, if_false, TinyC.contains, T.fields, widths, ← bitsplits64_match]
  exact tiny_loop_64 t.sz _ t.bits e

/-- `Tiny::contains` of `setu32.rs` -/
theorem tiny_contains_32_eq (t : T) (e : Nat) (he : e < 2 ^ 32) :
    Gen.tiny_contains_32 t.sz t.bits e = TinyC.contains codec32 t e := by
  have hgt : ¬ e > 18446744073709551615 % 4294967296 := by omega
  simp only [Gen.tiny_contains_32, hgt, if_false, TinyC.contains, T.fields, widths, ← bitsplits32_match]
  exact tiny_loop_32 t.sz _ t.bits e

end SC

#print axioms SC.tiny_contains_64_eq
