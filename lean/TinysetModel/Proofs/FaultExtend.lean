import TinysetModel.Proofs.FaultSpec
import TinysetModel.Proofs.TotalOpsExtend
/-! Failure states of `extend`: every request for a zeroed block made inside the insert loop finds `*self`
well-formed, holding every prior member and nothing but prior members and values of the batch. -/
namespace SC
open RH Plain2

variable {c : Cfg} {D : Type}

/-- what is claimed of a state found at a request inside `extend` of `ys` into `r0` -/
def ExtOK (c : Cfg) (r0 : Rp) (ys : List Nat) (s : Rp) : Prop :=
  WF c s ∧ (∀ y ∈ elems c r0, y ∈ elems c s) ∧ (∀ y ∈ elems c s, y ∈ elems c r0 ∨ y ∈ ys)

/-- the insert loop from an accumulated trace `t0` and a current state `r` between `r0` and `r0 ∪ ys` -/
theorem foldT_contained (ok : CfgOK c) (lk : LikeS c) (cc : CapCfg c) (fresh : Bool) (g : Rng D) (fuel : Nat)
    (r0 : Rp) (ys : List Nat) :
    ∀ (xs : List Nat) (r : Rp) (t0 : Tr) (d : D) (M : Nat), WF c r → (∀ x ∈ xs, x < 2 ^ c.W) → CapOK r M →
      SizeFits c (M + xs.length) → (∀ x ∈ xs, x ∈ ys) → (∀ y ∈ elems c r0, y ∈ elems c r) →
      (∀ y ∈ elems c r, y ∈ elems c r0 ∨ y ∈ ys) →
      ∃ r' tr d', foldT (insertT c fresh g (fuel + 2)) xs r t0 d = .ok ((r', t0 ++ tr), d') ∧
        insertAll (insert c g (fuel + 2)) r xs d = .ok (r', d') ∧ tr.length ≤ xs.length ∧
        ∀ s ∈ tr, ExtOK c r0 ys s := by
  intro xs
  induction xs with
  | nil =>
    intro r t0 d M _ _ _ _ _ _ _
    refine ⟨r, [], d, ?_, rfl, Nat.le_refl _, fun _ h => by cases h⟩
    rw [List.append_nil]; rfl
  | cons x xs ih =>
    intro r t0 d M wf hx hc hfit hys hlo hhi
    rw [List.length_cons] at hfit
    have hxW := hx x List.mem_cons_self
    have hc1 := hc.1
    have hc2 := hc.2
    have hM : SizeFits c M := hfit.mono (by omega)
    unfold SizeFits at hM
    obtain ⟨r1, b, t, d1, hT, hI, htl, hts⟩ :=
      insertT_contained ok lk fresh g fuel wf x hxW (by omega) (by omega) d
    have sp := insert_refines ok g (fuel + 2) r x d r1 b d1 wf hxW hI
    have cp := (insert_capOK ok cc g (allCores ok g) (fuel + 2) r x d r1 b d1 M wf hxW hc hI)
    have hl := len_of_InsOK ok wf sp
    have hle : len r1 ≤ M + 1 := by
      rw [hl]; split <;> omega
    have cp1 : CapOK r1 (M + 1) := cp.mono (Nat.max_le.2 ⟨Nat.le_succ _, hle⟩)
    obtain ⟨r', tr, d', h2, h2', hlen, hall⟩ := ih r1 (t0 ++ t) d1 (M + 1) sp.wf
      (fun y hy => hx y (List.mem_cons_of_mem _ hy)) cp1 (hfit.mono (by omega))
      (fun y hy => hys y (List.mem_cons_of_mem _ hy))
      (fun y hy => (sp.mem y).2 (Or.inl (hlo y hy)))
      (fun y hy => by
        rcases (sp.mem y).1 hy with h | h
        · exact hhi y h
        · rw [h]; exact Or.inr (hys x List.mem_cons_self))
    refine ⟨r', t ++ tr, d', ?_, ?_, ?_, ?_⟩
    · rw [foldT_cons_ok _ _ _ _ _ _ hT, ← List.append_assoc]; exact h2
    · rw [insertAll_cons_ok _ _ _ _ _ hI]; exact h2'
    · rw [List.length_append, List.length_cons]; omega
    · intro s hs
      rcases List.mem_append.1 hs with h | h
      · obtain ⟨w, p, _⟩ := hts s h
        exact ⟨w, fun y hy => p.mem_iff.2 (hlo y hy), fun y hy => hhi y (p.mem_iff.1 hy)⟩
      · exact hall s h

/-- **Every request made inside `extend` finds `*self` well-formed, holding every prior member and nothing but
prior members and values of the batch; there are at most as many requests as values; the traced reading returns
what `extend` returns.** -/
theorem extendT_contained (ok : CfgOK c) (lk : LikeS c) (cc : CapCfg c) (fresh : Bool) (g : Rng D) (fuel : Nat)
    {r : Rp} (wf : WF c r) (xs : List Nat) (hx : ∀ x ∈ xs, x < 2 ^ c.W) {M : Nat} (hc : CapOK r M)
    (hfit : SizeFits c (M + xs.length)) (d : D) :
    ∃ r' tr d', extendT c fresh g (fuel + 2) r xs d = .ok ((r', tr), d') ∧
      extend c g (fuel + 2) r xs d = .ok (r', d') ∧
      tr.length ≤ xs.length ∧
      ∀ s ∈ tr, WF c s ∧ (∀ y ∈ elems c r, y ∈ elems c s) ∧ (∀ y ∈ elems c s, y ∈ elems c r ∨ y ∈ xs) := by
  obtain ⟨r', tr, d', h1, h2, h3, h4⟩ := foldT_contained ok lk cc fresh g fuel r xs xs r [] d M wf hx hc hfit
    (fun _ h => h) (fun _ h => h) (fun _ h => Or.inl h)
  rw [List.nil_append] at h1
  exact ⟨r', tr, d', h1, h2, h3, h4⟩

/-- `SetU64::extend` (dense growth takes a fresh block) -/
theorem extendT_contained_u64 (g : Rng D) (fuel : Nat) {r : Rp} (wf : WF cfg64 r) (xs : List Nat)
    (hx : ∀ x ∈ xs, x < 2 ^ 64) {M : Nat} (hc : CapOK r M) (hsize : M + xs.length < 2 ^ 60) (d : D) :
    ∃ r' tr d', extendT cfg64 true g (fuel + 2) r xs d = .ok ((r', tr), d') ∧
      extend cfg64 g (fuel + 2) r xs d = .ok (r', d') ∧
      tr.length ≤ xs.length ∧
      ∀ s ∈ tr, WF cfg64 s ∧ (∀ y ∈ elems cfg64 r, y ∈ elems cfg64 s) ∧
        (∀ y ∈ elems cfg64 s, y ∈ elems cfg64 r ∨ y ∈ xs) :=
  extendT_contained cfg64_ok cfg64_likeS capCfg64 true g fuel wf xs hx hc (sizeFits64 (by omega)) d

/-- `SetU32::extend` (dense growth reallocates in place) -/
theorem extendT_contained_u32 (g : Rng D) (fuel : Nat) {r : Rp} (wf : WF cfg32 r) (xs : List Nat)
    (hx : ∀ x ∈ xs, x < 2 ^ 32) {M : Nat} (hc : CapOK r M) (hsize : M + xs.length < 2 ^ 28) (d : D) :
    ∃ r' tr d', extendT cfg32 false g (fuel + 2) r xs d = .ok ((r', tr), d') ∧
      extend cfg32 g (fuel + 2) r xs d = .ok (r', d') ∧
      tr.length ≤ xs.length ∧
      ∀ s ∈ tr, WF cfg32 s ∧ (∀ y ∈ elems cfg32 r, y ∈ elems cfg32 s) ∧
        (∀ y ∈ elems cfg32 s, y ∈ elems cfg32 r ∨ y ∈ xs) :=
  extendT_contained cfg32_ok cfg32_likeS capCfg32 false g fuel wf xs hx hc (sizeFits32 (by omega)) d

#print axioms foldT_contained
#print axioms extendT_contained
#print axioms extendT_contained_u64
#print axioms extendT_contained_u32
end SC
