import TinysetModel.Proofs.TotalOpsRun
/-! The typed wrappers `Set64<T>` / `SetUsize`: every operation is forwarded to a `SetU64` through an
encoding `enc : α → Nat` (`to_u64`), iteration decodes with `dec : Nat → α` (`from_u64`).
For every injective encoding into 64 bits with `dec ∘ enc = id` the wrapper is a faithful set of `α`:
`spec_enc_commutes`, `typed_run_refines`, `typed_run_total`, bundled as `Faithful` / `faithful_of`. -/
namespace SC
open RH

variable {α : Type} [DecidableEq α] {D : Type}

/-- one operation of the typed interface -/
inductive TOp (α : Type)
  | ins (a : α)
  | rem (a : α)
  | con (a : α)
  | len

/-- what `Set64<T>` hands to the `SetU64` it wraps -/
def TOp.enc (enc : α → Nat) : TOp α → Op
  | .ins a => .ins (enc a)
  | .rem a => .rem (enc a)
  | .con a => .con (enc a)
  | .len => .len

/-- one operation of the ideal set of `α`, kept as a duplicate-free list (same shape as `specStep`) -/
def tspecStep (s : List α) : TOp α → List α × Out
  | .ins a => if a ∈ s then (s, .bool false) else (s ++ [a], .bool true)
  | .rem a => (s.erase a, .bool (decide (a ∈ s)))
  | .con a => (s, .bool (decide (a ∈ s)))
  | .len => (s, .nat s.length)

/-- a typed history on the ideal set of `α` (same shape as `specRun`) -/
def tspecRun : List α → List (TOp α) → List α × List Out
  | s, [] => (s, [])
  | s, op :: ops =>
    ((tspecRun (tspecStep s op).1 ops).1, (tspecStep s op).2 :: (tspecRun (tspecStep s op).1 ops).2)

theorem tspecStep_ins (s : List α) (a : α) :
    tspecStep s (.ins a) = if a ∈ s then (s, .bool false) else (s ++ [a], .bool true) := rfl

theorem tspecStep_nodup {s : List α} (hs : s.Nodup) (op : TOp α) : (tspecStep s op).1.Nodup := by
  cases op with
  | ins e =>
    rw [tspecStep_ins]
    split
    · exact hs
    · rename_i hne
      rw [List.nodup_append]
      exact ⟨hs, List.nodup_cons.2 ⟨List.not_mem_nil, List.nodup_nil⟩, fun a ha b hb => by
        rw [List.mem_singleton.1 hb]; exact fun h => hne (h ▸ ha)⟩
  | rem e => exact hs.erase e
  | con e => exact hs
  | len => exact hs

theorem tspecRun_nodup (ops : List (TOp α)) : ∀ {s : List α}, s.Nodup → (tspecRun s ops).1.Nodup := by
  induction ops with
  | nil => intro s hs; exact hs
  | cons op ops ih => intro s hs; exact ih (tspecStep_nodup hs op)

/-! ### the encoding commutes with the ideal set -/

section enc
variable (enc : α → Nat) (hinj : ∀ a b, enc a = enc b → a = b)
include hinj

omit [DecidableEq α] in
theorem mem_map_enc (s : List α) (a : α) : enc a ∈ s.map enc ↔ a ∈ s := by
  constructor
  · intro h
    obtain ⟨b, hb, e⟩ := List.mem_map.1 h
    exact hinj b a e ▸ hb
  · exact fun h => List.mem_map.2 ⟨a, h, rfl⟩

theorem erase_map_enc (s : List α) (a : α) : (s.map enc).erase (enc a) = (s.erase a).map enc := by
  induction s with
  | nil => rfl
  | cons b s ih =>
    by_cases hb : b = a
    · subst hb
      rw [List.map_cons, List.erase_cons_head, List.erase_cons_head]
    · have hne : enc b ≠ enc a := fun h => hb (hinj b a h)
      rw [List.map_cons, List.erase_cons_tail (by simpa using hne), List.erase_cons_tail (by simpa using hb),
        List.map_cons, ih]

omit [DecidableEq α] in
theorem nodup_map_enc {s : List α} (hs : s.Nodup) : (s.map enc).Nodup := by
  induction s with
  | nil => exact List.nodup_nil
  | cons b s ih =>
    rw [List.nodup_cons] at hs
    rw [List.map_cons, List.nodup_cons]
    exact ⟨fun h => hs.1 ((mem_map_enc enc hinj s b).1 h), ih hs.2⟩

/-- one step: the ideal `SetU64` on the codes is the image of the ideal set of `α` -/
theorem specStep_enc (s : List α) (op : TOp α) :
    specStep (s.map enc) (op.enc enc) = ((tspecStep s op).1.map enc, (tspecStep s op).2) := by
  cases op with
  | ins a =>
    show specStep (s.map enc) (.ins (enc a)) = _
    rw [specStep_ins, tspecStep_ins]
    by_cases hm : a ∈ s
    · rw [if_pos hm, if_pos ((mem_map_enc enc hinj s a).2 hm)]
    · rw [if_neg hm, if_neg (fun h => hm ((mem_map_enc enc hinj s a).1 h)), List.map_append]
      rfl
  | rem a =>
    show ((s.map enc).erase (enc a), Out.bool (decide (enc a ∈ s.map enc))) =
      ((s.erase a).map enc, Out.bool (decide (a ∈ s)))
    rw [erase_map_enc enc hinj, decide_eq_decide.2 (mem_map_enc enc hinj s a)]
  | con a =>
    show (s.map enc, Out.bool (decide (enc a ∈ s.map enc))) = (s.map enc, Out.bool (decide (a ∈ s)))
    rw [decide_eq_decide.2 (mem_map_enc enc hinj s a)]
  | len =>
    show (s.map enc, Out.nat (s.map enc).length) = (s.map enc, Out.nat s.length)
    rw [List.length_map]

/-- **The encoding commutes with histories.** Running the encoded history on the ideal `SetU64` gives the
same answers as the typed history on the ideal set of `α`, and the final ideal `SetU64` is the image of the
final ideal set of `α` (in the same order).  Needs only injectivity (no duplicate-freeness of `s`). -/
theorem spec_enc_commutes (s : List α) (ops : List (TOp α)) :
    specRun (s.map enc) (ops.map (TOp.enc enc)) = (((tspecRun s ops).1).map enc, (tspecRun s ops).2) := by
  induction ops generalizing s with
  | nil => rfl
  | cons op ops ih =>
    show ((specRun (specStep (s.map enc) (op.enc enc)).1 (ops.map (TOp.enc enc))).1,
      (specStep (s.map enc) (op.enc enc)).2 :: (specRun (specStep (s.map enc) (op.enc enc)).1 (ops.map (TOp.enc enc))).2) = _
    rw [specStep_enc enc hinj s op]
    dsimp only
    rw [ih]
    rfl

end enc

/-! ### the wrapper against the ideal set of `α` -/

section wrapper
variable (enc : α → Nat) (dec : Nat → α)
  (hinj : ∀ a b, enc a = enc b → a = b) (hrange : ∀ a, enc a < 2 ^ 64) (hdec : ∀ a, dec (enc a) = a)

omit [DecidableEq α] in
theorem enc_inRange (hrange : ∀ a, enc a < 2 ^ 64) (ops : List (TOp α)) :
    ∀ op ∈ ops.map (TOp.enc enc), op.InRange 64 := by
  intro op h
  obtain ⟨t, _, e⟩ := List.mem_map.1 h
  subst e
  cases t with
  | ins a => exact hrange a
  | rem a => exact hrange a
  | con a => exact hrange a
  | len => trivial

omit [DecidableEq α] in
theorem map_dec_enc (hdec : ∀ a, dec (enc a) = a) (s : List α) : (s.map enc).map dec = s := by
  rw [List.map_map]
  conv => rhs; rw [← List.map_id s]
  exact List.map_congr_left (fun a _ => hdec a)

omit [DecidableEq α] in
/-- from a well-formed final `SetU64` that represents the image of the typed ideal set: iteration decodes to
exactly the typed ideal set -/
theorem decode_elems (hinj : ∀ a b, enc a = enc b → a = b) (hdec : ∀ a, dec (enc a) = a) {r' : Rp} (wf : WF cfg64 r') (t : List α) (ht : t.Nodup)
    (hm : ∀ x, x ∈ elems cfg64 r' ↔ x ∈ t.map enc) :
    ((elems cfg64 r').map dec).Perm t ∧ ((elems cfg64 r').map dec).Nodup ∧
      (∀ a, a ∈ (elems cfg64 r').map dec ↔ a ∈ t) ∧ len r' = t.length := by
  have ab := absOK_of_wf cfg64_ok wf
  have p : (elems cfg64 r').Perm (t.map enc) :=
    (List.perm_ext_iff_of_nodup ab.nodup (nodup_map_enc enc hinj ht)).2 hm
  have q : ((elems cfg64 r').map dec).Perm t := by
    have := p.map dec
    rwa [map_dec_enc enc dec hdec] at this
  refine ⟨q, q.nodup_iff.2 ht, fun a => q.mem_iff, ?_⟩
  rw [ab.len, ← q.length_eq, List.length_map]

include hinj hrange hdec

/-- **`Set64<T>` answers like an ideal set of `T`, and iterates over exactly its members.**  For every RNG `g`,
fuel and typed history `ops` from `new()`: if the run of the wrapped `SetU64` on the encoded history returns, then
every answer is the answer of the ideal set of `α`, and decoding the iteration of the final `SetU64` gives a
permutation of the final ideal set of `α` — exactly its members, each once; `len` is its size. -/
theorem typed_run_refines (g : Rng D) (fuel : Nat) (ops : List (TOp α))
    {d d' : D} {r' : Rp} {outs : List Out}
    (h : runOps cfg64 g fuel .empty (ops.map (TOp.enc enc)) d = .ok ((r', outs), d')) :
    outs = (tspecRun [] ops).2 ∧ ((elems cfg64 r').map dec).Perm (tspecRun [] ops).1 ∧
      ((elems cfg64 r').map dec).Nodup ∧ (∀ a, a ∈ (elems cfg64 r').map dec ↔ a ∈ (tspecRun [] ops).1) ∧
      len r' = (tspecRun [] ops).1.length := by
  obtain ⟨wf, o, m⟩ := run_refines_empty cfg64_ok g fuel _ (enc_inRange enc hrange ops) h
  have e := spec_enc_commutes enc hinj [] ops
  rw [List.map_nil] at e
  rw [e] at o m
  exact ⟨o, decode_elems enc dec hinj hdec wf _ (tspecRun_nodup ops List.nodup_nil) m⟩

omit hdec in
/-- the wrapped `SetU64` only ever holds codes of members of the typed ideal set (so `from_u64` is only ever
applied to codes produced by `to_u64`) -/
theorem typed_elems_encoded (g : Rng D) (fuel : Nat) (ops : List (TOp α))
    {d d' : D} {r' : Rp} {outs : List Out}
    (h : runOps cfg64 g fuel .empty (ops.map (TOp.enc enc)) d = .ok ((r', outs), d')) :
    ∀ x ∈ elems cfg64 r', ∃ a ∈ (tspecRun [] ops).1, enc a = x := by
  obtain ⟨_, _, m⟩ := run_refines_empty cfg64_ok g fuel _ (enc_inRange enc hrange ops) h
  have e := spec_enc_commutes enc hinj [] ops
  rw [List.map_nil] at e
  rw [e] at m
  intro x hx
  exact List.mem_map.1 ((m x).1 hx)

/-- **`Set64<T>`: every call of every typed history returns normally with the ideal answer.**  For every RNG `g`,
every generator state, every fuel `≥ 2` and every typed history of fewer than `2^60` operations from `new()`. -/
theorem typed_run_total (g : Rng D) (fuel : Nat) (ops : List (TOp α)) (hlen : ops.length < 2 ^ 60) (d : D) :
    ∃ r' outs d', runOps cfg64 g (fuel + 2) .empty (ops.map (TOp.enc enc)) d = .ok ((r', outs), d') ∧
      outs = (tspecRun [] ops).2 ∧ ((elems cfg64 r').map dec).Perm (tspecRun [] ops).1 ∧
      ((elems cfg64 r').map dec).Nodup ∧ (∀ a, a ∈ (elems cfg64 r').map dec ↔ a ∈ (tspecRun [] ops).1) ∧
      len r' = (tspecRun [] ops).1.length := by
  obtain ⟨r', outs, d', h, _, _, _⟩ := run_total_u64 g fuel _ (enc_inRange enc hrange ops)
    (by rw [List.length_map]; exact hlen) d
  exact ⟨r', outs, d', h, typed_run_refines enc dec hinj hrange hdec g (fuel + 2) ops h⟩

end wrapper

/-! ### bundled statement, for the per-type instances -/

/-- the answers `outs` and the final wrapped `SetU64` `r'` of a typed history agree with the ideal set of `α`:
same answers; decoding the iteration of `r'` gives exactly the members of the final ideal set, each once
(a permutation of it); `len` is its size -/
def TypedAgrees (dec : Nat → α) (ops : List (TOp α)) (r' : Rp) (outs : List Out) : Prop :=
  outs = (tspecRun [] ops).2 ∧ ((elems cfg64 r').map dec).Perm (tspecRun [] ops).1 ∧
    ((elems cfg64 r').map dec).Nodup ∧ (∀ a, a ∈ (elems cfg64 r').map dec ↔ a ∈ (tspecRun [] ops).1) ∧
    len r' = (tspecRun [] ops).1.length

/-- the wrapper `Set64<T>` with `to_u64 = enc`, `from_u64 = dec` is a faithful set of `α`:
(1) partial correctness for every fuel: whenever the run of a typed history from `new()` returns, it agrees with
the ideal set of `α`; (2) total correctness: for fuel `≥ 2` every typed history of fewer than `2^60` operations
returns (and so agrees), for every random generator and every generator state -/
def Faithful (enc : α → Nat) (dec : Nat → α) : Prop :=
  (∀ (D : Type) (g : Rng D) (fuel : Nat) (ops : List (TOp α)) (d d' : D) (r' : Rp) (outs : List Out),
    runOps cfg64 g fuel .empty (ops.map (TOp.enc enc)) d = .ok ((r', outs), d') → TypedAgrees dec ops r' outs) ∧
  (∀ (D : Type) (g : Rng D) (fuel : Nat) (ops : List (TOp α)), ops.length < 2 ^ 60 → ∀ d : D,
    ∃ r' outs d', runOps cfg64 g (fuel + 2) .empty (ops.map (TOp.enc enc)) d = .ok ((r', outs), d') ∧
      TypedAgrees dec ops r' outs)

/-- every injective 64-bit encoding with a left inverse gives a faithful typed set -/
theorem faithful_of (enc : α → Nat) (dec : Nat → α) (hinj : ∀ a b, enc a = enc b → a = b)
    (hrange : ∀ a, enc a < 2 ^ 64) (hdec : ∀ a, dec (enc a) = a) : Faithful enc dec :=
  ⟨fun _ g fuel ops _ _ _ _ h => typed_run_refines enc dec hinj hrange hdec g fuel ops h,
   fun _ g fuel ops hlen d => typed_run_total enc dec hinj hrange hdec g fuel ops hlen d⟩

/-- encodings that come from a `BitVec 64` code (`to_u64`) are in range; injectivity and the round trip lift
from `BitVec 64` to `Nat` -/
theorem faithful_of_bv (to : α → BitVec 64) (frm : BitVec 64 → α)
    (hinj : ∀ a b, to a = to b → a = b) (hrt : ∀ a, frm (to a) = a) :
    Faithful (fun a => (to a).toNat) (fun n => frm (BitVec.ofNat 64 n)) :=
  faithful_of _ _ (fun a b h => hinj a b (BitVec.eq_of_toNat_eq h)) (fun a => (to a).isLt)
    (fun a => by show frm (BitVec.ofNat 64 (to a).toNat) = a; rw [BitVec.ofNat_toNat, BitVec.setWidth_eq, hrt])

/-- non-vacuity of the typed ideal set: insert 5, insert 5 again, insert 7, remove 5, len -/
example : tspecRun ([] : List Nat) [.ins 5, .ins 5, .ins 7, .con 5, .rem 5, .con 5, .len] =
    ([7], [.bool true, .bool false, .bool true, .bool true, .bool true, .bool false, .nat 1]) := by decide

#print axioms spec_enc_commutes
#print axioms typed_run_refines
#print axioms typed_run_total
#print axioms typed_elems_encoded
#print axioms faithful_of
#print axioms faithful_of_bv
end SC
