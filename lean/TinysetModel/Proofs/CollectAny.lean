import TinysetModel.Proofs.DenseRange
/-! `collect()` of ANY sequence (any order, any repetitions) whose distinct items are exactly `0..n` is the same
computation as `collect()` of `0..n`; hence the dense-layout / byte-size results for `0..n` carry over. -/
namespace SC
open RH

variable {D : Type}

/-- a strictly increasing list whose members are exactly the numbers below n is `List.range n` -/
theorem eq_range_of_sorted_mem {l : List Nat} {n : Nat} (hs : l.Pairwise (· < ·))
    (hm : ∀ x, x ∈ l ↔ x < n) : l = List.range n :=
  sorted_ext hs List.pairwise_lt_range (fun x => by rw [hm x, List.mem_range])

theorem sortDedup_eq_range {l : List Nat} {n : Nat} (hm : ∀ x, x ∈ l ↔ x < n) :
    sortDedup l = List.range n := by
  obtain ⟨s1, s2⟩ := sortDedup_spec l
  exact eq_range_of_sorted_mem s1 (fun x => by rw [s2 x, hm x])

/-- `collect()` of ANY sequence (any order, any repetitions) whose distinct items are exactly 0..n is the same
    computation as `collect()` of `0..n` -/
theorem fromIter_any_eq_range (c : Cfg) (g : Rng D) (fuel : Nat) {l : List Nat} {n : Nat}
    (hm : ∀ x, x ∈ l ↔ x < n) (d : D) :
    fromIter c g fuel l d = fromIter c g fuel (List.range n) d := by
  unfold fromIter
  rw [sortDedup_eq_range hm, sortDedup_range]

theorem collect_any_dense64 (g : Rng D) (fuel : Nat) {n : Nat} (hn : 64 ≤ n) (hn' : n ≤ 2 ^ 31)
    {l : List Nat} (hm : ∀ x, x ∈ l ↔ x < n) (d : D) :
    ∃ a, fromIter cfg64 g (fuel + 1) l d = .ok (.heap n (cfg64.denseCap (n - 1)) cfg64.W a, d) := by
  rw [fromIter_any_eq_range cfg64 g (fuel + 1) hm d]
  exact collect_range_dense64 g fuel hn hn' d

theorem collect_any_dense32 (g : Rng D) (fuel : Nat) {n : Nat} (hn : 64 ≤ n) (hn' : n ≤ 2 ^ 31)
    {l : List Nat} (hm : ∀ x, x ∈ l ↔ x < n) (d : D) :
    ∃ a, fromIter cfg32 g (fuel + 1) l d = .ok (.heap n (cfg32.denseCap (n - 1)) cfg32.W a, d) := by
  rw [fromIter_any_eq_range cfg32 g (fuel + 1) hm d]
  exact collect_range_dense32 g fuel hn hn' d

theorem collect_any_bytes64 (g : Rng D) (fuel : Nat) {n : Nat} (hn : 64 ≤ n) (hn' : n ≤ 2 ^ 31)
    {l : List Nat} (hm : ∀ x, x ∈ l ↔ x < n) (d : D) :
    ∃ r, fromIter cfg64 g (fuel + 1) l d = .ok (r, d) ∧ len r = n ∧
      blockBytes cfg64 r = 8 * (1 + (n - 1) / 64 + (n - 1) / 256) + 24 ∧ blockBytes cfg64 r ≤ n / 4 + 64 := by
  rw [fromIter_any_eq_range cfg64 g (fuel + 1) hm d]
  exact collect_range_bytes64 g fuel hn hn' d

theorem collect_any_bytes32 (g : Rng D) (fuel : Nat) {n : Nat} (hn : 64 ≤ n) (hn' : n ≤ 2 ^ 31)
    {l : List Nat} (hm : ∀ x, x ∈ l ↔ x < n) (d : D) :
    ∃ r, fromIter cfg32 g (fuel + 1) l d = .ok (r, d) ∧ len r = n ∧
      blockBytes cfg32 r = 4 * (1 + (n - 1) / 32 + (n - 1) / 128) + 12 ∧ blockBytes cfg32 r ≤ n / 4 + 64 := by
  rw [fromIter_any_eq_range cfg32 g (fuel + 1) hm d]
  exact collect_range_bytes32 g fuel hn hn' d

#print axioms eq_range_of_sorted_mem
#print axioms sortDedup_eq_range
#print axioms fromIter_any_eq_range
#print axioms collect_any_dense64
#print axioms collect_any_dense32
#print axioms collect_any_bytes64
#print axioms collect_any_bytes32
end SC
