import TinysetModel.Proofs.WF
import TinysetModel.Model.WFCheck
/-! Soundness of the executable invariant check (`Model/WFCheck.lean`): a representation that passes
`wfB` and `absB` satisfies the invariant `WF` that every theorem of the development assumes. -/
namespace SC
open RH

theorem occ_false_iff {a : Tbl} {i : Nat} : occ a i = false ↔ get a i = 0 := by
  simp [occ]

theorem occ_true_iff {a : Tbl} {i : Nat} : occ a i = true ↔ get a i ≠ 0 := by
  simp [occ]

/-- the executable Robin-Hood invariant implies the propositional one -/
theorem inv_of_check {a : Tbl} {off : Nat} (h : inv a off = true) : Inv a off := by
  unfold inv at h
  rw [Bool.and_eq_true] at h
  obtain ⟨hrh, hd⟩ := h
  constructor
  · intro i j hi hj oi oj hk
    unfold invDistinct at hd
    rw [List.all_eq_true] at hd
    have h1 := hd i (List.mem_range.2 hi)
    rw [List.all_eq_true] at h1
    have h2 := h1 j (List.mem_range.2 hj)
    have oi' : occ a i = true := occ_true_iff.2 oi
    have oj' : occ a j = true := occ_true_iff.2 oj
    simp only [oi', oj', Bool.not_true, Bool.false_or, Bool.or_eq_true, beq_iff_eq, bne_iff_ne] at h2
    rcases h2 with h2 | h2
    · exact h2
    · exact absurd hk h2
  · intro i hi oi hp
    unfold invRH at hrh
    rw [List.all_eq_true] at hrh
    have h1 := hrh i (List.mem_range.2 hi)
    have oi' : occ a i = true := occ_true_iff.2 oi
    simp only [oi', Bool.not_true, Bool.false_or, Bool.or_eq_true, beq_iff_eq, Bool.and_eq_true,
      decide_eq_true_eq] at h1
    rcases h1 with h1 | ⟨h1, h2⟩
    · omega
    · exact ⟨occ_true_iff.1 h1, h2⟩

theorem lin_of_check {a : Tbl} {off b : Nat} (h : linB a off b = true) : Lin a off b := by
  intro x hx ox
  unfold linB at h
  rw [List.all_eq_true] at h
  have h1 := h x (List.mem_range.2 hx)
  have ox' : occ a x = true := occ_true_iff.2 ox
  simpa [ox'] using h1

theorem cut_of_check {a : Tbl} {off : Nat} (h : cutB a off = true) : ∃ b, b < a.size ∧ Lin a off b := by
  unfold cutB at h
  rw [List.any_eq_true] at h
  obtain ⟨b, hb, hl⟩ := h
  exact ⟨b, List.mem_range.1 hb, lin_of_check hl⟩

theorem get_mem_toList {a : Tbl} {i : Nat} (hi : i < a.size) : get a i ∈ a.toList := by
  rw [get_eq_getElem hi]
  exact List.getElem_mem _

theorem all_toList_get {a : Tbl} {p : Nat → Bool} (h : a.toList.all p = true) :
    ∀ i, i < a.size → p (get a i) = true := by
  intro i hi
  rw [List.all_eq_true] at h
  exact h _ (get_mem_toList hi)

theorem words_of_check {a : Tbl} {W : Nat} (h : a.toList.all (· < 2 ^ W) = true) :
    ∀ i, i < a.size → get a i < 2 ^ W := by
  intro i hi
  have := all_toList_get h i hi
  simpa using this

theorem range_of_abs {c : Cfg} {r : Rp} (h : absB c r = true) : ∀ x, x ∈ elems c r → x < 2 ^ c.W := by
  intro x hx
  unfold absB at h
  simp only [Bool.and_eq_true] at h
  have h3 := h.2
  rw [List.all_eq_true] at h3
  simpa using h3 x hx

theorem wf_stack {c : Cfg} {t : TinyC.T} (h1 : wfB c (.stack t) = true) (h2 : absB c (.stack t) = true) :
    StackWF c t := by
  unfold wfB at h1
  simp only [Bool.and_eq_true, decide_eq_true_eq] at h1
  exact ⟨h1.1, h1.2, fun x hx => range_of_abs h2 x (by simpa [elems] using hx)⟩

theorem wf_dense {c : Cfg} {sz cap bits : Nat} {a : Tbl} (hd : isDense c bits = true)
    (h1 : wfB c (.heap sz cap bits a) = true) (h2 : absB c (.heap sz cap bits a) = true) :
    DenseWF c sz cap a := by
  have hb : bits = c.W := by simpa [isDense] using hd
  subst hb
  unfold wfB at h1
  simp only [hd, if_true, Bool.and_eq_true, decide_eq_true_eq, beq_iff_eq] at h1
  obtain ⟨⟨⟨hc, hp⟩, hw⟩, hs⟩ := h1
  exact ⟨hc, hp, words_of_check hw, hs, range_of_abs h2⟩

theorem wf_plain {c : Cfg} {sz cap bits : Nat} {a : Tbl} (hd : isDense c bits = false)
    (hp : isPlain c bits = true) (h1 : wfB c (.heap sz cap bits a) = true) :
    PlainWF bits sz a ∧ cap = a.size ∧ c.W < bits ∧ (∀ i, i < a.size → get a i < 2 ^ c.W) ∧
      bits < 2 ^ c.W := by
  unfold wfB at h1
  simp only [hd, hp, if_true, Bool.false_eq_true, if_false, Bool.and_eq_true, decide_eq_true_eq,
    beq_iff_eq, bne_iff_ne] at h1
  obtain ⟨⟨⟨⟨⟨⟨⟨⟨hn, hi⟩, hc⟩, hs⟩, hb⟩, hcap⟩, hW⟩, hw⟩, hlt⟩ := h1
  exact ⟨⟨hn, inv_of_check hi, cut_of_check hc, hs, hb⟩, hcap, hW, words_of_check hw, hlt⟩

theorem wf_bitmap {c : Cfg} {sz cap bits : Nat} {a : Tbl} (hd : isDense c bits = false)
    (hp : isPlain c bits = false) (h1 : wfB c (.heap sz cap bits a) = true)
    (h2 : absB c (.heap sz cap bits a) = true) : BitmapWF c sz cap bits a := by
  unfold wfB at h1
  simp only [hd, hp, Bool.false_eq_true, if_false, Bool.and_eq_true, decide_eq_true_eq,
    beq_iff_eq] at h1
  obtain ⟨⟨⟨⟨⟨⟨⟨⟨⟨hcap, hcp⟩, hb0⟩, hbW⟩, hi⟩, hc⟩, hbk⟩, hw⟩, hf⟩, hs⟩ := h1
  refine ⟨hcap, hcp, hb0, hbW, inv_of_check hi, cut_of_check hc, ?_, ?_, hs, range_of_abs h2⟩
  · intro i hi' hne
    have := all_toList_get hbk i hi'
    simp only [Bool.or_eq_true, beq_iff_eq, bne_iff_ne] at this
    rcases this with h | h
    · exact absurd h hne
    · exact ⟨h, words_of_check hw i hi'⟩
  · intro x hx
    rw [List.all_eq_true] at hf
    simpa using hf x hx

theorem wf_of_check (c : Cfg) (r : Rp) (h1 : wfB c r = true) (h2 : absB c r = true) : WF c r := by
  cases r with
  | empty => trivial
  | stack t => exact wf_stack h1 h2
  | heap sz cap bits a =>
    unfold WF
    dsimp only
    by_cases hd : isDense c bits = true
    · rw [if_pos hd]; exact wf_dense hd h1 h2
    · rw [if_neg hd]
      have hd' : isDense c bits = false := by simpa using hd
      by_cases hp : isPlain c bits = true
      · rw [if_pos hp]; exact wf_plain hd' hp h1
      · rw [if_neg hp]
        have hp' : isPlain c bits = false := by simpa using hp
        exact wf_bitmap hd' hp' h1 h2

end SC

#print axioms SC.wf_of_check
