import TinysetModel.Proofs.TotalOpsExtend
/-! Total correctness of the public surface, part 3: histories.

`run_total`: a history of `n` in-range operations, run from a well-formed set within a ghost bound `M`
(`CapOK r M`) with `SizeFits c (M + n)`, returns normally at every call, for every random generator and every
generator state.  With `run_refines` (partial correctness) this is total correctness of histories:
`run_total_u64` — from `new()`, every call of every history of fewer than `2^60` operations returns normally
with the ideal answer.  The `hist_*` theorems say the same one operation at a time for every set reachable in
the sense of `Hist` (`Proofs/CapSpec.lean`), operators included. -/
namespace SC
open RH Plain2

variable {c : Cfg} {D : Type}

/-- one operation of the interface returns normally; the ghost bound grows by at most one -/
theorem stepOp_total (ok : CfgOK c) (lk : LikeS c) (cc : CapCfg c) (g : Rng D) (fuel : Nat) (op : Op)
    (hop : op.InRange c.W) {r : Rp} (wf : WF c r) {M : Nat} (hc : CapOK r M) (hfit : SizeFits c M) (d : D) :
    ∃ r' o d', stepOp c g (fuel + 2) r op d = .ok ((r', o), d') ∧ WF c r' ∧ CapOK r' (M + 1) := by
  cases op with
  | ins e =>
    obtain ⟨r', b, d', h, sp, cp, _⟩ := insert_total_cap ok lk cc g fuel wf e hop hc hfit d
    refine ⟨r', .bool b, d', ?_, sp.wf, cp⟩
    show (insert c g (fuel + 2) r e >>= fun p => pure (p.1, Out.bool p.2)) d = _
    rw [bind_run h]; rfl
  | rem e =>
    obtain ⟨r', b, d', h⟩ := remove_total ok lk cc g (fuel + 1) wf e hop d
    have sp := remove_refines ok g (fuel + 2) wf e hop h
    have cp := remove_capOK ok cc g (allCores ok g) (fuel + 2) wf e hc h
    refine ⟨r', .bool b, d', ?_, sp.wf, cp.mono (Nat.le_succ _)⟩
    show (remove c g (fuel + 2) r e >>= fun p => pure (p.1, Out.bool p.2)) d = _
    rw [bind_run h]; rfl
  | con e => exact ⟨r, _, d, rfl, wf, hc.mono (Nat.le_succ _)⟩
  | len => exact ⟨r, _, d, rfl, wf, hc.mono (Nat.le_succ _)⟩

theorem runOps_cons (g : Rng D) (fuel : Nat) (r : Rp) (op : Op) (ops : List Op) (d : D) {r1 : Rp} {o : Out} {d1 : D}
    {r2 : Rp} {outs : List Out} {d2 : D} (h1 : stepOp c g fuel r op d = .ok ((r1, o), d1))
    (h2 : runOps c g fuel r1 ops d1 = .ok ((r2, outs), d2)) :
    runOps c g fuel r (op :: ops) d = .ok ((r2, o :: outs), d2) := by
  rw [runOps, bind_run h1, bind_run h2]; rfl

/-- **every call of a history returns normally** (generic form) -/
theorem run_total (ok : CfgOK c) (lk : LikeS c) (cc : CapCfg c) (g : Rng D) (fuel : Nat) :
    ∀ (ops : List Op) (r : Rp) (M : Nat) (d : D), WF c r → CapOK r M → (∀ op ∈ ops, op.InRange c.W) →
      SizeFits c (M + ops.length) →
      ∃ r' outs d', runOps c g (fuel + 2) r ops d = .ok ((r', outs), d') ∧ CapOK r' (M + ops.length) := by
  intro ops
  induction ops with
  | nil => intro r M d _ hc _ _; exact ⟨r, [], d, rfl, hc⟩
  | cons op ops ih =>
    intro r M d wf hc hops hfit
    rw [List.length_cons] at hfit
    obtain ⟨r1, o, d1, h1, w1, c1⟩ := stepOp_total ok lk cc g fuel op (hops op List.mem_cons_self) wf hc
      (hfit.mono (by omega)) d
    obtain ⟨r2, outs, d2, h2, c2⟩ := ih r1 (M + 1) d1 w1 c1 (fun op' h' => hops op' (List.mem_cons_of_mem _ h'))
      (hfit.mono (by omega))
    refine ⟨r2, o :: outs, d2, runOps_cons g _ r op ops d h1 h2, ?_⟩
    rw [List.length_cons]
    exact c2.mono (by omega)

/-- total correctness of histories (generic form): the run returns, and every answer is the ideal one -/
theorem run_total_correct (ok : CfgOK c) (lk : LikeS c) (cc : CapCfg c) (g : Rng D) (fuel : Nat) (ops : List Op)
    (hops : ∀ op ∈ ops, op.InRange c.W) {r : Rp} (wf : WF c r) {M : Nat} (hc : CapOK r M)
    (hfit : SizeFits c (M + ops.length)) (s : List Nat) (hs : s.Nodup) (hrs : ∀ x, x ∈ elems c r ↔ x ∈ s) (d : D) :
    ∃ r' outs d', runOps c g (fuel + 2) r ops d = .ok ((r', outs), d') ∧ WF c r' ∧ CapOK r' (M + ops.length) ∧
      outs = (specRun s ops).2 ∧ ∀ x, x ∈ elems c r' ↔ x ∈ (specRun s ops).1 := by
  obtain ⟨r', outs, d', h, cp⟩ := run_total ok lk cc g fuel ops r M d wf hc hops hfit
  obtain ⟨w, o, m⟩ := run_refines ok g (fuel + 2) ops hops wf s hs hrs h
  exact ⟨r', outs, d', h, w, cp, o, m⟩

/-- **`SetU64`: every call of every history returns normally with the ideal answer.**  For every random
generator `g`, every generator state `d`, every fuel `≥ 2` and every history of fewer than `2^60` in-range
operations from `new()`. -/
theorem run_total_u64 (g : Rng D) (fuel : Nat) (ops : List Op) (hops : ∀ op ∈ ops, op.InRange 64)
    (hlen : ops.length < 2 ^ 60) (d : D) :
    ∃ r' outs d', runOps cfg64 g (fuel + 2) .empty ops d = .ok ((r', outs), d') ∧ WF cfg64 r' ∧
      outs = (specRun [] ops).2 ∧ ∀ x, x ∈ elems cfg64 r' ↔ x ∈ (specRun [] ops).1 := by
  obtain ⟨r', outs, d', h, w, _, o, m⟩ := run_total_correct cfg64_ok cfg64_likeS capCfg64 g fuel ops hops
    (r := .empty) trivial (CapOK.empty 0) (sizeFits64 (by omega)) [] List.nodup_nil (fun x => by simp [elems]) d
  exact ⟨r', outs, d', h, w, o, m⟩

/-- the same from any well-formed `SetU64` within a ghost bound (e.g. a `Hist`-reachable one) -/
theorem run_total_from_u64 (g : Rng D) (fuel : Nat) (ops : List Op) (hops : ∀ op ∈ ops, op.InRange 64)
    {r : Rp} (wf : WF cfg64 r) {M : Nat} (hc : CapOK r M) (hlen : M + ops.length < 2 ^ 60) (d : D) :
    ∃ r' outs d', runOps cfg64 g (fuel + 2) r ops d = .ok ((r', outs), d') ∧ WF cfg64 r' ∧
      outs = (specRun (elems cfg64 r) ops).2 ∧ ∀ x, x ∈ elems cfg64 r' ↔ x ∈ (specRun (elems cfg64 r) ops).1 := by
  obtain ⟨r', outs, d', h, w, _, o, m⟩ := run_total_correct cfg64_ok cfg64_likeS capCfg64 g fuel ops hops
    wf hc (sizeFits64 (by omega)) (elems cfg64 r) (absOK_of_wf cfg64_ok wf).nodup (fun _ => Iff.rfl) d
  exact ⟨r', outs, d', h, w, o, m⟩

/-! ### one operation at a time, on every reachable set (`Hist`): the call returns and the result is reachable -/

section hist
variable (g : Rng D) (fuel : Nat)

theorem hist_insert_total_u64 {r : Rp} {M : Nat} (hr : Hist cfg64 g r M) (hM : M < 2 ^ 60) (e : Nat)
    (he : e < 2 ^ 64) (d : D) :
    ∃ r' b d', insert cfg64 g (fuel + 2) r e d = .ok ((r', b), d') ∧ InsOK cfg64 r e r' b ∧
      Hist cfg64 g r' (Max.max M (len r')) := by
  obtain ⟨wf, hc⟩ := hist_ok cfg64_ok capCfg64 g (allCores cfg64_ok g) hr
  obtain ⟨r', b, d', h, sp, _⟩ := insert_total_cap cfg64_ok cfg64_likeS capCfg64 g fuel wf e he hc
    (sizeFits64 (by omega)) d
  exact ⟨r', b, d', h, sp, Hist.insert hr he h⟩

theorem hist_remove_total_u64 {r : Rp} {M : Nat} (hr : Hist cfg64 g r M) (e : Nat) (he : e < 2 ^ 64) (d : D) :
    ∃ r' b d', remove cfg64 g (fuel + 2) r e d = .ok ((r', b), d') ∧ RemOK cfg64 r e r' b ∧ Hist cfg64 g r' M := by
  obtain ⟨wf, _⟩ := hist_ok cfg64_ok capCfg64 g (allCores cfg64_ok g) hr
  obtain ⟨r', b, d', h, sp⟩ := remove_total_correct_u64 g fuel wf e he d
  exact ⟨r', b, d', h, sp, Hist.remove hr he h⟩

theorem hist_collect_total_u64 (xs : List Nat) (hx : ∀ x ∈ xs, x < 2 ^ 64) (hlen : xs.length < 2 ^ 60) (d : D) :
    ∃ r d', fromIter cfg64 g (fuel + 2) xs d = .ok (r, d') ∧ (∀ x, x ∈ elems cfg64 r ↔ x ∈ xs) ∧
      Hist cfg64 g r (len r) := by
  obtain ⟨r, d', h, _, m⟩ := fromIter_total_correct_u64 g fuel xs hx hlen d
  exact ⟨r, d', h, m, Hist.collect hx h⟩

theorem hist_extend_total_u64 {r : Rp} {M : Nat} (hr : Hist cfg64 g r M) (xs : List Nat)
    (hx : ∀ x ∈ xs, x < 2 ^ 64) (hsize : M + xs.length < 2 ^ 60) (d : D) :
    ∃ r' d', extend cfg64 g (fuel + 2) r xs d = .ok (r', d') ∧
      (∀ x, x ∈ elems cfg64 r' ↔ (x ∈ elems cfg64 r ∨ x ∈ xs)) ∧ Hist cfg64 g r' (Max.max M (len r')) := by
  obtain ⟨wf, hc⟩ := hist_ok cfg64_ok capCfg64 g (allCores cfg64_ok g) hr
  obtain ⟨r', d', h, _, _, m⟩ := extend_total_u64 g fuel wf xs hx hc hsize d
  exact ⟨r', d', h, m, Hist.extend hr hx h⟩

theorem hist_unionRef_total_u64 {a b : Rp} {Ma Mb : Nat} (ha : Hist cfg64 g a Ma) (hb : Hist cfg64 g b Mb)
    (hsize : Ma + Mb < 2 ^ 60) (d : D) :
    ∃ r d', unionRef cfg64 g (fuel + 2) a b d = .ok (r, d') ∧
      (∀ x, x ∈ elems cfg64 r ↔ (x ∈ elems cfg64 a ∨ x ∈ elems cfg64 b)) ∧
      Hist cfg64 g r (Max.max (Max.max Ma Mb) (len r)) := by
  obtain ⟨wa, ca⟩ := hist_ok cfg64_ok capCfg64 g (allCores cfg64_ok g) ha
  obtain ⟨wb, cb⟩ := hist_ok cfg64_ok capCfg64 g (allCores cfg64_ok g) hb
  obtain ⟨r, d', h, _, m⟩ := unionRef_total_u64 g fuel wa wb ca cb hsize d
  exact ⟨r, d', h, m, Hist.unionRef ha hb h⟩

theorem hist_unionOwn_total_u64 {a b : Rp} {Ma Mb : Nat} (ha : Hist cfg64 g a Ma) (hb : Hist cfg64 g b Mb)
    (hsize : Ma + Mb < 2 ^ 60) (d : D) :
    ∃ r d', unionOwn cfg64 g (fuel + 2) a b d = .ok (r, d') ∧
      (∀ x, x ∈ elems cfg64 r ↔ (x ∈ elems cfg64 a ∨ x ∈ elems cfg64 b)) ∧
      Hist cfg64 g r (Max.max Ma (len r)) := by
  obtain ⟨wa, ca⟩ := hist_ok cfg64_ok capCfg64 g (allCores cfg64_ok g) ha
  obtain ⟨wb, cb⟩ := hist_ok cfg64_ok capCfg64 g (allCores cfg64_ok g) hb
  obtain ⟨r, d', h, _, m⟩ := unionOwn_total_u64 g fuel wa wb ca cb hsize d
  exact ⟨r, d', h, m, Hist.unionOwn ha hb h⟩

theorem hist_unionRef64_total_u64 {a b : Rp} {Ma Mb : Nat} (ha : Hist cfg64 g a Ma) (hb : Hist cfg64 g b Mb)
    (hsize : Ma + Mb < 2 ^ 60) (d : D) :
    ∃ r d', unionRef64 cfg64 g (fuel + 2) a b d = .ok (r, d') ∧
      (∀ x, x ∈ elems cfg64 r ↔ (x ∈ elems cfg64 a ∨ x ∈ elems cfg64 b)) ∧ Hist cfg64 g r (len r) := by
  obtain ⟨wa, ca⟩ := hist_ok cfg64_ok capCfg64 g (allCores cfg64_ok g) ha
  obtain ⟨wb, cb⟩ := hist_ok cfg64_ok capCfg64 g (allCores cfg64_ok g) hb
  have h1 := ca.2
  have h2 := cb.2
  obtain ⟨r, d', h, _, m⟩ := unionRef64_total_u64 g fuel wa wb (by omega) d
  exact ⟨r, d', h, m, Hist.unionRef64 ha hb h⟩

theorem hist_diffRef_total_u64 {a b : Rp} {Ma Mb : Nat} (ha : Hist cfg64 g a Ma) (hb : Hist cfg64 g b Mb)
    (hsize : Ma < 2 ^ 60) (d : D) :
    ∃ r d', diffRef cfg64 g (fuel + 2) a b d = .ok (r, d') ∧
      (∀ x, x ∈ elems cfg64 r ↔ (x ∈ elems cfg64 a ∧ x ∉ elems cfg64 b)) ∧ Hist cfg64 g r Ma := by
  obtain ⟨wa, ca⟩ := hist_ok cfg64_ok capCfg64 g (allCores cfg64_ok g) ha
  obtain ⟨wb, _⟩ := hist_ok cfg64_ok capCfg64 g (allCores cfg64_ok g) hb
  obtain ⟨r, d', h, _, m⟩ := diffRef_total_u64 g fuel wa wb ca hsize d
  exact ⟨r, d', h, m, Hist.diffRef ha hb h⟩

theorem hist_diffRef64_total_u64 {a b : Rp} {Ma Mb : Nat} (ha : Hist cfg64 g a Ma) (hb : Hist cfg64 g b Mb)
    (hsize : Ma < 2 ^ 60) (d : D) :
    ∃ r d', diffRef64 cfg64 g (fuel + 2) a b d = .ok (r, d') ∧
      (∀ x, x ∈ elems cfg64 r ↔ (x ∈ elems cfg64 a ∧ x ∉ elems cfg64 b)) ∧ Hist cfg64 g r (len r) := by
  obtain ⟨wa, ca⟩ := hist_ok cfg64_ok capCfg64 g (allCores cfg64_ok g) ha
  obtain ⟨wb, _⟩ := hist_ok cfg64_ok capCfg64 g (allCores cfg64_ok g) hb
  have h1 := ca.2
  obtain ⟨r, d', h, _, m⟩ := diffRef64_total_u64 g fuel wa wb (by omega) d
  exact ⟨r, d', h, m, Hist.diffRef64 ha hb h⟩

theorem hist_diffOwn_total_u64 {a b : Rp} {Ma Mb : Nat} (ha : Hist cfg64 g a Ma) (hb : Hist cfg64 g b Mb) (d : D) :
    ∃ r d', diffOwn cfg64 g (fuel + 2) a b d = .ok (r, d') ∧
      (∀ x, x ∈ elems cfg64 r ↔ (x ∈ elems cfg64 a ∧ x ∉ elems cfg64 b)) ∧ Hist cfg64 g r Ma := by
  obtain ⟨wa, _⟩ := hist_ok cfg64_ok capCfg64 g (allCores cfg64_ok g) ha
  obtain ⟨wb, _⟩ := hist_ok cfg64_ok capCfg64 g (allCores cfg64_ok g) hb
  obtain ⟨r, d', h, _, m⟩ := diffOwn_total_u64 g fuel wa wb d
  exact ⟨r, d', h, m, Hist.diffOwn ha hb h⟩

end hist

/-! ### the `SetU32` instances -/

/-- **`SetU32`: every call of every history returns normally with the ideal answer.**  For every random
generator `g`, every generator state `d`, every fuel `≥ 2` and every history of fewer than `2^28` in-range
operations from `new()`. -/
theorem run_total_u32 (g : Rng D) (fuel : Nat) (ops : List Op) (hops : ∀ op ∈ ops, op.InRange 32)
    (hlen : ops.length < 2 ^ 28) (d : D) :
    ∃ r' outs d', runOps cfg32 g (fuel + 2) .empty ops d = .ok ((r', outs), d') ∧ WF cfg32 r' ∧
      outs = (specRun [] ops).2 ∧ ∀ x, x ∈ elems cfg32 r' ↔ x ∈ (specRun [] ops).1 := by
  obtain ⟨r', outs, d', h, w, _, o, m⟩ := run_total_correct cfg32_ok cfg32_likeS capCfg32 g fuel ops hops
    (r := .empty) trivial (CapOK.empty 0) (sizeFits32 (by omega)) [] List.nodup_nil (fun x => by simp [elems]) d
  exact ⟨r', outs, d', h, w, o, m⟩

/-- the same from any well-formed `SetU32` within a ghost bound (e.g. a `Hist`-reachable one) -/
theorem run_total_from_u32 (g : Rng D) (fuel : Nat) (ops : List Op) (hops : ∀ op ∈ ops, op.InRange 32)
    {r : Rp} (wf : WF cfg32 r) {M : Nat} (hc : CapOK r M) (hlen : M + ops.length < 2 ^ 28) (d : D) :
    ∃ r' outs d', runOps cfg32 g (fuel + 2) r ops d = .ok ((r', outs), d') ∧ WF cfg32 r' ∧
      outs = (specRun (elems cfg32 r) ops).2 ∧ ∀ x, x ∈ elems cfg32 r' ↔ x ∈ (specRun (elems cfg32 r) ops).1 := by
  obtain ⟨r', outs, d', h, w, _, o, m⟩ := run_total_correct cfg32_ok cfg32_likeS capCfg32 g fuel ops hops
    wf hc (sizeFits32 (by omega)) (elems cfg32 r) (absOK_of_wf cfg32_ok wf).nodup (fun _ => Iff.rfl) d
  exact ⟨r', outs, d', h, w, o, m⟩

section hist32
variable (g : Rng D) (fuel : Nat)

theorem hist_insert_total_u32 {r : Rp} {M : Nat} (hr : Hist cfg32 g r M) (hM : M < 2 ^ 28) (e : Nat)
    (he : e < 2 ^ 32) (d : D) :
    ∃ r' b d', insert cfg32 g (fuel + 2) r e d = .ok ((r', b), d') ∧ InsOK cfg32 r e r' b ∧
      Hist cfg32 g r' (Max.max M (len r')) := by
  obtain ⟨wf, hc⟩ := hist_ok cfg32_ok capCfg32 g (allCores cfg32_ok g) hr
  obtain ⟨r', b, d', h, sp, _⟩ := insert_total_cap cfg32_ok cfg32_likeS capCfg32 g fuel wf e he hc
    (sizeFits32 (by omega)) d
  exact ⟨r', b, d', h, sp, Hist.insert hr he h⟩

theorem hist_remove_total_u32 {r : Rp} {M : Nat} (hr : Hist cfg32 g r M) (e : Nat) (he : e < 2 ^ 32) (d : D) :
    ∃ r' b d', remove cfg32 g (fuel + 2) r e d = .ok ((r', b), d') ∧ RemOK cfg32 r e r' b ∧ Hist cfg32 g r' M := by
  obtain ⟨wf, _⟩ := hist_ok cfg32_ok capCfg32 g (allCores cfg32_ok g) hr
  obtain ⟨r', b, d', h, sp⟩ := remove_total_correct_u32 g fuel wf e he d
  exact ⟨r', b, d', h, sp, Hist.remove hr he h⟩

theorem hist_collect_total_u32 (xs : List Nat) (hx : ∀ x ∈ xs, x < 2 ^ 32) (hlen : xs.length < 2 ^ 28) (d : D) :
    ∃ r d', fromIter cfg32 g (fuel + 2) xs d = .ok (r, d') ∧ (∀ x, x ∈ elems cfg32 r ↔ x ∈ xs) ∧
      Hist cfg32 g r (len r) := by
  obtain ⟨r, d', h, _, m⟩ := fromIter_total_correct_u32 g fuel xs hx hlen d
  exact ⟨r, d', h, m, Hist.collect hx h⟩

theorem hist_extend_total_u32 {r : Rp} {M : Nat} (hr : Hist cfg32 g r M) (xs : List Nat)
    (hx : ∀ x ∈ xs, x < 2 ^ 32) (hsize : M + xs.length < 2 ^ 28) (d : D) :
    ∃ r' d', extend cfg32 g (fuel + 2) r xs d = .ok (r', d') ∧
      (∀ x, x ∈ elems cfg32 r' ↔ (x ∈ elems cfg32 r ∨ x ∈ xs)) ∧ Hist cfg32 g r' (Max.max M (len r')) := by
  obtain ⟨wf, hc⟩ := hist_ok cfg32_ok capCfg32 g (allCores cfg32_ok g) hr
  obtain ⟨r', d', h, _, _, m⟩ := extend_total_u32 g fuel wf xs hx hc hsize d
  exact ⟨r', d', h, m, Hist.extend hr hx h⟩

theorem hist_unionRef_total_u32 {a b : Rp} {Ma Mb : Nat} (ha : Hist cfg32 g a Ma) (hb : Hist cfg32 g b Mb)
    (hsize : Ma + Mb < 2 ^ 28) (d : D) :
    ∃ r d', unionRef cfg32 g (fuel + 2) a b d = .ok (r, d') ∧
      (∀ x, x ∈ elems cfg32 r ↔ (x ∈ elems cfg32 a ∨ x ∈ elems cfg32 b)) ∧
      Hist cfg32 g r (Max.max (Max.max Ma Mb) (len r)) := by
  obtain ⟨wa, ca⟩ := hist_ok cfg32_ok capCfg32 g (allCores cfg32_ok g) ha
  obtain ⟨wb, cb⟩ := hist_ok cfg32_ok capCfg32 g (allCores cfg32_ok g) hb
  obtain ⟨r, d', h, _, m⟩ := unionRef_total_u32 g fuel wa wb ca cb hsize d
  exact ⟨r, d', h, m, Hist.unionRef ha hb h⟩

theorem hist_unionOwn_total_u32 {a b : Rp} {Ma Mb : Nat} (ha : Hist cfg32 g a Ma) (hb : Hist cfg32 g b Mb)
    (hsize : Ma + Mb < 2 ^ 28) (d : D) :
    ∃ r d', unionOwn cfg32 g (fuel + 2) a b d = .ok (r, d') ∧
      (∀ x, x ∈ elems cfg32 r ↔ (x ∈ elems cfg32 a ∨ x ∈ elems cfg32 b)) ∧
      Hist cfg32 g r (Max.max Ma (len r)) := by
  obtain ⟨wa, ca⟩ := hist_ok cfg32_ok capCfg32 g (allCores cfg32_ok g) ha
  obtain ⟨wb, cb⟩ := hist_ok cfg32_ok capCfg32 g (allCores cfg32_ok g) hb
  obtain ⟨r, d', h, _, m⟩ := unionOwn_total_u32 g fuel wa wb ca cb hsize d
  exact ⟨r, d', h, m, Hist.unionOwn ha hb h⟩

theorem hist_unionRef64_total_u32 {a b : Rp} {Ma Mb : Nat} (ha : Hist cfg32 g a Ma) (hb : Hist cfg32 g b Mb)
    (hsize : Ma + Mb < 2 ^ 28) (d : D) :
    ∃ r d', unionRef64 cfg32 g (fuel + 2) a b d = .ok (r, d') ∧
      (∀ x, x ∈ elems cfg32 r ↔ (x ∈ elems cfg32 a ∨ x ∈ elems cfg32 b)) ∧ Hist cfg32 g r (len r) := by
  obtain ⟨wa, ca⟩ := hist_ok cfg32_ok capCfg32 g (allCores cfg32_ok g) ha
  obtain ⟨wb, cb⟩ := hist_ok cfg32_ok capCfg32 g (allCores cfg32_ok g) hb
  have h1 := ca.2
  have h2 := cb.2
  obtain ⟨r, d', h, _, m⟩ := unionRef64_total_u32 g fuel wa wb (by omega) d
  exact ⟨r, d', h, m, Hist.unionRef64 ha hb h⟩

theorem hist_diffRef_total_u32 {a b : Rp} {Ma Mb : Nat} (ha : Hist cfg32 g a Ma) (hb : Hist cfg32 g b Mb)
    (hsize : Ma < 2 ^ 28) (d : D) :
    ∃ r d', diffRef cfg32 g (fuel + 2) a b d = .ok (r, d') ∧
      (∀ x, x ∈ elems cfg32 r ↔ (x ∈ elems cfg32 a ∧ x ∉ elems cfg32 b)) ∧ Hist cfg32 g r Ma := by
  obtain ⟨wa, ca⟩ := hist_ok cfg32_ok capCfg32 g (allCores cfg32_ok g) ha
  obtain ⟨wb, _⟩ := hist_ok cfg32_ok capCfg32 g (allCores cfg32_ok g) hb
  obtain ⟨r, d', h, _, m⟩ := diffRef_total_u32 g fuel wa wb ca hsize d
  exact ⟨r, d', h, m, Hist.diffRef ha hb h⟩

theorem hist_diffRef64_total_u32 {a b : Rp} {Ma Mb : Nat} (ha : Hist cfg32 g a Ma) (hb : Hist cfg32 g b Mb)
    (hsize : Ma < 2 ^ 28) (d : D) :
    ∃ r d', diffRef64 cfg32 g (fuel + 2) a b d = .ok (r, d') ∧
      (∀ x, x ∈ elems cfg32 r ↔ (x ∈ elems cfg32 a ∧ x ∉ elems cfg32 b)) ∧ Hist cfg32 g r (len r) := by
  obtain ⟨wa, ca⟩ := hist_ok cfg32_ok capCfg32 g (allCores cfg32_ok g) ha
  obtain ⟨wb, _⟩ := hist_ok cfg32_ok capCfg32 g (allCores cfg32_ok g) hb
  have h1 := ca.2
  obtain ⟨r, d', h, _, m⟩ := diffRef64_total_u32 g fuel wa wb (by omega) d
  exact ⟨r, d', h, m, Hist.diffRef64 ha hb h⟩

theorem hist_diffOwn_total_u32 {a b : Rp} {Ma Mb : Nat} (ha : Hist cfg32 g a Ma) (hb : Hist cfg32 g b Mb) (d : D) :
    ∃ r d', diffOwn cfg32 g (fuel + 2) a b d = .ok (r, d') ∧
      (∀ x, x ∈ elems cfg32 r ↔ (x ∈ elems cfg32 a ∧ x ∉ elems cfg32 b)) ∧ Hist cfg32 g r Ma := by
  obtain ⟨wa, _⟩ := hist_ok cfg32_ok capCfg32 g (allCores cfg32_ok g) ha
  obtain ⟨wb, _⟩ := hist_ok cfg32_ok capCfg32 g (allCores cfg32_ok g) hb
  obtain ⟨r, d', h, _, m⟩ := diffOwn_total_u32 g fuel wa wb d
  exact ⟨r, d', h, m, Hist.diffOwn ha hb h⟩

end hist32

#print axioms stepOp_total
#print axioms run_total
#print axioms run_total_correct
#print axioms run_total_u64
#print axioms run_total_from_u64
#print axioms hist_insert_total_u64
#print axioms hist_remove_total_u64
#print axioms hist_collect_total_u64
#print axioms hist_extend_total_u64
#print axioms hist_unionRef_total_u64
#print axioms hist_unionOwn_total_u64
#print axioms hist_unionRef64_total_u64
#print axioms hist_diffRef_total_u64
#print axioms hist_diffRef64_total_u64
#print axioms hist_diffOwn_total_u64
#print axioms run_total_u32
#print axioms run_total_from_u32
#print axioms hist_insert_total_u32
#print axioms hist_remove_total_u32
#print axioms hist_collect_total_u32
#print axioms hist_extend_total_u32
#print axioms hist_unionRef_total_u32
#print axioms hist_unionOwn_total_u32
#print axioms hist_unionRef64_total_u32
#print axioms hist_diffRef_total_u32
#print axioms hist_diffRef64_total_u32
#print axioms hist_diffOwn_total_u32
end SC
