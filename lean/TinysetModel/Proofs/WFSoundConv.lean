import TinysetModel.Proofs.WFSound
import TinysetModel.Proofs.PropsAux
/-! Converse of `Proofs/WFSound.lean` (completeness of the executable check): every well-formed
representation passes `wfB` and, for a configuration satisfying `CfgOK`, `absB`. -/
namespace SC
open RH

theorem check_of_inv {a : Tbl} {off : Nat} (h : Inv a off) : inv a off = true := by
  unfold inv
  rw [Bool.and_eq_true]
  constructor
  · unfold invRH
    rw [List.all_eq_true]
    intro i hi
    have hi' := List.mem_range.1 hi
    cases ho : occ a i with
    | false => simp
    | true =>
      by_cases hp : P a off i = 0
      · simp [hp]
      · have := h.rh i hi' (occ_true_iff.1 ho) (by omega)
        simp [occ_true_iff.2 this.1, this.2]
  · unfold invDistinct
    rw [List.all_eq_true]
    intro i hi
    rw [List.all_eq_true]
    intro j hj
    have hi' := List.mem_range.1 hi
    have hj' := List.mem_range.1 hj
    cases hoi : occ a i with
    | false => simp
    | true =>
      cases hoj : occ a j with
      | false => simp
      | true =>
        by_cases hk : get a i >>> off = get a j >>> off
        · have := h.distinct i j hi' hj' (occ_true_iff.1 hoi) (occ_true_iff.1 hoj) hk
          simp [this]
        · simp [hk]

theorem check_of_lin {a : Tbl} {off b : Nat} (h : Lin a off b) : linB a off b = true := by
  unfold linB
  rw [List.all_eq_true]
  intro x hx
  cases ho : occ a x with
  | false => simp
  | true => simpa using h x (List.mem_range.1 hx) (occ_true_iff.1 ho)

theorem check_of_cut {a : Tbl} {off : Nat} (h : ∃ b, b < a.size ∧ Lin a off b) : cutB a off = true := by
  obtain ⟨b, hb, hl⟩ := h
  unfold cutB
  rw [List.any_eq_true]
  exact ⟨b, List.mem_range.2 hb, check_of_lin hl⟩

theorem toList_all_of_get {a : Tbl} {p : Nat → Bool} (h : ∀ i, i < a.size → p (get a i) = true) :
    a.toList.all p = true := by
  rw [List.all_eq_true]
  intro x hx
  obtain ⟨i, hi, rfl⟩ := List.getElem_of_mem hx
  have hi' : i < a.size := by simpa using hi
  rw [← get_eq_getElem hi']
  exact h i hi'

theorem check_of_words {a : Tbl} {W : Nat} (h : ∀ i, i < a.size → get a i < 2 ^ W) :
    a.toList.all (· < 2 ^ W) = true :=
  toList_all_of_get (fun i hi => by simpa using h i hi)

theorem absB_of_absOK {c : Cfg} {r : Rp} (h : AbsOK c r) : absB c r = true := by
  unfold absB
  simp only [Bool.and_eq_true, beq_iff_eq, List.all_eq_true, decide_eq_true_eq]
  refine ⟨⟨?_, h.len⟩, h.range⟩
  exact ((List.perm_ext_iff_of_nodup (nodup_eraseDups _) h.nodup).2
    (fun x => List.mem_eraseDups)).length_eq

theorem wfB_of_wf (c : Cfg) (r : Rp) (wf : WF c r) : wfB c r = true := by
  cases r with
  | empty => rfl
  | stack t =>
    unfold wfB
    simp only [Bool.and_eq_true, decide_eq_true_eq]
    exact ⟨wf.sz_pos, wf.sz_le⟩
  | heap sz cap bits a =>
    unfold WF at wf
    dsimp only at wf
    unfold wfB
    dsimp only
    by_cases hd : isDense c bits = true
    · rw [if_pos hd] at wf
      rw [if_pos hd]
      have hb : bits = c.W := by simpa [isDense] using hd
      subst hb
      simp only [Bool.and_eq_true, decide_eq_true_eq, beq_iff_eq]
      exact ⟨⟨⟨wf.cap_eq, wf.cap_pos⟩, check_of_words wf.words⟩, wf.szc⟩
    · rw [if_neg hd] at wf
      rw [if_neg hd]
      by_cases hp : isPlain c bits = true
      · rw [if_pos hp] at wf
        rw [if_pos hp]
        obtain ⟨pw, hcap, hW, hw, hlt⟩ := wf
        simp only [Bool.and_eq_true, decide_eq_true_eq, beq_iff_eq, bne_iff_ne]
        exact ⟨⟨⟨⟨⟨⟨⟨⟨pw.npos, check_of_inv pw.inv⟩, check_of_cut pw.cut⟩, pw.szc⟩, pw.ph_ne⟩, hcap⟩,
          hW⟩, check_of_words hw⟩, hlt⟩
      · rw [if_neg hp] at wf
        rw [if_neg hp]
        simp only [Bool.and_eq_true, decide_eq_true_eq, beq_iff_eq]
        refine ⟨⟨⟨⟨⟨⟨⟨⟨⟨wf.cap_eq, wf.cap_pos⟩, wf.bits_pos⟩, wf.bits_lt⟩, check_of_inv wf.inv⟩,
          check_of_cut wf.cut⟩, ?_⟩, ?_⟩, ?_⟩, wf.szc⟩
        · apply toList_all_of_get
          intro i hi
          by_cases h0 : get a i = 0
          · simp [h0]
          · simp [(wf.bucket i hi h0).1]
        · apply toList_all_of_get
          intro i hi
          by_cases h0 : get a i = 0
          · simp [h0, Nat.two_pow_pos]
          · simpa using (wf.bucket i hi h0).2
        · rw [List.all_eq_true]
          intro x hx
          simpa using wf.fits x hx

/-- completeness of the check: every well-formed representation passes it -/
theorem check_of_wf (c : Cfg) (ok : CfgOK c) (r : Rp) (wf : WF c r) :
    wfB c r = true ∧ absB c r = true :=
  ⟨wfB_of_wf c r wf, absB_of_absOK (absOK_of_wf ok wf)⟩

theorem wf_iff_check (c : Cfg) (ok : CfgOK c) (r : Rp) :
    WF c r ↔ (wfB c r = true ∧ absB c r = true) :=
  ⟨check_of_wf c ok r, fun h => wf_of_check c r h.1 h.2⟩

end SC

#print axioms SC.wfB_of_wf
#print axioms SC.check_of_wf
#print axioms SC.wf_iff_check
