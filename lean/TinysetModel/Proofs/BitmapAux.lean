import TinysetModel.Proofs.Ctor
/-! Bit-level and table-level helper lemmas for the bitmap layout. -/
namespace SC
open RH

variable {c : Cfg}

theorem testBit_clearBit_lt {w off i : Nat} (hw : w < 2 ^ c.W) (ho : off < c.W) :
    (clearBit c w off).testBit i = (w.testBit i && !decide (i = off)) := by
  unfold clearBit
  rw [Nat.testBit_and]
  have hlt : 2 ^ off < 2 ^ c.W := Nat.pow_lt_pow_right (by omega) ho
  have hm : 2 ^ c.W - 1 - 1 <<< off = 2 ^ c.W - (2 ^ off + 1) := by
    rw [Nat.shiftLeft_eq, Nat.one_mul]; omega
  rw [hm, Nat.testBit_two_pow_sub_succ hlt, Nat.testBit_two_pow]
  by_cases hi : i < c.W
  · simp [hi, eq_comm]
  · have : w.testBit i = false :=
      Nat.testBit_lt_two_pow (Nat.lt_of_lt_of_le hw (Nat.pow_le_pow_right (by omega) (by omega)))
    simp [this]

theorem shiftRight_clearBit {w off bits : Nat} (hw : w < 2 ^ c.W) (ho : off < c.W) (hob : off < bits) :
    clearBit c w off >>> bits = w >>> bits := by
  apply Nat.eq_of_testBit_eq
  intro i
  rw [Nat.testBit_shiftRight, Nat.testBit_shiftRight, testBit_clearBit_lt hw ho]
  have : bits + i ≠ off := by omega
  simp [this]

theorem clearBit_or {w off : Nat} (hw : w < 2 ^ c.W) (ho : off < c.W) (hbit : w.testBit off = true) :
    clearBit c w off ||| (1 <<< off) = w := by
  apply Nat.eq_of_testBit_eq
  intro i
  rw [testBit_or_bit, testBit_clearBit_lt hw ho]
  by_cases h : i = off
  · subst h; simp [hbit]
  · simp [h]

theorem word_decomp (w bits : Nat) : (w >>> bits) <<< bits + w % 2 ^ bits = w := by
  rw [Nat.shiftRight_eq_div_pow, Nat.shiftLeft_eq, Nat.mul_comm]
  exact Nat.div_add_mod w (2 ^ bits)

theorem key_shift_le (w bits : Nat) : (w >>> bits) <<< bits ≤ w := by
  have := word_decomp w bits; omega

theorem testBit_low_shiftLeft {k bits b : Nat} (hb : b < bits) : (k <<< bits).testBit b = false := by
  rw [Nat.testBit_shiftLeft]
  have : ¬ b ≥ bits := by omega
  simp [this]

theorem bitsOf_shiftLeft (k bits : Nat) : bitsOf (k <<< bits) bits = [] := by
  unfold bitsOf
  rw [List.filter_eq_nil_iff]
  intro b hb
  rw [testBit_low_shiftLeft (List.mem_range.1 hb)]
  simp

theorem mod_ne_zero_of_testBit {v off bits : Nat} (hob : off < bits) (hbit : v.testBit off = true) :
    v % 2 ^ bits ≠ 0 := by
  intro h
  have := Nat.testBit_mod_two_pow v bits off
  rw [h] at this
  simp [hob, hbit] at this

theorem ne_zero_of_testBit {v off : Nat} (hbit : v.testBit off = true) : v ≠ 0 := by
  intro h; subst h; simp at hbit

/-! replacing a non-zero word by another non-zero word with the same key -/
section samekey
variable {a : Tbl} {off i v : Nat}

theorem P_put_samekey (hi : i < a.size) (hk : v >>> off = get a i >>> off) (j : Nat) :
    P (put a i v) off j = P a off j := by
  unfold P
  rw [size_put]
  by_cases h : i = j
  · subst h; rw [get_put_eq v hi, hk]
  · rw [get_put_ne v h]

theorem K_put_samekey (hi : i < a.size) (hk : v >>> off = get a i >>> off) (j : Nat) :
    K (put a i v) off j = K a off j := by
  unfold K
  by_cases h : i = j
  · subst h; rw [get_put_eq v hi, hk]
  · rw [get_put_ne v h]

theorem occ_put_samekey (hi : i < a.size) (h0 : get a i ≠ 0) (hv : v ≠ 0) (j : Nat) :
    get (put a i v) j ≠ 0 ↔ get a j ≠ 0 := by
  by_cases h : i = j
  · subst h; rw [get_put_eq v hi]; exact ⟨fun _ => h0, fun _ => hv⟩
  · rw [get_put_ne v h]

theorem Inv_put_samekey (inv : Inv a off) (hi : i < a.size) (h0 : get a i ≠ 0) (hv : v ≠ 0)
    (hk : v >>> off = get a i >>> off) : Inv (put a i v) off := by
  constructor
  · intro x y hx hy ox oy e
    rw [size_put] at hx hy
    rw [occ_put_samekey hi h0 hv] at ox oy
    rw [K_put_samekey hi hk, K_put_samekey hi hk] at e
    exact inv.distinct x y hx hy ox oy e
  · intro x hx ox hp
    rw [size_put] at hx ⊢
    rw [occ_put_samekey hi h0 hv] at ox ⊢
    rw [P_put_samekey hi hk] at hp ⊢
    rw [P_put_samekey hi hk]
    exact inv.rh x hx ox hp

theorem Lin_put_samekey {b : Nat} (lin : Lin a off b) (hi : i < a.size) (h0 : get a i ≠ 0) (hv : v ≠ 0)
    (hk : v >>> off = get a i >>> off) : Lin (put a i v) off b := by
  intro x hx ox
  rw [size_put] at hx ⊢
  rw [occ_put_samekey hi h0 hv] at ox
  rw [P_put_samekey hi hk]
  exact lin x hx ox

end samekey

/-! list bookkeeping shared by `remove` and `insert` -/
theorem rem_core {A A' Bw Bv R : List Nat} {e : Nat} (h1 : A.Perm (Bw ++ R)) (h2 : A'.Perm (Bv ++ R))
    (hnd : A.Nodup) (he : e ∈ Bw) (hm : ∀ x, x ∈ Bv ↔ x ∈ Bw ∧ x ≠ e) (hl : Bv.length + 1 = Bw.length) :
    (∀ x, x ∈ A' ↔ x ∈ A ∧ x ≠ e) ∧ A'.length + 1 = A.length := by
  have hnd' := (h1.nodup_iff).1 hnd
  rw [List.nodup_append] at hnd'
  have heR : e ∉ R := fun h => hnd'.2.2 e he e h rfl
  constructor
  · intro x
    rw [h2.mem_iff, h1.mem_iff, List.mem_append, List.mem_append, hm]
    constructor
    · rintro (⟨h, hne⟩ | h)
      · exact ⟨Or.inl h, hne⟩
      · exact ⟨Or.inr h, fun hx => heR (hx ▸ h)⟩
    · rintro ⟨h | h, hne⟩
      · exact Or.inl ⟨h, hne⟩
      · exact Or.inr h
  · have := h1.length_eq
    have := h2.length_eq
    simp only [List.length_append] at *
    omega

theorem ins_core {A A' Bw Bv R : List Nat} {e : Nat} (h1 : A.Perm (Bw ++ R)) (h2 : A'.Perm (Bv ++ R))
    (hm : ∀ x, x ∈ Bv ↔ x ∈ Bw ∨ x = e) (hl : Bv.length = Bw.length + 1) :
    (∀ x, x ∈ A' ↔ x ∈ A ∨ x = e) ∧ A'.length = A.length + 1 := by
  constructor
  · intro x
    rw [h2.mem_iff, h1.mem_iff, List.mem_append, List.mem_append, hm]
    constructor
    · rintro ((h | h) | h)
      · exact Or.inl (Or.inl h)
      · exact Or.inr h
      · exact Or.inl (Or.inr h)
    · rintro ((h | h) | h)
      · exact Or.inl (Or.inl h)
      · exact Or.inr h
      · exact Or.inl (Or.inr h)
  · have := h1.length_eq
    have := h2.length_eq
    simp only [List.length_append] at *
    omega

theorem lookfor_cases {a : Tbl} {off : Nat} (inv : Inv a off) (hn : 0 < a.size) (k : Nat) :
    (∃ i, lookfor k a off = .found i ∧ i < a.size ∧ get a i ≠ 0 ∧ K a off i = k) ∨
    ((∀ i, lookfor k a off ≠ .found i) ∧ ∀ i, i < a.size → get a i ≠ 0 → K a off i ≠ k) := by
  by_cases h : ∃ i, i < a.size ∧ get a i ≠ 0 ∧ K a off i = k
  · obtain ⟨i, h1, h2, h3⟩ := h
    exact Or.inl ⟨i, lookfor_complete inv h1 h2 h3, h1, h2, h3⟩
  · have hf : ∀ i, i < a.size → get a i ≠ 0 → K a off i ≠ k := fun i h1 h2 h3 => h ⟨i, h1, h2, h3⟩
    exact Or.inr ⟨lookfor_absent hn hf, hf⟩

end SC
