import TinysetModel.Model.Set
import TinysetModel.Generated.Fns
/-! The small pure helper functions, as translated from the current source on every run (`Generated/Fns.lean`,
`tools/gen_fns.py`), are the functions the hand-written model uses: `log_2`, `compute_array_bits`, `split_*`,
`p_poverty`, `Tiny::to_usize` / `from_usize` — for every argument of the element type.  An edit to one of them
in `/repo` changes a definition under one of these theorems. -/
namespace SC
open TinyC

theorem whileN_stop (fuel : Nat) (c : Nat → Bool) (f : Nat → Nat) (x : Nat) (h : c x = false) :
    Gen.RI.whileN fuel c f x = x := by
  cases fuel with
  | zero => rfl
  | succ n => simp [Gen.RI.whileN, h]

theorem log2_succ_le {x k : Nat} (hx : x ≠ 0) (h : x < 2 ^ k) : Nat.log2 x + 1 ≤ k :=
  (Nat.log2_lt hx).mpr h

/-- `log_2` of `setu64.rs` -/
theorem log_2_64_eq (x : Nat) (hx : x < 2 ^ 64) : Gen.log_2_64 x = TinyC.log2 x := by
  unfold Gen.log_2_64 TinyC.log2 Gen.RI.clz
  by_cases h0 : x = 0
  · simp [h0]
  · have := log2_succ_le h0 hx
    simp only [h0, if_false]
    omega

/-- `log_2` of `setu32.rs` (computed in `u32`) -/
theorem log_2_32_eq (x : Nat) (hx : x < 2 ^ 32) : Gen.log_2_32 x = TinyC.log2 x := by
  unfold Gen.log_2_32 TinyC.log2 Gen.RI.clz
  by_cases h0 : x = 0
  · simp [h0]
  · have := log2_succ_le h0 hx
    simp only [h0, if_false]
    omega

/-- `compute_array_bits` of `setu64.rs`: its `while` loop never iterates -/
theorem compute_array_bits_64_eq (mx : Nat) (hx : mx < 2 ^ 64) : Gen.compute_array_bits_64 mx = cfg64.cab mx := by
  unfold Gen.compute_array_bits_64
  rw [log_2_64_eq mx hx]
  show _ = (if TinyC.log2 mx < 2 then 62 else if TinyC.log2 mx > 62 then 0 else 64 - TinyC.log2 mx)
  by_cases h1 : TinyC.log2 mx < 2
  · simp [h1]
  · by_cases h2 : TinyC.log2 mx > 62
    · simp [h1, h2]
    · simp only [h1, h2, if_false]
      exact whileN_stop _ _ _ _ (by simp)

/-- `compute_array_bits` of `setu32.rs` (the `62` for `mx < 2` included) -/
theorem compute_array_bits_32_eq (mx : Nat) (hx : mx < 2 ^ 32) : Gen.compute_array_bits_32 mx = cfg32.cab mx := by
  unfold Gen.compute_array_bits_32
  rw [log_2_32_eq mx hx]
  show _ = (if TinyC.log2 mx < 2 then 62 else if TinyC.log2 mx > 62 then 0 else 32 - TinyC.log2 mx)
  by_cases h1 : TinyC.log2 mx < 2
  · simp [h1]
  · by_cases h2 : TinyC.log2 mx > 62
    · simp [h1, h2]
    · simp only [h1, h2, if_false]
      exact whileN_stop _ _ _ _ (by simp)

/-- `split_u64` / `split_u32`: key and offset of a member in a bitmap table (`bits > 0` there) -/
theorem split_64_eq (x bits : Nat) (hb : 0 < bits) : Gen.split_64 x bits = (x / bits, x % bits) := by
  simp [Gen.split_64, hb]
theorem split_32_eq (x bits : Nat) (hb : 0 < bits) : Gen.split_32 x bits = (x / bits, x % bits) := by
  simp [Gen.split_32, hb]

/-- `p_poverty` -/
theorem p_poverty_64_eq (k idx n : Nat) : Gen.p_poverty_64 k idx n = RH.pov k idx n := rfl
/-- in `setu32.rs` the table length is narrowed to `u32` first: equal for tables below 2^32 buckets -/
theorem p_poverty_32_eq (k idx n : Nat) (hn : n < 2 ^ 32) : Gen.p_poverty_32 k idx n = RH.pov k idx n := by
  unfold Gen.p_poverty_32 RH.pov
  rw [Nat.mod_eq_of_lt (a := n) hn]

/-- `Tiny::to_usize` / `from_usize` of `setu64.rs`: the count in the low three bits -/
theorem tiny_to_usize_64_eq (t : T) : Gen.tiny_to_usize_64 t.sz t.bits = toWord codec64 t := rfl
theorem tiny_from_usize_64_eq (x : Nat) :
    (⟨Gen.tiny_from_usize_sz_64 x, Gen.tiny_from_usize_bits_64 x⟩ : T) = ofWord codec64 x := by
  unfold Gen.tiny_from_usize_sz_64 Gen.tiny_from_usize_bits_64 ofWord
  have h : x % 256 &&& 7 = x % 8 := by
    have : (7 : Nat) = 2 ^ 3 - 1 := rfl
    rw [this, Nat.and_two_pow_sub_one_eq_mod, Nat.mod_mod_of_dvd x (by decide : 2 ^ 3 ∣ 256)]
  simp [h, codec64]

/-- `Tiny::to_usize` of `setu32.rs`: counts 4, 5, 6 are stored as 5, 6, 7 (for the counts an inline set can have) -/
theorem tiny_to_usize_32_eq (t : T) (h : t.sz ≤ 7) : Gen.tiny_to_usize_32 t.sz t.bits = toWord codec32 t := by
  unfold Gen.tiny_to_usize_32 toWord
  have : t.sz * (1 - t.sz / 4) + t.sz / 4 * (t.sz + 1) = codec32.enc t.sz := by
    have hs := t.sz
    show _ = (if t.sz ≥ 4 then t.sz + 1 else t.sz)
    generalize t.sz = n at h ⊢
    have : n = 0 ∨ n = 1 ∨ n = 2 ∨ n = 3 ∨ n = 4 ∨ n = 5 ∨ n = 6 ∨ n = 7 := by omega
    rcases this with h | h | h | h | h | h | h | h <;> subst h <;> decide
  simp only [this]
/-- `Tiny::from_usize` of `setu32.rs` -/
theorem tiny_from_usize_32_eq (x : Nat) :
    (⟨Gen.tiny_from_usize_sz_32 x, Gen.tiny_from_usize_bits_32 x⟩ : T) = ofWord codec32 x := by
  unfold Gen.tiny_from_usize_sz_32 Gen.tiny_from_usize_bits_32 ofWord
  have h8 : x % 256 % 8 = x % 8 := Nat.mod_mod_of_dvd x (by decide : 8 ∣ 256)
  have key : ∀ y, y < 256 → (y &&& 3) + (y &&& 4) / 4 * 3 = y % 8 % 4 + y % 8 / 4 * 3 := by decide +kernel
  have := key (x % 256) (Nat.mod_lt _ (by decide))
  rw [h8] at this
  simp [this, codec32]

end SC

#print axioms SC.compute_array_bits_64_eq
#print axioms SC.compute_array_bits_32_eq
#print axioms SC.tiny_from_usize_32_eq
