import TinysetModel.Proofs.IterSrc
import TinysetModel.Proofs.IterSpec
import TinysetModel.Proofs.Refine
/-! Iterating the SOURCE's `Inner::next` (as translated) over a well-formed set yields exactly `elems`. -/
namespace SC

/-- `Inner::next` of `setu64/iter.rs`: the dispatch of `internal()` on the representation, then the arm translated on
every run — `Stack`, `Dense`, `Big`, `Heap` -/
def srcNext64 (r : Rp) (k : Cursor) : Option Nat × Cursor :=
  match r with
  | .empty => (none, k)
  | .stack _ =>
    match Gen.iter_next_stack_64 k.sz k.szLeft k.sbits k.last with
    | (out, szLeft, sbits, last) => (out, { k with szLeft := szLeft, sbits := sbits, last := last })
  | .heap _ _ bits a =>
    match Gen.layout_64 bits with          -- the dispatch at the end of `internal()`, translated: 0 `Big`, 1 `Dense`, 2 `Heap`
    | 0 =>
      match Gen.iter_next_big_64 a k.bits k.index k.szLeft with
      | (out, i, l) => (out, { k with index := i, szLeft := l })
    | 1 =>
      match Gen.iter_next_dense_64 a k.bits k.index k.whichbit k.szLeft with
      | (out, i, w, l) => (out, { k with index := i, whichbit := w, szLeft := l })
    | _ =>
      match Gen.iter_next_heap_64 a k.bits k.index k.whichbit k.szLeft with
      | (out, i, w, l) => (out, { k with index := i, whichbit := w, szLeft := l })

theorem srcNext64_eq (r : Rp) (k : Cursor) (hst : ∀ t, r = .stack t → k.sz ≤ 7 ∧ k.szLeft ≤ k.sz)
    (out : Option Nat) (k' : Cursor) (h : next cfg64 r k = .ok (out, k')) : srcNext64 r k = (out, k') := by
  cases r with
  | empty =>
    simp only [next, Except.ok.injEq, Prod.mk.injEq] at h
    obtain ⟨rfl, rfl⟩ := h
    rfl
  | stack t =>
    obtain ⟨h7, hle⟩ := hst t rfl
    rw [iter_next_stack_64_eq t k (fun _ => by rw [widths_len_64 _ h7]; omega)] at h
    simp only [srcNext64]
    simp only [Except.ok.injEq] at h
    exact h
  | heap sz cap bits a =>
    rcases layout_64_cases bits with ⟨hb, hl⟩ | ⟨hb, hl⟩ | ⟨hb, hl⟩ <;> simp only [srcNext64, hl]
    · subst hb
      obtain ⟨h1, h2⟩ := iter_next_dense_64_eq sz cap a k out k' h
      simp only [h1]
      rw [← h2]
    · obtain ⟨h1, h2⟩ := iter_next_big_64_eq sz cap bits a hb k out k' h
      simp only [h1]
      rw [← h2]
    · obtain ⟨h1, h2⟩ := iter_next_heap_64_eq sz cap bits a hb k out k' h
      simp only [h1]
      rw [← h2]

/-- calling the source's `next` until it answers `None` (at most `fuel` times) -/
def srcDrain64 (r : Rp) : Nat → Cursor → List Nat
  | 0, _ => []
  | f + 1, k =>
    match srcNext64 r k with
    | (none, _) => []
    | (some x, k') => x :: srcDrain64 r f k'

theorem srcDrain64_inv {r : Rp} (wf : WF cfg64 r) : ∀ (fuel : Nat) (k : Cursor) (rest : List Nat),
    CInv cfg64 r k rest → rest.length < fuel → srcDrain64 r fuel k = rest
  | 0, _, _, _, hf => by omega
  | f + 1, k, rest, h, hf => by
    obtain ⟨k', e, h'⟩ := CInv_next cfg64_ok wf h
    have hst : ∀ t, r = .stack t → k.sz ≤ 7 ∧ k.szLeft ≤ k.sz := by
      intro t ht
      subst ht
      obtain ⟨h1, h2, _⟩ := h
      have := (show StackWF cfg64 t from wf).sz_le
      have h7 : cfg64.codec.maxN = 7 := rfl
      omega
    have hs := srcNext64_eq r k hst _ _ e
    unfold srcDrain64
    rw [hs]
    cases rest with
    | nil => rfl
    | cons x xs =>
      simp only [List.head?_cons]
      rw [srcDrain64_inv wf f k' xs h' (by simpa using hf)]

/-- **iterating the source's own `next` over any well-formed set yields exactly its members, each once, in the order of
`elems`, and then `None`** -/
theorem srcDrain64_eq_elems {r : Rp} (wf : WF cfg64 r) :
    srcDrain64 r ((elems cfg64 r).length + 1) (cursorOf r) = elems cfg64 r :=
  srcDrain64_inv wf _ _ _ (CInv_init cfg64_ok wf) (Nat.lt_succ_self _)

/-! ### `setu32/iter.rs` -/

theorem iter_next_stack_32_ret (t : TinyC.T) (k : Cursor)
    (hidx : k.szLeft > 0 → k.sz - k.szLeft < (TinyC.widths TinyC.codec32 k.sz).length)
    (out : Option Nat) (k' : Cursor) (h : next cfg32 (.stack t) k = .ok (out, k'))
    (hout : ∀ x, out = some x → x < 2 ^ 32) :
    (match Gen.iter_next_stack_32 k.sz k.szLeft k.sbits k.last with
     | (o, szLeft, sbits, last) =>
       ((o, { k with szLeft := szLeft, sbits := sbits, last := last }) : Option Nat × Cursor)) = (out, k') := by
  by_cases h0 : k.szLeft > 0
  · have hi := hidx h0
    have hlt : (if k.szLeft = k.sz then k.sbits % 2 ^ (TinyC.widths TinyC.codec32 k.sz).getD (k.sz - k.szLeft) 0
            else k.last + 1 + k.sbits % 2 ^ (TinyC.widths TinyC.codec32 k.sz).getD (k.sz - k.szLeft) 0) < 2 ^ 32 := by
      have h' := h
      simp only [next, h0, if_true, show TinyC.widths cfg32.codec k.sz = TinyC.widths TinyC.codec32 k.sz from rfl,
        getElem?_eq_getD_of_lt _ _ hi, Except.ok.injEq, Prod.mk.injEq] at h'
      exact hout _ h'.1.symm
    rw [iter_next_stack_32_eq t k hidx hlt] at h
    simp only [Except.ok.injEq] at h
    exact h
  · simp only [next, h0, if_false, Except.ok.injEq] at h
    simp only [Gen.iter_next_stack_32, h0, if_false]
    exact h

/-- `Inner::next` of `setu32/iter.rs` -/
def srcNext32 (r : Rp) (k : Cursor) : Option Nat × Cursor :=
  match r with
  | .empty => (none, k)
  | .stack _ =>
    match Gen.iter_next_stack_32 k.sz k.szLeft k.sbits k.last with
    | (out, szLeft, sbits, last) => (out, { k with szLeft := szLeft, sbits := sbits, last := last })
  | .heap _ _ bits a =>
    match Gen.layout_32 bits with          -- the dispatch at the end of `internal()`, translated: 0 `Big`, 1 `Dense`, 2 `Heap`
    | 0 =>
      match Gen.iter_next_big_32 a k.bits k.index k.szLeft with
      | (out, i, l) => (out, { k with index := i, szLeft := l })
    | 1 =>
      match Gen.iter_next_dense_32 a k.bits k.index k.whichbit k.szLeft with
      | (out, i, w, l) => (out, { k with index := i, whichbit := w, szLeft := l })
    | _ =>
      match Gen.iter_next_heap_32 a k.bits k.index k.whichbit k.szLeft with
      | (out, i, w, l) => (out, { k with index := i, whichbit := w, szLeft := l })

theorem srcNext32_eq (r : Rp) (k : Cursor)
    (hk32 : ∀ sz cap bits a, r = .heap sz cap bits a → k.bits < 2 ^ 32)
    (hst : ∀ t, r = .stack t → k.sz ≤ 6 ∧ k.szLeft ≤ k.sz)
    (hdn : ∀ sz cap a, r = .heap sz cap 32 a → a.size ≤ 2 ^ 27)
    (out : Option Nat) (k' : Cursor) (h : next cfg32 r k = .ok (out, k'))
    (hout : ∀ x, out = some x → x < 2 ^ 32) : srcNext32 r k = (out, k') := by
  cases r with
  | empty =>
    simp only [next, Except.ok.injEq, Prod.mk.injEq] at h
    obtain ⟨rfl, rfl⟩ := h
    rfl
  | stack t =>
    obtain ⟨h6, hle⟩ := hst t rfl
    simp only [srcNext32]
    exact iter_next_stack_32_ret t k (fun _ => by rw [widths_len_32 _ h6]; omega) out k' h hout
  | heap sz cap bits a =>
    have hk := hk32 sz cap bits a rfl
    rcases layout_32_cases bits with ⟨hb, hl⟩ | ⟨hb, hl⟩ | ⟨hb, hl⟩ <;> simp only [srcNext32, hl]
    · subst hb
      obtain ⟨h1, h2⟩ := iter_next_dense_32_eq sz cap a (hdn sz cap a rfl) k out k' h
      simp only [h1]
      rw [← h2]
    · obtain ⟨h1, h2⟩ := iter_next_big_32_eq sz cap bits a hb k hk out k' h
      simp only [h1]
      rw [← h2]
    · obtain ⟨h1, h2⟩ := iter_next_heap_32_eq sz cap bits a hb k hk out k' h
      simp only [h1]
      rw [← h2]

def srcDrain32 (r : Rp) : Nat → Cursor → List Nat
  | 0, _ => []
  | f + 1, k =>
    match srcNext32 r k with
    | (none, _) => []
    | (some x, k') => x :: srcDrain32 r f k'

theorem srcDrain32_inv {r : Rp} (wf : WF cfg32 r) (hdn : ∀ sz cap a, r = .heap sz cap 32 a → a.size ≤ 2 ^ 27) :
    ∀ (fuel : Nat) (k : Cursor) (rest : List Nat),
    CInv cfg32 r k rest → (∀ x ∈ rest, x < 2 ^ 32) → rest.length < fuel → srcDrain32 r fuel k = rest
  | 0, _, _, _, _, hf => by omega
  | f + 1, k, rest, h, hr, hf => by
    obtain ⟨k', e, h'⟩ := CInv_next cfg32_ok wf h
    have hst : ∀ t, r = .stack t → k.sz ≤ 6 ∧ k.szLeft ≤ k.sz := by
      intro t ht
      subst ht
      obtain ⟨h1, h2, _⟩ := h
      have := (show StackWF cfg32 t from wf).sz_le
      have h6 : cfg32.codec.maxN = 6 := rfl
      omega
    have hk32 : ∀ sz cap bits a, r = .heap sz cap bits a → k.bits < 2 ^ 32 := by
      intro sz cap bits a hr'
      subst hr'
      have hkb : k.bits = bits := h.1
      rw [hkb]
      rw [WF_heap] at wf
      by_cases hd : isDense cfg32 bits = true
      · have := isDense_iff.mp hd
        have hW : cfg32.W = 32 := rfl
        omega
      · by_cases hp : isPlain cfg32 bits = true
        · simp only [hd, hp, Bool.false_eq_true, if_false, if_true] at wf
          have := wf.2.2.2.2
          have hW : cfg32.W = 32 := rfl
          rw [hW] at this
          exact this
        · simp only [hd, hp, Bool.false_eq_true, if_false] at wf
          have := wf.bits_lt
          have hW : cfg32.W = 32 := rfl
          omega
    have hout : ∀ x, rest.head? = some x → x < 2 ^ 32 := by
      intro x hx
      cases rest with
      | nil => simp at hx
      | cons y ys => simp at hx; subst hx; exact hr y (by simp)
    have hs := srcNext32_eq r k hk32 hst hdn _ _ e hout
    unfold srcDrain32
    rw [hs]
    cases rest with
    | nil => rfl
    | cons x xs =>
      simp only [List.head?_cons]
      rw [srcDrain32_inv wf hdn f k' xs h' (fun y hy => hr y (by simp [hy])) (by simpa using hf)]

/-- `SetU32`: iterating the source's own `next` over a well-formed set (a dense bitset of at most 2^27 words, which is
what holds `u32` members) yields exactly its members -/
theorem srcDrain32_eq_elems {r : Rp} (wf : WF cfg32 r) (hdn : ∀ sz cap a, r = .heap sz cap 32 a → a.size ≤ 2 ^ 27) :
    srcDrain32 r ((elems cfg32 r).length + 1) (cursorOf r) = elems cfg32 r :=
  srcDrain32_inv wf hdn _ _ _ (CInv_init cfg32_ok wf) (absOK_of_wf cfg32_ok wf).range (Nat.lt_succ_self _)

end SC
#print axioms SC.srcDrain64_eq_elems
#print axioms SC.srcDrain32_eq_elems
