import TinysetModel.Proofs.AllocProj
import TinysetModel.Proofs.AllocProgram
import TinysetModel.Proofs.PropsAux
/-! Programs over several simultaneously live sets (`POp`, `pstep`, `prun` of `Model/Alloc.lean`) refine the same
programs over ideal mathematical sets: after every program, every set is well formed and has exactly the members
the ideal program gives it — inserts, removals, bulk extends, collects, clones, hinted constructors, drops and the
four operator forms, in any interleaving over any number of sets, for every generator outcome.  Together with
`prun_ledger` / `program_balanced` (same runs) this is one statement about contents and allocator calls. -/
namespace SC
open RH (Tbl get put)

variable {c : Cfg} {D : Type}

/-- ideal sets: slot ↦ membership predicate -/
abbrev Ideal := Nat → Nat → Prop

def Ideal.upd (m : Ideal) (i : Nat) (p : Nat → Prop) : Ideal := fun j => if j = i then p else m j

theorem Ideal.upd_self (m : Ideal) (i : Nat) (p : Nat → Prop) : m.upd i p i = p := by simp [Ideal.upd]
theorem Ideal.upd_ne (m : Ideal) {i j : Nat} (p : Nat → Prop) (h : j ≠ i) : m.upd i p j = m j := by simp [Ideal.upd, h]

def none' : Nat → Prop := fun _ => False

/-- the program on ideal sets -/
def pspecCore (m : Ideal) : POp → Ideal
  | .ins i e => m.upd i (fun x => m i x ∨ x = e)
  | .rem i e => m.upd i (fun x => m i x ∧ x ≠ e)
  | .ext i xs => m.upd i (fun x => m i x ∨ x ∈ xs)
  | .col i xs => m.upd i (fun x => x ∈ xs)
  | .clone i j => m.upd i (m j)
  | .wco i _ => m.upd i none'
  | .wcb i _ _ => m.upd i none'
  | .wcm i _ _ => m.upd i none'
  | .drop i => m.upd i none'
  | .uniRef k i j => m.upd k (fun x => m i x ∨ m j x)
  | .difRef k i j => m.upd k (fun x => m i x ∧ ¬ m j x)
  | .uniOwn k i j => if i = j then m else (m.upd i none').upd k (fun x => m i x ∨ m j x)
  | .difOwn k i j => if i = j then m else (m.upd i none').upd k (fun x => m i x ∧ ¬ m j x)

def pspecStep (n : Nat) (m : Ideal) (op : POp) : Ideal := if op.idx.all (· < n) then pspecCore m op else m

def specRunP (n : Nat) (m : Ideal) : List POp → Ideal
  | [] => m
  | op :: ops => specRunP n (pspecStep n m op) ops

/-- arguments of the element type (and a `bits` hint that fits the header word) -/
def POp.InRange (W : Nat) : POp → Prop
  | .ins _ e | .rem _ e => e < 2 ^ W
  | .ext _ xs | .col _ xs => ∀ x ∈ xs, x < 2 ^ W
  | .wcb _ _ bits => bits < 2 ^ W
  | _ => True

/-- every slot is well formed and holds exactly the members of its ideal set -/
def Rel (c : Cfg) (s : Slots) (m : Ideal) : Prop :=
  ∀ i, i < s.length → WF c (s.get i) ∧ ∀ x, x ∈ elems c (s.get i) ↔ m i x

theorem get_set_ne (s : Slots) {i j : Nat} (r : Rp) (h : j ≠ i) : Slots.get (s.set i r) j = s.get j := by
  simp [Slots.get, List.getD_eq_getElem?_getD, List.getElem?_set_ne (Ne.symm h)]

theorem rel_set {s : Slots} {m : Ideal} (h : Rel c s m) {i : Nat} (hi : i < s.length) {r : Rp} {p : Nat → Prop}
    (wf : WF c r) (hm : ∀ x, x ∈ elems c r ↔ p x) : Rel c (s.set i r) (m.upd i p) := by
  intro j hj
  have hj' : j < s.length := by simpa using hj
  by_cases e : j = i
  · subst e
    rw [get_set_self s j r hi, Ideal.upd_self]
    exact ⟨wf, hm⟩
  · rw [get_set_ne s r e, Ideal.upd_ne m p e]
    exact h j hj'

theorem wf_empty : WF c .empty := trivial
theorem elems_empty_iff (x : Nat) : x ∈ elems c .empty ↔ none' x := by simp [elems, none']

theorem of_dropEv1 {act : M D (Rp × List Ev)} {act' : M D Rp} {d d' : D} {r : Rp} {t : List Ev}
    (hp : dropEv1 (act d) = act' d) (h : act d = .ok ((r, t), d')) : act' d = .ok (r, d') := by
  rw [← hp, h]; rfl

theorem of_dropEv2 {act : M D ((Rp × Bool) × List Ev)} {act' : M D (Rp × Bool)} {d d' : D} {res : Rp × Bool} {t : List Ev}
    (hp : dropEv2 (act d) = act' d) (h : act d = .ok ((res, t), d')) : act' d = .ok (res, d') := by
  rw [← hp, h]; rfl

theorem rel_replicate (n : Nat) : Rel c (List.replicate n Rp.empty) (fun _ => none') := by
  intro i hi
  have : Slots.get (List.replicate n Rp.empty) i = .empty := by
    simp [Slots.get, List.getD_eq_getElem?_getD, List.getElem?_replicate]
    split <;> rfl
  rw [this]
  exact ⟨wf_empty, elems_empty_iff⟩

section
variable (ok : CfgOK c) (fresh : Bool) (g : Rng D) (fuel : Nat)
include ok

theorem insertE_ok {r : Rp} {e : Nat} {d d' : D} {res : Rp × Bool} {t : List Ev} (wf : WF c r) (he : e < 2 ^ c.W)
    (h : insertE c fresh g fuel r e d = .ok ((res, t), d')) : InsOK c r e res.1 res.2 :=
  insert_refines ok g fuel r e d res.1 res.2 d' wf he ((insertE_proj c fresh g fuel).ok h)

/-- one operation of a program -/
theorem pstep_refines {s s' : Slots} {m : Ideal} {op : POp} {d d' : D} {evs : List Ev}
    (h : pstep c fresh g fuel s op d = .ok ((s', evs), d')) (hr : op.InRange c.W) (rel : Rel c s m) :
    s'.length = s.length ∧ Rel c s' (pspecStep s.length m op) := by
  have core := coreOK ok g fuel
  unfold pstep at h
  unfold pspecStep
  split at h
  case isFalse hidx =>
    simp only [pure, StateT.pure, Except.pure] at h
    cases h
    rw [if_neg hidx]
    exact ⟨rfl, rel⟩
  case isTrue hidx =>
  rw [if_pos hidx]
  have hlt := idx_lt hidx
  cases op with
  | ins i e =>
    have hi := hlt i (by simp [POp.idx])
    simp only [pstepCore] at h
    obtain ⟨p, d1, h1, h2⟩ := bind_ok h
    obtain ⟨⟨r, b⟩, t⟩ := p
    simp only [pure, StateT.pure, Except.pure] at h2
    cases h2
    have io := insertE_ok ok fresh g fuel (rel i hi).1 hr h1
    exact ⟨by simp, rel_set rel hi io.wf (fun x => by rw [io.mem x, (rel i hi).2 x])⟩
  | rem i e =>
    have hi := hlt i (by simp [POp.idx])
    simp only [pstepCore] at h
    obtain ⟨p, d1, h1, h2⟩ := bind_ok h
    obtain ⟨⟨r, b⟩, t⟩ := p
    simp only [pure, StateT.pure, Except.pure] at h2
    cases h2
    have ro := remove_refines ok g fuel (rel i hi).1 e hr (of_dropEv2 (removeE_proj c fresh g fuel _ e d) h1)
    exact ⟨by simp, rel_set rel hi ro.wf (fun x => by rw [ro.mem x, (rel i hi).2 x])⟩
  | ext i xs =>
    have hi := hlt i (by simp [POp.idx])
    simp only [pstepCore] at h
    obtain ⟨p, d1, h1, h2⟩ := bind_ok h
    obtain ⟨r, t⟩ := p
    simp only [pure, StateT.pure, Except.pure] at h2
    cases h2
    have eo := extend_ok core (rel i hi).1 hr (of_dropEv1 (extendE_proj c fresh g fuel _ xs d) h1)
    exact ⟨by simp, rel_set rel hi eo.1 (fun x => by rw [eo.2 x, (rel i hi).2 x])⟩
  | col i xs =>
    have hi := hlt i (by simp [POp.idx])
    simp only [pstepCore, assign] at h
    obtain ⟨p, d1, h1, h2⟩ := bind_ok h
    obtain ⟨r, t⟩ := p
    simp only [pure, StateT.pure, Except.pure] at h2
    cases h2
    have co := fromIter_spec ok g fuel hr (of_dropEv1 (fromIterE_proj c fresh g fuel xs d) h1)
    exact ⟨by simp, rel_set rel hi co.1 co.2.1⟩
  | clone i j =>
    have hi := hlt i (by simp [POp.idx])
    have hj := hlt j (by simp [POp.idx])
    simp only [pstepCore, assign, cloneE, clone, pure, StateT.pure, Except.pure] at h
    cases h
    exact ⟨by simp, rel_set rel hi (rel j hj).1 (rel j hj).2⟩
  | wco i j =>
    have hi := hlt i (by simp [POp.idx])
    have hj := hlt j (by simp [POp.idx])
    simp only [pstepCore, assign, withCapOfE, pure, StateT.pure, Except.pure] at h
    cases h
    have w := withCapOf_ok ok (rel j hj).1
    exact ⟨by simp, rel_set rel hi w.1 (fun x => by rw [w.2.1]; simp [none'])⟩
  | wcb i cap bits =>
    have hi := hlt i (by simp [POp.idx])
    simp only [pstepCore, assign] at h
    obtain ⟨r, d1, h1, h2⟩ := bind_ok h
    simp only [pure, StateT.pure, Except.pure] at h2
    cases h2
    have w := withCapBits_ok ok g cap bits hr d _ r h1
    exact ⟨by simp, rel_set rel hi w.1 (fun x => by rw [w.2]; simp [none'])⟩
  | wcm i cap mx =>
    have hi := hlt i (by simp [POp.idx])
    simp only [pstepCore, assign] at h
    obtain ⟨r, d1, h1, h2⟩ := bind_ok h
    simp only [pure, StateT.pure, Except.pure] at h2
    cases h2
    have w := withCapMax_ok ok g cap mx d _ r h1
    exact ⟨by simp, rel_set rel hi w.1 (fun x => by rw [w.2]; simp [none'])⟩
  | drop i =>
    have hi := hlt i (by simp [POp.idx])
    simp only [pstepCore, pure, StateT.pure, Except.pure] at h
    cases h
    exact ⟨by simp, rel_set rel hi wf_empty elems_empty_iff⟩
  | uniRef k i j =>
    have hk := hlt k (by simp [POp.idx])
    have hi := hlt i (by simp [POp.idx])
    have hj := hlt j (by simp [POp.idx])
    simp only [pstepCore, assign] at h
    obtain ⟨p, d1, h1, h2⟩ := bind_ok h
    obtain ⟨r, t⟩ := p
    simp only [pure, StateT.pure, Except.pure] at h2
    cases h2
    have uo := unionRef_ok ok core (rel i hi).1 (rel j hj).1 (of_dropEv1 (unionRefE_proj c fresh g fuel _ _ d) h1)
    exact ⟨by simp, rel_set rel hk uo.1 (fun x => by rw [uo.2.1 x, (rel i hi).2 x, (rel j hj).2 x])⟩
  | difRef k i j =>
    have hk := hlt k (by simp [POp.idx])
    have hi := hlt i (by simp [POp.idx])
    have hj := hlt j (by simp [POp.idx])
    simp only [pstepCore, assign] at h
    obtain ⟨p, d1, h1, h2⟩ := bind_ok h
    obtain ⟨r, t⟩ := p
    simp only [pure, StateT.pure, Except.pure] at h2
    cases h2
    have uo := diffRef_ok ok core (rel i hi).1 (rel j hj).1 (of_dropEv1 (diffRefE_proj c fresh g fuel _ _ d) h1)
    exact ⟨by simp, rel_set rel hk uo.1 (fun x => by rw [uo.2.1 x, (rel i hi).2 x, (rel j hj).2 x])⟩
  | uniOwn k i j =>
    have hk := hlt k (by simp [POp.idx])
    have hi := hlt i (by simp [POp.idx])
    have hj := hlt j (by simp [POp.idx])
    simp only [pstepCore] at h
    simp only [pspecCore]
    split at h
    · rename_i e
      simp only [pure, StateT.pure, Except.pure] at h
      cases h
      rw [if_pos e]
      exact ⟨rfl, rel⟩
    · rename_i e
      rw [if_neg e]
      simp only [assign] at h
      obtain ⟨p, d1, h1, h2⟩ := bind_ok h
      obtain ⟨r, t⟩ := p
      simp only [pure, StateT.pure, Except.pure] at h2
      cases h2
      have uo := unionOwn_ok core (rel i hi).1 (rel j hj).1 (of_dropEv1 (unionOwnE_proj c fresh g fuel _ _ d) h1)
      have r1 := rel_set rel hi (wf_empty (c := c)) (elems_empty_iff (c := c))
      exact ⟨by simp, rel_set r1 (by simpa using hk) uo.1 (fun x => by rw [uo.2.1 x, (rel i hi).2 x, (rel j hj).2 x])⟩
  | difOwn k i j =>
    have hk := hlt k (by simp [POp.idx])
    have hi := hlt i (by simp [POp.idx])
    have hj := hlt j (by simp [POp.idx])
    simp only [pstepCore] at h
    simp only [pspecCore]
    split at h
    · rename_i e
      simp only [pure, StateT.pure, Except.pure] at h
      cases h
      rw [if_pos e]
      exact ⟨rfl, rel⟩
    · rename_i e
      rw [if_neg e]
      simp only [assign] at h
      obtain ⟨p, d1, h1, h2⟩ := bind_ok h
      obtain ⟨r, t⟩ := p
      simp only [pure, StateT.pure, Except.pure] at h2
      cases h2
      have uo := diffOwn_ok core (rel i hi).1 (rel j hj).1 (of_dropEv1 (diffOwnE_proj c fresh g fuel _ _ d) h1)
      have r1 := rel_set rel hi (wf_empty (c := c)) (elems_empty_iff (c := c))
      exact ⟨by simp, rel_set r1 (by simpa using hk) uo.1 (fun x => by rw [uo.2.1 x, (rel i hi).2 x, (rel j hj).2 x])⟩

/-- whole programs -/
theorem prun_refines (ops : List POp) : ∀ {s s' : Slots} {m : Ideal} {d d' : D} {evs : List Ev},
    prun c fresh g fuel s ops d = .ok ((s', evs), d') → (∀ op ∈ ops, op.InRange c.W) → Rel c s m →
    s'.length = s.length ∧ Rel c s' (specRunP s.length m ops) := by
  induction ops with
  | nil =>
    intro s s' m d d' evs h _ rel
    simp only [prun, pure, StateT.pure, Except.pure] at h
    cases h
    exact ⟨rfl, rel⟩
  | cons op ops ih =>
    intro s s' m d d' evs h hr rel
    simp only [prun] at h
    obtain ⟨p1, d1, h1, h2⟩ := bind_ok h
    obtain ⟨s1, t1⟩ := p1
    obtain ⟨p2, d2, h3, h4⟩ := bind_ok h2
    obtain ⟨s2, t2⟩ := p2
    simp only [pure, StateT.pure, Except.pure] at h4
    cases h4
    obtain ⟨l1, r1⟩ := pstep_refines ok fresh g fuel h1 (hr op List.mem_cons_self) rel
    obtain ⟨l2, r2⟩ := ih h3 (fun o ho => hr o (List.mem_cons_of_mem _ ho)) r1
    rw [l1] at l2 r2
    exact ⟨l2, r2⟩

/-- **programs from scratch**: `n` new sets, any program with arguments of the element type, any generator:
whenever the run returns, every set is well formed and holds exactly the members the same program over ideal
mathematical sets gives it, and the allocator calls of the run followed by the drop of every set are all legal
and leave nothing live -/
theorem program_correct_and_balanced (n : Nat) (ops : List POp) (hr : ∀ op ∈ ops, op.InRange c.W) {s' : Slots} {d d' : D}
    {evs : List Ev} (h : prun c fresh g fuel (List.replicate n .empty) ops d = .ok ((s', evs), d')) :
    (∀ i, i < n → WF c (s'.get i) ∧ ∀ x, x ∈ elems c (s'.get i) ↔ specRunP n (fun _ => none') ops i x) ∧
    runEv [] (evs ++ dropAll c s') = some [] := by
  obtain ⟨l, r⟩ := prun_refines ok fresh g fuel ops h hr (rel_replicate n)
  simp only [List.length_replicate] at l r
  exact ⟨fun i hi => r i (by omega), program_balanced fresh g fuel n ops h⟩

end
end SC

#print axioms SC.program_correct_and_balanced
