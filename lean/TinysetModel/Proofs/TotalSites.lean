import TinysetModel.Proofs.TotalFill
import TinysetModel.Model.Ops
/-! Totality of `insert`, part 4: every rebuild site creates a *good* table for the values it refills
(`withCapBits_good`, `withCapMax_good`, and the per-layout theorems), hence `insert` returns normally with
recursion depth one below the top call: `insert_total` (any fuel `≥ 2`), `insert_total_u64` (fuel 3). -/
namespace SC
open RH Plain2

variable {c : Cfg} {D : Type}

/-! ### list helpers -/

/-- remove duplicates (any order; only used to count distinct keys) -/
def ddKeys : List Nat → List Nat
  | [] => []
  | x :: l => if x ∈ ddKeys l then ddKeys l else x :: ddKeys l

theorem mem_ddKeys {x : Nat} : ∀ {l : List Nat}, x ∈ ddKeys l ↔ x ∈ l
  | [] => Iff.rfl
  | y :: l => by
    simp only [ddKeys]
    split
    · rename_i h
      rw [mem_ddKeys (l := l), List.mem_cons]
      constructor
      · exact Or.inr
      · rintro (h1 | h1)
        · subst h1; exact mem_ddKeys.1 h
        · exact h1
    · rw [List.mem_cons, List.mem_cons, mem_ddKeys (l := l)]

theorem ddKeys_nodup : ∀ l : List Nat, (ddKeys l).Nodup
  | [] => List.nodup_nil
  | y :: l => by
    simp only [ddKeys]
    split
    · exact ddKeys_nodup l
    · rename_i h; exact List.nodup_cons.2 ⟨h, ddKeys_nodup l⟩

theorem ddKeys_length_le : ∀ l : List Nat, (ddKeys l).length ≤ l.length
  | [] => Nat.le_refl _
  | y :: l => by
    simp only [ddKeys]
    have := ddKeys_length_le l
    split
    · rw [List.length_cons]; omega
    · rw [List.length_cons, List.length_cons]; omega

/-- `n` values have at most `n` distinct keys -/
theorem total_KL_of_length (V : List Nat) (kb : Nat) :
    ∃ KL : List Nat, KL.Nodup ∧ KL.length ≤ V.length ∧ ∀ y ∈ V, y / kb ∈ KL := by
  refine ⟨ddKeys (V.map (· / kb)), ddKeys_nodup _, ?_, fun y hy => mem_ddKeys.2 (List.mem_map.2 ⟨y, hy, rfl⟩)⟩
  have := ddKeys_length_le (V.map (· / kb))
  rw [List.length_map] at this
  exact this

theorem total_le_foldl_max : ∀ (l : List Nat) (m : Nat), m ≤ l.foldl Max.max m ∧ ∀ y ∈ l, y ≤ l.foldl Max.max m
  | [], m => ⟨Nat.le_refl _, fun _ h => by cases h⟩
  | x :: l, m => by
    obtain ⟨h1, h2⟩ := total_le_foldl_max l (Max.max m x)
    rw [List.foldl_cons]
    refine ⟨by omega, fun y hy => ?_⟩
    rcases List.mem_cons.1 hy with h | h
    · subst h; omega
    · exact h2 y h

theorem total_le_getLast_of_sorted : ∀ (l : List Nat), l.Pairwise (· < ·) → ∀ x ∈ l, x ≤ l.getLast?.getD 0
  | [], _, _, h => by cases h
  | [y], _, x, h => by
    rw [List.mem_singleton.1 h]; exact Nat.le_refl _
  | y :: z :: zs, hp, x, h => by
    rw [List.getLast?_cons_cons]
    rw [List.pairwise_cons] at hp
    have ih := total_le_getLast_of_sorted (z :: zs) hp.2
    rcases List.mem_cons.1 h with h1 | h1
    · have h2 := hp.1 z List.mem_cons_self
      have h3 := ih z List.mem_cons_self
      omega
    · exact ih x h1

theorem total_lt_of_div_lt_div {x e W : Nat} (h : x / W < e / W) : x < e := by
  false_or_by_contra
  rename_i hn
  have : e / W ≤ x / W := Nat.div_le_div_right (by omega)
  omega

/-! ### fresh tables are good -/

theorem withCapBits_total (g : Rng D) (cap bits : Nat) (d : D) :
    ∃ r d', withCapBits c g cap bits d = .ok (r, d') := by
  unfold withCapBits
  by_cases hc : cap > 0
  · rw [if_pos hc]
    by_cases hb : bits = 0
    · rw [if_pos hb, bind_run (drawM_run g cap 0 d)]; exact ⟨_, _, rfl⟩
    · rw [if_neg hb]; exact ⟨_, _, rfl⟩
  · rw [if_neg hc]; exact ⟨_, _, rfl⟩

/-- `with_capacity_and_bits(cap, bits)` is good for `V` when every value of `V` fits the width `bits` and
    `V` has at most `cap` distinct keys (`bits = 0`: plain table, the keys are the values themselves) -/
theorem withCapBits_good (ok : CfgOK c) (g : Rng D) {V : List Nat} {cap bits : Nat} (hcap : 0 < cap)
    (hb : bits = 0 ∨ (0 < bits ∧ bits < c.W))
    (hfit : ∀ y ∈ V, bits ≤ c.cab y) (hsmall : bits = 0 → cap + c.W + 3 ≤ 2 ^ c.W)
    (hKL : ∃ KL : List Nat, KL.Nodup ∧ KL.length ≤ cap ∧ ∀ y ∈ V, y / Max.max bits 1 ∈ KL) (d : D) :
    ∃ r d', withCapBits c g cap bits d = .ok (r, d') ∧ RefillGood c V r := by
  obtain ⟨r, d', h⟩ := withCapBits_total (c := c) g cap bits d
  have hbW : bits < 2 ^ c.W := by
    rcases hb with h0 | ⟨_, h1⟩
    · rw [h0]; exact Nat.two_pow_pos _
    · exact Nat.lt_trans h1 Nat.lt_two_pow_self
  obtain ⟨wf, hempty⟩ := withCapBits_ok ok g cap bits hbW d d' r h
  refine ⟨r, d', h, wf, (by rw [hempty]; intro y hy; cases hy), ?_⟩
  obtain ⟨KL, hnd, hlen, hK⟩ := hKL
  rcases withCapBits_shape g cap bits d d' r h with ⟨h0, _⟩ | ⟨_, bits', hr, hne, heq⟩
  · omega
  · subst hr
    rcases hb with h0 | ⟨h1, h2⟩
    · have hW := heq h0
      refine (RefillShape_plain (isDense_of_gt hW) (isPlain_of_gt hW)).2 ⟨hsmall h0, KL, hnd, hlen, fun y hy => ?_⟩
      have := hK y hy
      rw [h0] at this
      simpa using this
    · have hbb : bits' = bits := hne (by omega)
      subst hbb
      have hd : isDense c bits' = false := by unfold isDense; exact decide_eq_false (by omega)
      have hp : isPlain c bits' = false := by unfold isPlain; exact decide_eq_false (by omega)
      refine (RefillShape_bitmap hd hp).2 ⟨hfit, KL, hnd, hlen, fun y hy => ?_⟩
      have := hK y hy
      rw [Nat.max_eq_left (by omega : 1 ≤ bits')] at this
      exact this

theorem denseWithMax_good (ok : CfgOK c) (lk : Like64 c) {V : List Nat} {mx : Nat} (hmx : ∀ y ∈ V, y ≤ mx) :
    RefillGood c V (denseWithMax c mx) := by
  obtain ⟨wf, hempty⟩ := denseWithMax_ok ok mx
  refine ⟨wf, (by rw [hempty]; intro y hy; cases hy), ?_⟩
  unfold denseWithMax
  exact RefillShape_dense.2 (fun y hy => lk.dense_in y mx (hmx y hy))

/-- `with_capacity_and_max(cap, mx)` is good for at most `cap` values that are all `≤ mx` -/
theorem withCapMax_good (ok : CfgOK c) (lk : Like64 c) (g : Rng D) {V : List Nat} {cap mx : Nat} (hcap : 0 < cap)
    (hmx : ∀ y ∈ V, y ≤ mx) (hlen : V.length ≤ cap) (hsmall : cap + c.W + 3 ≤ 2 ^ c.W) (d : D) :
    ∃ r d', withCapMax c g cap mx d = .ok (r, d') ∧ RefillGood c V r := by
  unfold withCapMax
  by_cases h : cap > mx >>> c.capShift
  · rw [if_pos h]
    exact ⟨_, _, rfl, denseWithMax_good ok lk hmx⟩
  · rw [if_neg h]
    obtain ⟨KL, h1, h2, h3⟩ := total_KL_of_length V (Max.max (c.cab mx) 1)
    exact withCapBits_good ok g hcap (lk.cab_range mx) (fun y hy => lk.cab_mono y mx (hmx y hy))
      (fun _ => hsmall) ⟨KL, h1, by omega, h3⟩ d

/-! ### `.empty` and inline values -/

theorem total_small_one (ok : CfgOK c) : 1 + c.W + 3 ≤ 2 ^ c.W := by
  have := two_mul_succ_lt_two_pow c.W ok.W_pos
  have := ok.W_pos
  omega

theorem insertEmpty_total (ok : CfgOK c) (lk : Like64 c) (g : Rng D) (rec0 : Ins D) (hrec0 : RecOK c rec0)
    (e : Nat) (he : e < 2 ^ c.W) (d : D) :
    ∃ r' b d', insertStep c g (insertStep c g rec0) .empty e d = .ok ((r', b), d') := by
  rw [insertStep]
  cases hnew : TinyC.newSortedDeduped c.codec [e] with
  | some t => exact ⟨_, _, _, rfl⟩
  | none =>
    dsimp only
    obtain ⟨r, d1, h1, gd⟩ := withCapMax_good ok lk g (V := [e]) (cap := 1) (mx := e) (by omega)
      (fun y hy => by rw [List.mem_singleton.1 hy]; exact Nat.le_refl _) (Nat.le_refl _) (total_small_one ok) d
    obtain ⟨r2, b, d2, h2, _⟩ := step_total ok lk.room g rec0 hrec0 gd List.mem_cons_self he d1
    exact ⟨r2, b, d2, by rw [bind_run h1]; exact h2⟩

theorem insertStack_total (ok : CfgOK c) (lk : Like64 c) (g : Rng D) (rec0 : Ins D) (hrec0 : RecOK c rec0)
    {t : TinyC.T} (wf : StackWF c t) (e : Nat) (he : e < 2 ^ c.W) (d : D) :
    ∃ r' b d', insertStep c g (insertStep c g rec0) (.stack t) e d = .ok ((r', b), d') := by
  rw [insertStep]
  cases hins : TinyC.insert c.codec t e with
  | some t' => exact ⟨_, _, _, rfl⟩
  | none =>
    dsimp only
    have hlenM := stack_members_length ok wf
    have hsz := wf.sz_le
    have hcs := lk.codec_small
    obtain ⟨r, d1, h1, gd⟩ := withCapMax_good ok lk g (V := t.members c.codec ++ [e]) (cap := t.sz + 1)
      (mx := if e > (t.members c.codec).getLast?.getD 0 then e else (t.members c.codec).getLast?.getD 0)
      (by omega)
      (by
        intro y hy
        rcases List.mem_append.1 hy with h | h
        · have := total_le_getLast_of_sorted _ (members_sorted (c := c) t) y h
          split <;> omega
        · rw [List.mem_singleton.1 h]
          split <;> omega)
      (by rw [List.length_append, hlenM]; exact Nat.le_refl _)
      (by omega) d
    obtain ⟨r2, b, d2, h2⟩ := rebuild_total ok lk.room g rec0 hrec0 (old := .stack t) (e := e) gd
      (fun x hx => ⟨List.mem_append_left _ hx, wf.range x hx⟩)
      (List.mem_append_right _ List.mem_cons_self) he d1
    exact ⟨r2, b, d2, by rw [bind_run h1]; exact h2⟩

/-! ### dense -/

theorem insertDense_total (ok : CfgOK c) (lk : Like64 c) (g : Rng D) (rec0 : Ins D) (hrec0 : RecOK c rec0)
    {sz cap : Nat} {a : Tbl} (dw : DenseWF c sz cap a) (e : Nat) (he : e < 2 ^ c.W) (d : D) :
    ∃ r' b d', insertDense c g (insertStep c g rec0) sz cap a e d = .ok ((r', b), d') := by
  unfold insertDense
  dsimp only
  by_cases hk : e >>> c.dShift < cap
  · rw [if_pos hk]; exact ⟨_, _, _, rfl⟩
  · rw [if_neg hk]
    by_cases hsp : e >>> c.capShift > sz
    · rw [if_pos hsp]
      have hszc := dw.szc
      have hsl := lk.sparse_le sz
      obtain ⟨KL, k1, k2, k3⟩ := total_KL_of_length (elems c (.heap sz cap c.W a) ++ [e]) (Max.max (c.cab e) 1)
      rw [List.length_append, List.length_singleton, ← hszc] at k2
      obtain ⟨r, d1, h1, gd⟩ := withCapBits_good ok g (V := elems c (.heap sz cap c.W a) ++ [e])
        (cap := c.sparseCap sz) (bits := c.cab e) (by omega) (lk.cab_range e)
        (by
          intro y hy
          rcases List.mem_append.1 hy with h | h
          · apply lk.cab_mono
            have h1 := ((mem_elems_dense ok y).1 h).1
            have h2 := dw.cap_eq
            rw [shr_dShift ok] at hk
            exact Nat.le_of_lt (total_lt_of_div_lt_div (W := c.W) (by omega))
          · rw [List.mem_singleton.1 h]; exact Nat.le_refl _)
        (fun _ => lk.sparse_small e sz he hsp) ⟨KL, k1, by omega, k3⟩ d
      obtain ⟨r2, b, d2, h2⟩ := rebuild_total ok lk.room g rec0 hrec0 (old := .heap sz cap c.W a) (e := e) gd
        (fun x hx => ⟨List.mem_append_left _ hx, dw.range x hx⟩)
        (List.mem_append_right _ List.mem_cons_self) he d1
      exact ⟨r2, b, d2, by rw [bind_run h1]; exact h2⟩
    · rw [if_neg hsp]; exact ⟨_, _, _, rfl⟩

/-! ### bitmap -/

theorem bitmap_mem_le_top {sz cap bits : Nat} {a : Tbl} (hb : isDense c bits = false) (hp : isPlain c bits = false)
    (hpos : 0 < bits) {x : Nat} (hx : x ∈ elems c (.heap sz cap bits a)) :
    x ≤ (a.toList.map (fun w => (w >>> bits) * bits + bits)).foldl Max.max 0 := by
  obtain ⟨w, hw, hk, _⟩ := (mem_elems_nz hb hp hpos x).1 hx
  have hwl : w ∈ a.toList := (List.mem_filter.1 hw).1
  have := (total_le_foldl_max (a.toList.map (fun w => (w >>> bits) * bits + bits)) 0).2 _
    (List.mem_map.2 ⟨w, hwl, rfl⟩)
  have h1 := Nat.div_add_mod x bits
  have h2 := Nat.mod_lt x hpos
  rw [hk, Nat.mul_comm] at this
  omega

/-- the two growing branches of `insertBitmap` (bitmap → dense, regrow with the same width) -/
theorem bitmapGrow_total (ok : CfgOK c) (lk : Like64 c) (g : Rng D) (rec0 : Ins D) (hrec0 : RecOK c rec0)
    {sz cap bits : Nat} {a : Tbl} (hb : isDense c bits = false) (hp : isPlain c bits = false)
    (wf : BitmapWF c sz cap bits a) (e : Nat) (he : e < 2 ^ c.W) (hfit : ¬ c.cab e < bits)
    (hfresh : ∀ i, i < a.size → get a i ≠ 0 → K a bits i ≠ e / bits)
    (mx : Nat) (hmx : ∀ y ∈ elems c (.heap sz cap bits a) ++ [e], y ≤ mx) (d : D) :
    ∃ r' b d', (if cap > mx >>> 6 then
        rebuild c (insertStep c g rec0) (denseWithMax c mx) (.heap sz cap bits a) e
      else do
        let r ← drawM c g cap bits
        let new ← withCapBits c g (cap + 1 + c.growExtra cap + (r % cap)) bits
        rebuild c (insertStep c g rec0) new (.heap sz cap bits a) e) d = .ok ((r', b), d') := by
  have hold : ∀ x ∈ elems c (.heap sz cap bits a),
      x ∈ elems c (.heap sz cap bits a) ++ [e] ∧ x < 2 ^ c.W :=
    fun x hx => ⟨List.mem_append_left _ hx, wf.range x hx⟩
  have heV : e ∈ elems c (.heap sz cap bits a) ++ [e] := List.mem_append_right _ List.mem_cons_self
  by_cases hc : cap > mx >>> 6
  · rw [if_pos hc]
    exact rebuild_total ok lk.room g rec0 hrec0 (denseWithMax_good ok lk hmx) hold heV he d
  · rw [if_neg hc, bind_run (drawM_run g cap bits d)]
    have hnd : ((e / bits) :: (nz a).map (· >>> bits)).Nodup := by
      refine List.nodup_cons.2 ⟨?_, inv_nodup wf.inv⟩
      intro hm
      obtain ⟨w, hw, hwk⟩ := List.mem_map.1 hm
      obtain ⟨h0, i, hi, hg⟩ := mem_nz.1 hw
      apply hfresh i hi (by rw [hg]; exact h0)
      unfold K
      rw [hg]; exact hwk
    have hlen : (nz a).length ≤ a.size := by
      have := List.length_filter_le (fun x => decide (x ≠ 0)) a.toList
      simpa [nz] using this
    have hcapeq := wf.cap_eq
    obtain ⟨r, d1, h1, gd⟩ := withCapBits_good ok g (V := elems c (.heap sz cap bits a) ++ [e])
      (cap := cap + 1 + c.growExtra cap + modW c (g.draw d cap bits).1 % cap) (bits := bits) (by omega)
      (Or.inr ⟨wf.bits_pos, wf.bits_lt⟩)
      (by
        intro y hy
        rcases List.mem_append.1 hy with h | h
        · exact wf.fits y h
        · rw [List.mem_singleton.1 h]; omega)
      (fun h0 => by have := wf.bits_pos; omega)
      ⟨_, hnd, by rw [List.length_cons, List.length_map]; omega, by
        intro y hy
        rw [Nat.max_eq_left wf.bits_pos]
        rcases List.mem_append.1 hy with h | h
        · obtain ⟨w, hw, hk, _⟩ := (mem_elems_nz hb hp wf.bits_pos y).1 h
          exact List.mem_cons_of_mem _ (List.mem_map.2 ⟨w, hw, hk⟩)
        · rw [List.mem_singleton.1 h]; exact List.mem_cons_self⟩
      (g.draw d cap bits).2
    obtain ⟨r2, b, d2, h2⟩ := rebuild_total ok lk.room g rec0 hrec0 (old := .heap sz cap bits a) (e := e) gd
      hold heV he d1
    exact ⟨r2, b, d2, by rw [bind_run h1]; exact h2⟩

theorem insertBitmap_total (ok : CfgOK c) (lk : Like64 c) (g : Rng D) (rec0 : Ins D) (hrec0 : RecOK c rec0)
    {sz cap bits : Nat} {a : Tbl} (hb : isDense c bits = false) (hp : isPlain c bits = false)
    (wf : BitmapWF c sz cap bits a) (e : Nat) (he : e < 2 ^ c.W)
    (hsz : 3 * sz + 4 + c.W + 3 ≤ 2 ^ c.W) (d : D) :
    ∃ r' b d', insertBitmap c g (insertStep c g rec0) sz cap bits a e d = .ok ((r', b), d') := by
  have hold : ∀ x ∈ elems c (.heap sz cap bits a),
      x ∈ elems c (.heap sz cap bits a) ++ [e] ∧ x < 2 ^ c.W :=
    fun x hx => ⟨List.mem_append_left _ hx, wf.range x hx⟩
  have heV : e ∈ elems c (.heap sz cap bits a) ++ [e] := List.mem_append_right _ List.mem_cons_self
  by_cases hc : c.cab e < bits
  · -- narrowing
    unfold insertBitmap
    rw [if_pos hc]
    dsimp only
    rw [bind_run (drawM_run g cap bits d)]
    generalize hkeys : sortDedup ((elems c (.heap sz cap bits a)).map (· / (Max.max (c.cab e) 1))) = keys
    obtain ⟨ks1, ks2⟩ := sortDedup_spec ((elems c (.heap sz cap bits a)).map (· / (Max.max (c.cab e) 1)))
    rw [hkeys] at ks1 ks2
    have knd : keys.Nodup := pairwise_lt_nodup ks1
    have klen : keys.length ≤ sz := by
      have h1 := knd.length_le_of_subset (fun x hx => (ks2 x).1 hx)
      rw [List.length_map, ← wf.szc] at h1
      exact h1
    have hnar := lk.narrow_le (keys.length + 1) (modW c (g.draw d cap bits).1) (by omega)
    obtain ⟨r, d1, h1, gd⟩ := withCapBits_good ok g (V := elems c (.heap sz cap bits a) ++ [e])
      (cap := keys.length + 1 + 1 + c.narrowExtra (keys.length + 1) +
        c.narrowMul * (modW c (g.draw d cap bits).1 % (keys.length + 1))) (bits := c.cab e) (by omega)
      (lk.cab_range e)
      (by
        intro y hy
        rcases List.mem_append.1 hy with h | h
        · have := wf.fits y h; omega
        · rw [List.mem_singleton.1 h]; exact Nat.le_refl _)
      (fun _ => by omega)
      (by
        by_cases hke : e / Max.max (c.cab e) 1 ∈ keys
        · refine ⟨keys, knd, by omega, fun y hy => ?_⟩
          rcases List.mem_append.1 hy with h | h
          · exact (ks2 _).2 (List.mem_map.2 ⟨y, h, rfl⟩)
          · rw [List.mem_singleton.1 h]; exact hke
        · refine ⟨e / Max.max (c.cab e) 1 :: keys, List.nodup_cons.2 ⟨hke, knd⟩,
            by rw [List.length_cons]; omega, fun y hy => ?_⟩
          rcases List.mem_append.1 hy with h | h
          · exact List.mem_cons_of_mem _ ((ks2 _).2 (List.mem_map.2 ⟨y, h, rfl⟩))
          · rw [List.mem_singleton.1 h]; exact List.mem_cons_self)
      (g.draw d cap bits).2
    obtain ⟨r2, b, d2, h2⟩ := rebuild_total ok lk.room g rec0 hrec0 (old := .heap sz cap bits a) (e := e) gd
      hold heV he d1
    exact ⟨r2, b, d2, by rw [bind_run h1]; exact h2⟩
  · rcases lookfor_cases wf.inv wf.npos (e / bits) with ⟨idx, hl, _, _, _⟩ | ⟨hnf, hfresh⟩
    · by_cases hbit : (get a idx).testBit (e % bits) = true
      · exact ⟨_, _, _, (insertBitmap_found_set g _ hb hp wf e hc hl hbit d).1⟩
      · exact ⟨_, _, _, (insertBitmap_found_clear g _ hb hp wf e he hc hl hbit d).1⟩
    · cases hpl : tablePlace c (e / bits) (modW c ((e / bits) <<< bits) ||| (1 <<< (e % bits))) bits a with
      | some a' => exact ⟨_, _, _, (insertBitmap_place g _ hb hp ok wf e he hc hnf hpl d).1⟩
      | none =>
        have hmx : ∀ y ∈ elems c (.heap sz cap bits a) ++ [e],
            y ≤ (if e > (a.toList.map (fun x => (x >>> bits) * bits + bits)).foldl Max.max 0 then e
              else (a.toList.map (fun x => (x >>> bits) * bits + bits)).foldl Max.max 0) := by
          intro y hy
          rcases List.mem_append.1 hy with h | h
          · have := bitmap_mem_le_top hb hp wf.bits_pos h
            split <;> omega
          · rw [List.mem_singleton.1 h]
            split <;> omega
        have hg := bitmapGrow_total ok lk g rec0 hrec0 hb hp wf e he hc hfresh _ hmx d
        unfold insertBitmap
        rw [if_neg hc]
        dsimp only
        cases hl : lookfor (e / bits) a bits with
        | found i => exact absurd hl (hnf i)
        | empty ii => dsimp only; rw [hpl]; exact hg
        | needInsert => dsimp only; rw [hpl]; exact hg

/-! ### the theorem -/

/-- one `insertStep` whose recursive `insert` is itself one `insertStep` (over anything correct) returns -/
theorem insertStep_total (ok : CfgOK c) (lk : Like64 c) (g : Rng D) (rec0 : Ins D) (hrec0 : RecOK c rec0)
    {r : Rp} (wf : WF c r) (e : Nat) (he : e < 2 ^ c.W)
    (hcap : capacity r + c.W + 3 ≤ 2 ^ c.W) (hlen : 3 * len r + 4 + c.W + 3 ≤ 2 ^ c.W) (d : D) :
    ∃ r' b d', insertStep c g (insertStep c g rec0) r e d = .ok ((r', b), d') := by
  match r, wf with
  | .empty, _ => exact insertEmpty_total ok lk g rec0 hrec0 e he d
  | .stack t, wf => exact insertStack_total ok lk g rec0 hrec0 wf e he d
  | .heap sz cap bits a, wf =>
    rw [insertStep]
    rcases WF_heap_cases wf with ⟨hW, dw⟩ | ⟨hd, hp⟩ | ⟨hd, hp, bw⟩
    · subst hW
      rw [if_pos (isDense_W c)]
      exact insertDense_total ok lk g rec0 hrec0 dw e he d
    · rw [if_neg (by rw [hd]; exact Bool.false_ne_true), if_pos hp]
      have hcapeq := (plain_unfold wf hp hd).2.1
      exact insertPlain_total ok g wf hp hd e he d (by rw [← hcapeq]; exact hcap)
    · rw [if_neg (by rw [hd]; exact Bool.false_ne_true), if_neg (by rw [hp]; exact Bool.false_ne_true)]
      exact insertBitmap_total ok lk g rec0 hrec0 hd hp bw e he hlen d

/-- **`insert` returns normally** (generic form): for a configuration with the `cfg64` room rule, every
fuel `≥ 2` suffices — the top call may rebuild, the refill calls take only non-growing branches. -/
theorem insert_total (ok : CfgOK c) (lk : Like64 c) (g : Rng D) (fuel : Nat) {r : Rp} (wf : WF c r) (e : Nat)
    (he : e < 2 ^ c.W) (hcap : capacity r + c.W + 3 ≤ 2 ^ c.W) (hlen : 3 * len r + 4 + c.W + 3 ≤ 2 ^ c.W) (d : D) :
    ∃ r' b d', insert c g (fuel + 2) r e d = .ok ((r', b), d') :=
  insertStep_total ok lk g (insert c g fuel) (insert_refines ok g fuel) wf e he hcap hlen d

/-- **`SetU64::insert` returns normally with recursion depth 2 (fuel 3).** -/
theorem insert_total_u64 (g : Rng D) {r : Rp} (wf : WF cfg64 r) (e : Nat) (he : e < 2 ^ 64)
    (hsize : capacity r + 64 + 3 ≤ 2 ^ 64 ∧ 3 * len r + 4 + 64 + 3 ≤ 2 ^ 64) (d : D) :
    ∃ r' b d', insert cfg64 g 3 r e d = .ok ((r', b), d') :=
  insert_total cfg64_ok cfg64_like g 1 wf e he hsize.1 hsize.2 d

/-- fuel 2 is already enough -/
theorem insert_total_u64_fuel2 (g : Rng D) {r : Rp} (wf : WF cfg64 r) (e : Nat) (he : e < 2 ^ 64)
    (hsize : capacity r + 64 + 3 ≤ 2 ^ 64 ∧ 3 * len r + 4 + 64 + 3 ≤ 2 ^ 64) (d : D) :
    ∃ r' b d', insert cfg64 g 2 r e d = .ok ((r', b), d') :=
  insert_total cfg64_ok cfg64_like g 0 wf e he hsize.1 hsize.2 d

/-- total correctness: `insert` returns, and what it returns is right (`insert_refines`) -/
theorem insert_total_correct_u64 (g : Rng D) {r : Rp} (wf : WF cfg64 r) (e : Nat) (he : e < 2 ^ 64)
    (hsize : capacity r + 64 + 3 ≤ 2 ^ 64 ∧ 3 * len r + 4 + 64 + 3 ≤ 2 ^ 64) (d : D) :
    ∃ r' b d', insert cfg64 g 3 r e d = .ok ((r', b), d') ∧ InsOK cfg64 r e r' b := by
  obtain ⟨r', b, d', h⟩ := insert_total_u64 g wf e he hsize d
  exact ⟨r', b, d', h, insert_refines cfg64_ok g 3 r e d r' b d' wf he h⟩

#print axioms withCapBits_good
#print axioms withCapMax_good
#print axioms insertEmpty_total
#print axioms insertStack_total
#print axioms insertDense_total
#print axioms insertBitmap_total
#print axioms insertStep_total
#print axioms insert_total
#print axioms insert_total_u64
#print axioms insert_total_u64_fuel2
#print axioms insert_total_correct_u64
end SC
