import TinysetModel.Model.Ops
import TinysetModel.Proofs.WF
/-! compactserde: `fromArray (toArray r) = r` for every well-formed representation, for both
concrete configurations (`roundtrip_u64`, `roundtrip_u32`), proved once generically (`roundtrip`)
under the small set of facts `SerdeOK` about the configuration. -/
namespace SC
open RH

/-! ### the copy loop -/

theorem serde_copy_size (f : Nat → Nat) (n : Nat) (a : Tbl) :
    ((List.range n).foldl (fun acc i => put acc i (f i)) a).size = a.size := by
  induction n with
  | zero => rfl
  | succ n ih => rw [List.range_succ, List.foldl_append]; simp only [List.foldl_cons, List.foldl_nil, size_put, ih]

theorem serde_copy_get (f : Nat → Nat) (n : Nat) (a : Tbl) (j : Nat) (hj : j < a.size) :
    get ((List.range n).foldl (fun acc i => put acc i (f i)) a) j = if j < n then f j else get a j := by
  induction n with
  | zero => simp
  | succ n ih =>
    rw [List.range_succ, List.foldl_append]
    simp only [List.foldl_cons, List.foldl_nil]
    by_cases h : n = j
    · subst h
      rw [get_put_eq _ (by rw [serde_copy_size]; exact hj), if_pos (Nat.lt_succ_self _)]
    · rw [get_put_ne _ h, ih]
      by_cases h2 : j < n
      · rw [if_pos h2, if_pos (by omega)]
      · rw [if_neg h2, if_neg (by omega)]

theorem serde_tbl_ext {a b : Tbl} (hs : a.size = b.size) (h : ∀ i, i < b.size → get a i = get b i) : a = b := by
  apply Array.ext hs
  intro i h1 h2
  have := h i h2
  simpa [RH.get, Array.getD_eq_getD_getElem?, h1, h2] using this

theorem serde_getD_toList (a : Tbl) (i : Nat) : a.toList.getD i 0 = get a i := by
  simp [RH.get, Array.getD_eq_getD_getElem?, List.getD_eq_getElem?_getD]

/-- copying the words of `a` into a fresh table of the same size gives `a` back -/
theorem serde_copy_eq (sz bits : Nat) (a : Tbl) :
    (List.range (Nat.min a.size a.size)).foldl
      (fun acc i => put acc i ((sz :: bits :: a.toList).getD (i + 2) 0)) (Array.replicate a.size 0) = a := by
  apply serde_tbl_ext
  · rw [serde_copy_size]; simp
  · intro i hi
    rw [serde_copy_get _ _ _ _ (by simpa using hi), if_pos (by simpa [Nat.min_def] using hi)]
    show (a.toList).getD i 0 = get a i
    exact serde_getD_toList a i

/-! ### the tagged word -/

theorem serde_or_shl3 {e b : Nat} (he : e < 8) : e ||| (b <<< 3) = b * 8 + e := by
  rw [Nat.or_comm, ← Nat.shiftLeft_add_eq_or_of_lt (by omega : e < 2 ^ 3), Nat.shiftLeft_eq]

theorem serde_split32 (w : Nat) : w % 2 ^ 32 ||| ((w >>> 32) <<< 32) = w := by
  rw [Nat.or_comm, ← Nat.shiftLeft_add_eq_or_of_lt (Nat.mod_lt _ (by omega)), Nat.shiftLeft_eq,
    Nat.shiftRight_eq_div_pow]
  omega

/-- what the round trip needs from a configuration; both instances satisfy it -/
structure SerdeOK (c : Cfg) : Prop where
  W_pos : 0 < c.W
  enc_pos : ∀ n, 1 ≤ n → n ≤ c.codec.maxN → 1 ≤ c.codec.enc n
  enc_lt : ∀ n, 1 ≤ n → n ≤ c.codec.maxN → c.codec.enc n < 8
  dec_enc : ∀ n, 1 ≤ n → n ≤ c.codec.maxN → c.codec.dec (c.codec.enc n) = n

theorem serde64_ok : SerdeOK cfg64 where
  W_pos := by decide
  enc_pos := fun n h1 _ => h1
  enc_lt := fun n _ h2 => by
    have : cfg64.codec.maxN = 7 := rfl
    show n < 8; omega
  dec_enc := fun _ _ _ => rfl

theorem serde32_ok : SerdeOK cfg32 where
  W_pos := by decide
  enc_pos := fun n h1 _ => by
    show 1 ≤ (if n ≥ 4 then n + 1 else n); split <;> omega
  enc_lt := fun n _ h2 => by
    have : cfg32.codec.maxN = 6 := rfl
    show (if n ≥ 4 then n + 1 else n) < 8; split <;> omega
  dec_enc := fun n _ h2 => by
    have : cfg32.codec.maxN = 6 := rfl
    show (if n ≥ 4 then n + 1 else n) % 4 + (if n ≥ 4 then n + 1 else n) / 4 * 3 = n
    split <;> omega

variable {c : Cfg}

theorem tiny_roundtrip (ok : SerdeOK c) {t : TinyC.T} (wf : StackWF c t) :
    TinyC.ofWord c.codec (TinyC.toWord c.codec t) = t := by
  have h1 := ok.enc_lt t.sz wf.sz_pos wf.sz_le
  have h2 := ok.dec_enc t.sz wf.sz_pos wf.sz_le
  unfold TinyC.ofWord TinyC.toWord
  rw [serde_or_shl3 h1, Nat.shiftRight_eq_div_pow]
  have e1 : (t.bits * 8 + c.codec.enc t.sz) % 8 = c.codec.enc t.sz := by omega
  have e2 : (t.bits * 8 + c.codec.enc t.sz) / 2 ^ 3 = t.bits := by omega
  rw [e1, e2, h2]

theorem toWord_ne_zero (ok : SerdeOK c) {t : TinyC.T} (wf : StackWF c t) :
    TinyC.toWord c.codec t ≠ 0 := by
  have h0 := ok.enc_pos t.sz wf.sz_pos wf.sz_le
  have h1 := ok.enc_lt t.sz wf.sz_pos wf.sz_le
  unfold TinyC.toWord
  rw [serde_or_shl3 h1]; omega

/-- `ofWord (wordOf r) = r` for the inline and the empty representation -/
theorem ofWord_wordOf (ok : SerdeOK c) {r : Rp} (wf : WF c r) (hr : ∀ sz cap bits a, r ≠ .heap sz cap bits a) :
    ofWord c (wordOf c r) = r := by
  cases r with
  | empty => simp [ofWord, wordOf]
  | stack t =>
    unfold ofWord wordOf
    rw [if_neg (toWord_ne_zero ok wf), tiny_roundtrip ok wf]
  | heap sz cap bits a => exact absurd rfl (hr sz cap bits a)

/-! ### heap facts (the only place that looks inside `WF` of a heap value) -/

theorem serde_wf_heap_facts (ok : SerdeOK c) {sz cap bits : Nat} {a : Tbl} (wf : WF c (.heap sz cap bits a)) :
    cap = a.size ∧ 0 < cap ∧ bits ≠ 0 := by
  have hW := ok.W_pos
  simp only [WF] at wf
  by_cases hd : isDense c bits = true
  · rw [if_pos hd] at wf
    have hb : bits = c.W := by simpa [isDense] using hd
    exact ⟨wf.cap_eq, wf.cap_pos, by omega⟩
  · rw [if_neg hd] at wf
    by_cases hp : isPlain c bits = true
    · rw [if_pos hp] at wf
      obtain ⟨h1, h2, h3, _⟩ := wf
      exact ⟨h2, by rw [h2]; exact h1.npos, by omega⟩
    · rw [if_neg hp] at wf
      have := wf.bits_pos
      exact ⟨wf.cap_eq, wf.cap_pos, by omega⟩

/-! ### lengths: this is what keeps the two forms apart -/

theorem toArray_length_heap (ok : SerdeOK c) {sz cap bits : Nat} {a : Tbl} (wf : WF c (.heap sz cap bits a)) :
    (toArray c (.heap sz cap bits a)).length = cap + 2 ∧ 3 ≤ (toArray c (.heap sz cap bits a)).length := by
  obtain ⟨h1, h2, _⟩ := serde_wf_heap_facts ok wf
  simp only [toArray, List.length_cons, Array.length_toList]
  omega

theorem toArray_length_inline (r : Rp) (hr : ∀ sz cap bits a, r ≠ .heap sz cap bits a) :
    (toArray c r).length = if c.W = 64 then 1 else 2 := by
  cases r with
  | heap sz cap bits a => exact absurd rfl (hr sz cap bits a)
  | empty => simp only [toArray]; split <;> rfl
  | stack t => simp only [toArray]; split <;> rfl

/-! ### the round trip -/

theorem roundtrip_heap (ok : SerdeOK c) {D : Type} (g : Rng D) {sz cap bits : Nat} {a : Tbl}
    (wf : WF c (.heap sz cap bits a)) (d : D) :
    fromArray c g (toArray c (.heap sz cap bits a)) d = .ok (.heap sz cap bits a, d) := by
  obtain ⟨h1, h2, h3⟩ := serde_wf_heap_facts ok wf
  subst h1
  unfold fromArray toArray
  dsimp only
  have hlen : (sz :: bits :: a.toList).length > (if c.W = 64 then 1 else 2) := by
    simp only [List.length_cons, Array.length_toList]; split <;> omega
  rw [if_pos hlen]
  have hcap : (sz :: bits :: a.toList).length - 2 = a.size := by
    simp only [List.length_cons, Array.length_toList]; omega
  have hb : (sz :: bits :: a.toList).getD 1 0 = bits := rfl
  have hs : (sz :: bits :: a.toList).getD 0 0 = sz := rfl
  rw [hcap, hb, hs]
  have hw : withCapBits c g a.size bits d = .ok (.heap 0 a.size bits (Array.replicate a.size 0), d) := by
    unfold withCapBits
    rw [if_pos h2, if_neg h3]; rfl
  simp only [bind, StateT.bind, Except.bind, hw]
  rw [serde_copy_eq]
  split <;> rfl

theorem roundtrip_inline (ok : SerdeOK c) {D : Type} (g : Rng D) {r : Rp} (wf : WF c r)
    (hr : ∀ sz cap bits a, r ≠ .heap sz cap bits a) (d : D) :
    fromArray c g (toArray c r) d = .ok (r, d) := by
  have hlen := toArray_length_inline (c := c) r hr
  unfold fromArray
  dsimp only
  rw [if_neg (by rw [hlen]; omega)]
  have hta : toArray c r = if c.W = 64 then [wordOf c r] else [wordOf c r % 2 ^ 32, wordOf c r >>> 32] := by
    cases r with
    | heap sz cap bits a => exact absurd rfl (hr sz cap bits a)
    | empty => rfl
    | stack t => rfl
  by_cases hW : c.W = 64
  · rw [if_pos hW, hta, if_pos hW]
    show (pure (ofWord c (wordOf c r)) : M D Rp) d = _
    rw [ofWord_wordOf ok wf hr]; rfl
  · rw [if_neg hW, hta, if_neg hW]
    show (pure (ofWord c (wordOf c r % 2 ^ 32 ||| (wordOf c r >>> 32) <<< 32)) : M D Rp) d = _
    rw [serde_split32, ofWord_wordOf ok wf hr]; rfl

/-- generic round trip -/
theorem roundtrip (ok : SerdeOK c) {D : Type} (g : Rng D) (r : Rp) (wf : WF c r) (d : D) :
    fromArray c g (toArray c r) d = .ok (r, d) := by
  cases r with
  | heap sz cap bits a => exact roundtrip_heap ok g wf d
  | empty => exact roundtrip_inline ok g wf (fun _ _ _ _ h => by cases h) d
  | stack t => exact roundtrip_inline ok g wf (fun _ _ _ _ h => by cases h) d

/-- `toArray_length`: heap `= cap + 2 ≥ 3`, inline / empty `= 1` (u64) resp. `2` (u32) -/
theorem toArray_length (ok : SerdeOK c) (r : Rp) (wf : WF c r) :
    (toArray c r).length =
      match r with
      | .heap _ cap _ _ => cap + 2
      | _ => if c.W = 64 then 1 else 2 := by
  cases r with
  | heap sz cap bits a => exact (toArray_length_heap ok wf).1
  | empty => exact toArray_length_inline _ (fun _ _ _ _ h => by cases h)
  | stack t => exact toArray_length_inline _ (fun _ _ _ _ h => by cases h)

/-! ### the two concrete configurations -/

theorem roundtrip_u64 {D : Type} (g : Rng D) (r : Rp) (wf : WF cfg64 r) (d : D) :
    fromArray cfg64 g (toArray cfg64 r) d = .ok (r, d) := roundtrip serde64_ok g r wf d

theorem roundtrip_u32 {D : Type} (g : Rng D) (r : Rp) (wf : WF cfg32 r) (d : D) :
    fromArray cfg32 g (toArray cfg32 r) d = .ok (r, d) := roundtrip serde32_ok g r wf d

theorem toArray_length_u64 (r : Rp) (wf : WF cfg64 r) :
    (toArray cfg64 r).length = match r with | .heap _ cap _ _ => cap + 2 | _ => 1 := by
  have := toArray_length serde64_ok r wf
  cases r <;> exact this

theorem toArray_length_u32 (r : Rp) (wf : WF cfg32 r) :
    (toArray cfg32 r).length = match r with | .heap _ cap _ _ => cap + 2 | _ => 2 := by
  have := toArray_length serde32_ok r wf
  cases r <;> exact this

/-- a heap value is never confused with an inline one: its array has at least 3 entries -/
theorem toArray_heap_ge3_u64 {sz cap bits : Nat} {a : Tbl} (wf : WF cfg64 (.heap sz cap bits a)) :
    3 ≤ (toArray cfg64 (.heap sz cap bits a)).length := (toArray_length_heap serde64_ok wf).2

theorem toArray_heap_ge3_u32 {sz cap bits : Nat} {a : Tbl} (wf : WF cfg32 (.heap sz cap bits a)) :
    3 ≤ (toArray cfg32 (.heap sz cap bits a)).length := (toArray_length_heap serde32_ok wf).2

/-- with the inline word a 64-bit machine word (`t.bits < 2 ^ 61`), the two halves written for `SetU32`
are 32-bit values (this is the only place where that bound matters in the model: `Nat` shifts do
not truncate, so the round trip itself holds without it) -/
theorem toArray_u32_halves {r : Rp} (wf : WF cfg32 r) (hr : ∀ sz cap bits a, r ≠ .heap sz cap bits a)
    (hinl : ∀ t, r = .stack t → t.bits < 2 ^ 61) : ∀ x ∈ toArray cfg32 r, x < 2 ^ 32 := by
  have hw : wordOf cfg32 r < 2 ^ 64 := by
    cases r with
    | heap sz cap bits a => exact absurd rfl (hr sz cap bits a)
    | empty => show 0 < 2 ^ 64; omega
    | stack t =>
      have h1 := serde32_ok.enc_lt t.sz wf.sz_pos wf.sz_le
      have h2 := hinl t rfl
      show TinyC.toWord cfg32.codec t < 2 ^ 64
      unfold TinyC.toWord
      rw [serde_or_shl3 h1]; omega
  have hta : toArray cfg32 r = [wordOf cfg32 r % 2 ^ 32, wordOf cfg32 r >>> 32] := by
    cases r with
    | heap sz cap bits a => exact absurd rfl (hr sz cap bits a)
    | empty => rfl
    | stack t => rfl
  intro x hx
  rw [hta] at hx
  simp only [List.mem_cons, List.not_mem_nil, or_false] at hx
  rcases hx with rfl | rfl
  · exact Nat.mod_lt _ (by omega)
  · rw [Nat.shiftRight_eq_div_pow]; omega

end SC

#print axioms SC.roundtrip_u64
#print axioms SC.roundtrip_u32
#print axioms SC.toArray_length
#print axioms SC.toArray_length_u64
#print axioms SC.toArray_length_u32
#print axioms SC.toArray_u32_halves
