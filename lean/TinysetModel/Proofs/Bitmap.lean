import TinysetModel.Proofs.BitmapAux
set_option linter.unusedVariables false
/-! The bitmap Robin-Hood layout (`0 < bits < W`): abstraction lemmas, `contains`, `remove`, `insertBitmap`. -/
namespace SC
open RH

/-- members of one bucket word -/
def bk (bits w : Nat) : List Nat := (bitsOf w bits).map (fun b => (w >>> bits) * bits + b)

theorem bk_zero (bits : Nat) : bk bits 0 = [] := by
  unfold bk bitsOf
  simp

theorem mem_bk {bits w x : Nat} (hb : 0 < bits) :
    x ∈ bk bits w ↔ w >>> bits = x / bits ∧ w.testBit (x % bits) = true := by
  unfold bk
  rw [List.mem_map]
  constructor
  · rintro ⟨b, hb', e⟩
    rw [mem_bitsOf] at hb'
    have := (split_unique (e := x) (k := w >>> bits) hb hb'.1).1 e.symm
    rw [← this.1, ← this.2]
    exact ⟨rfl, hb'.2⟩
  · rintro ⟨h1, h2⟩
    refine ⟨x % bits, mem_bitsOf.2 ⟨Nat.mod_lt _ hb, h2⟩, ?_⟩
    rw [h1, Nat.mul_comm]
    exact Nat.div_add_mod x bits

theorem bk_nodup (bits w : Nat) : (bk bits w).Nodup := by
  unfold bk
  have := bitsOf_nodup w bits
  show List.Pairwise (· ≠ ·) _
  rw [List.pairwise_map]
  apply List.Pairwise.imp _ this
  intro x y hne h
  exact hne (by omega)

theorem bk_length (bits w : Nat) : (bk bits w).length = (bitsOf w bits).length := by
  unfold bk; simp

theorem flatMap_filter_ne_zero (f : Nat → List Nat) (h0 : f 0 = []) :
    ∀ l : List Nat, l.flatMap f = (l.filter (· ≠ 0)).flatMap f
  | [] => rfl
  | x :: l => by
    rw [List.flatMap_cons, flatMap_filter_ne_zero f h0 l, List.filter_cons]
    by_cases hx : x = 0
    · subst hx; simp [h0]
    · simp [hx]

variable {c : Cfg}

theorem elems_bitmap_eq {sz cap bits : Nat} {a : Tbl} (hb : isDense c bits = false) (hp : isPlain c bits = false) :
    elems c (.heap sz cap bits a) = (nz a).flatMap (bk bits) := by
  unfold elems
  simp only [hb, hp, Bool.false_eq_true, if_false]
  unfold nz
  exact flatMap_filter_ne_zero (bk bits) (bk_zero bits) a.toList

theorem mem_elems_nz {sz cap bits : Nat} {a : Tbl} (hb : isDense c bits = false) (hp : isPlain c bits = false)
    (hpos : 0 < bits) (x : Nat) :
    x ∈ elems c (.heap sz cap bits a) ↔ ∃ w, w ∈ nz a ∧ w >>> bits = x / bits ∧ w.testBit (x % bits) = true := by
  rw [elems_bitmap_eq hb hp, List.mem_flatMap]
  constructor
  · rintro ⟨w, hw, hx⟩; exact ⟨w, hw, (mem_bk hpos).1 hx⟩
  · rintro ⟨w, hw, hx⟩; exact ⟨w, hw, (mem_bk hpos).2 hx⟩

/-- 1. membership in the bitmap layout -/
theorem mem_elems_bitmap {sz cap bits : Nat} {a : Tbl} (hb : isDense c bits = false) (hp : isPlain c bits = false)
    (hpos : 0 < bits) (x : Nat) :
    x ∈ elems c (.heap sz cap bits a) ↔
      ∃ i, i < a.size ∧ get a i ≠ 0 ∧ get a i >>> bits = x / bits ∧ (get a i).testBit (x % bits) = true := by
  rw [mem_elems_nz hb hp hpos]
  constructor
  · rintro ⟨w, hw, h1, h2⟩
    obtain ⟨h0, i, hi, hg⟩ := mem_nz.1 hw
    exact ⟨i, hi, by rw [hg]; exact h0, by rw [hg]; exact h1, by rw [hg]; exact h2⟩
  · rintro ⟨i, hi, h0, h1, h2⟩
    exact ⟨get a i, mem_nz.2 ⟨h0, i, hi, rfl⟩, h1, h2⟩

/-- 2. no duplicates -/
theorem elems_bitmap_nodup {sz cap bits : Nat} {a : Tbl} (hb : isDense c bits = false) (hp : isPlain c bits = false)
    (wf : BitmapWF c sz cap bits a) : (elems c (.heap sz cap bits a)).Nodup := by
  rw [elems_bitmap_eq hb hp, List.Nodup, List.pairwise_flatMap]
  refine ⟨fun w _ => bk_nodup bits w, ?_⟩
  have hn := inv_nodup wf.inv
  rw [List.Nodup, List.pairwise_map] at hn
  apply List.Pairwise.imp _ hn
  intro v w hne x hx1 y hx2 hxy
  subst hxy
  rw [mem_bk wf.bits_pos] at hx1 hx2
  exact hne (by rw [hx1.1, hx2.1])

theorem WF_bitmap {sz cap bits : Nat} {a : Tbl} (hb : isDense c bits = false) (hp : isPlain c bits = false) :
    WF c (.heap sz cap bits a) ↔ BitmapWF c sz cap bits a := by
  simp only [WF, hb, hp, Bool.false_eq_true, if_false]

theorem BitmapWF.npos {sz cap bits : Nat} {a : Tbl} (wf : BitmapWF c sz cap bits a) : 0 < a.size := by
  have := wf.cap_eq; have := wf.cap_pos; omega

/-- 3. `contains` is membership -/
theorem contains_bitmap {sz cap bits : Nat} {a : Tbl} (hb : isDense c bits = false) (hp : isPlain c bits = false)
    (ok : CfgOK c) (wf : BitmapWF c sz cap bits a) (e : Nat) (he : e < 2 ^ c.W) :
    contains c (.heap sz cap bits a) e = true ↔ e ∈ elems c (.heap sz cap bits a) := by
  unfold contains
  simp only [hb, hp, Bool.false_eq_true, if_false]
  by_cases hc : c.cab e < bits
  · rw [if_pos hc]
    constructor
    · intro h; cases h
    · intro h; have := wf.fits e h; omega
  · rw [if_neg hc, mem_elems_bitmap hb hp wf.bits_pos]
    constructor
    · intro h
      split at h
      · rename_i idx hl
        obtain ⟨h1, h2, h3⟩ := lookforAux_found wf.npos _ _ _ hl
        exact ⟨idx, h1, h2, h3, h⟩
      · cases h
    · rintro ⟨i, hi, h0, h1, h2⟩
      rw [lookfor_complete wf.inv hi h0 h1]
      exact h2

theorem eq_of_div_mod {x e bits : Nat} (h1 : x / bits = e / bits) (h2 : x % bits = e % bits) : x = e := by
  calc x = bits * (x / bits) + x % bits := (Nat.div_add_mod x bits).symm
    _ = bits * (e / bits) + e % bits := by rw [h1, h2]
    _ = e := Nat.div_add_mod e bits

theorem elems_of_perm_cons {sz cap bits : Nat} {a : Tbl} (hb : isDense c bits = false) (hp : isPlain c bits = false)
    {w : Nat} {L : List Nat} (h : (nz a).Perm (w :: L)) :
    (elems c (.heap sz cap bits a)).Perm (bk bits w ++ L.flatMap (bk bits)) := by
  rw [elems_bitmap_eq hb hp]
  have := h.flatMap_right (bk bits)
  rwa [List.flatMap_cons] at this

/-- removing the last member of a bucket: the bucket is deleted with `premove` -/
theorem remove_last_ok {sz cap bits : Nat} {a : Tbl} (hb : isDense c bits = false) (hp : isPlain c bits = false)
    (wf : BitmapWF c sz cap bits a) (e idx : Nat) (hi : idx < a.size) (h0 : get a idx ≠ 0)
    (hk : get a idx >>> bits = e / bits) (hbit : (get a idx).testBit (e % bits) = true)
    (hnew : clearBit c (get a idx) (e % bits) = modW c ((e / bits) <<< bits)) :
    BitmapWF c (sz - 1) cap bits (premove (e / bits) a bits).2 ∧
    ∀ x, x ∈ elems c (.heap (sz - 1) cap bits (premove (e / bits) a bits).2) ↔
      (x ∈ elems c (.heap sz cap bits a) ∧ x ≠ e) := by
  have hpos := wf.bits_pos
  have hoff : e % bits < bits := Nat.mod_lt _ hpos
  have hoW : e % bits < c.W := Nat.lt_trans hoff wf.bits_lt
  have hwW : get a idx < 2 ^ c.W := (wf.bucket idx hi h0).2
  have hmod : modW c ((e / bits) <<< bits) = (e / bits) <<< bits := by
    unfold modW
    apply Nat.mod_eq_of_lt
    have := key_shift_le (get a idx) bits
    rw [hk] at this
    omega
  rw [hmod] at hnew
  have honly : ∀ b, b < bits → (get a idx).testBit b = true → b = e % bits := by
    intro b hbb ht
    have h1 := testBit_clearBit_lt (c := c) (i := b) hwW hoW
    rw [hnew, testBit_low_shiftLeft hbb, ht] at h1
    simpa using h1
  obtain ⟨b, hbl, hlin⟩ := wf.cut
  obtain ⟨a', hrm, hinv', hperm, hsz, z, hz, hz0⟩ := premove_present wf.inv hbl hlin hi h0 hk
  rw [hrm]
  show BitmapWF c (sz - 1) cap bits a' ∧ _
  have hA := elems_of_perm_cons (sz := sz) (cap := cap) hb hp hperm.symm
  have hA' : (elems c (.heap (sz - 1) cap bits a')).Perm ([] ++ (nz a').flatMap (bk bits)) := by
    rw [elems_bitmap_eq hb hp]; exact List.Perm.refl _
  have heW : e ∈ bk bits (get a idx) := (mem_bk hpos).2 ⟨hk, hbit⟩
  have hcore := rem_core hA hA' (elems_bitmap_nodup hb hp wf) heW
    (by
      intro x
      constructor
      · intro h; cases h
      · rintro ⟨hx, hne⟩
        exfalso
        rw [mem_bk hpos] at hx
        apply hne
        exact eq_of_div_mod (by rw [← hx.1, hk]) (honly _ (Nat.mod_lt _ hpos) hx.2))
    (by
      rw [bk_length, List.length_nil]
      have hor := clearBit_or hwW hoW hbit
      have hfresh : (clearBit c (get a idx) (e % bits)).testBit (e % bits) = false := by
        rw [testBit_clearBit_lt hwW hoW]; simp
      have := bitsOf_or_bit_length hoff hfresh
      rw [hor, hnew, bitsOf_shiftLeft] at this
      simpa using this.symm)
  refine ⟨?_, hcore.1⟩
  have hn' : 0 < a'.size := by rw [hsz]; exact wf.npos
  constructor
  · rw [hsz]; exact wf.cap_eq
  · exact wf.cap_pos
  · exact hpos
  · exact wf.bits_lt
  · exact hinv'
  · refine ⟨next a'.size z, next_lt hn', ?_⟩
    have hz' : z < a'.size := by rw [hsz]; exact hz
    exact lin_of_empty hinv' hz' hz0
  · intro i hi' hne
    have : get a' i ∈ nz a := (hperm.mem_iff).1 (List.mem_cons_of_mem _ (mem_nz.2 ⟨hne, i, hi', rfl⟩))
    obtain ⟨_, j, hj, hg⟩ := mem_nz.1 this
    rw [← hg]
    exact wf.bucket j hj (by rw [hg]; exact hne)
  · intro x hx
    exact wf.fits x ((hcore.1 x).1 hx).1
  · have := wf.szc
    have := hcore.2
    omega
  · intro x hx
    exact wf.range x ((hcore.1 x).1 hx).1

/-- removing a member that is not the last of its bucket: the word is rewritten in place -/
theorem remove_inplace_ok {sz cap bits : Nat} {a : Tbl} (hb : isDense c bits = false) (hp : isPlain c bits = false)
    (wf : BitmapWF c sz cap bits a) (e idx : Nat) (hi : idx < a.size) (h0 : get a idx ≠ 0)
    (hk : get a idx >>> bits = e / bits) (hbit : (get a idx).testBit (e % bits) = true)
    (hnew : clearBit c (get a idx) (e % bits) ≠ modW c ((e / bits) <<< bits)) :
    BitmapWF c (sz - 1) cap bits (put a idx (clearBit c (get a idx) (e % bits))) ∧
    ∀ x, x ∈ elems c (.heap (sz - 1) cap bits (put a idx (clearBit c (get a idx) (e % bits)))) ↔
      (x ∈ elems c (.heap sz cap bits a) ∧ x ≠ e) := by
  have hpos := wf.bits_pos
  have hoff : e % bits < bits := Nat.mod_lt _ hpos
  have hoW : e % bits < c.W := Nat.lt_trans hoff wf.bits_lt
  have hwW : get a idx < 2 ^ c.W := (wf.bucket idx hi h0).2
  have hmod : modW c ((e / bits) <<< bits) = (e / bits) <<< bits := by
    unfold modW
    apply Nat.mod_eq_of_lt
    have := key_shift_le (get a idx) bits
    rw [hk] at this
    omega
  rw [hmod] at hnew
  generalize hv : clearBit c (get a idx) (e % bits) = v at hnew ⊢
  have hvk : v >>> bits = get a idx >>> bits := by rw [← hv]; exact shiftRight_clearBit hwW hoW hoff
  have hvlow : v % 2 ^ bits ≠ 0 := by
    intro h
    have := word_decomp v bits
    rw [h, hvk, hk, Nat.add_zero] at this
    exact hnew this.symm
  have hv0 : v ≠ 0 := by intro h; rw [h] at hvlow; simp at hvlow
  have hvW : v < 2 ^ c.W := by
    have := clearBit_le (c := c) (get a idx) (e % bits)
    rw [hv] at this; omega
  have hvbit : ∀ i, v.testBit i = ((get a idx).testBit i && !decide (i = e % bits)) := by
    intro i; rw [← hv]; exact testBit_clearBit_lt hwW hoW
  -- permutations
  have hp1 := (nz_put_zero hi h0).symm
  have hi0 : idx < (put a idx 0).size := by simpa using hi
  have hp2 := nz_put_empty (a := put a idx 0) (v := v) hi0 (get_put_eq 0 hi) hv0
  have hpp : put (put a idx 0) idx v = put a idx v := by simp [put]
  rw [hpp] at hp2
  have hA := elems_of_perm_cons (sz := sz) (cap := cap) hb hp hp1
  have hA' := elems_of_perm_cons (sz := sz - 1) (cap := cap) hb hp hp2
  have heW : e ∈ bk bits (get a idx) := (mem_bk hpos).2 ⟨hk, hbit⟩
  have hcore := rem_core hA hA' (elems_bitmap_nodup hb hp wf) heW
    (by
      intro x
      rw [mem_bk hpos, mem_bk hpos, hvk, hvbit]
      constructor
      · rintro ⟨h1, h2⟩
        simp only [Bool.and_eq_true, Bool.not_eq_true', decide_eq_false_iff_not] at h2
        exact ⟨⟨h1, h2.1⟩, fun hxe => h2.2 (by rw [hxe])⟩
      · rintro ⟨⟨h1, h2⟩, hne⟩
        refine ⟨h1, ?_⟩
        simp only [Bool.and_eq_true, Bool.not_eq_true', decide_eq_false_iff_not]
        exact ⟨h2, fun hm => hne (eq_of_div_mod (by rw [← h1, hk]) hm)⟩)
    (by
      rw [bk_length, bk_length]
      have hor := clearBit_or hwW hoW hbit
      rw [hv] at hor
      have hfresh : v.testBit (e % bits) = false := by rw [hvbit]; simp
      have := bitsOf_or_bit_length hoff hfresh
      rw [hor] at this
      exact this.symm)
  refine ⟨?_, hcore.1⟩
  obtain ⟨b, hbl, hlin⟩ := wf.cut
  constructor
  · rw [size_put]; exact wf.cap_eq
  · exact wf.cap_pos
  · exact hpos
  · exact wf.bits_lt
  · exact Inv_put_samekey wf.inv hi h0 hv0 hvk
  · exact ⟨b, by rw [size_put]; exact hbl, Lin_put_samekey hlin hi h0 hv0 hvk⟩
  · intro i hi' hne
    rw [size_put] at hi'
    by_cases h : idx = i
    · subst h
      rw [get_put_eq v hi]
      exact ⟨hvlow, hvW⟩
    · rw [get_put_ne v h] at hne ⊢
      exact wf.bucket i hi' hne
  · intro x hx
    exact wf.fits x ((hcore.1 x).1 hx).1
  · have := wf.szc
    have := hcore.2
    omega
  · intro x hx
    exact wf.range x ((hcore.1 x).1 hx).1

theorem not_mem_of_absent {sz cap bits : Nat} {a : Tbl} (hb : isDense c bits = false) (hp : isPlain c bits = false)
    (hpos : 0 < bits) {e : Nat} (hfresh : ∀ i, i < a.size → get a i ≠ 0 → K a bits i ≠ e / bits) :
    e ∉ elems c (.heap sz cap bits a) := by
  rw [mem_elems_bitmap hb hp hpos]
  rintro ⟨i, hi, h0, hk, _⟩
  exact hfresh i hi h0 hk

theorem not_mem_of_bit_clear {sz cap bits : Nat} {a : Tbl} (hb : isDense c bits = false) (hp : isPlain c bits = false)
    (wf : BitmapWF c sz cap bits a) {e idx : Nat} (hi : idx < a.size) (h0 : get a idx ≠ 0)
    (hk : get a idx >>> bits = e / bits) (hbit : ¬ (get a idx).testBit (e % bits) = true) :
    e ∉ elems c (.heap sz cap bits a) := by
  rw [mem_elems_bitmap hb hp wf.bits_pos]
  rintro ⟨i, hi', h0', hk', hb'⟩
  have : i = idx := wf.inv.distinct i idx hi' hi h0' h0 (by unfold K; rw [hk', hk])
  subst this
  exact hbit hb'

theorem RemOK_same {r : Rp} {e : Nat} (wf : WF c r) (hnot : e ∉ elems c r) : RemOK c r e r false := by
  refine ⟨wf, by simp [hnot], fun x => ?_⟩
  constructor
  · intro hx; exact ⟨hx, fun hxe => hnot (hxe ▸ hx)⟩
  · intro hx; exact hx.1

/-- 4. `remove` on the bitmap layout -/
theorem remove_bitmap {sz cap bits : Nat} {a : Tbl} (hb : isDense c bits = false) (hp : isPlain c bits = false)
    (ok : CfgOK c) {D : Type} (g : Rng D) (fuel : Nat) (wf : BitmapWF c sz cap bits a) (e : Nat)
    (he : e < 2 ^ c.W) (d : D) :
    ∃ r' b, remove c g fuel (.heap sz cap bits a) e d = .ok ((r', b), d) ∧
      RemOK c (.heap sz cap bits a) e r' b := by
  have hwf : WF c (.heap sz cap bits a) := (WF_bitmap hb hp).2 wf
  unfold remove
  simp only [hb, hp, Bool.false_eq_true, if_false]
  by_cases hc : c.cab e < bits
  · rw [if_pos hc]
    refine ⟨_, false, rfl, RemOK_same hwf ?_⟩
    intro h; have := wf.fits e h; omega
  · rw [if_neg hc]
    rcases lookfor_cases wf.inv wf.npos (e / bits) with ⟨idx, hl, hi, h0, hk⟩ | ⟨hnf, hfresh⟩
    · rw [hl]
      simp only []
      by_cases hbit : (get a idx).testBit (e % bits) = true
      · rw [if_pos hbit]
        have hmem : e ∈ elems c (.heap sz cap bits a) :=
          (mem_elems_bitmap hb hp wf.bits_pos e).2 ⟨idx, hi, h0, hk, hbit⟩
        by_cases hnew : clearBit c (get a idx) (e % bits) = modW c ((e / bits) <<< bits)
        · rw [if_pos hnew]
          obtain ⟨w1, w2⟩ := remove_last_ok hb hp wf e idx hi h0 hk hbit hnew
          exact ⟨_, true, rfl, (WF_bitmap hb hp).2 w1, by simp [hmem], w2⟩
        · rw [if_neg hnew]
          obtain ⟨w1, w2⟩ := remove_inplace_ok hb hp wf e idx hi h0 hk hbit hnew
          exact ⟨_, true, rfl, (WF_bitmap hb hp).2 w1, by simp [hmem], w2⟩
      · rw [if_neg hbit]
        exact ⟨_, false, rfl, RemOK_same hwf (not_mem_of_bit_clear hb hp wf hi h0 hk hbit)⟩
    · have hnot := not_mem_of_absent (c := c) (sz := sz) (cap := cap) hb hp wf.bits_pos hfresh
      cases hl : lookfor (e / bits) a bits with
      | found i => exact absurd hl (hnf i)
      | empty ii => exact ⟨_, false, rfl, RemOK_same hwf hnot⟩
      | needInsert => exact ⟨_, false, rfl, RemOK_same hwf hnot⟩

/-! ### insertion -/

/-- key found, bit clear: the word gets the bit -/
theorem insert_setbit_ok {sz cap bits : Nat} {a : Tbl} (hb : isDense c bits = false) (hp : isPlain c bits = false)
    (wf : BitmapWF c sz cap bits a) (e idx : Nat) (he : e < 2 ^ c.W) (hfit : ¬ c.cab e < bits)
    (hi : idx < a.size) (h0 : get a idx ≠ 0)
    (hk : get a idx >>> bits = e / bits) (hbit : ¬ (get a idx).testBit (e % bits) = true) :
    BitmapWF c (sz + 1) cap bits (put a idx (get a idx ||| (1 <<< (e % bits)))) ∧
    ∀ x, x ∈ elems c (.heap (sz + 1) cap bits (put a idx (get a idx ||| (1 <<< (e % bits))))) ↔
      (x ∈ elems c (.heap sz cap bits a) ∨ x = e) := by
  have hpos := wf.bits_pos
  have hoff : e % bits < bits := Nat.mod_lt _ hpos
  have hoW : e % bits < c.W := Nat.lt_trans hoff wf.bits_lt
  have hwW : get a idx < 2 ^ c.W := (wf.bucket idx hi h0).2
  generalize hv : get a idx ||| (1 <<< (e % bits)) = v
  have hvk : v >>> bits = get a idx >>> bits := by rw [← hv]; exact key_or_bit hoff
  have hvbit : ∀ i, v.testBit i = ((get a idx).testBit i || decide (i = e % bits)) := by
    intro i; rw [← hv]; exact testBit_or_bit _ _ _
  have hvb : v.testBit (e % bits) = true := by rw [hvbit]; simp
  have hvlow : v % 2 ^ bits ≠ 0 := mod_ne_zero_of_testBit hoff hvb
  have hv0 : v ≠ 0 := ne_zero_of_testBit hvb
  have hvW : v < 2 ^ c.W := by
    rw [← hv]
    apply Nat.or_lt_two_pow hwW
    rw [Nat.shiftLeft_eq, Nat.one_mul]
    exact Nat.pow_lt_pow_right (by omega) hoW
  have hp1 := (nz_put_zero hi h0).symm
  have hi0 : idx < (put a idx 0).size := by simpa using hi
  have hp2 := nz_put_empty (a := put a idx 0) (v := v) hi0 (get_put_eq 0 hi) hv0
  have hpp : put (put a idx 0) idx v = put a idx v := by simp [put]
  rw [hpp] at hp2
  have hA := elems_of_perm_cons (sz := sz) (cap := cap) hb hp hp1
  have hA' := elems_of_perm_cons (sz := sz + 1) (cap := cap) hb hp hp2
  have hfalse : (get a idx).testBit (e % bits) = false := by simpa using hbit
  have hcore := ins_core (e := e) hA hA'
    (by
      intro x
      rw [mem_bk hpos, mem_bk hpos, hvk, hvbit]
      simp only [Bool.or_eq_true, decide_eq_true_eq]
      constructor
      · rintro ⟨h1, h2 | h2⟩
        · exact Or.inl ⟨h1, h2⟩
        · exact Or.inr (eq_of_div_mod (by rw [← h1, hk]) h2)
      · rintro (⟨h1, h2⟩ | h)
        · exact ⟨h1, Or.inl h2⟩
        · subst h; exact ⟨hk, Or.inr rfl⟩)
    (by
      rw [bk_length, bk_length, ← hv]
      exact bitsOf_or_bit_length hoff hfalse)
  refine ⟨?_, hcore.1⟩
  obtain ⟨b, hbl, hlin⟩ := wf.cut
  constructor
  · rw [size_put]; exact wf.cap_eq
  · exact wf.cap_pos
  · exact hpos
  · exact wf.bits_lt
  · exact Inv_put_samekey wf.inv hi h0 hv0 hvk
  · exact ⟨b, by rw [size_put]; exact hbl, Lin_put_samekey hlin hi h0 hv0 hvk⟩
  · intro i hi' hne
    rw [size_put] at hi'
    by_cases h : idx = i
    · subst h
      rw [get_put_eq v hi]
      exact ⟨hvlow, hvW⟩
    · rw [get_put_ne v h] at hne ⊢
      exact wf.bucket i hi' hne
  · intro x hx
    rcases (hcore.1 x).1 hx with h | h
    · exact wf.fits x h
    · subst h; omega
  · have := wf.szc
    have := hcore.2
    omega
  · intro x hx
    rcases (hcore.1 x).1 hx with h | h
    · exact wf.range x h
    · subst h; exact he

/-- the word written for a new key -/
theorem newword_facts {bits : Nat} (ok : CfgOK c) (hpos : 0 < bits) (hlt : bits < c.W) (e : Nat) (he : e < 2 ^ c.W)
    (hfit : ¬ c.cab e < bits) :
    modW c ((e / bits) <<< bits) = (e / bits) <<< bits ∧ (e / bits) <<< bits < 2 ^ c.W := by
  have h1 : e < 2 ^ (c.W - bits) := ok.cab_bound e bits he hpos hlt (by omega)
  have h2 : e / bits < 2 ^ (c.W - bits) := Nat.lt_of_le_of_lt (Nat.div_le_self _ _) h1
  have h3 := shiftLeft_mod_of_lt (b := bits) (W := c.W) (by omega) h2
  refine ⟨h3, ?_⟩
  rw [← h3]
  exact Nat.mod_lt _ (Nat.two_pow_pos _)

/-- key absent and `tablePlace` succeeds -/
theorem insert_place_ok {sz cap bits : Nat} {a a' : Tbl} (hb : isDense c bits = false) (hp : isPlain c bits = false)
    (ok : CfgOK c) (wf : BitmapWF c sz cap bits a) (e : Nat) (he : e < 2 ^ c.W) (hfit : ¬ c.cab e < bits)
    (hfresh : ∀ i, i < a.size → get a i ≠ 0 → K a bits i ≠ e / bits)
    (hpl : tablePlace c (e / bits) (modW c ((e / bits) <<< bits) ||| (1 <<< (e % bits))) bits a = some a') :
    BitmapWF c (sz + 1) cap bits a' ∧
    ∀ x, x ∈ elems c (.heap (sz + 1) cap bits a') ↔ (x ∈ elems c (.heap sz cap bits a) ∨ x = e) := by
  have hpos := wf.bits_pos
  have hoff : e % bits < bits := Nat.mod_lt _ hpos
  have hoW : e % bits < c.W := Nat.lt_trans hoff wf.bits_lt
  obtain ⟨hm, hkW⟩ := newword_facts ok hpos wf.bits_lt e he hfit
  rw [hm] at hpl
  generalize hv : (e / bits) <<< bits ||| (1 <<< (e % bits)) = v at hpl
  have hbitlt : 1 <<< (e % bits) < 2 ^ bits := by
    rw [Nat.shiftLeft_eq, Nat.one_mul]; exact Nat.pow_lt_pow_right (by omega) hoff
  have hvk : v >>> bits = e / bits := by rw [← hv]; exact key_of_word hbitlt
  have hvbit : ∀ i, v.testBit i = (((e / bits) <<< bits).testBit i || decide (i = e % bits)) := by
    intro i; rw [← hv]; exact testBit_or_bit _ _ _
  have hvb : v.testBit (e % bits) = true := by rw [hvbit]; simp
  have hvlow : v % 2 ^ bits ≠ 0 := mod_ne_zero_of_testBit hoff hvb
  have hv0 : v ≠ 0 := ne_zero_of_testBit hvb
  have hvW : v < 2 ^ c.W := by
    rw [← hv]
    apply Nat.or_lt_two_pow hkW
    rw [Nat.shiftLeft_eq, Nat.one_mul]
    exact Nat.pow_lt_pow_right (by omega) hoW
  have hspec := tablePlace_spec c (k := e / bits) (w := v) wf.npos wf.inv hv0 hvk hfresh
  rw [hpl] at hspec
  obtain ⟨s1, s2, s3, s4⟩ := hspec
  have hA : (elems c (.heap sz cap bits a)).Perm ([] ++ (nz a).flatMap (bk bits)) := by
    rw [elems_bitmap_eq hb hp]; exact List.Perm.refl _
  have hA' := elems_of_perm_cons (sz := sz + 1) (cap := cap) hb hp s4
  have hcore := ins_core (e := e) hA hA'
    (by
      intro x
      rw [mem_bk hpos, hvk, hvbit, testBit_low_shiftLeft (Nat.mod_lt _ hpos)]
      simp only [Bool.false_or, decide_eq_true_eq, List.not_mem_nil, false_or]
      constructor
      · rintro ⟨h1, h2⟩; exact eq_of_div_mod h1.symm h2
      · intro h; subst h; exact ⟨rfl, rfl⟩)
    (by
      rw [bk_length, List.length_nil, ← hv]
      have := bitsOf_or_bit_length (w := (e / bits) <<< bits) hoff (testBit_low_shiftLeft hoff)
      rw [bitsOf_shiftLeft] at this
      simpa using this)
  refine ⟨?_, hcore.1⟩
  constructor
  · rw [s1]; exact wf.cap_eq
  · exact wf.cap_pos
  · exact hpos
  · exact wf.bits_lt
  · exact s2
  · exact s3
  · intro i hi' hne
    have hm' : get a' i ∈ v :: nz a := (s4.mem_iff).1 (mem_nz.2 ⟨hne, i, hi', rfl⟩)
    rcases List.mem_cons.1 hm' with h | h
    · rw [h]; exact ⟨hvlow, hvW⟩
    · obtain ⟨_, j, hj, hg⟩ := mem_nz.1 h
      rw [← hg]
      exact wf.bucket j hj (by rw [hg]; exact hne)
  · intro x hx
    rcases (hcore.1 x).1 hx with h | h
    · exact wf.fits x h
    · subst h; omega
  · have := wf.szc
    have := hcore.2
    omega
  · intro x hx
    rcases (hcore.1 x).1 hx with h | h
    · exact wf.range x h
    · subst h; exact he

section monadic
variable {D : Type} (g : Rng D) (rec : Ins D)

/-- 5(a). key found and bit set: nothing changes, answer `false` -/
theorem insertBitmap_found_set {sz cap bits : Nat} {a : Tbl} (hb : isDense c bits = false) (hp : isPlain c bits = false)
    (wf : BitmapWF c sz cap bits a) (e : Nat) (hfit : ¬ c.cab e < bits) {idx : Nat}
    (hl : lookfor (e / bits) a bits = .found idx) (hbit : (get a idx).testBit (e % bits) = true) (d : D) :
    insertBitmap c g rec sz cap bits a e d = .ok ((.heap sz cap bits a, false), d) ∧
    InsOK c (.heap sz cap bits a) e (.heap sz cap bits a) false := by
  constructor
  · unfold insertBitmap
    rw [if_neg hfit]
    dsimp only
    rw [hl]
    dsimp only
    rw [if_pos hbit]
    rfl
  · obtain ⟨h1, h2, h3⟩ := lookforAux_found wf.npos _ _ _ hl
    have hmem : e ∈ elems c (.heap sz cap bits a) :=
      (mem_elems_bitmap hb hp wf.bits_pos e).2 ⟨idx, h1, h2, h3, hbit⟩
    refine ⟨(WF_bitmap hb hp).2 wf, by simp [hmem], fun x => ?_⟩
    constructor
    · intro h; exact Or.inl h
    · rintro (h | h)
      · exact h
      · subst h; exact hmem

/-- 5(b). key found, bit clear: the word gets the bit, answer `true` -/
theorem insertBitmap_found_clear {sz cap bits : Nat} {a : Tbl} (hb : isDense c bits = false) (hp : isPlain c bits = false)
    (wf : BitmapWF c sz cap bits a) (e : Nat) (he : e < 2 ^ c.W) (hfit : ¬ c.cab e < bits) {idx : Nat}
    (hl : lookfor (e / bits) a bits = .found idx) (hbit : ¬ (get a idx).testBit (e % bits) = true) (d : D) :
    insertBitmap c g rec sz cap bits a e d =
      .ok ((.heap (sz + 1) cap bits (put a idx (get a idx ||| (1 <<< (e % bits)))), true), d) ∧
    InsOK c (.heap sz cap bits a) e (.heap (sz + 1) cap bits (put a idx (get a idx ||| (1 <<< (e % bits))))) true := by
  constructor
  · unfold insertBitmap
    rw [if_neg hfit]
    dsimp only
    rw [hl]
    dsimp only
    rw [if_neg hbit]
    rfl
  · obtain ⟨h1, h2, h3⟩ := lookforAux_found wf.npos _ _ _ hl
    obtain ⟨w1, w2⟩ := insert_setbit_ok hb hp wf e idx he hfit h1 h2 h3 hbit
    have hnot := not_mem_of_bit_clear hb hp wf h1 h2 h3 hbit
    exact ⟨(WF_bitmap hb hp).2 w1, by simp [hnot], w2⟩

/-- 5(c). key absent and `tablePlace` finds a place: new bucket, answer `true` -/
theorem insertBitmap_place {sz cap bits : Nat} {a a' : Tbl} (hb : isDense c bits = false) (hp : isPlain c bits = false)
    (ok : CfgOK c) (wf : BitmapWF c sz cap bits a) (e : Nat) (he : e < 2 ^ c.W) (hfit : ¬ c.cab e < bits)
    (hnf : ∀ i, lookfor (e / bits) a bits ≠ .found i)
    (hpl : tablePlace c (e / bits) (modW c ((e / bits) <<< bits) ||| (1 <<< (e % bits))) bits a = some a') (d : D) :
    insertBitmap c g rec sz cap bits a e d = .ok ((.heap (sz + 1) cap bits a', true), d) ∧
    InsOK c (.heap sz cap bits a) e (.heap (sz + 1) cap bits a') true := by
  constructor
  · unfold insertBitmap
    rw [if_neg hfit]
    dsimp only
    cases hl : lookfor (e / bits) a bits with
    | found i => exact absurd hl (hnf i)
    | empty ii => dsimp only; rw [hpl]; rfl
    | needInsert => dsimp only; rw [hpl]; rfl
  · have hfresh : ∀ i, i < a.size → get a i ≠ 0 → K a bits i ≠ e / bits := by
      intro i hi h0 hk
      exact hnf i (lookfor_complete wf.inv hi h0 hk)
    obtain ⟨w1, w2⟩ := insert_place_ok hb hp ok wf e he hfit hfresh hpl
    have hnot := not_mem_of_absent (c := c) (sz := sz) (cap := cap) hb hp wf.bits_pos hfresh
    exact ⟨(WF_bitmap hb hp).2 w1, by simp [hnot], w2⟩

/-- 5. the branches of `insertBitmap` that do not rebuild -/
theorem insertBitmap_nogrow {sz cap bits : Nat} {a : Tbl} (hb : isDense c bits = false) (hp : isPlain c bits = false)
    (ok : CfgOK c) (wf : BitmapWF c sz cap bits a) (e : Nat) (he : e < 2 ^ c.W) (hfit : ¬ c.cab e < bits)
    (hbranch : (∃ idx, lookfor (e / bits) a bits = .found idx) ∨
      (tablePlace c (e / bits) (modW c ((e / bits) <<< bits) ||| (1 <<< (e % bits))) bits a).isSome = true)
    (d : D) :
    ∃ r' b, insertBitmap c g rec sz cap bits a e d = .ok ((r', b), d) ∧ InsOK c (.heap sz cap bits a) e r' b := by
  by_cases hf : ∃ idx, lookfor (e / bits) a bits = .found idx
  · obtain ⟨idx, hl⟩ := hf
    by_cases hbit : (get a idx).testBit (e % bits) = true
    · exact ⟨_, _, insertBitmap_found_set g rec hb hp wf e hfit hl hbit d⟩
    · exact ⟨_, _, insertBitmap_found_clear g rec hb hp wf e he hfit hl hbit d⟩
  · rcases hbranch with h | h
    · exact absurd h hf
    · obtain ⟨a', hpl⟩ := Option.isSome_iff_exists.1 h
      exact ⟨_, _, insertBitmap_place g rec hb hp ok wf e he hfit (fun i hl => hf ⟨i, hl⟩) hpl d⟩

/-- the three rebuilding branches, given the rebuilt empty set -/
theorem rebuild_InsOK {sz cap bits : Nat} {a : Tbl} (hrec : RecOK c rec) (wf : BitmapWF c sz cap bits a)
    {new : Rp} (hnew : WF c new ∧ elems c new = []) {e : Nat} (he : e < 2 ^ c.W)
    (hnot : e ∉ elems c (.heap sz cap bits a)) {d d' : D} {r' : Rp} {b : Bool}
    (h : rebuild c rec new (.heap sz cap bits a) e d = .ok ((r', b), d')) :
    InsOK c (.heap sz cap bits a) e r' b := by
  obtain ⟨w1, w2, w3⟩ := rebuild_ok hrec hnew.1 hnew.2 wf.range he h
  exact ⟨w1, by rw [w2]; simp [hnot], w3⟩

/-- 6. `insertBitmap` is correct whenever it returns (for a correct recursive `insert`) -/
theorem insertBitmap_ok {sz cap bits : Nat} {a : Tbl} (hb : isDense c bits = false) (hp : isPlain c bits = false)
    (ok : CfgOK c) (hrec : RecOK c rec)
    (wf : BitmapWF c sz cap bits a) (e : Nat) (he : e < 2 ^ c.W) {d d' : D} {r' : Rp} {b : Bool}
    (h : insertBitmap c g rec sz cap bits a e d = .ok ((r', b), d')) :
    InsOK c (.heap sz cap bits a) e r' b := by
  by_cases hc : c.cab e < bits
  · -- narrowing
    have hnot : e ∉ elems c (.heap sz cap bits a) := by
      intro hm; have := wf.fits e hm; omega
    unfold insertBitmap at h
    rw [if_pos hc] at h
    dsimp only at h
    obtain ⟨r, d1, _, h2⟩ := bind_ok h
    obtain ⟨new, d2, h3, h4⟩ := bind_ok h2
    have hnew := withCapBits_ok ok g _ _ (ok.cab_lt e) _ _ _ h3
    exact rebuild_InsOK rec hrec wf hnew he hnot h4
  · by_cases hf : ∃ idx, lookfor (e / bits) a bits = .found idx
    · obtain ⟨idx, hl⟩ := hf
      by_cases hbit : (get a idx).testBit (e % bits) = true
      · obtain ⟨heq, hok⟩ := insertBitmap_found_set g rec hb hp wf e hc hl hbit d
        rw [heq] at h; cases h; exact hok
      · obtain ⟨heq, hok⟩ := insertBitmap_found_clear g rec hb hp wf e he hc hl hbit d
        rw [heq] at h; cases h; exact hok
    · have hnf : ∀ i, lookfor (e / bits) a bits ≠ .found i := fun i hl => hf ⟨i, hl⟩
      cases hpl : tablePlace c (e / bits) (modW c ((e / bits) <<< bits) ||| (1 <<< (e % bits))) bits a with
      | some a' =>
        obtain ⟨heq, hok⟩ := insertBitmap_place g rec hb hp ok wf e he hc hnf hpl d
        rw [heq] at h; cases h; exact hok
      | none =>
        have hfresh : ∀ i, i < a.size → get a i ≠ 0 → K a bits i ≠ e / bits := by
          intro i hi h0 hk
          exact hnf i (lookfor_complete wf.inv hi h0 hk)
        have hnot := not_mem_of_absent (c := c) (sz := sz) (cap := cap) hb hp wf.bits_pos hfresh
        -- reduce to the growing code
        have hgrow : ∃ mx, (if cap > mx >>> 6 then
              rebuild c rec (denseWithMax c mx) (.heap sz cap bits a) e
            else do
              let r ← drawM c g cap bits
              let new ← withCapBits c g (cap + 1 + c.growExtra cap + (r % cap)) bits
              rebuild c rec new (.heap sz cap bits a) e) d = .ok ((r', b), d') := by
          unfold insertBitmap at h
          rw [if_neg hc] at h
          dsimp only at h
          cases hl : lookfor (e / bits) a bits with
          | found i => exact absurd hl (hnf i)
          | empty ii => rw [hl] at h; dsimp only at h; rw [hpl] at h; exact ⟨_, h⟩
          | needInsert => rw [hl] at h; dsimp only at h; rw [hpl] at h; exact ⟨_, h⟩
        obtain ⟨mx, hg⟩ := hgrow
        split at hg
        · exact rebuild_InsOK rec hrec wf (denseWithMax_ok ok mx) he hnot hg
        · obtain ⟨r, d1, _, h2⟩ := bind_ok hg
          obtain ⟨new, d2, h3, h4⟩ := bind_ok h2
          have hnew := withCapBits_ok ok g _ _ (Nat.lt_trans wf.bits_lt Nat.lt_two_pow_self) _ _ _ h3
          exact rebuild_InsOK rec hrec wf hnew he hnot h4

end monadic

#print axioms mem_elems_bitmap
#print axioms elems_bitmap_nodup
#print axioms contains_bitmap
#print axioms remove_bitmap
#print axioms insertBitmap_found_set
#print axioms insertBitmap_found_clear
#print axioms insertBitmap_place
#print axioms insertBitmap_nogrow
#print axioms insertBitmap_ok
end SC
