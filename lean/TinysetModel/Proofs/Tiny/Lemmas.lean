import TinysetModel.Model.Tiny
namespace TinyC

/-- uniform member decoding with a running base -/
def mem' (b : Nat) : List Nat → List Nat
  | [] => []
  | f :: fs => (b + f) :: mem' (b + f + 1) fs

theorem membersFrom_eq (last : Nat) (fs : List Nat) : membersFrom last fs = mem' (last + 1) fs := by
  induction fs generalizing last with
  | nil => rfl
  | cons f fs ih => simp [membersFrom, mem', ih]

theorem members_eq (fs : List Nat) : members fs = mem' 0 fs := by
  cases fs with
  | nil => rfl
  | cons f fs => simp [members, mem', membersFrom_eq]

def insSorted (e : Nat) : List Nat → List Nat
  | [] => [e]
  | x :: xs => if e < x then e :: x :: xs else if e = x then x :: xs else x :: insSorted e xs

/-- field-level membership (the loop of `Tiny::contains`, also `searchRest`) -/
def memF : List Nat → Nat → Bool
  | [], _ => false
  | n :: fs, e => if e = n then true else if e < n then false else memF fs (e - (n + 1))

/-- field-level insertion of an absent relative value -/
def insF : List Nat → Nat → List Nat
  | [], e => [e]
  | n :: fs, e => if e < n then e :: (n - e - 1) :: fs else n :: insF fs (e - (n + 1))

theorem searchRest_eq (fs : List Nat) (e : Nat) : searchRest fs e = memF fs e := by
  induction fs generalizing e with
  | nil => rfl
  | cons n fs ih =>
    unfold searchRest memF
    by_cases h : n = e
    · simp [h]
    · have h' : ¬ e = n := fun x => h x.symm
      simp [h, h', ih]

theorem contains_loop_eq (fs : List Nat) (e : Nat) : contains.loop fs e = memF fs e := by
  induction fs generalizing e with
  | nil => rfl
  | cons n fs ih => unfold contains.loop memF; simp [ih]

theorem mem'_ge {b : Nat} {fs : List Nat} {x : Nat} (h : x ∈ mem' b fs) : b ≤ x := by
  induction fs generalizing b with
  | nil => simp [mem'] at h
  | cons f fs ih =>
    simp [mem'] at h
    rcases h with h | h
    · omega
    · have := ih h; omega

theorem memF_iff (b : Nat) (fs : List Nat) (e : Nat) : memF fs e = true ↔ (b + e) ∈ mem' b fs := by
  induction fs generalizing b e with
  | nil => simp [memF, mem']
  | cons n fs ih =>
    unfold memF
    simp only [mem', List.mem_cons]
    by_cases h1 : e = n
    · simp [h1]
    · by_cases h2 : e < n
      · simp only [h1, h2, if_false, if_true]
        constructor
        · intro h; cases h
        · rintro (h | h)
          · omega
          · have := mem'_ge h; omega
      · simp only [h1, h2, if_false]
        rw [ih (b + n + 1) (e - (n + 1))]
        have : b + n + 1 + (e - (n + 1)) = b + e := by omega
        rw [this]
        constructor
        · intro h; exact Or.inr h
        · rintro (h | h)
          · omega
          · exact h

theorem insF_members (b : Nat) (fs : List Nat) (e : Nat) (h : memF fs e = false) :
    mem' b (insF fs e) = insSorted (b + e) (mem' b fs) := by
  induction fs generalizing b e with
  | nil => simp [insF, mem', insSorted]
  | cons n fs ih =>
    unfold memF at h
    by_cases h1 : e = n
    · simp [h1] at h
    · by_cases h2 : e < n
      · simp only [insF, h2, if_true, mem', insSorted]
        have : b + e < b + n := by omega
        simp only [this, if_true]
        have e1 : b + e + 1 + (n - e - 1) = b + n := by omega
        rw [e1]
      · simp only [h1, h2, if_false] at h
        simp only [insF, h2, if_false, mem', insSorted]
        have n1 : ¬ (b + e < b + n) := by omega
        have n2 : ¬ (b + e = b + n) := by omega
        simp only [n1, n2, if_false]
        rw [ih (b + n + 1) (e - (n + 1)) h]
        have : b + n + 1 + (e - (n + 1)) = b + e := by omega
        rw [this]

/-- `log2 v ≤ w` (the code's fit test, negated) is `v < 2^w`, for nonzero v -/
theorem log2_le_iff {v w : Nat} (hv : v ≠ 0) : log2 v ≤ w ↔ v < 2 ^ w := by
  unfold log2; simp only [hv, if_false]
  rw [← Nat.log2_lt hv]; omega

theorem log2_zero : log2 0 = 1 := by simp [log2]

theorem log2_pos (v : Nat) : 1 ≤ log2 v := by unfold log2; split <;> omega

theorem log2_mono {a b : Nat} (h : a ≤ b) : log2 a ≤ log2 b := by
  by_cases ha : a = 0
  · subst ha; rw [log2_zero]; exact log2_pos b
  · have hb : b ≠ 0 := by omega
    have : b < 2 ^ (log2 b) := (log2_le_iff hb).1 (Nat.le_refl _)
    exact (log2_le_iff ha).2 (by omega)

end TinyC
