import TinysetModel.Proofs.Tiny.Lemmas
namespace TinyC

theorem shiftRest_spec : ∀ (nw fs acc : List Nat) (r : List Nat),
    shiftRest nw fs acc = some r → r = acc ++ fs ∧ fitAll nw fs = true ∧ nw.length = fs.length
  | [], [], acc, r, h => by simp [shiftRest] at h; simp [h, fitAll]
  | [], _ :: _, acc, r, h => by simp [shiftRest] at h
  | _ :: _, [], acc, r, h => by simp [shiftRest] at h
  | newb :: nw, n :: fs, acc, r, h => by
    unfold shiftRest at h
    by_cases hfit : log2 n > newb
    · simp [hfit] at h
    · simp only [hfit, if_false] at h
      obtain ⟨h1, h2, h3⟩ := shiftRest_spec nw fs (acc ++ [n]) r h
      refine ⟨by simp [h1], ?_, by simp [h3]⟩
      unfold fitAll
      simp [h2]; omega

/-- what `go` returns, in terms of the field-level specification -/
def GoSpec (nw fs : List Nat) (e : Nat) (acc : List Nat) : Res → Prop
  | .same => memF fs e = true
  | .none => memF fs e = false
  | .new r => memF fs e = false ∧ r = acc ++ insF fs e ∧ fitAll nw (insF fs e) = true

theorem go_spec : ∀ (nw fs : List Nat) (e : Nat) (acc : List Nat), nw.length = fs.length + 1 →
    GoSpec nw fs e acc (go nw fs e acc)
  | [], _, _, _, h => by simp at h
  | [newb], [], e, acc, _ => by
    unfold go
    by_cases hf : log2 e > newb
    · simp [hf, GoSpec, memF]
    · simp only [hf, if_false, GoSpec, memF, insF, true_and]
      simp [fitAll]; omega
  | _ :: _ :: _, [], _, _, h => by simp at h
  | [newb], n :: fs, e, acc, h => by simp at h
  | newb :: newb2 :: nw', n :: fs, e, acc, h => by
    unfold go
    by_cases h1 : e = n
    · simp [h1, GoSpec, memF]
    · simp only [h1, if_false]
      by_cases hfit : log2 n > newb
      · simp only [hfit, if_true]
        by_cases h2 : e < n
        · simp [h2, GoSpec, memF, h1]
        · simp only [h2, if_false]
          rw [searchRest_eq]
          by_cases hs : memF fs (e - (n + 1)) = true
          · simp [hs, GoSpec, memF, h1, h2]
          · have hs' : memF fs (e - (n + 1)) = false := by simpa using hs
            simp [hs', GoSpec, memF, h1, h2]
      · simp only [hfit, if_false]
        by_cases h2 : e < n
        · simp only [h2, if_true]
          by_cases hf2 : log2 (n - e - 1) > newb2
          · simp [hf2, GoSpec, memF, h1, h2]
          · simp only [hf2, if_false]
            cases hsr : shiftRest nw' fs (acc ++ [e, n - e - 1]) with
            | none => simp [GoSpec, memF, h1, h2]
            | some r =>
              obtain ⟨r1, r2, r3⟩ := shiftRest_spec _ _ _ _ hsr
              simp only [GoSpec, memF, h1, h2, if_false, if_true, insF, true_and]
              refine ⟨by simp [r1], ?_⟩
              -- e fits newb because e < n and n fits
              have he : log2 e ≤ newb := by
                have := log2_mono (show e ≤ n by omega); omega
              simp [fitAll, he, r2]; omega
        · simp only [h2, if_false]
          have hlen : (newb2 :: nw').length = fs.length + 1 := by simpa using h
          have ih := go_spec (newb2 :: nw') fs (e - (n + 1)) (acc ++ [n]) hlen
          cases hg : go (newb2 :: nw') fs (e - (n + 1)) (acc ++ [n]) with
          | same => rw [hg] at ih; simp only [GoSpec] at ih ⊢; simp [memF, h1, h2, ih]
          | none => rw [hg] at ih; simp only [GoSpec] at ih ⊢; simp [memF, h1, h2, ih]
          | new r =>
            rw [hg] at ih
            simp only [GoSpec] at ih ⊢
            obtain ⟨i1, i2, i3⟩ := ih
            refine ⟨by simp [memF, h1, h2, i1], by simp [insF, h2, i2], ?_⟩
            simp only [insF, h2, if_false, fitAll, i3, Bool.and_true]
            simp; omega
termination_by nw _ _ _ _ => nw.length

end TinyC
