import TinysetModel.Proofs.Tiny.Spec
namespace TinyC

def fld' (b : Nat) : List Nat → List Nat
  | [] => []
  | x :: xs => (x - b) :: fld' (x + 1) xs

/-- strictly increasing and bounded below by `b` -/
def Inc (b : Nat) : List Nat → Prop
  | [] => True
  | x :: xs => b ≤ x ∧ Inc (x + 1) xs

theorem fieldsFrom_eq (last : Nat) (xs : List Nat) : fieldsFrom last xs = fld' (last + 1) xs := by
  induction xs generalizing last with
  | nil => rfl
  | cons x xs ih => simp only [fieldsFrom, fld', ih]; congr 1

theorem fields_eq (v : List Nat) : fields v = fld' 0 v := by
  cases v with
  | nil => rfl
  | cons x xs => simp [fields, fld', fieldsFrom_eq]

theorem mem'_fld' (b : Nat) (v : List Nat) (h : Inc b v) : mem' b (fld' b v) = v := by
  induction v generalizing b with
  | nil => rfl
  | cons x xs ih =>
    obtain ⟨h1, h2⟩ := h
    simp only [fld', mem']
    have e1 : b + (x - b) = x := by omega
    rw [e1, ih (x + 1) h2]

theorem fld'_length (b : Nat) (v : List Nat) : (fld' b v).length = v.length := by
  induction v generalizing b with
  | nil => rfl
  | cons x xs ih => simp [fld', ih]

variable {c : Codec}

/-- `Tiny::new_sorted_deduped`: whatever it accepts decodes to the input -/
theorem new_spec (ok : CodecOK c) (v : List Nat) (hinc : Inc 0 v) (t : T) (h : newSortedDeduped c v = some t) :
    t.sz = v.length ∧ t.members c = v ∧ 1 ≤ t.sz ∧ t.sz ≤ c.maxN := by
  unfold newSortedDeduped at h
  dsimp only at h
  by_cases hl : v.length = 0 ∨ v.length > c.maxN
  · rw [if_pos hl] at h; cases h
  · rw [if_neg hl] at h
    by_cases hf : fitAll (widths c v.length) (fields v) = true
    · rw [if_pos hf] at h
      have h' : t = ⟨v.length, pack (widths c v.length) (fields v)⟩ := by
        cases h; rfl
      subst h'
      refine ⟨rfl, ?_, by show 1 ≤ v.length; omega, by show v.length ≤ c.maxN; omega⟩
      unfold T.members T.fields
      simp only
      rw [unpack_pack _ _ (by rw [fields_eq, fld'_length, ok.widths_length _ (by omega)]) hf,
        members_eq, fields_eq, mem'_fld' 0 v hinc]
    · rw [if_neg hf] at h; cases h

/-- the documented inline budget, as a predicate on the member list -/
def InBudget (c : Codec) (v : List Nat) : Prop :=
  1 ≤ v.length ∧ v.length ≤ c.maxN ∧ Inc 0 v ∧ fitAll (widths c v.length) (fields v) = true

theorem collect_inline (ok : CodecOK c) (v : List Nat) (h : InBudget c v) :
    ∃ t, newSortedDeduped c v = some t ∧ t.members c = v := by
  obtain ⟨h1, h2, h3, h4⟩ := h
  have hl : ¬ (v.length = 0 ∨ v.length > c.maxN) := by omega
  have : newSortedDeduped c v = some ⟨v.length, pack (widths c v.length) (fields v)⟩ := by
    unfold newSortedDeduped; dsimp only; rw [if_neg hl, if_pos h4]
  exact ⟨_, this, (new_spec ok v h3 _ this).2.1⟩

/-- field widths never grow with the count: position-wise antitone (checked on the table) -/
theorem widths_antitone64 : ∀ k, k < 7 → ∀ i, i < k →
    (widths codec64 (k+1)).getD i 0 ≤ (widths codec64 k).getD i 0 := by
  decide
theorem widths_antitone32 : ∀ k, k < 6 → ∀ i, i < k →
    (widths codec32 (k+1)).getD i 0 ≤ (widths codec32 k).getD i 0 := by
  decide

#print axioms new_spec
#print axioms collect_inline
#print axioms widths_antitone32
end TinyC
