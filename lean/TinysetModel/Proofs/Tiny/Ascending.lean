import TinysetModel.Proofs.Tiny.Budget
namespace TinyC

/-- `e` (relative to the running base) lies beyond every field -/
def Beyond : List Nat → Nat → Prop
  | [], _ => True
  | n :: fs, e => n < e ∧ Beyond fs (e - (n + 1))

theorem go_beyond : ∀ (nw fs : List Nat) (e : Nat) (acc : List Nat), nw.length = fs.length + 1 →
    Beyond fs e → fitAll nw (insF fs e) = true → go nw fs e acc = .new (acc ++ insF fs e)
  | [], _, _, _, h, _, _ => by simp at h
  | [newb], [], e, acc, _, _, hf => by
    unfold go
    simp only [insF, fitAll, Bool.and_true, decide_eq_true_eq] at hf
    have : ¬ log2 e > newb := by omega
    simp [this, insF]
  | _ :: _ :: _, [], _, _, h, _, _ => by simp at h
  | [newb], n :: fs, e, acc, h, _, _ => by simp at h
  | newb :: newb2 :: nw', n :: fs, e, acc, h, hb, hf => by
    obtain ⟨hlt, hb'⟩ := hb
    have hins : insF (n :: fs) e = n :: insF fs (e - (n + 1)) := by
      rw [insF]; rw [if_neg (show ¬ e < n by omega)]
    rw [hins] at hf ⊢
    simp only [fitAll, Bool.and_eq_true, decide_eq_true_eq] at hf
    unfold go
    have h1 : ¬ e = n := by omega
    have h2 : ¬ log2 n > newb := by omega
    have h3 : ¬ e < n := by omega
    simp only [h1, h2, h3, if_false]
    have hlen : (newb2 :: nw').length = fs.length + 1 := by simpa using h
    rw [go_beyond (newb2 :: nw') fs (e - (n + 1)) (acc ++ [n]) hlen hb' hf.2]
    simp

/-- appending a larger member appends one field -/
theorem fld'_append (b : Nat) (v : List Nat) (e : Nat) (hinc : Inc b (v ++ [e])) :
    fld' b (v ++ [e]) = insF (fld' b v) (e - b) ∧ Beyond (fld' b v) (e - b) := by
  induction v generalizing b with
  | nil => simp [fld', insF, Beyond]
  | cons x xs ih =>
    obtain ⟨h1, h2⟩ := hinc
    have hx : x < e := by
      -- e is in the tail, which is bounded below by x+1
      have : ∀ (b' : Nat) (l : List Nat), Inc b' (l ++ [e]) → b' ≤ e := by
        intro b' l
        induction l generalizing b' with
        | nil => intro h; exact h.1
        | cons y ys ihy => intro h; have := ihy (y + 1) h.2; have := h.1; omega
      have := this (x + 1) xs h2; omega
    obtain ⟨i1, i2⟩ := ih (x + 1) h2
    have e1 : e - b - (x - b + 1) = e - (x + 1) := by omega
    constructor
    · simp only [List.cons_append, fld', insF]
      have : ¬ (e - b < x - b) := by omega
      simp only [this, if_false, e1]
      rw [i1]
    · simp only [fld', Beyond, e1]
      exact ⟨by omega, i2⟩

variable {c : Codec}

/-- C10, ascending insertion: if the set with `e` appended is within the inline budget,
    `Tiny::insert` keeps it inline and yields exactly that set -/
theorem ascending_insert (ok : CodecOK c) (t : T) (v : List Nat) (e : Nat)
    (hsz : t.sz = v.length) (hfields : t.fields c = fields v)
    (hb : InBudget c (v ++ [e])) :
    ∃ t', insert c t e = some t' ∧ t'.sz = v.length + 1 ∧ t'.members c = v ++ [e] := by
  obtain ⟨b1, b2, b3, b4⟩ := hb
  have hlen : (v ++ [e]).length = v.length + 1 := by simp
  rw [hlen] at b2 b4
  obtain ⟨f1, f2⟩ := fld'_append 0 v e b3
  rw [Nat.sub_zero] at f1 f2
  have hw : (widths c (t.sz + 1)).length = (t.fields c).length + 1 := by
    rw [ok.widths_length _ (by omega), hfields, fields_eq, fld'_length, hsz]
  have hfit : fitAll (widths c (t.sz + 1)) (insF (t.fields c) e) = true := by
    rw [hsz, hfields, fields_eq, ← f1, ← fields_eq]; exact b4
  have hgo := go_beyond (widths c (t.sz + 1)) (t.fields c) e [] hw (by rw [hfields, fields_eq]; exact f2) hfit
  unfold insert
  have h7 : t.sz + 1 ≤ c.maxN := by omega
  simp only [h7, if_true, hgo, List.nil_append]
  refine ⟨_, rfl, by simp [hsz], ?_⟩
  have hup := unpack_pack _ _ (by rw [insF_length]; exact hw) hfit
  show members (unpack (widths c (t.sz + 1)) (pack (widths c (t.sz + 1)) (insF (t.fields c) e))) = v ++ [e]
  rw [hup, hfields, fields_eq, ← f1, members_eq]
  exact mem'_fld' 0 (v ++ [e]) b3

#print axioms ascending_insert
end TinyC
