import TinysetModel.Proofs.Tiny.Go
namespace TinyC

theorem fit_lt {v w : Nat} (h : log2 v ≤ w) : v < 2 ^ w := by
  by_cases hv : v = 0
  · subst hv; exact Nat.two_pow_pos w
  · exact (log2_le_iff hv).1 h

theorem unpack_pack : ∀ (ws vs : List Nat), ws.length = vs.length → fitAll ws vs = true →
    unpack ws (pack ws vs) = vs
  | [], [], _, _ => rfl
  | [], _ :: _, h, _ => by simp at h
  | _ :: _, [], h, _ => by simp at h
  | w :: ws, v :: vs, h, hf => by
    simp only [fitAll, Bool.and_eq_true, decide_eq_true_eq] at hf
    have hv := fit_lt hf.1
    have h1 : (v + 2 ^ w * pack ws vs) % 2 ^ w = v := by
      rw [Nat.add_mul_mod_self_left]; exact Nat.mod_eq_of_lt hv
    have h2 : (v + 2 ^ w * pack ws vs) / 2 ^ w = pack ws vs := by
      rw [Nat.add_mul_div_left _ _ (Nat.two_pow_pos w), Nat.div_eq_of_lt hv, Nat.zero_add]
    simp only [pack, unpack, h1, h2]
    rw [unpack_pack ws vs (by simpa using h) hf.2]

theorem insF_length (fs : List Nat) (e : Nat) : (insF fs e).length = fs.length + 1 := by
  induction fs generalizing e with
  | nil => rfl
  | cons n fs ih => unfold insF; split <;> simp [ih]

theorem unpack_length (ws : List Nat) (bits : Nat) : (unpack ws bits).length = ws.length := by
  induction ws generalizing bits with
  | nil => rfl
  | cons w ws ih => simp [unpack, ih]

/-- what the proofs need to know about a width table -/
structure CodecOK (c : Codec) : Prop where
  widths_length : ∀ k, k ≤ c.maxN → (widths c k).length = k

theorem codec64_ok : CodecOK codec64 := by
  constructor
  intro k hk
  have hk' : k ≤ 7 := hk
  have : k = 0 ∨ k = 1 ∨ k = 2 ∨ k = 3 ∨ k = 4 ∨ k = 5 ∨ k = 6 ∨ k = 7 := by omega
  rcases this with h | h | h | h | h | h | h | h <;> subst h <;> rfl

theorem codec32_ok : CodecOK codec32 := by
  constructor
  intro k hk
  have hk' : k ≤ 6 := hk
  have : k = 0 ∨ k = 1 ∨ k = 2 ∨ k = 3 ∨ k = 4 ∨ k = 5 ∨ k = 6 := by omega
  rcases this with h | h | h | h | h | h | h <;> subst h <;> rfl

variable {c : Codec}

theorem mem_members_iff (t : T) (e : Nat) : e ∈ t.members c ↔ memF (t.fields c) e = true := by
  unfold T.members; rw [members_eq, memF_iff 0]; simp

/-- `Tiny::insert` against sorted-list insertion -/
theorem insert_spec (ok : CodecOK c) (t : T) (hsz : t.sz ≤ c.maxN) (e : Nat) :
    match insert c t e with
    | some t' => (e ∈ t.members c → t' = t) ∧
        (e ∉ t.members c → t'.sz = t.sz + 1 ∧ t'.members c = insSorted e (t.members c))
    | none => e ∉ t.members c := by
  unfold insert
  by_cases h7 : t.sz + 1 ≤ c.maxN
  · simp only [h7, if_true]
    have hlen : (widths c (t.sz + 1)).length = (t.fields c).length + 1 := by
      rw [ok.widths_length _ h7]; unfold T.fields; rw [unpack_length]
      rw [ok.widths_length _ hsz]
    have hg := go_spec (widths c (t.sz + 1)) (t.fields c) e [] hlen
    cases hgo : go (widths c (t.sz + 1)) (t.fields c) e [] with
    | same =>
      rw [hgo] at hg; simp only [GoSpec] at hg
      simp only
      exact ⟨fun _ => by first | rfl | trivial, fun h => absurd ((mem_members_iff (c := c) t e).2 hg) h⟩
    | none =>
      rw [hgo] at hg; simp only [GoSpec] at hg
      simp only
      intro h; rw [mem_members_iff] at h; rw [h] at hg; cases hg
    | new r =>
      rw [hgo] at hg; simp only [GoSpec] at hg
      obtain ⟨g1, g2, g3⟩ := hg
      simp only
      refine ⟨fun h => ?_, fun _ => ⟨by first | rfl | trivial, ?_⟩⟩
      · rw [mem_members_iff] at h; rw [h] at g1; cases g1
      · simp only [List.nil_append] at g2
        unfold T.members T.fields
        simp only
        rw [g2, unpack_pack _ _ (by rw [insF_length]; exact hlen) g3, members_eq, members_eq]
        have := insF_members 0 (t.fields c) e g1
        simpa [T.fields] using this
  · simp only [h7, if_false]
    by_cases hc : (t.members c).contains e = true
    · simp only [hc, if_true]
      exact ⟨fun _ => by first | rfl | trivial, fun h => absurd (by simpa using hc) h⟩
    · simp only [hc]
      simpa using hc

/-- `Tiny::contains` is membership -/
theorem contains_spec (t : T) (e : Nat) : contains c t e = true ↔ e ∈ t.members c := by
  unfold contains; rw [contains_loop_eq, mem_members_iff]

#print axioms insert_spec
#print axioms codec32_ok
#print axioms contains_spec
end TinyC
