import TinysetModel.Proofs.Tiny.Ascending
/-! Every non-empty prefix of an in-budget member list is in budget (the widths never grow with the
count), and `fields` / `members` are mutually inverse. -/
namespace TinyC

/-! ### `fields` after `members` -/

theorem fld'_mem' (b : Nat) (fs : List Nat) : fld' b (mem' b fs) = fs := by
  induction fs generalizing b with
  | nil => rfl
  | cons f fs ih =>
    simp only [mem', fld']
    rw [ih (b + f + 1)]
    have : b + f - b = f := by omega
    rw [this]

/-- a value is determined, field by field, by its member list -/
theorem fields_of_members {c : Codec} (t : T) (v : List Nat) (h : t.members c = v) :
    t.fields c = fields v := by
  unfold T.members at h
  rw [members_eq] at h
  rw [fields_eq, ← h, fld'_mem']

/-! ### prefixes -/

theorem fld'_take (b : Nat) (v : List Nat) (k : Nat) : fld' b (v.take k) = (fld' b v).take k := by
  induction v generalizing b k with
  | nil => simp [fld']
  | cons x xs ih =>
    cases k with
    | zero => simp [fld']
    | succ k => simp only [List.take_succ_cons, fld', ih]

theorem inc_take (b : Nat) (v : List Nat) (k : Nat) (h : Inc b v) : Inc b (v.take k) := by
  induction v generalizing b k with
  | nil => simpa using h
  | cons x xs ih =>
    cases k with
    | zero => exact trivial
    | succ k =>
      simp only [List.take_succ_cons]
      exact ⟨h.1, ih (x + 1) k h.2⟩

/-- pointwise form of the fit test -/
theorem fitAll_iff (ws fs : List Nat) : fitAll ws fs = true ↔
    ∀ i, i < ws.length → i < fs.length → log2 (fs.getD i 0) ≤ ws.getD i 0 := by
  induction ws generalizing fs with
  | nil => simp [fitAll]
  | cons w ws ih =>
    cases fs with
    | nil => simp [fitAll]
    | cons f fs =>
      simp only [fitAll, Bool.and_eq_true, decide_eq_true_eq, ih fs, List.length_cons]
      constructor
      · rintro ⟨h0, h1⟩ i hi1 hi2
        cases i with
        | zero => simpa using h0
        | succ i =>
          have := h1 i (by omega) (by omega)
          simpa using this
      · intro h
        refine ⟨by simpa using h 0 (by omega) (by omega), fun i hi1 hi2 => ?_⟩
        have := h (i + 1) (by omega) (by omega)
        simpa using this

/-- field widths never grow with the count (`widths_antitone64`, `widths_antitone32`) -/
def WidthsAntitone (c : Codec) : Prop :=
  ∀ k, k < c.maxN → ∀ i, i < k → (widths c (k + 1)).getD i 0 ≤ (widths c k).getD i 0

theorem widthsAntitone64 : WidthsAntitone codec64 := widths_antitone64
theorem widthsAntitone32 : WidthsAntitone codec32 := widths_antitone32

variable {c : Codec}

theorem widths_le_of_le (anti : WidthsAntitone c) (k : Nat) : ∀ (m : Nat), k + m ≤ c.maxN → ∀ i, i < k →
    (widths c (k + m)).getD i 0 ≤ (widths c k).getD i 0
  | 0, _, _, _ => Nat.le_refl _
  | m + 1, hm, i, hi => by
    have h1 := anti (k + m) (by omega) i (by omega)
    have h2 := widths_le_of_le anti k m (by omega) i hi
    have e : k + (m + 1) = k + m + 1 := by omega
    rw [e]
    omega

/-- every non-empty prefix of an in-budget list is in budget -/
theorem inBudget_take (ok : CodecOK c) (anti : WidthsAntitone c) (v : List Nat) (h : InBudget c v)
    (k : Nat) (hk1 : 1 ≤ k) (hk2 : k ≤ v.length) : InBudget c (v.take k) := by
  obtain ⟨h1, h2, h3, h4⟩ := h
  have hlen : (v.take k).length = k := by rw [List.length_take]; omega
  refine ⟨by omega, by omega, inc_take 0 v k h3, ?_⟩
  rw [hlen, fitAll_iff]
  rw [fitAll_iff] at h4
  intro i hi1 hi2
  rw [ok.widths_length _ (by omega)] at hi1
  have hfl : (fields v).length = v.length := by rw [fields_eq, fld'_length]
  have h5 := h4 i (by rw [ok.widths_length _ h2]; omega) (by omega)
  have h6 := widths_le_of_le anti k (v.length - k) (by omega) i hi1
  have e : k + (v.length - k) = v.length := by omega
  rw [e] at h6
  have h7 : (fields (v.take k)).getD i 0 = (fields v).getD i 0 := by
    rw [fields_eq, fields_eq, fld'_take]
    simp only [List.getD_eq_getElem?_getD, List.getElem?_take, hi1, if_true]
  rw [h7]
  omega

theorem inBudget_length_pos {v : List Nat} (h : InBudget c v) : 1 ≤ v.length := h.1

#print axioms inBudget_take
#print axioms fields_of_members
end TinyC
